import MlodaVerif.Model.Links
/-! Helper lemmas for C18 (no Mathlib). -/
namespace Links

/-! ### minOf -/

theorem minOf_eq_none {l : List Nat} : minOf l = none ↔ l = [] := by
  cases l with
  | nil => simp [minOf]
  | cons a as =>
    simp only [minOf]
    cases minOf as <;> simp

theorem minOf_spec {l : List Nat} {m : Nat} (h : minOf l = some m) : m ∈ l ∧ ∀ a ∈ l, m ≤ a := by
  induction l generalizing m with
  | nil => simp [minOf] at h
  | cons a as ih =>
    simp only [minOf] at h
    cases hm : minOf as with
    | none =>
      rw [hm] at h
      have : as = [] := minOf_eq_none.mp hm
      subst this
      simp at h; subst h; simp
    | some k =>
      rw [hm] at h
      simp at h
      obtain ⟨hk1, hk2⟩ := ih hm
      subst h
      constructor
      · by_cases hle : a ≤ k
        · simp [Nat.min_eq_left hle]
        · have : k ≤ a := by omega
          simp [Nat.min_eq_right this, hk1]
      · intro b hb
        simp at hb
        rcases hb with rfl | hb
        · exact Nat.min_le_left _ _
        · exact Nat.le_trans (Nat.min_le_right _ _) (hk2 b hb)

theorem minOf_isSome_of_mem {l : List Nat} {a : Nat} (h : a ∈ l) : ∃ m, minOf l = some m := by
  cases hm : minOf l with
  | none => rw [minOf_eq_none.mp hm] at h; simp at h
  | some m => exact ⟨m, rfl⟩

theorem minOf_perm {l l' : List Nat} (h : l.Perm l') : minOf l = minOf l' := by
  cases h1 : minOf l with
  | none =>
    have : l = [] := minOf_eq_none.mp h1
    subst this
    have : l' = [] := by simpa using h.symm.eq_nil
    subst this; simp [minOf]
  | some m =>
    obtain ⟨hm1, hm2⟩ := minOf_spec h1
    obtain ⟨k, hk⟩ := minOf_isSome_of_mem (h.mem_iff.mp hm1)
    obtain ⟨hk1, hk2⟩ := minOf_spec hk
    have : m = k := Nat.le_antisymm (hm2 k (h.mem_iff.mpr hk1)) (hk2 m (h.mem_iff.mp hm1))
    rw [hk, this]

/-! ### firstPair -/

theorem firstPair_eq_none {p : Link → Link → Bool} {ls : List Link} :
    firstPair p ls = none ↔ ∀ i ∈ ls, ∀ j ∈ ls, p i j = false := by
  unfold firstPair
  rw [List.findSome?_eq_none_iff]
  constructor
  · intro h i hi j hj
    have := h i hi
    simp only [Option.map_eq_none_iff] at this
    have := List.find?_eq_none.mp this j hj
    simpa using this
  · intro h i hi
    simp only [Option.map_eq_none_iff]
    apply List.find?_eq_none.mpr
    intro j hj
    simp [h i hi j hj]

theorem firstPair_some {p : Link → Link → Bool} {ls : List Link} {i j : Link}
    (h : firstPair p ls = some (i, j)) : i ∈ ls ∧ j ∈ ls ∧ p i j = true := by
  unfold firstPair at h
  obtain ⟨a, ha, hf⟩ := List.exists_of_findSome?_eq_some h
  simp only [Option.map_eq_some_iff] at hf
  obtain ⟨b, hb, hab⟩ := hf
  have hb1 := List.mem_of_find?_eq_some hb
  have hb2 := List.find?_some hb
  simp at hab
  obtain ⟨rfl, rfl⟩ := hab
  exact ⟨ha, hb1, hb2⟩

theorem firstPair_isSome {p : Link → Link → Bool} {ls : List Link} :
    (firstPair p ls).isSome = ls.any (fun i => ls.any (fun j => p i j)) := by
  cases h : firstPair p ls with
  | none =>
    have := firstPair_eq_none.mp h
    symm
    simp only [Option.isSome_none]
    rw [Bool.eq_false_iff]
    intro hc
    rw [List.any_eq_true] at hc
    obtain ⟨i, hi, hc⟩ := hc
    rw [List.any_eq_true] at hc
    obtain ⟨j, hj, hc⟩ := hc
    rw [this i hi j hj] at hc
    exact Bool.false_ne_true hc
  | some ij =>
    obtain ⟨i, j⟩ := ij
    obtain ⟨hi, hj, hp⟩ := firstPair_some h
    symm
    simp only [Option.isSome_some]
    rw [List.any_eq_true]
    exact ⟨i, hi, by rw [List.any_eq_true]; exact ⟨j, hj, hp⟩⟩

theorem anyPair_perm {p : Link → Link → Bool} {ls ls' : List Link} (h : ls.Perm ls') :
    ls.any (fun i => ls.any (fun j => p i j)) = ls'.any (fun i => ls'.any (fun j => p i j)) := by
  have : (fun i => ls.any (fun j => p i j)) = (fun i => ls'.any (fun j => p i j)) := by
    funext i; exact h.any_eq
  rw [this]; exact h.any_eq

/-! ### MRO -/

theorem mroAux_head (parent : Cls → Option Cls) (n : Nat) (c : Cls) : ∃ t, mroAux parent n c = c :: t := by
  cases n with
  | zero => exact ⟨[], rfl⟩
  | succ n =>
    simp only [mroAux]
    cases parent c with
    | none => exact ⟨[], rfl⟩
    | some p => exact ⟨_, rfl⟩

theorem mro_head (H : Hier) (c : Cls) : ∃ t, H.mro c = c :: t := mroAux_head _ _ _

theorem isSub_self (H : Hier) (c : Cls) : H.isSub c c = true := by
  obtain ⟨t, ht⟩ := mro_head H c
  simp [Hier.isSub, ht]

theorem dist_self (H : Hier) (c : Cls) : H.dist c c = 0 := by
  obtain ⟨t, ht⟩ := mro_head H c
  simp [Hier.dist, ht, List.idxOf?, List.findIdx?_cons]

/-- with enough fuel the MRO is exactly the ancestor chain -/
theorem mem_mroAux_iff (parent : Cls → Option Cls) (hwf : ∀ c p, parent c = some p → p < c) :
    ∀ (n c : Nat), c ≤ n → ∀ a, a ∈ mroAux parent n c ↔ Anc parent c a := by
  intro n
  induction n with
  | zero =>
    intro c hc a
    have : c = 0 := by omega
    subst this
    simp only [mroAux, List.mem_singleton]
    constructor
    · rintro rfl; exact Anc.refl _
    · intro h
      cases h with
      | refl => rfl
      | step hp _ => exact absurd (hwf _ _ hp) (Nat.not_lt_zero _)
  | succ n ih =>
    intro c hc a
    simp only [mroAux]
    cases hp : parent c with
    | none =>
      simp only [List.mem_singleton]
      constructor
      · rintro rfl; exact Anc.refl _
      · intro h
        cases h with
        | refl => rfl
        | step hp' _ => rw [hp] at hp'; cases hp'
    | some p =>
      have hlt : @LT.lt Nat _ p c := hwf _ _ hp
      have hpn : @LE.le Nat _ p n := by omega
      simp only [List.mem_cons]
      constructor
      · rintro (rfl | h)
        · exact Anc.refl _
        · exact Anc.step hp ((ih p hpn a).mp h)
      · intro h
        cases h with
        | refl => exact Or.inl rfl
        | step hp' h' =>
          rw [hp] at hp'; cases hp'
          exact Or.inr ((ih p hpn a).mpr h')

/-! ### is_a_part_of_ -/

theorem isPartOfLoop_iff {α : Type} [DecidableEq α] (self : List α) :
    ∀ (rest : List α) (cnt : Nat), cnt ≤ self.length → self.length - cnt ≤ rest.length →
      (isPartOfLoop self cnt rest = true ↔ self.drop cnt <+: rest) := by
  intro rest
  induction rest with
  | nil =>
    intro cnt h1 h2
    have : self.length ≤ cnt := by simp at h2; omega
    simp [isPartOfLoop, List.drop_eq_nil_of_le this]
  | cons part rest ih =>
    intro cnt h1 h2
    simp only [isPartOfLoop]
    by_cases hge : (cnt : Int) > (self.length : Int) - 1
    · have : self.length ≤ cnt := by omega
      simp [hge, List.drop_eq_nil_of_le this]
    · have hlt : cnt < self.length := by omega
      simp only [hge, if_false]
      rw [List.getElem?_eq_getElem hlt]
      simp only
      rw [List.drop_eq_getElem_cons hlt, List.cons_prefix_cons]
      by_cases hne : part = self[cnt]
      · subst hne
        simp only [bne_self_eq_false, Bool.false_eq_true, if_false, true_and]
        exact ih (cnt + 1) (by omega) (by simp at h2 ⊢; omega)
      · have : (part != self[cnt]) = true := by simpa using hne
        simp only [this, if_true]
        constructor
        · intro h; cases h
        · rintro ⟨h, _⟩; exact absurd h.symm hne

end Links
