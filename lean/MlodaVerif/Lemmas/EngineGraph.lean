import MlodaVerif.Lemmas.EngineEdge
import MlodaVerif.Lemmas.EngineTop
import MlodaVerif.Lemmas.GraphTop
/-! # The graph `BuildGraph` makes of `feature_link_parents` after a whole run -/
namespace EngineColl
open Graph (Dict dget dset sadd dkeys)

theorem lt_nextAbove_foldl : ∀ (fs : List Feat) (n : Nat), n ≤ fs.foldl (fun n f => max n (f.uuid + 1)) n ∧
    ∀ f ∈ fs, f.uuid < fs.foldl (fun n f => max n (f.uuid + 1)) n := by
  intro fs
  induction fs with
  | nil => intro n; exact ⟨Nat.le_refl _, by simp⟩
  | cons x xs ih =>
    intro n
    simp only [List.foldl_cons]
    obtain ⟨h1, h2⟩ := ih (max n (x.uuid + 1))
    refine ⟨by omega, ?_⟩
    intro f hf
    rw [List.mem_cons] at hf
    rcases hf with rfl | hf
    · omega
    · exact h2 f hf

theorem lt_nextAbove {fs : List Feat} {f : Feat} (h : f ∈ fs) : f.uuid < nextAbove fs := (lt_nextAbove_foldl fs 0).2 f h

theorem uinv_st0 (L : Option (List Link)) (req : List Feat) : UInv (st0 L req) :=
  ⟨by simp [uuids, st0], by simp [uuids, st0], by simp [uuids, st0, dkeys], by simp [st0, dkeys], by simp [st0, dget], by simp [st0, dget]⟩

/-- everything the uuid / parent-set induction says about a whole run -/
theorem run_runU {w : World} {fuel : Nat} {L : Option (List Link)} {req : List Feat} {st : St} (hw : PlainWorld w)
    (hnl : ∀ q ∈ req, q.link = none) (hnd : (req.map (·.uuid)).Nodup) (h : run w fuel L req = .ok st) : RunU w L (st0 L req) none req st := by
  apply (run_Run h).runU hw rfl hnl
  exact ⟨uinv_st0 L req, fun c hc => by simp at hc, hnd, fun f hf => ⟨by simp [uuids, st0], by simp only [st0]; exact lt_nextAbove hf⟩,
    fun c hc => by simp at hc⟩

/-- the edge relation of the graph handed to the planner is `feature_link_parents` read as "parent ∈ parents[child]" -/
theorem children_graphOf {st : St} (hkn : (dkeys st.flp).Nodup) (p c : Nat) :
    c ∈ Graph.children (graphOf st) p ↔ p ∈ dget st.flp c := by
  unfold graphOf Graph.buildGraph
  rw [Graph.mem_children_build, Graph.mem_flpOps_edge]
  constructor
  · intro ⟨ps, hm, hp⟩
    rw [Graph.dget_of_mem hkn hm]; exact hp
  · intro hp
    exact ⟨dget st.flp c, Graph.mem_of_mem_dget hp, hp⟩

theorem nodes_graphOf {st : St} (n : Nat) : n ∈ (graphOf st).nodes ↔ ∃ e ∈ st.flp, n = e.1 ∨ n ∈ e.2 := by
  unfold graphOf Graph.buildGraph
  rw [Graph.mem_nodes_build, Graph.mem_flpOps_node]

theorem mem_flp_of_key {d : Dict} {k : Nat} (h : k ∈ dkeys d) : (k, dget d k) ∈ d := by
  induction d with
  | nil => simp [dkeys] at h
  | cons e d ih =>
    obtain ⟨k0, v0⟩ := e
    by_cases h0 : k0 = k
    · subst h0; simp [dget]
    · simp only [dkeys, List.map_cons, List.mem_cons] at h
      rcases h with h | h
      · exact absurd h.symm h0
      · simp only [dget, h0, if_false]
        exact List.mem_cons_of_mem _ (ih h)

end EngineColl
