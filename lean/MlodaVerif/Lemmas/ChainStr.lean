import MlodaVerif.Model.Chain
/-! String-level lemmas for C16: `rsplitOnce`, `splitOn`, `hasInfix`, `matchToks`, `matchPattern`. -/
open Gen.Chain

namespace Chain

/-! ### `hasInfix sep2` -/

theorem hasInfix_sep2_cons_of_ne (c : Char) (s : Str) (h : c ≠ '_') : hasInfix sep2 (c :: s) = hasInfix sep2 s := by
  have h' : ('_' == c) = false := by simpa using Ne.symm h
  simp [hasInfix, sep2, List.isPrefixOf, h']

theorem hasInfix_sep2_us_cons (s : Str) : hasInfix sep2 ('_' :: s) = (s.head? == some '_' || hasInfix sep2 s) := by
  cases s with
  | nil => simp [hasInfix, sep2, List.isPrefixOf]
  | cons d r =>
    by_cases hd : d = '_'
    · subst hd; simp [hasInfix, sep2, List.isPrefixOf]
    · have h' : ('_' == d) = false := by simpa using Ne.symm hd
      simp [hasInfix, sep2, List.isPrefixOf, hd, h']

/-- no `_` inside `a` : an occurrence of `__` in `a ++ b` lies in `b` -/
theorem hasInfix_sep2_append_of_no_us (a b : Str) (h : ∀ c ∈ a, c ≠ '_') : hasInfix sep2 (a ++ b) = hasInfix sep2 b := by
  induction a with
  | nil => rfl
  | cons c a ih =>
    have hc : c ≠ '_' := h c (by simp)
    have := ih (fun d hd => h d (by simp [hd]))
    simp only [List.cons_append]
    rw [hasInfix_sep2_cons_of_ne _ _ hc, this]

theorem hasInfix_append_right (p a b : Str) (h : hasInfix p b = true) : hasInfix p (a ++ b) = true := by
  induction a with
  | nil => simpa using h
  | cons c a ih => simp [hasInfix, ih]

theorem isPrefixOf_append_self (p t : Str) : p.isPrefixOf (p ++ t) = true := by
  induction p with
  | nil => simp [List.isPrefixOf]
  | cons c p ih => simp [List.isPrefixOf, ih]

theorem hasInfix_self_append (p t : Str) : hasInfix p (p ++ t) = true := by
  cases h : p ++ t with
  | nil =>
    have : p = [] := by cases p <;> simp_all
    subst this; simp [hasInfix]
  | cons c cs =>
    have := isPrefixOf_append_self p t
    rw [h] at this
    simp [hasInfix, this]

theorem hasInfix_mid (p s t : Str) : hasInfix p (s ++ p ++ t) = true := by
  rw [List.append_assoc]
  exact hasInfix_append_right p s (p ++ t) (hasInfix_self_append p t)

/-! ### `rsplitOnce` -/

theorem rsplitOnce_none (sep s : Str) (h : hasInfix sep s = false) : rsplitOnce sep s = none := by
  induction s with
  | nil => rfl
  | cons c cs ih =>
    simp only [hasInfix, Bool.or_eq_false_iff] at h
    simp [rsplitOnce, ih h.2, h.1]

/-- the suffix after the separator neither starts with `_` nor contains `__` -/
def sufOk (t : Str) : Bool := !(t.head? == some '_') && !hasInfix sep2 t

theorem rsplitOnce_us_tail (t : Str) (h : sufOk t = true) : rsplitOnce sep2 ('_' :: t) = none := by
  simp only [sufOk, Bool.and_eq_true, Bool.not_eq_true'] at h
  apply rsplitOnce_none
  rw [hasInfix_sep2_us_cons]
  simp [h.1, h.2]

/-- `(s + "__" + t).rsplit("__", 1) == [s, t]` -/
theorem rsplitOnce_append (s t : Str) (h : sufOk t = true) : rsplitOnce sep2 (s ++ sep2 ++ t) = some (s, t) := by
  induction s with
  | nil =>
    have h1 := rsplitOnce_us_tail t h
    show rsplitOnce sep2 ('_' :: '_' :: t) = some ([], t)
    rw [rsplitOnce, h1]
    simp [sep2, List.isPrefixOf]
  | cons c s ih =>
    simp only [List.cons_append, List.append_assoc] at *
    simp [rsplitOnce, ih]

/-! ### `splitOn` -/

theorem splitOn_ne_nil (c : Char) (s : Str) : splitOn c s ≠ [] := by
  induction s with
  | nil => simp [splitOn]
  | cons d s ih =>
    unfold splitOn
    split
    · simp
    · split <;> simp

theorem splitOn_of_not_mem (c : Char) (a : Str) (h : ∀ d ∈ a, d ≠ c) : splitOn c a = [a] := by
  induction a with
  | nil => rfl
  | cons d a ih =>
    have hd : d ≠ c := h d (by simp)
    have := ih (fun e he => h e (by simp [he]))
    simp [splitOn, hd, this]

theorem splitOn_append (c : Char) (a rest : Str) (h : ∀ d ∈ a, d ≠ c) : splitOn c (a ++ c :: rest) = a :: splitOn c rest := by
  induction a with
  | nil => simp [splitOn]
  | cons d a ih =>
    have hd : d ≠ c := h d (by simp)
    have := ih (fun e he => h e (by simp [he]))
    simp [splitOn, hd, this]

theorem splitOnce_append (c : Char) (a rest : Str) (h : ∀ d ∈ a, d ≠ c) : splitOnce c (a ++ c :: rest) = some (a, rest) := by
  induction a with
  | nil => simp [splitOnce]
  | cons d a ih =>
    have hd : d ≠ c := h d (by simp)
    have := ih (fun e he => h e (by simp [he]))
    simp [splitOnce, hd, this]

theorem splitOnce_none (c : Char) (a : Str) (h : ∀ d ∈ a, d ≠ c) : splitOnce c a = none := by
  induction a with
  | nil => rfl
  | cons d a ih =>
    have hd : d ≠ c := h d (by simp)
    have := ih (fun e he => h e (by simp [he]))
    simp [splitOnce, hd, this]

/-! ### `matchToks` / `matchPattern` -/

theorem tryLens_some_drop (f : Str → Option Caps) (cap : Bool) (s : Str) (k : Nat) (c : Caps)
    (h : tryLens f cap s k = some c) : ∃ j c', f (s.drop j) = some c' := by
  induction k with
  | zero => simp [tryLens] at h
  | succ k ih =>
    unfold tryLens at h
    split at h
    · rename_i caps hf; exact ⟨k + 1, caps, hf⟩
    · exact ih h

theorem tryAlts_some_drop (f : Str → Option Caps) (cap : Bool) (s : Str) (os : List Str) (c : Caps)
    (h : tryAlts f cap s os = some c) : ∃ j c', f (s.drop j) = some c' := by
  induction os with
  | nil => simp [tryAlts] at h
  | cons o os ih =>
    unfold tryAlts at h
    split at h
    · split at h
      · rename_i caps hf; exact ⟨o.length, caps, hf⟩
      · exact ih h
    · exact ih h

/-- whatever the first token consumes, the remaining tokens match a suffix of the text -/
theorem matchToks_cons_suffix (t : Tk) (r : List Tk) (s : Str) (c : Caps) (h : matchToks (t :: r) s = some c) :
    ∃ s' c', s' <:+ s ∧ matchToks r s' = some c' := by
  obtain ⟨kind, cap⟩ := t
  cases kind with
  | lit l =>
    simp only [matchToks] at h
    split at h
    · cases hm : matchToks r (s.drop l.length) with
      | none => simp [hm] at h
      | some c' => exact ⟨_, c', List.drop_suffix _ _, hm⟩
    · simp at h
  | word =>
    simp only [matchToks] at h
    obtain ⟨j, c', hj⟩ := tryLens_some_drop _ _ _ _ _ h
    exact ⟨_, c', List.drop_suffix _ _, hj⟩
  | digits =>
    simp only [matchToks] at h
    obtain ⟨j, c', hj⟩ := tryLens_some_drop _ _ _ _ _ h
    exact ⟨_, c', List.drop_suffix _ _, hj⟩
  | alt opts =>
    simp only [matchToks] at h
    obtain ⟨j, c', hj⟩ := tryAlts_some_drop _ _ _ _ _ h
    exact ⟨_, c', List.drop_suffix _ _, hj⟩
  | optTilde =>
    simp only [matchToks] at h
    have hwithout : ∀ c, (matchToks r s).map (fun c => if cap = true then none :: c else c) = some c →
        ∃ s' c', s' <:+ s ∧ matchToks r s' = some c' := by
      intro c hc
      cases hm : matchToks r s with
      | none => simp [hm] at hc
      | some c' => exact ⟨s, c', List.suffix_refl _, hm⟩
    split at h
    · rename_i s'
      split at h
      · rename_i d caps htl
        obtain ⟨j, c', hj⟩ := tryLens_some_drop _ _ _ _ _ htl
        exact ⟨_, c', (List.drop_suffix j s').trans (List.suffix_cons _ _), hj⟩
      · exact hwithout _ h
    · exact hwithout _ h

/-- the literal a token list ends with (if it does) -/
def lastLit : List Tk → Option Str
  | [] => none
  | [⟨.lit l, _⟩] => some l
  | [_] => none
  | _ :: r => lastLit r

/-- a pattern ending in a literal only matches texts ending in that literal -/
theorem matchToks_lastLit (toks : List Tk) (l : Str) (hl : lastLit toks = some l) (s : Str) (c : Caps)
    (h : matchToks toks s = some c) : l <:+ s := by
  induction toks generalizing s c with
  | nil => simp [lastLit] at hl
  | cons t r ih =>
    cases r with
    | nil =>
      obtain ⟨kind, cap⟩ := t
      cases kind with
      | lit l' =>
        simp only [lastLit, Option.some.injEq] at hl
        subst hl
        simp only [matchToks] at h
        split at h
        · rename_i hp
          cases hd : s.drop l'.length with
          | nil =>
            have hpre := List.isPrefixOf_iff_prefix.mp hp
            obtain ⟨t', ht'⟩ := hpre
            have : t' = [] := by
              have := congrArg (List.drop l'.length) ht'
              simp [hd] at this
              exact this
            subst this
            simp at ht'
            rw [← ht']
            exact List.suffix_refl _
          | cons x xs => simp [hd, matchToks] at h
        · simp at h
      | word => simp [lastLit] at hl
      | digits => simp [lastLit] at hl
      | alt o => simp [lastLit] at hl
      | optTilde => simp [lastLit] at hl
    | cons t2 r2 =>
      have hl' : lastLit (t2 :: r2) = some l := by
        simpa [lastLit] using hl
      obtain ⟨s', c', hsuf, hm⟩ := matchToks_cons_suffix t (t2 :: r2) s c h
      exact (ih hl' s' c' hm).trans hsuf

theorem matchPattern_none (toks : List Tk) (s : Str) (h : hasInfix sep2 s = false) : matchPattern toks s = none := by
  induction s with
  | nil => rfl
  | cons c cs ih =>
    simp only [hasInfix, Bool.or_eq_false_iff] at h
    simp [matchPattern, ih h.2, h.1]

theorem matchPattern_some_suffix (toks : List Tk) (s : Str) (c : Caps) (h : matchPattern toks s = some c) :
    ∃ t, t <:+ s ∧ matchToks toks t = some c := by
  induction s with
  | nil => simp [matchPattern] at h
  | cons d ds ih =>
    unfold matchPattern at h
    split at h
    · rename_i r hr
      simp only [Option.some.injEq] at h; subst h
      obtain ⟨t, ht, hm⟩ := ih hr
      exact ⟨t, ht.trans (List.suffix_cons _ _), hm⟩
    · split at h
      · exact ⟨_, List.drop_suffix _ _, h⟩
      · simp at h

/-- a pattern ending in the literal `l` does not match a name that does not end in `l` -/
theorem matchPattern_none_of_lastLit (toks : List Tk) (l : Str) (hl : lastLit toks = some l) (name : Str)
    (h : ¬ l <:+ name) : matchPattern toks name = none := by
  cases hm : matchPattern toks name with
  | none => rfl
  | some c =>
    obtain ⟨t, ht, hmt⟩ := matchPattern_some_suffix toks name c hm
    exact absurd ((matchToks_lastLit toks l hl t c hmt).trans ht) h

/-- `.*__` stops at the last `__` when what follows it matches -/
theorem matchPattern_append (toks : List Tk) (s t : Str) (c : Caps) (h : sufOk t = true)
    (hm : matchToks toks t = some c) : matchPattern toks (s ++ sep2 ++ t) = some c := by
  induction s with
  | nil =>
    simp only [sufOk, Bool.and_eq_true, Bool.not_eq_true'] at h
    have h1 : matchPattern toks ('_' :: t) = none := by
      apply matchPattern_none
      rw [hasInfix_sep2_us_cons]; simp [h.1, h.2]
    show matchPattern toks ('_' :: '_' :: t) = some c
    rw [matchPattern, h1]
    simp [sep2, List.isPrefixOf, hm]
  | cons d s ih =>
    simp only [List.cons_append, List.append_assoc] at *
    simp [matchPattern, ih]

/-! ### existence of a match for a token followed by more text (any number of digits, any word) -/

theorem tryLens_isSome (f : Str → Option Caps) (cap : Bool) (s : Str) (k j : Nat) (h1 : 1 ≤ j) (h2 : j ≤ k)
    (hf : (f (s.drop j)).isSome = true) : (tryLens f cap s k).isSome = true := by
  induction k with
  | zero => omega
  | succ k ih =>
    unfold tryLens
    cases hk : f (s.drop (k + 1)) with
    | some caps => simp
    | none =>
      have : j ≤ k := by
        rcases Nat.lt_or_ge j (k + 1) with h | h
        · omega
        · have : j = k + 1 := by omega
          subst this; simp [hk] at hf
      simpa using ih this

theorem spanLen_append_ge (p : Char → Bool) (w t : Str) (hw : ∀ c ∈ w, p c = true) : w.length ≤ spanLen p (w ++ t) := by
  induction w with
  | nil => simp
  | cons c w ih =>
    have hc : p c = true := hw c (by simp)
    have := ih (fun d hd => hw d (by simp [hd]))
    simp only [spanLen, List.cons_append, List.takeWhile_cons, hc, if_true, List.length_cons] at *
    omega

theorem matchToks_lit_append (l : Str) (cap : Bool) (r : List Tk) (t : Str) :
    matchToks (⟨.lit l, cap⟩ :: r) (l ++ t) = (matchToks r t).map (fun c => if cap then some l :: c else c) := by
  simp [matchToks, isPrefixOf_append_self]

theorem matchToks_word_isSome (w : Str) (cap : Bool) (r : List Tk) (t : Str) (hne : w ≠ [])
    (hw : ∀ c ∈ w, isWordChar c = true) (hr : (matchToks r t).isSome = true) :
    (matchToks (⟨.word, cap⟩ :: r) (w ++ t)).isSome = true := by
  simp only [matchToks]
  apply tryLens_isSome _ _ _ _ w.length
  · cases w with
    | nil => exact absurd rfl hne
    | cons _ _ => simp
  · exact spanLen_append_ge _ _ _ hw
  · simpa using hr

theorem matchToks_digits_isSome (w : Str) (cap : Bool) (r : List Tk) (t : Str) (hne : w ≠ [])
    (hw : ∀ c ∈ w, c.isDigit = true) (hr : (matchToks r t).isSome = true) :
    (matchToks (⟨.digits, cap⟩ :: r) (w ++ t)).isSome = true := by
  simp only [matchToks]
  apply tryLens_isSome _ _ _ _ w.length
  · cases w with
    | nil => exact absurd rfl hne
    | cons _ _ => simp
  · exact spanLen_append_ge _ _ _ hw
  · simpa using hr

end Chain
