import MlodaVerif.Lemmas.Rel
import MlodaVerif.Model.PyDictMerge
namespace Rel
open PyDictMerge

/-! ### the `{key: row}` index under unique keys -/

theorem eq_toList_getLast?_of_length_le_one {α : Type} {l : List α} (h : l.length ≤ 1) : l = l.getLast?.toList := by
  match l, h with
  | [], _ => rfl
  | [a], _ => rfl
  | _ :: _ :: _, h => simp at h

theorem filter_key_length_le_one {ks : List Col} {T : Table} (hu : UniqueKeys ks T) (k : Key) :
    (T.filter (fun r => keyOf ks r == k)).length ≤ 1 := by
  induction T with
  | nil => simp
  | cons r T ih =>
    unfold UniqueKeys at hu
    simp only [List.map_cons, List.nodup_cons] at hu
    by_cases h : keyOf ks r = k
    · have : T.filter (fun r => keyOf ks r == k) = [] := by
        rw [List.filter_eq_nil_iff]
        intro a ha hk
        exact hu.1 (List.mem_map.mpr ⟨a, ha, by rw [h]; exact (beq_iff_eq.mp hk)⟩)
      simp [h, this]
    · have : (keyOf ks r == k) = false := by simpa using h
      simp only [List.filter_cons, this]
      exact ih hu.2

theorem filter_key_eq_indexGet {ks : List Col} {T : Table} (hu : UniqueKeys ks T) (k : Key) :
    T.filter (fun r => keyOf ks r == k) = (indexGet ks T k).toList :=
  eq_toList_getLast?_of_length_le_one (filter_key_length_le_one hu k)

theorem indexGet_some_mem {ks : List Col} {T : Table} {k : Key} {r : Row} (h : indexGet ks T k = some r) :
    r ∈ T ∧ keyOf ks r = k := by
  unfold indexGet at h
  have := List.mem_of_getLast? h
  simpa using this

theorem indexGet_self {ks : List Col} {T : Table} (hu : UniqueKeys ks T) {r : Row} (hr : r ∈ T) :
    indexGet ks T (keyOf ks r) = some r := by
  have h1 := filter_key_eq_indexGet hu (keyOf ks r)
  have h2 : r ∈ T.filter (fun r' => keyOf ks r' == keyOf ks r) := by simp [hr]
  rw [h1] at h2
  cases h : indexGet ks T (keyOf ks r) with
  | none => simp [h] at h2
  | some r' => simp [h] at h2; rw [h2]

theorem indexGet_none_iff {ks : List Col} {T : Table} {k : Key} :
    indexGet ks T k = none ↔ ∀ r ∈ T, keyOf ks r ≠ k := by
  unfold indexGet
  rw [List.getLast?_eq_none_iff, List.filter_eq_nil_iff]
  simp

/-! ### coalesced key columns -/

theorem coalesced_cons (a b : Col) (lk rk : List Col) :
    coalesced (a :: lk) (b :: rk) = (if a = b then [a] else []) ++ coalesced lk rk := by
  unfold coalesced
  by_cases h : a = b <;> simp [List.zip_cons_cons, h]

theorem mem_coalesced {lk rk : List Col} {c : Col} (h : c ∈ coalesced lk rk) : c ∈ lk ∧ c ∈ rk := by
  induction lk generalizing rk with
  | nil => simp [coalesced] at h
  | cons a lk ih =>
    cases rk with
    | nil => simp [coalesced] at h
    | cons b rk =>
      rw [coalesced_cons] at h
      rcases List.mem_append.mp h with h | h
      · by_cases hab : a = b
        · subst hab; simp at h; subst h; simp
        · simp [hab] at h
      · have := ih h; exact ⟨List.mem_cons_of_mem _ this.1, List.mem_cons_of_mem _ this.2⟩

/-- on a matching pair the coalesced key columns read the same on both sides -/
theorem cell_eq_of_mem_coalesced {lk rk : List Col} {l r : Row} (hk : keyOf lk l = keyOf rk r) {c : Col}
    (h : c ∈ coalesced lk rk) : cell l c = cell r c := by
  induction lk generalizing rk with
  | nil => simp [coalesced] at h
  | cons a lk ih =>
    cases rk with
    | nil => simp [coalesced] at h
    | cons b rk =>
      rw [coalesced_cons] at h
      simp only [keyOf, List.map_cons, List.cons.injEq] at hk
      rcases List.mem_append.mp h with h | h
      · by_cases hab : a = b
        · subst hab; simp at h; subst h; exact hk.1
        · simp [hab] at h
      · exact ih hk.2 h

theorem coalesced_self (ks : List Col) : coalesced ks ks = ks := by
  induction ks with
  | nil => rfl
  | cons a ks ih => rw [coalesced_cons]; simp [ih]

theorem cell_ne_none_of_noNull {ks : List Col} {r : Row} (h : noNull (keyOf ks r) = true) {c : Col} (hc : c ∈ ks) :
    cell r c ≠ none := by
  unfold noNull keyOf at h
  rw [List.all_eq_true] at h
  have := h (cell r c) (List.mem_map.mpr ⟨c, hc, rfl⟩)
  intro hh; rw [hh] at this; simp at this

theorem mem_rcols_of_noNull {ks : List Col} {r : Row} (h : noNull (keyOf ks r) = true) {c : Col} (hc : c ∈ ks) :
    c ∈ rcols r := by
  by_cases hm : c ∈ rcols r
  · exact hm
  · exact absurd (cell_of_not_mem hm) (cell_ne_none_of_noNull h hc)

/-! ### schema of a list of dicts -/

theorem mem_tcols {T : Table} {c : Col} : c ∈ tcols T ↔ ∃ r ∈ T, c ∈ rcols r := by
  unfold tcols; rw [mem_undup, List.mem_flatMap]

theorem nodup_tcols (T : Table) : (tcols T).Nodup := nodup_undup _

/-! ### dict operations -/

theorem rcols_override (l r : Row) : rcols (override l r) = (rcols l).filter (fun c => decide (c ∉ rcols r)) ++ rcols r := by
  unfold override
  rw [rcols_append, rcols_filter (fun c => decide (c ∉ rcols r))]

theorem nodup_override {l r : Row} (hl : (rcols l).Nodup) (hr : (rcols r).Nodup) : (rcols (override l r)).Nodup := by
  rw [rcols_override, List.nodup_append]
  refine ⟨hl.sublist List.filter_sublist, hr, ?_⟩
  intro a ha b hb hab
  subst hab
  simp [List.mem_filter] at ha
  exact ha.2 hb

theorem cell_override (l r : Row) (c : Col) : cell (override l r) c = if c ∈ rcols r then cell r c else cell l c := by
  unfold override
  rw [cell_append, rcols_filter (fun c => decide (c ∉ rcols r)), cell_filter (fun c => decide (c ∉ rcols r))]
  by_cases hr : c ∈ rcols r
  · simp [hr, List.mem_filter]
  · by_cases hl : c ∈ rcols l
    · simp [hr, hl, List.mem_filter]
    · simp [hr, hl, List.mem_filter, cell_of_not_mem hr, cell_of_not_mem hl]

theorem rcols_combine (co : List Col) (l r : Row) :
    rcols (combine co l r) = rcols l ++ (rcols r).filter (fun c => decide (c ∉ co)) := by
  unfold combine
  rw [rcols_append, rcols_filter (fun c => decide (c ∉ co))]

theorem cell_combine (co : List Col) (l r : Row) (c : Col) :
    cell (combine co l r) c = if c ∈ rcols l then cell l c else if c ∈ co then none else cell r c := by
  unfold combine
  rw [cell_append, cell_filter (fun c => decide (c ∉ co))]
  by_cases hl : c ∈ rcols l <;> by_cases hc : c ∈ co <;> simp [hl, hc]

theorem nodup_combine {co : List Col} {l r : Row} (hl : (rcols l).Nodup) (hr : (rcols r).Nodup)
    (ho : ∀ c ∈ rcols l, c ∈ rcols r → c ∈ co) : (rcols (combine co l r)).Nodup := by
  rw [rcols_combine, List.nodup_append]
  refine ⟨hl, hr.sublist List.filter_sublist, ?_⟩
  intro a ha b hb hab
  subst hab
  simp [List.mem_filter] at hb
  exact hb.2 (ho a ha hb.1)

/-- matched pair: the dict `{**l, **r}` is the spec's combined row (no information is lost because the only shared
columns are coalesced keys, which are equal on a matching pair) -/
theorem rowEq_override_combine {lk rk : List Col} {l r : Row} (hl : (rcols l).Nodup) (hr : (rcols r).Nodup)
    (ho : ∀ c ∈ rcols l, c ∈ rcols r → c ∈ coalesced lk rk) (hk : keyOf lk l = keyOf rk r) :
    RowEq (override l r) (combine (coalesced lk rk) l r) := by
  refine rowEq_of_cell_eq (nodup_override hl hr) (nodup_combine hl hr ho) ?_
  intro c
  rw [cell_override, cell_combine]
  by_cases h1 : c ∈ rcols r
  · by_cases h2 : c ∈ rcols l
    · simp [h1, h2, cell_eq_of_mem_coalesced hk (ho c h2 h1)]
    · by_cases h3 : c ∈ coalesced lk rk
      · have := cell_eq_of_mem_coalesced hk h3
        rw [cell_of_not_mem h2] at this
        simp [h1, h2, h3, ← this]
      · simp [h1, h2, h3]
  · by_cases h2 : c ∈ rcols l
    · simp [h1, h2]
    · simp [h1, h2, cell_of_not_mem h1, cell_of_not_mem h2]

theorem core_filter_cols (p : Col → Bool) (m : Row) : core (m.filter (fun e => p e.1)) = (core m).filter (fun e => p e.1) := by
  unfold core
  rw [List.filter_filter, List.filter_filter]
  congr 1; funext e; exact Bool.and_comm _ _

theorem core_setCol_none (m : Row) (c : Col) : core (setCol m c none) = (core m).filter (fun e => decide (e.1 ≠ c)) := by
  unfold setCol
  rw [core_append, core_filter_cols (fun c' => decide (c' ≠ c))]
  simp [core]

theorem core_padNone (m : Row) (cs : List Col) : core (padNone m cs) = (core m).filter (fun e => decide (e.1 ∉ cs)) := by
  unfold padNone
  induction cs generalizing m with
  | nil => simp only [List.foldl_nil, List.not_mem_nil, not_false_eq_true, decide_true]; exact (List.filter_eq_self.mpr (fun _ _ => rfl)).symm
  | cons c cs ih =>
    rw [List.foldl_cons, ih, core_setCol_none, List.filter_filter]
    congr 1; funext e
    by_cases h1 : e.1 = c <;> by_cases h2 : e.1 ∈ cs <;> simp [h1, h2]

theorem core_padNone_of_disjoint {m : Row} {cs : List Col} (h : ∀ c ∈ cs, c ∉ rcols m) : core (padNone m cs) = core m := by
  rw [core_padNone, List.filter_eq_self]
  intro e he
  have he' : e ∈ m := (List.mem_filter.mp he).1
  have : e.1 ∈ rcols m := List.mem_map.mpr ⟨e, he', rfl⟩
  simp only [decide_eq_true_eq]
  intro hc; exact h _ hc this

theorem core_padRight (co rs : List Col) (l : Row) : core (padRight co rs l) = core l := by
  simp [padRight]

theorem core_padLeft (co ls : List Col) (r : Row) : core (padLeft co ls r) = core r := by
  simp [padLeft]

/-! ### matching under non-null keys -/

theorem matchesK_eq_of_noNull_left {lk rk : List Col} {l : Row} (h : noNull (keyOf lk l) = true) (r : Row) :
    matchesK lk rk l r = (keyOf rk r == keyOf lk l) := by
  unfold matchesK
  rw [h, Bool.true_and, Bool.eq_iff_iff, beq_iff_eq, beq_iff_eq]
  exact eq_comm

theorem matchesK_eq_of_noNull_right {lk rk : List Col} {r : Row} (h : noNull (keyOf rk r) = true) (l : Row) :
    matchesK lk rk l r = (keyOf lk l == keyOf rk r) := by
  unfold matchesK
  by_cases hk : keyOf lk l = keyOf rk r
  · rw [hk, h]; simp
  · simp [hk]

theorem filterMap_eq_flatMap {α β : Type} (f : α → Option β) (l : List α) :
    l.filterMap f = l.flatMap (fun a => (f a).toList) := by
  induction l with
  | nil => rfl
  | cons a l ih => cases h : f a <;> simp [h, ih]

theorem map_eq_flatMap_single {α β : Type} (f : α → β) (l : List α) : l.map f = l.flatMap (fun a => [f a]) := by
  induction l with
  | nil => rfl
  | cons a l ih => simp [ih]

theorem rcols_subset_tcols {T : Table} {r : Row} (hr : r ∈ T) {c : Col} (hc : c ∈ rcols r) : c ∈ tcols T :=
  mem_tcols.mpr ⟨r, hr, hc⟩

/-! ### inner / left / right -/

theorem pydict_inner_tableEq {lk rk : List Col} {L R : Table}
    (wfL : RowsWF L) (wfR : RowsWF R) (hu : UniqueKeys rk R) (hn : NoNullKeys lk L) (ho : NoOverlap lk rk L R) :
    TableEq (PyDictMerge.inner lk rk L R) (innerJoin lk rk L R) := by
  unfold PyDictMerge.inner innerJoin
  rw [filterMap_eq_flatMap]
  refine TableEq.flatMap_congr L _ _ ?_
  intro l hl
  have hfilt : R.filter (matchesK lk rk l) = (indexGet rk R (keyOf lk l)).toList := by
    rw [← filter_key_eq_indexGet hu]
    exact List.filter_congr (fun r _ => matchesK_eq_of_noNull_left (hn l hl) r)
  rw [hfilt]
  cases h : indexGet rk R (keyOf lk l) with
  | none => exact TableEq.refl _
  | some r =>
    obtain ⟨hr, hk⟩ := indexGet_some_mem h
    exact TableEq.single (rowEq_override_combine (wfL l hl) (wfR r hr) (ho l hl r hr) hk.symm)

theorem pydict_left_tableEq {lk rk : List Col} {L R : Table}
    (wfL : RowsWF L) (wfR : RowsWF R) (hu : UniqueKeys rk R) (hn : NoNullKeys lk L) (ho : NoOverlap lk rk L R) :
    TableEq (PyDictMerge.left lk rk L R) (leftJoin lk rk (tcols R) L R) := by
  unfold PyDictMerge.left leftJoin
  rw [map_eq_flatMap_single]
  refine TableEq.flatMap_congr L _ _ ?_
  intro l hl
  have hfilt : R.filter (matchesK lk rk l) = (indexGet rk R (keyOf lk l)).toList := by
    rw [← filter_key_eq_indexGet hu]
    exact List.filter_congr (fun r _ => matchesK_eq_of_noNull_left (hn l hl) r)
  simp only [hfilt]
  cases h : indexGet rk R (keyOf lk l) with
  | none =>
    simp only [Option.toList_none, List.isEmpty_nil, if_true]
    refine TableEq.single (RowEq.of_core_eq ?_)
    rw [core_padRight, core_padNone_of_disjoint]
    intro c hc hcl
    simp only [List.mem_filter, decide_eq_true_eq] at hc
    exact hc.2 (rcols_subset_tcols hl hcl)
  | some r =>
    obtain ⟨hr, hk⟩ := indexGet_some_mem h
    simp only [Option.toList_some, List.isEmpty_cons, Bool.false_eq_true, if_false, List.map_cons, List.map_nil]
    exact TableEq.single (rowEq_override_combine (wfL l hl) (wfR r hr) (ho l hl r hr) hk.symm)

theorem pydict_right_tableEq {lk rk : List Col} {L R : Table}
    (wfL : RowsWF L) (wfR : RowsWF R) (hu : UniqueKeys lk L) (hn : NoNullKeys rk R) (ho : NoOverlap lk rk L R) :
    TableEq (PyDictMerge.right lk rk L R) (rightJoin lk rk (tcols L) L R) := by
  unfold PyDictMerge.right rightJoin
  rw [map_eq_flatMap_single]
  refine TableEq.flatMap_congr R _ _ ?_
  intro r hr
  have hfilt : L.filter (fun l => matchesK lk rk l r) = (indexGet lk L (keyOf rk r)).toList := by
    rw [← filter_key_eq_indexGet hu]
    exact List.filter_congr (fun l _ => matchesK_eq_of_noNull_right (hn r hr) l)
  simp only [hfilt]
  cases h : indexGet lk L (keyOf rk r) with
  | none =>
    simp only [Option.toList_none, List.isEmpty_nil, if_true]
    refine TableEq.single (RowEq.of_core_eq ?_)
    rw [core_padLeft, core_padNone_of_disjoint]
    intro c hc hcl
    simp only [List.mem_filter, decide_eq_true_eq] at hc
    exact hc.2 (rcols_subset_tcols hr hcl)
  | some l =>
    obtain ⟨hl, hk⟩ := indexGet_some_mem h
    simp only [Option.toList_some, List.isEmpty_cons, Bool.false_eq_true, if_false, List.map_cons, List.map_nil]
    exact TableEq.single (rowEq_override_combine (wfL l hl) (wfR r hr) (ho l hl r hr) hk)

/-! ### `m[c] = v` and the loops of `_outer_join` -/

theorem rcols_setCol (m : Row) (c : Col) (v : Cell) :
    rcols (setCol m c v) = (rcols m).filter (fun x => decide (x ≠ c)) ++ [c] := by
  unfold setCol
  rw [rcols_append, rcols_filter (fun x => decide (x ≠ c))]; rfl

theorem nodup_setCol {m : Row} (h : (rcols m).Nodup) (c : Col) (v : Cell) : (rcols (setCol m c v)).Nodup := by
  rw [rcols_setCol, List.nodup_append]
  refine ⟨h.sublist List.filter_sublist, by simp, ?_⟩
  intro a ha b hb hab
  subst hab
  simp [List.mem_filter] at ha hb
  exact ha.2 hb

theorem cell_setCol (m : Row) (c : Col) (v : Cell) (c' : Col) :
    cell (setCol m c v) c' = if c = c' then v else cell m c' := by
  unfold setCol
  rw [cell_append, rcols_filter (fun x => decide (x ≠ c)), cell_filter (fun x => decide (x ≠ c))]
  by_cases h : c = c'
  · subst h; simp [List.mem_filter, cell]
  · have h' : c' ≠ c := fun hh => h hh.symm
    by_cases hm : c' ∈ rcols m
    · simp [h, h', hm, List.mem_filter]
    · simp [h, h', hm, List.mem_filter, cell, cell_of_not_mem hm]

theorem cell_foldl_set (cs : List Col) (skip : Col → Prop) [DecidablePred skip] (f : Col → Cell) (m : Row) (c : Col) :
    cell (cs.foldl (fun m c => if skip c then m else setCol m c (f c)) m) c
      = if c ∈ cs ∧ ¬ skip c then f c else cell m c := by
  induction cs generalizing m with
  | nil => simp
  | cons a cs ih =>
    rw [List.foldl_cons, ih]
    by_cases h1 : c ∈ cs ∧ ¬ skip c
    · have : c ∈ a :: cs ∧ ¬ skip c := ⟨List.mem_cons_of_mem _ h1.1, h1.2⟩
      rw [if_pos h1, if_pos this]
    · rw [if_neg h1]
      by_cases hs : skip a
      · rw [if_pos hs]
        by_cases h2 : c ∈ a :: cs ∧ ¬ skip c
        · exfalso
          rcases List.mem_cons.mp h2.1 with rfl | h3
          · exact h2.2 hs
          · exact h1 ⟨h3, h2.2⟩
        · rw [if_neg h2]
      · rw [if_neg hs, cell_setCol]
        by_cases hac : a = c
        · subst hac
          rw [if_pos rfl, if_pos ⟨List.mem_cons_self, hs⟩]
        · rw [if_neg hac]
          have : ¬ (c ∈ a :: cs ∧ ¬ skip c) := by
            rintro ⟨h3, h4⟩
            rcases List.mem_cons.mp h3 with rfl | h3
            · exact hac rfl
            · exact h1 ⟨h3, h4⟩
          rw [if_neg this]

theorem nodup_foldl_set (cs : List Col) (skip : Col → Prop) [DecidablePred skip] (f : Col → Cell) (m : Row)
    (h : (rcols m).Nodup) : (rcols (cs.foldl (fun m c => if skip c then m else setCol m c (f c)) m)).Nodup := by
  induction cs generalizing m with
  | nil => simpa
  | cons a cs ih =>
    rw [List.foldl_cons]
    apply ih
    by_cases hs : skip a
    · rw [if_pos hs]; exact h
    · rw [if_neg hs]; exact nodup_setCol h _ _

theorem setKeys_keyOf (m : Row) (ks : List Col) (l : Row) :
    setKeys m ks (keyOf ks l) = ks.foldl (fun m c => if False then m else setCol m c (cell l c)) m := by
  unfold setKeys keyOf
  induction ks generalizing m with
  | nil => rfl
  | cons a ks ih => simp only [List.map_cons, List.zip_cons_cons, List.foldl_cons, if_false]; exact ih _

theorem cell_setKeys_keyOf (m : Row) (ks : List Col) (l : Row) (c : Col) :
    cell (setKeys m ks (keyOf ks l)) c = if c ∈ ks then cell l c else cell m c := by
  rw [setKeys_keyOf, cell_foldl_set]; simp

theorem nodup_setKeys_keyOf {m : Row} (h : (rcols m).Nodup) (ks : List Col) (l : Row) :
    (rcols (setKeys m ks (keyOf ks l))).Nodup := by
  rw [setKeys_keyOf]; exact nodup_foldl_set _ _ _ _ h

theorem nodup_setKeys {m : Row} (h : (rcols m).Nodup) (ks : List Col) (key : Key) :
    (rcols (setKeys m ks key)).Nodup := by
  unfold setKeys
  generalize ks.zip key = z
  induction z generalizing m with
  | nil => simpa
  | cons a z ih => rw [List.foldl_cons]; exact ih (nodup_setCol h _ _)

theorem nodup_outerRow (lk rk : List Col) (L R : Table) (key : Key) : (rcols (outerRow lk rk L R key)).Nodup := by
  unfold outerRow
  apply nodup_foldl_set
  apply nodup_foldl_set
  have h0 : (rcols ([] : Row)).Nodup := by simp
  split
  · exact nodup_setKeys h0 _ _
  · split <;> split <;> first | exact nodup_setKeys (nodup_setKeys h0 _ _) _ _ | exact nodup_setKeys h0 _ _ | exact h0

/-- cell-wise reading of one `_outer_join` iteration, for the key of a left row `l` and a right row `r`
(`el`/`er` say whether the key is in the left / right index map) -/
theorem cell_outerRow {lk rk : List Col} {L R : Table} {key : Key} (ol or : Option Row)
    (hl : indexGet lk L key = ol) (hr : indexGet rk R key = or)
    (kl : Row) (hkl : lk = rk ∨ ol.isSome → key = keyOf lk kl)
    (kr : Row) (hkr : lk ≠ rk → or.isSome → key = keyOf rk kr) (c : Col) :
    cell (outerRow lk rk L R key) c =
      if c ∈ tcols R ∧ c ∉ rk then cell (or.getD []) c
      else if c ∈ tcols L ∧ c ∉ lk then cell (ol.getD []) c
      else if lk = rk then (if c ∈ lk then cell kl c else none)
      else if or.isSome ∧ c ∈ rk then cell kr c
      else if ol.isSome ∧ c ∈ lk then cell kl c else none := by
  unfold outerRow
  simp only [hl, hr]
  rw [cell_foldl_set, cell_foldl_set]
  by_cases h1 : c ∈ tcols R ∧ c ∉ rk
  · rw [if_pos h1, if_pos h1]
  · rw [if_neg h1, if_neg h1]
    by_cases h2 : c ∈ tcols L ∧ c ∉ lk
    · rw [if_pos h2, if_pos h2]
    · rw [if_neg h2, if_neg h2]
      by_cases h3 : lk = rk
      · rw [if_pos h3, if_pos h3, hkl (Or.inl h3), cell_setKeys_keyOf]; simp [cell]
      · rw [if_neg h3, if_neg h3]
        cases ol with
        | none =>
          cases or with
          | none => simp [cell]
          | some r => simp only [Option.isSome_none, Option.isSome_some, Bool.false_eq_true, if_false, if_true, true_and, false_and]
                      rw [hkr h3 rfl, cell_setKeys_keyOf]; simp [cell]
        | some l =>
          cases or with
          | none => simp only [Option.isSome_none, Option.isSome_some, Bool.false_eq_true, if_false, if_true, true_and, false_and]
                    rw [hkl (Or.inr rfl), cell_setKeys_keyOf]; simp [cell]
          | some r =>
            simp only [Option.isSome_some, if_true, true_and]
            rw [hkr h3 rfl, cell_setKeys_keyOf]
            by_cases h4 : c ∈ rk
            · simp [h4]
            · rw [if_neg h4, if_neg h4, ← hkr h3 rfl, hkl (Or.inr rfl), cell_setKeys_keyOf]; simp [cell]


section outerRows
variable {lk rk : List Col} {L R : Table}

/-- facts shared by the three row cases of the outer join -/
theorem overlap_tcolsR {l : Row} (ho : NoOverlap lk rk L R) (hl : l ∈ L) {c : Col} (h1 : c ∈ tcols R) (h2 : c ∈ rcols l) :
    c ∈ coalesced lk rk := by
  obtain ⟨r', hr', hc⟩ := mem_tcols.mp h1
  exact ho l hl r' hr' c h2 hc

theorem overlap_tcolsL {r : Row} (ho : NoOverlap lk rk L R) (hr : r ∈ R) {c : Col} (h1 : c ∈ tcols L) (h2 : c ∈ rcols r) :
    c ∈ coalesced lk rk := by
  obtain ⟨l', hl', hc⟩ := mem_tcols.mp h1
  exact ho l' hl' r hr c hc h2

/-- key present on both sides -/
theorem rowEq_outerRow_both {l r : Row} (wfL : RowsWF L) (wfR : RowsWF R) (ho : NoOverlap lk rk L R)
    (hl : l ∈ L) (hr : r ∈ R) (hnl : noNull (keyOf lk l) = true) (hnr : noNull (keyOf rk r) = true)
    (hk : keyOf lk l = keyOf rk r)
    (hil : indexGet lk L (keyOf lk l) = some l) (hir : indexGet rk R (keyOf lk l) = some r) :
    RowEq (outerRow lk rk L R (keyOf lk l)) (combine (coalesced lk rk) l r) := by
  refine rowEq_of_cell_eq (nodup_outerRow _ _ _ _ _) (nodup_combine (wfL l hl) (wfR r hr) (ho l hl r hr)) ?_
  intro c
  rw [cell_outerRow (some l) (some r) hil hir l (fun _ => rfl) r (fun _ _ => hk), cell_combine]
  simp only [Option.getD_some, Option.isSome_some, true_and]
  have F1 : c ∈ rcols l → c ∈ tcols L := rcols_subset_tcols hl
  have F2 : c ∈ rcols r → c ∈ tcols R := rcols_subset_tcols hr
  have F3 := @overlap_tcolsR lk rk L R l ho hl c
  have F4 := @overlap_tcolsL lk rk L R r ho hr c
  have F5 : c ∈ coalesced lk rk → c ∈ lk ∧ c ∈ rk := mem_coalesced
  have F6 : c ∈ coalesced lk rk → cell l c = cell r c := cell_eq_of_mem_coalesced hk
  have F7 : c ∈ lk → c ∈ rcols l := mem_rcols_of_noNull hnl
  have F8 : c ∈ rk → c ∈ rcols r := mem_rcols_of_noNull hnr
  have F9 : c ∉ rcols l → cell l c = none := cell_of_not_mem
  have F10 : c ∉ rcols r → cell r c = none := cell_of_not_mem
  have F11 : lk = rk → coalesced lk rk = lk := fun h => by rw [← h, coalesced_self]
  by_cases a1 : c ∈ rcols l <;> by_cases a2 : c ∈ rcols r <;> by_cases a3 : c ∈ lk <;> by_cases a4 : c ∈ rk <;>
    by_cases a5 : c ∈ coalesced lk rk <;> by_cases a6 : c ∈ tcols L <;> by_cases a7 : c ∈ tcols R <;>
    by_cases a8 : lk = rk <;> simp_all


/-- key only in the left index map -/
theorem rowEq_outerRow_left {l : Row} (wfL : RowsWF L) (ho : NoOverlap lk rk L R)
    (hl : l ∈ L) (hnl : noNull (keyOf lk l) = true)
    (hil : indexGet lk L (keyOf lk l) = some l) (hir : indexGet rk R (keyOf lk l) = none) :
    RowEq (outerRow lk rk L R (keyOf lk l)) l := by
  refine rowEq_of_cell_eq (nodup_outerRow _ _ _ _ _) (wfL l hl) ?_
  intro c
  rw [cell_outerRow (some l) none hil hir l (fun _ => rfl) [] (fun _ h => by simp at h)]
  simp only [Option.getD_some, Option.getD_none, Option.isSome_some, Option.isSome_none, true_and, Bool.false_eq_true, false_and, if_false]
  have F1 : c ∈ rcols l → c ∈ tcols L := rcols_subset_tcols hl
  have F3 := @overlap_tcolsR lk rk L R l ho hl c
  have F5 : c ∈ coalesced lk rk → c ∈ lk ∧ c ∈ rk := mem_coalesced
  have F7 : c ∈ lk → c ∈ rcols l := mem_rcols_of_noNull hnl
  have F9 : c ∉ rcols l → cell l c = none := cell_of_not_mem
  have F12 : cell ([] : Row) c = none := rfl
  by_cases a1 : c ∈ rcols l <;> by_cases a3 : c ∈ lk <;> by_cases a4 : c ∈ rk <;>
    by_cases a5 : c ∈ coalesced lk rk <;> by_cases a6 : c ∈ tcols L <;> by_cases a7 : c ∈ tcols R <;>
    by_cases a8 : lk = rk <;> simp_all

/-- key only in the right index map -/
theorem rowEq_outerRow_right {r : Row} (wfR : RowsWF R) (ho : NoOverlap lk rk L R)
    (hr : r ∈ R) (hnr : noNull (keyOf rk r) = true)
    (hil : indexGet lk L (keyOf rk r) = none) (hir : indexGet rk R (keyOf rk r) = some r) :
    RowEq (outerRow lk rk L R (keyOf rk r)) r := by
  refine rowEq_of_cell_eq (nodup_outerRow _ _ _ _ _) (wfR r hr) ?_
  intro c
  rw [cell_outerRow none (some r) hil hir r (fun h => by
        rcases h with h | h
        · rw [h]
        · simp at h) r (fun _ _ => rfl)]
  simp only [Option.getD_some, Option.getD_none, Option.isSome_some, Option.isSome_none, true_and, Bool.false_eq_true, false_and, if_false]
  have F2 : c ∈ rcols r → c ∈ tcols R := rcols_subset_tcols hr
  have F4 := @overlap_tcolsL lk rk L R r ho hr c
  have F5 : c ∈ coalesced lk rk → c ∈ lk ∧ c ∈ rk := mem_coalesced
  have F8 : c ∈ rk → c ∈ rcols r := mem_rcols_of_noNull hnr
  have F10 : c ∉ rcols r → cell r c = none := cell_of_not_mem
  have F12 : cell ([] : Row) c = none := rfl
  by_cases a2 : c ∈ rcols r <;> by_cases a3 : c ∈ lk <;> by_cases a4 : c ∈ rk <;>
    by_cases a5 : c ∈ coalesced lk rk <;> by_cases a6 : c ∈ tcols L <;> by_cases a7 : c ∈ tcols R <;>
    by_cases a8 : lk = rk <;> simp_all

end outerRows
theorem pydict_outer_tableEq {lk rk : List Col} {L R : Table} {order : List Key}
    (wfL : RowsWF L) (wfR : RowsWF R) (huL : UniqueKeys lk L) (huR : UniqueKeys rk R)
    (hnL : NoNullKeys lk L) (hnR : NoNullKeys rk R) (ho : NoOverlap lk rk L R)
    (hord : ValidOrder lk rk L R order) :
    TableEq (PyDictMerge.outer lk rk L R order) (outerJoin lk rk (tcols L) (tcols R) L R) := by
  let p : Row → Bool := fun r => decide (keyOf rk r ∉ L.map (keyOf lk))
  let canon : List Key := L.map (keyOf lk) ++ (R.filter p).map (keyOf rk)
  have hsub : ((R.filter p).map (keyOf rk)).Sublist (R.map (keyOf rk)) := List.Sublist.map _ List.filter_sublist
  have hcanon : canon.Nodup := by
    rw [List.nodup_append]
    refine ⟨huL, huR.sublist hsub, ?_⟩
    intro a ha b hb hab
    subst hab
    obtain ⟨r, hr, rfl⟩ := List.mem_map.mp hb
    have := (List.mem_filter.mp hr).2
    simp only [p, decide_eq_true_eq] at this
    exact this ha
  have hperm : order.Perm canon := by
    refine perm_of_nodup_of_mem_iff hord.1 hcanon ?_
    intro k
    rw [hord.2 k, List.mem_append]
    constructor
    · rintro (h | h)
      · exact Or.inl h
      · by_cases hk : k ∈ L.map (keyOf lk)
        · exact Or.inl hk
        · obtain ⟨r, hr, rfl⟩ := List.mem_map.mp h
          exact Or.inr (List.mem_map.mpr ⟨r, List.mem_filter.mpr ⟨hr, by simpa [p] using hk⟩, rfl⟩)
    · rintro (h | h)
      · exact Or.inl h
      · exact Or.inr (hsub.subset h)
  have h1 : TableEq (PyDictMerge.outer lk rk L R order) (canon.map (outerRow lk rk L R)) :=
    TableEq.of_perm (hperm.map _)
  refine h1.trans ?_
  simp only [canon, List.map_append, List.map_map]
  unfold outerJoin
  refine TableEq.append ?_ ?_
  · -- left rows
    unfold leftJoin
    rw [map_eq_flatMap_single]
    refine TableEq.flatMap_congr L _ _ ?_
    intro l hl
    have hfilt : R.filter (matchesK lk rk l) = (indexGet rk R (keyOf lk l)).toList := by
      rw [← filter_key_eq_indexGet huR]
      exact List.filter_congr (fun r _ => matchesK_eq_of_noNull_left (hnL l hl) r)
    simp only [hfilt, Function.comp]
    have hil := indexGet_self huL hl
    cases h : indexGet rk R (keyOf lk l) with
    | none =>
      simp only [Option.toList_none, List.isEmpty_nil, if_true]
      refine TableEq.single ((rowEq_outerRow_left wfL ho hl (hnL l hl) hil h).trans (RowEq.of_core_eq ?_))
      rw [core_padRight]
    | some r =>
      obtain ⟨hr, hk⟩ := indexGet_some_mem h
      simp only [Option.toList_some, List.isEmpty_cons, Bool.false_eq_true, if_false, List.map_cons, List.map_nil]
      exact TableEq.single (rowEq_outerRow_both wfL wfR ho hl hr (hnL l hl) (hnR r hr) hk.symm hil h)
  · -- right rows without a partner
    have hq : R.filter (fun r => L.all (fun l => !matchesK lk rk l r)) = R.filter p := by
      refine List.filter_congr (fun r hr => ?_)
      simp only [p]
      rw [Bool.eq_iff_iff, List.all_eq_true, decide_eq_true_eq]
      constructor
      · intro h hm
        obtain ⟨l, hl, hkl⟩ := List.mem_map.mp hm
        have := h l hl
        rw [matchesK_eq_of_noNull_right (hnR r hr)] at this
        simp [hkl] at this
      · intro h l hl
        rw [matchesK_eq_of_noNull_right (hnR r hr)]
        simp only [Bool.not_eq_true', beq_eq_false_iff_ne, ne_eq]
        intro hk
        exact h (List.mem_map.mpr ⟨l, hl, hk⟩)
    rw [hq]
    refine TableEq.map_congr _ _ _ ?_
    intro r hr
    obtain ⟨hrR, hpr⟩ := List.mem_filter.mp hr
    simp only [p, decide_eq_true_eq] at hpr
    have hil : indexGet lk L (keyOf rk r) = none := by
      rw [indexGet_none_iff]
      intro l hl hk
      exact hpr (List.mem_map.mpr ⟨l, hl, hk⟩)
    have hir := indexGet_self huR hrR
    simp only [Function.comp]
    refine (rowEq_outerRow_right wfR ho hrR (hnR r hrR) hil hir).trans (RowEq.of_core_eq ?_)
    rw [core_padLeft]

/-! ### union -/

theorem mem_dedupAux {S : List Row} {T : Table} {x : Row} (h : x ∈ dedupAux S T) : x ∈ T := by
  induction T generalizing S with
  | nil => simp [dedupAux] at h
  | cons a T ih =>
    unfold dedupAux at h
    split at h
    · exact List.mem_cons_of_mem _ (ih h)
    · rcases List.mem_cons.mp h with rfl | h
      · exact List.mem_cons_self
      · exact List.mem_cons_of_mem _ (ih h)

theorem dedupAux_congr {S S' : List Row} (h : ∀ x, x ∈ S ↔ x ∈ S') (T : Table) : dedupAux S T = dedupAux S' T := by
  induction T generalizing S S' with
  | nil => rfl
  | cons a T ih =>
    have hany : S.any (fun s => rowBEq s a) = S'.any (fun s => rowBEq s a) := by
      rw [Bool.eq_iff_iff, List.any_eq_true, List.any_eq_true]
      exact ⟨fun ⟨s, hs, hb⟩ => ⟨s, (h s).mp hs, hb⟩, fun ⟨s, hs, hb⟩ => ⟨s, (h s).mpr hs, hb⟩⟩
    unfold dedupAux
    rw [hany]
    split
    · exact ih h
    · rw [ih (S := a :: S) (S' := a :: S')]
      intro x; simp [h x]

theorem dedupAux_cons_seen {S : List Row} {x : Row} (h : S.any (fun s => rowBEq s x) = true) (xs : Table) :
    dedupAux S (x :: xs) = dedupAux S xs := by
  rw [dedupAux, if_pos h]

theorem dedupAux_cons_new {S : List Row} {x : Row} (h : S.any (fun s => rowBEq s x) = false) (xs : Table) :
    dedupAux S (x :: xs) = x :: dedupAux (x :: S) xs := by
  rw [dedupAux, if_neg (by simp [h])]

theorem dedupAux_append (S : List Row) (A B : Table) :
    dedupAux S (A ++ B) = dedupAux S A ++ dedupAux ((dedupAux S A).reverse ++ S) B := by
  induction A generalizing S with
  | nil => simp [dedupAux]
  | cons a A ih =>
    simp only [List.cons_append]
    cases h : S.any (fun s => rowBEq s a) with
    | true => rw [dedupAux_cons_seen h, dedupAux_cons_seen h]; exact ih S
    | false =>
      rw [dedupAux_cons_new h, dedupAux_cons_new h, ih (a :: S)]
      simp

/-- the loop of `_union_join` over one side computes the spec's de-duplication as long as, among the rows seen so far
and the rows still to come, equal keys mean equal rows and vice versa -/
theorem addRows_spec (ks : List Col) (T : Table) : ∀ (seen : List Key) (S : List Row) (res : Table),
    (∀ k, k ∈ seen ↔ ∃ s ∈ S, keyOf ks s = k) →
    (∀ x ∈ S ++ T, ∀ y ∈ S ++ T, (keyOf ks x = keyOf ks y ↔ RowEq x y)) →
    (addRows ks seen res T).2 = res ++ dedupAux S T ∧
      (∀ k, k ∈ (addRows ks seen res T).1 ↔ ∃ s ∈ (dedupAux S T).reverse ++ S, keyOf ks s = k) := by
  induction T with
  | nil => intro seen S res hs _; simpa [addRows, dedupAux] using hs
  | cons x T ih =>
    intro seen S res hs H
    have hxmem : x ∈ S ++ x :: T := by simp
    have Hsub : ∀ a ∈ S ++ T, ∀ b ∈ S ++ T, (keyOf ks a = keyOf ks b ↔ RowEq a b) := by
      intro a ha b hb
      refine H a ?_ b ?_
      · rcases List.mem_append.mp ha with h | h
        · exact List.mem_append_left _ h
        · exact List.mem_append_right _ (List.mem_cons_of_mem _ h)
      · rcases List.mem_append.mp hb with h | h
        · exact List.mem_append_left _ h
        · exact List.mem_append_right _ (List.mem_cons_of_mem _ h)
    by_cases hseen : keyOf ks x ∈ seen
    · obtain ⟨s, hsS, hsk⟩ := (hs _).mp hseen
      have hre : RowEq s x := (H s (List.mem_append_left _ hsS) x hxmem).mp hsk
      have hany : S.any (fun s => rowBEq s x) = true := List.any_eq_true.mpr ⟨s, hsS, rowBEq_iff.mpr hre⟩
      simp only [addRows, hseen, if_true, dedupAux, hany]
      exact ih seen S res hs Hsub
    · have hany : S.any (fun s => rowBEq s x) = false := by
        rw [Bool.eq_false_iff]
        intro h
        obtain ⟨s, hsS, hb⟩ := List.any_eq_true.mp h
        have := (H s (List.mem_append_left _ hsS) x hxmem).mpr (rowBEq_iff.mp hb)
        exact hseen ((hs _).mpr ⟨s, hsS, this⟩)
      simp only [addRows, hseen, if_false, dedupAux, hany, Bool.false_eq_true]
      have hs' : ∀ k, k ∈ keyOf ks x :: seen ↔ ∃ s ∈ x :: S, keyOf ks s = k := by
        intro k
        simp only [List.mem_cons, hs k]
        constructor
        · rintro (rfl | ⟨s, h1, h2⟩)
          · exact ⟨x, Or.inl rfl, rfl⟩
          · exact ⟨s, Or.inr h1, h2⟩
        · rintro ⟨s, (rfl | h1), h2⟩
          · exact Or.inl h2.symm
          · exact Or.inr ⟨s, h1, h2⟩
      have H' : ∀ a ∈ (x :: S) ++ T, ∀ b ∈ (x :: S) ++ T, (keyOf ks a = keyOf ks b ↔ RowEq a b) := by
        intro a ha b hb
        refine H a ?_ b ?_
        · simp only [List.cons_append, List.mem_cons, List.mem_append] at ha ⊢
          rcases ha with rfl | h | h
          · exact Or.inr (Or.inl rfl)
          · exact Or.inl h
          · exact Or.inr (Or.inr h)
        · simp only [List.cons_append, List.mem_cons, List.mem_append] at hb ⊢
          rcases hb with rfl | h | h
          · exact Or.inr (Or.inl rfl)
          · exact Or.inl h
          · exact Or.inr (Or.inr h)
      obtain ⟨e1, e2⟩ := ih (keyOf ks x :: seen) (x :: S) (res ++ [x]) hs' H'
      refine ⟨by rw [e1]; simp, ?_⟩
      intro k
      rw [e2 k]
      simp only [List.reverse_cons, List.mem_append, List.mem_cons, List.mem_reverse, List.not_mem_nil, or_false]
      constructor
      · rintro ⟨s, (h | rfl | h), hk⟩
        · exact ⟨s, Or.inl (Or.inl h), hk⟩
        · exact ⟨s, Or.inl (Or.inr rfl), hk⟩
        · exact ⟨s, Or.inr h, hk⟩
      · rintro ⟨s, ((h | rfl) | h), hk⟩
        · exact ⟨s, Or.inl h, hk⟩
        · exact ⟨s, Or.inr (Or.inl rfl), hk⟩
        · exact ⟨s, Or.inr (Or.inr h), hk⟩

theorem pydict_union_eq {ks : List Col} {L R : Table}
    (H : ∀ x ∈ L ++ R, ∀ y ∈ L ++ R, (keyOf ks x = keyOf ks y ↔ RowEq x y)) :
    PyDictMerge.union ks ks L R = Rel.union L R := by
  unfold PyDictMerge.union Rel.union dedup
  have HL : ∀ x ∈ ([] : List Row) ++ L, ∀ y ∈ ([] : List Row) ++ L, (keyOf ks x = keyOf ks y ↔ RowEq x y) := by
    intro x hx y hy
    exact H x (List.mem_append_left _ (by simpa using hx)) y (List.mem_append_left _ (by simpa using hy))
  obtain ⟨e1, e2⟩ := addRows_spec ks L [] [] [] (by simp) HL
  have HR : ∀ x ∈ ((dedupAux [] L).reverse ++ []) ++ R, ∀ y ∈ ((dedupAux [] L).reverse ++ []) ++ R,
      (keyOf ks x = keyOf ks y ↔ RowEq x y) := by
    intro x hx y hy
    refine H x ?_ y ?_
    · simp only [List.append_nil, List.mem_append, List.mem_reverse] at hx ⊢
      exact hx.imp mem_dedupAux id
    · simp only [List.append_nil, List.mem_append, List.mem_reverse] at hy ⊢
      exact hy.imp mem_dedupAux id
  obtain ⟨f1, _⟩ := addRows_spec ks R _ ((dedupAux [] L).reverse ++ []) (addRows ks [] [] L).2 e2 HR
  simp only [] at f1 ⊢
  rw [f1, e1, dedupAux_append]
  simp

end Rel
