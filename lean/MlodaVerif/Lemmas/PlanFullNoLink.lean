import MlodaVerif.Lemmas.PlanFullStages
/-! `createPlan` without link entries on one compute framework is the planner core. -/
namespace PlanFull
open Sched OptGroup

theorem addJoinsteps_steps (g : Graph) (t : Trek) (linfo : Nat → LinkInfo) (o : Ord) (fsc : List (List Nat)) :
    ∀ (l : List PStep) (s : JState), addJoinsteps g t linfo o fsc (l.map .step) s = .ok { s with plan := s.plan ++ l } := by
  intro l
  induction l with
  | nil => intro s; simp [addJoinsteps]
  | cons a r ih => intro s; simp [addJoinsteps, ih]

theorem foldlM_const_ok {σ α ε : Type} (f : σ → α → Except ε σ) (s : σ) :
    ∀ (l : List α), (∀ a ∈ l, f s a = .ok s) → l.foldlM f s = .ok s := by
  intro l
  induction l with
  | nil => intro _; rfl
  | cons a r ih =>
    intro h
    rw [List.foldlM_cons, h a (by simp)]
    exact ih (fun b hb => h b (List.mem_cons_of_mem _ hb))

theorem mapM_ok_id {α ε : Type} (f : α → Except ε α) (l : List α) (h : ∀ x ∈ l, f x = .ok x) : l.mapM f = .ok l := by
  have := mapM_ok_of f id l (by simpa using h)
  simpa using this

theorem handleAppendUnion_noAU {p : List PStep} (h : ∀ s ∈ p, isAU s = false) : handleAppendUnion p = .ok p := by
  unfold handleAppendUnion
  rw [foldlM_const_ok _ _ p (by intro a ha; simp [h a ha])]
  simp only [bind, Except.bind]
  apply mapM_ok_id
  intro x hx
  simp [h x hx]

/-! ### `add_tfs` on a plan of FeatureGroupSteps that all sit on the framework of their parents -/

theorem fgTfsLoop_same_fw (g : Graph) (joins : List PStep) (pp : List Nat) :
    ∀ (parents : List Nat) (s : FState), (∀ p ∈ parents, g.fw p = s.ep.fw) → fgTfsLoop g joins pp parents s = s := by
  intro parents
  induction parents with
  | nil => intro s _; rfl
  | cons p ps ih =>
    intro s h
    have hp : g.fw p = s.ep.fw := h p (by simp)
    have hb : fgTfsBody g joins pp s p = s := by
      unfold fgTfsBody
      simp only [hp, bne_self_eq_false, Bool.false_eq_true, if_false, ite_self]
    have hrest := ih s (fun x hx => h x (List.mem_cons_of_mem _ hx))
    unfold fgTfsLoop at hrest ⊢
    rw [List.foldl_cons, hb, hrest]

theorem markUpload_nil (i : Nat) (cur : List PStep) : markUpload i [] cur = cur := by
  unfold markUpload
  apply List.ext_getElem?
  intro j
  rw [List.getElem?_mapIdx]
  cases cur[j]? with
  | none => rfl
  | some s => cases h : s.anyUuid <;> simp [h]

/-- a plan of FG steps each of which has a representative and sits on the framework of that representative's ancestors -/
def FgOnly (g : Graph) (p : List PStep) : Prop :=
  ∀ s ∈ p, s.kind = .fg ∧ ∃ a, s.anyUuid = some a ∧ ∀ x ∈ g.anc a, g.fw x = s.fw

theorem tfsStep_fgOnly (g : Graph) (linfo : Nat → LinkInfo) (o : Ord) (jc : List (Nat × List Nat)) {p : List PStep}
    (hp : FgOnly g p) (st : TState) (hcur : st.cur = p) (hupl : st.upl = []) (i : Nat) (hi : i < p.length) :
    tfsStep g linfo o jc st i = .ok { st with ins := st.ins ++ [[]] } := by
  have hget : st.cur[i]? = some p[i] := by rw [hcur]; exact List.getElem?_eq_getElem hi
  obtain ⟨hk, a, ha, hfw⟩ := hp p[i] (List.getElem_mem hi)
  unfold tfsStep
  rw [hget]
  simp only [hk, ha]
  rw [fgTfsLoop_same_fw g _ _ (g.anc a) _ (by intro x hx; exact hfw x hx)]
  simp only [modAt_self i st.cur hget, hupl, markUpload_nil]

theorem assemble_replicate : ∀ (p : List PStep), assemble (List.replicate p.length []) p = p := by
  intro p
  induction p with
  | nil => rfl
  | cons a r ih =>
    simp only [List.length_cons, List.replicate_succ, assemble, List.zip_cons_cons, List.flatMap_cons, List.nil_append,
      List.singleton_append]
    unfold assemble at ih
    rw [ih]

theorem addTfs_fgOnly (g : Graph) (linfo : Nat → LinkInfo) (o : Ord) (jc : List (Nat × List Nat)) {p : List PStep}
    (hp : FgOnly g p) (n : Nat) : addTfs g linfo o jc p n = .ok p := by
  have key : ∀ k, k ≤ p.length → (List.range k).foldlM (tfsStep g linfo o jc) { cur := p, n := n } =
      .ok { cur := p, ins := List.replicate k [], n := n } := by
    intro k
    induction k with
    | zero => intro _; rfl
    | succ k ih =>
      intro hk
      rw [List.range_succ, List.foldlM_append, ih (by omega)]
      simp only [bind, Except.bind, List.foldlM_cons, List.foldlM_nil]
      rw [tfsStep_fgOnly g linfo o jc hp _ rfl rfl k (by omega)]
      simp [pure, Except.pure, List.replicate_succ']
  unfold addTfs
  rw [key p.length (Nat.le_refl _)]
  simp only [assemble_replicate]

end PlanFull

namespace PlanFull
open Sched OptGroup

/-- a queue of feature-group entries only -/
def fgQueue (q : List (Nat × List (List Nat))) : List QEl := q.map (fun e => QEl.fg e.1 e.2)

theorem preSpec_fgQueue (g : Graph) (t : Trek) (o : Ord) (q : List (Nat × List (List Nat))) :
    preSpec g t o (fgQueue q) = (q.flatMap (fun e => fgOf g t o e.1 e.2)).map .step := by
  induction q with
  | nil => rfl
  | cons e r ih =>
    simp only [fgQueue, preSpec, List.map_cons, List.flatMap_cons, preOf, List.map_append] at ih ⊢
    rw [ih]

theorem retrieveLinks_nil (feats : List Nat) : retrieveLinks [] feats = [] := by
  unfold retrieveLinks childLinks
  induction feats with
  | nil => rfl
  | cons a r ih => simpa using ih

theorem toSchedPlan_fgOf_nolinks (g : Graph) (t : Trek) (o : Ord) (hdata : t.data = []) (c : Nat) (bs : List (List Nat)) :
    toSchedPlan (fgOf g t o c bs) = PlanCore.planCore g.anc bs := by
  unfold toSchedPlan fgOf PlanCore.planCore PlanCore.stepsOfBucket
  rw [hdata, retrieveLinks_nil]
  induction bs with
  | nil => rfl
  | cons b r ih =>
    simp only [List.flatMap_cons, List.map_append, ih]
    congr 1
    simp [toSched, mkFg]

theorem planCore_append (anc : Nat → List Nat) (a b : List (List Nat)) :
    PlanCore.planCore anc (a ++ b) = PlanCore.planCore anc a ++ PlanCore.planCore anc b := by
  simp [PlanCore.planCore]

theorem createPlan_no_links (g : Graph) (t : Trek) (linfo : Nat → LinkInfo) (o : Ord) (n0 : Nat)
    (q : List (Nat × List (List Nat))) (f0 : Nat) (hdata : t.data = []) (hfw : ∀ u, g.fw u = f0)
    (hne : ∀ e ∈ q, ∀ b ∈ e.2, b ≠ []) :
    createPlan g t linfo o n0 (fgQueue q) = .ok (q.flatMap (fun e => fgOf g t o e.1 e.2)) := by
  have hbn : BucketsNonempty (fgQueue q) := by
    intro el hel c bs heq b hb
    simp only [fgQueue, List.mem_map] at hel
    obtain ⟨e, he, rfl⟩ := hel
    cases heq
    exact hne e he b hb
  have hall : ∀ s ∈ q.flatMap (fun e => fgOf g t o e.1 e.2), ∃ c pre L h, s = mkFg g c pre L h := by
    intro s hs
    simp only [List.mem_flatMap, fgOf, List.mem_map] at hs
    obtain ⟨e, _, b, _, L, _, rfl⟩ := hs
    exact ⟨_, _, _, _, rfl⟩
  unfold createPlan planBeforeTfs
  rw [addFgSteps_of_nonempty hbn, preSpec_fgQueue]
  simp only [addJoinsteps_steps, List.nil_append]
  rw [handleAppendUnion_noAU (by
    intro s hs
    obtain ⟨c, pre, L, h, rfl⟩ := hall s hs
    simp [isAU, mkFg])]
  simp only
  apply addTfs_fgOnly
  intro s hs
  obtain ⟨c, pre, L, h, rfl⟩ := hall s hs
  exact ⟨rfl, h, rfl, fun x _ => by simp [mkFg, hfw]⟩

end PlanFull
