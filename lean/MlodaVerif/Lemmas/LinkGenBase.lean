import MlodaVerif.Model.LinkOrder
import MlodaVerif.Gen.LinkOrderGen
import MlodaVerif.Lemmas.PyRt
/-! # Bridge between the translation of the link-ordering code (`Gen/LinkOrderGen.lean`) and `Model/LinkOrder.lean`: definitions

The abstraction goes FROM the Python-side values of the translation TO the model (so the bridging theorems hold for every Python
state that satisfies the representation invariant `WF`):

* a link record ↦ its uuid (`absK`).  The hand-written model identifies a link with one number; the translation compares links as
  records.  The two agree on states in which different link objects have different uuids: `Links` is a table uuid ↦ link record,
  `Canon L l` says that `l` is the record the table has for its uuid; all links of a state / of the arguments are canonical.
* a `LinkTrekker` with the heap of set objects ↦ `LinkOrder.Trekker` (`absT`): a handle ↦ the set it refers to; the model's `alias`
  flag of a `data_ordered` entry is computed: "`data` holds THE SAME handle under the same key".
* `WF`: the representation invariant of the heap - what the Python code maintains about sharing: the set objects of `data` are
  pairwise different, those of `order` too and they are shared with nothing, a set object of `data_ordered` is either the one `data`
  holds under the same key or shared with nothing; dict keys are pairwise different; handles are allocated; sets have no duplicates.
* exceptions: the model's `Except String` carries `"<Type>: <message>"`; `toExc` is the exception such a string stands for.
  A bridging theorem has the form `mapV (Gen.f … ) abs = liftM (LinkOrder.f (abs …))`. -/
namespace LinkGen
open LinkOrder PyRt Gen.LinkOrderGen

/-- closed examples / witnesses are decided by evaluation -/
scoped instance instDecEqExcept {ε α : Type} [DecidableEq ε] [DecidableEq α] : DecidableEq (Except ε α) := fun a b =>
  match a, b with
  | .ok x, .ok y => if h : x = y then isTrue (by rw [h]) else isFalse (fun e => h (Except.ok.inj e))
  | .error x, .error y => if h : x = y then isTrue (by rw [h]) else isFalse (fun e => h (Except.error.inj e))
  | .ok _, .error _ => isFalse (by intro e; cases e)
  | .error _, .ok _ => isFalse (by intro e; cases e)

/-! ### links and keys -/

/-- the links in play: uuid ↦ link record (different link objects have different uuids) -/
structure Links where
  link : Nat → PLink
  uuid_link : ∀ n, (link n).uuid = n

/-- `l` is the record the table has for its uuid -/
def Canon (L : Links) (l : PLink) : Prop := L.link l.uuid = l

def CanonK (L : Links) (k : PKey) : Prop := Canon L k.1

/-- Python key ↦ model key -/
def absK (k : PKey) : Key := ⟨k.1.uuid, k.2.1, k.2.2⟩

/-- model key ↦ Python key -/
def concK (L : Links) (k : Key) : PKey := (L.link k.link, k.left, k.right)

theorem absK_concK (L : Links) (k : Key) : absK (concK L k) = k := by
  cases k; simp [absK, concK, L.uuid_link]

theorem concK_absK (L : Links) (k : PKey) (h : CanonK L k) : concK L (absK k) = k := by
  obtain ⟨l, a, b⟩ := k
  simp only [CanonK, Canon] at h
  simp [absK, concK, h]

theorem canon_concK (L : Links) (k : Key) : CanonK L (concK L k) := by
  simp [CanonK, Canon, concK, L.uuid_link]

/-- on canonical keys `absK` is injective -/
theorem absK_inj (L : Links) (k k' : PKey) (h : CanonK L k) (h' : CanonK L k') (e : absK k = absK k') : k = k' := by
  rw [← concK_absK L k h, ← concK_absK L k' h', e]

theorem absK_eq_iff (L : Links) (k k' : PKey) (h : CanonK L k) (h' : CanonK L k') : absK k = absK k' ↔ k = k' :=
  ⟨absK_inj L k k' h h', fun e => by rw [e]⟩

/-! ### state -/

/-- the `order` dict: handle ↦ set -/
def absOrder (o : KDict Nat Nat) (h : SHeap) : Order := o.map (fun e => (e.1, SHeap.get h e.2))

/-- the `data` dict -/
def absData (d : KDict PKey Nat) (h : SHeap) : List (Key × List Nat) := d.map (fun e => (absK e.1, SHeap.get h e.2))

/-- the `data_ordered` dict; the alias flag: `data` holds the same handle under the same key -/
def absDord (data dord : KDict PKey Nat) (h : SHeap) : List (Key × OVal) :=
  dord.map (fun e => (absK e.1, (decide (KDict.get? data e.1 = some e.2), SHeap.get h e.2)))

/-- a `LinkTrekker` and the heap of set objects ↦ the model's trekker -/
def absT (s : Trk.TrekkerSelf) (h : SHeap) : Trekker :=
  { data := absData s.data h, dataOrdered := absDord s.data s.data_ordered h, order := absOrder s.order h }

/-- `data_ordered.items()` as the consumers see it (`LinkOrder.orderedView`) -/
def absView (dord : KDict PKey Nat) (h : SHeap) : List (Key × List Nat) := dord.map (fun e => (absK e.1, SHeap.get h e.2))

theorem orderedView_absT (s : Trk.TrekkerSelf) (h : SHeap) : orderedView (absT s h) = absView s.data_ordered h := by
  simp [orderedView, absT, absDord, absView, List.map_map, Function.comp_def]

/-- the representation invariant (see the head of the file) -/
structure WF (L : Links) (s : Trk.TrekkerSelf) (h : SHeap) : Prop where
  canonD : ∀ e ∈ s.data, CanonK L e.1
  canonDO : ∀ e ∈ s.data_ordered, CanonK L e.1
  keysD : (s.data.map (·.1)).Nodup
  keysDO : (s.data_ordered.map (·.1)).Nodup
  keysO : (s.order.map (·.1)).Nodup
  /-- the set objects of `data` and of `order` are pairwise different objects -/
  refsDO : (s.data.map (·.2) ++ s.order.map (·.2)).Nodup
  refsDord : (s.data_ordered.map (·.2)).Nodup
  /-- a set object of `data_ordered` that `data` holds too is held under the same key -/
  share : ∀ e ∈ s.data_ordered, e.2 ∈ s.data.map (·.2) → KDict.get? s.data e.1 = some e.2
  /-- `order` shares nothing with `data_ordered` -/
  disjO : ∀ e ∈ s.data_ordered, e.2 ∉ s.order.map (·.2)
  allocD : ∀ e ∈ s.data, e.2 < h.length
  allocDO : ∀ e ∈ s.data_ordered, e.2 < h.length
  allocO : ∀ e ∈ s.order, e.2 < h.length
  setsNodup : ∀ r, (SHeap.get h r).Nodup

/-! ### exceptions -/

/-- the exception a model error string stands for.  The model writes `"<Type>: <message>"` and abbreviates the one message that
interpolates values (`This jointype is not implemented: {…}. Possible types are: {…}`); the table is injective on the seven strings
the model uses -/
def toExc (s : String) : PyExc :=
  if s = "KeyError" then .keyError
  else if s = "StopIteration" then .stopIteration
  else if s = "ValueError: Link not found in data ordered!" then .valueError "Link not found in data ordered!"
  else if s = "ValueError: Link not found in data!" then .valueError "Link not found in data!"
  else if s = "ValueError: Data and data_ordered have different lengths" then .valueError "Data and data_ordered have different lengths"
  else if s = "ValueError: This jointype is not implemented" then .valueError "This jointype is not implemented: {}. Possible types are: {}"
  else if s = "ValueError: No new compute frameworks have been found." then .valueError "No new compute frameworks have been found."
  else .exception s

/-- a result of the model as the translation writes it -/
def liftM {β : Type} (x : Except String β) : Except PyExc β :=
  match x with
  | .ok b => .ok b
  | .error e => .error (toExc e)

@[simp] theorem liftM_ok {β : Type} (b : β) : liftM (.ok b : Except String β) = .ok b := rfl
@[simp] theorem liftM_error {β : Type} (e : String) : liftM (.error e : Except String β) = .error (toExc e) := rfl

/-- the value of a normal return through `f` (an exception stays) -/
def mapV {α β : Type} (x : Except PyExc α) (f : α → β) : Except PyExc β :=
  match x with
  | .ok a => .ok (f a)
  | .error e => .error e

@[simp] theorem mapV_ok {α β : Type} (a : α) (f : α → β) : mapV (.ok a) f = .ok (f a) := rfl
@[simp] theorem mapV_error {α β : Type} (e : PyExc) (f : α → β) : mapV (.error e : Except PyExc α) f = .error e := rfl

/-! ### planned-queue elements -/

/-- Python planned-queue element ↦ model element -/
def absP : Gen.LinkOrderGen.PEl → LinkOrder.PEl
  | .fg i => .fg i
  | .link k => .link (absK k)

def concP (L : Links) : LinkOrder.PEl → Gen.LinkOrderGen.PEl
  | .fg i => .fg i
  | .link k => .link (concK L k)

def CanonP (L : Links) : Gen.LinkOrderGen.PEl → Prop
  | .fg _ => True
  | .link k => CanonK L k

/-- element of `queue_with_link` -/
def absQ : Gen.LinkOrderGen.QItem → LinkOrder.QItem
  | .uuid u => .uuid u
  | .link k => .link (absK k)

/-- jointype id ↦ the model's three-way view (`JoinType.RIGHT`, another member of `JoinType`, not a member) -/
def jtOf (n : Nat) : JT := if n = jtRight then .right else if n < jtCount then .other else .invalid

/-! ### dict primitives against the model's (same definitions) -/
section dict
variable {κ : Type} [DecidableEq κ] {α : Type}

omit [DecidableEq κ] in
theorem keys_eq (d : List (κ × α)) : KDict.keys d = dkeys d := rfl

theorem get?_eq (d : List (κ × α)) (k : κ) : KDict.get? d k = dget d k := by
  induction d with
  | nil => rfl
  | cons e r ih => simp [KDict.get?, dget, ih]

theorem set_eq (d : List (κ × α)) (k : κ) (v : α) : KDict.set d k v = dset d k v := by
  unfold KDict.set dset dmodify; rfl

theorem has_eq (d : List (κ × α)) (k : κ) : KDict.has d k = decide (k ∈ dkeys d) := rfl

theorem delItem_eq (d : List (κ × α)) (k : κ) :
    KDict.delItem d k = if k ∈ dkeys d then .ok (ddel d k) else .error .keyError := by
  unfold KDict.delItem ddel; rfl

theorem moveToEnd_eq (d : List (κ × α)) (k : κ) :
    KDict.moveToEnd d k = if k ∈ dkeys d then .ok (moveToEnd d k) else .error .keyError := by
  unfold KDict.moveToEnd LinkOrder.moveToEnd; rfl

end dict

theorem add_eq (s : List Nat) (x : Nat) : PSet.add s x = sadd s x := rfl

end LinkGen
