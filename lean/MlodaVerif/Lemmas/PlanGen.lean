import MlodaVerif.Gen.PlanGen
import MlodaVerif.Model.PlanFull
import MlodaVerif.Lemmas.PyRt
/-! # Helper lemmas for `Props/C04_gen3.lean`: the translation `Gen/PlanGen.lean` of pieces of execution_plan.py /
joinstep_collection.py and the model `Model/PlanFull.lean`

Each generated function is first rewritten (`…_unfold`) into folds of small pure step functions defined here (`redStep`, `ffStep`,
`gppStep`, `rnStep`, `invInner`/`invAll`, `rlStep`, `simStep`); those are then related to the model by induction. -/
namespace PlanGenL
open PyRt

/-- closed examples / witnesses are decided by evaluation -/
scoped instance instDecEqExcept {ε α : Type} [DecidableEq ε] [DecidableEq α] : DecidableEq (Except ε α) := fun a b =>
  match a, b with
  | .ok x, .ok y => if h : x = y then isTrue (by rw [h]) else isFalse (fun e => h (Except.ok.inj e))
  | .error x, .error y => if h : x = y then isTrue (by rw [h]) else isFalse (fun e => h (Except.error.inj e))
  | .ok _, .error _ => isFalse (by intro e; cases e)
  | .error _, .ok _ => isFalse (by intro e; cases e)

/-- shortcut (instance search for the nested product runs out of size otherwise) -/
scoped instance decKD : DecidableEq (KDict Nat (List Gen.PlanGen.PKey)) := inferInstance

/-! ### sets -/

/-- `U s l`: add the elements of `l` to the set `s` one by one -/
def U (s : PSet) (l : List Nat) : PSet := l.foldl PSet.add s

theorem mem_add {s : PSet} {a x : Nat} : x ∈ PSet.add s a ↔ x ∈ s ∨ x = a := by
  unfold PSet.add; split <;> simp <;> grind

theorem mem_U {s : PSet} {l : List Nat} {x : Nat} : x ∈ U s l ↔ x ∈ s ∨ x ∈ l := by
  unfold U
  induction l generalizing s with
  | nil => simp
  | cons a t ih => simp only [List.foldl_cons, ih, mem_add, List.mem_cons]; grind

theorem U_append (s : PSet) (a b : List Nat) : U s (a ++ b) = U (U s a) b := by simp [U, List.foldl_append]

theorem U_eq (s : PSet) (l : List Nat) : U s l = s ++ (l.filter (fun x => decide (x ∉ s))).eraseDups := by
  induction l generalizing s with
  | nil => simp [U]
  | cons a t ih =>
    have h1 : U s (a :: t) = U (PSet.add s a) t := rfl
    rw [h1, ih]
    unfold PSet.add
    by_cases ha : a ∈ s
    · simp [ha]
    · simp only [ha, if_false, List.filter_cons, decide_not, decide_false, Bool.not_false, if_true, List.eraseDups_cons, List.filter_filter, List.append_assoc, List.singleton_append]
      congr 3
      apply List.filter_congr
      intro x _
      simp
      grind

/-- `set(l)` is `List.eraseDups` (first occurrences, in order) -/
theorem ofList_eq (l : List Nat) : PSet.ofList l = l.eraseDups := by
  have h := U_eq [] l
  have hf : l.filter (fun x => decide (x ∉ ([] : PSet))) = l := by
    rw [List.filter_eq_self]; intro a _; simp
  rw [hf] at h
  simpa [U, PSet.ofList] using h

theorem U_nil (l : List Nat) : U [] l = l.eraseDups := ofList_eq l

theorem mem_update {s t : PSet} {x : Nat} : x ∈ PSet.update s t ↔ x ∈ s ∨ x ∈ t := by
  unfold PSet.update; simp; grind

theorem update_nil (s : PSet) : PSet.update s [] = s := by simp [PSet.update]

theorem update_add (s t : PSet) (a : Nat) : PSet.update s (PSet.add t a) = PSet.add (PSet.update s t) a := by
  unfold PSet.add
  by_cases ha : a ∈ t
  · have : a ∈ PSet.update s t := mem_update.2 (Or.inr ha)
    simp [ha, this]
  · by_cases hs : a ∈ s
    · simp [ha, PSet.update, List.filter_append, hs]
    · simp [ha, PSet.update, List.filter_append, hs]

/-- `s.update(set(l))` adds the elements of `l` one by one -/
theorem update_U (s t : PSet) (l : List Nat) : PSet.update s (U t l) = U (PSet.update s t) l := by
  induction l generalizing t with
  | nil => rfl
  | cons a r ih =>
    show PSet.update s (U (PSet.add t a) r) = U (PSet.add (PSet.update s t) a) r
    rw [ih, update_add]

theorem eraseDups_of_nodup {l : List Nat} (h : l.Nodup) : l.eraseDups = l := by
  induction l with
  | nil => rfl
  | cons a t ih =>
    rw [List.nodup_cons] at h
    rw [List.eraseDups_cons]
    have : t.filter (fun b => !b == a) = t := by
      rw [List.filter_eq_self]; intro x hx; simp; intro e; subst e; exact h.1 hx
    rw [this, ih h.2]

/-- on a duplicate-free argument `s.update(t)` adds the elements one by one -/
theorem update_of_nodup (s : PSet) {t : PSet} (h : t.Nodup) : PSet.update s t = U s t := by
  rw [U_eq, eraseDups_of_nodup (h.sublist List.filter_sublist)]; rfl

theorem nodup_add {s : PSet} (a : Nat) (h : s.Nodup) : (PSet.add s a).Nodup := by
  unfold PSet.add; split
  · exact h
  · rw [List.nodup_append]; refine ⟨h, by simp, ?_⟩; intro x hx y hy; simp at hy; subst hy; intro e; subst e; contradiction

theorem nodup_U {s : PSet} (l : List Nat) (h : s.Nodup) : (U s l).Nodup := by
  induction l generalizing s with
  | nil => exact h
  | cons a r ih => exact ih (nodup_add a h)

theorem nodup_eraseDups (l : List Nat) : l.eraseDups.Nodup := by
  rw [← U_nil]; exact nodup_U l List.nodup_nil

/-- folding `update` over duplicate-free sets adds the elements of the concatenation one by one -/
theorem foldl_update {α : Type} (f : α → PSet) (l : List α) (s : PSet) (h : ∀ a ∈ l, (f a).Nodup) :
    l.foldl (fun s a => PSet.update s (f a)) s = U s (l.flatMap f) := by
  induction l generalizing s with
  | nil => rfl
  | cons a t ih =>
    simp only [List.foldl_cons, List.flatMap_cons, U_append]
    rw [ih _ (fun b hb => h b (List.mem_cons_of_mem _ hb)), update_of_nodup _ (h a List.mem_cons_self)]

theorem mem_foldl_update {α : Type} (f : α → PSet) (l : List α) (s : PSet) (x : Nat) :
    x ∈ l.foldl (fun s a => PSet.update s (f a)) s ↔ x ∈ s ∨ x ∈ l.flatMap f := by
  induction l generalizing s with
  | nil => simp
  | cons a t ih => simp only [List.foldl_cons, ih, mem_update, List.flatMap_cons, List.mem_append]; grind

/-- `new.discard(x)` on a duplicate-free set -/
theorem differenceUpdate_single {s : PSet} (h : s.Nodup) (x : Nat) : PSet.differenceUpdate s [x] = s.erase x := by
  rw [h.erase_eq_filter]; unfold PSet.differenceUpdate; apply List.filter_congr; intro y _; by_cases h : y = x <;> simp [h]

/-! ### `defaultdict` reads -/

theorem get?_set {V : Type} (d : NDict V) (k k' : Nat) (v : V) :
    NDict.get? (NDict.set d k v) k' = if k = k' then some v else NDict.get? d k' := by
  induction d with
  | nil => simp [NDict.set, NDict.get?]
  | cons e t ih =>
    obtain ⟨a, b⟩ := e
    simp only [NDict.set]
    split
    · rename_i h
      have h : a = k := by simpa using h
      subst h
      by_cases h2 : a = k' <;> simp [NDict.get?, h2]
    · rename_i h
      have h : ¬ a = k := by simpa using h
      simp only [NDict.get?, ih]
      by_cases h2 : a = k'
      · subst h2
        have : ¬ k = a := fun e => h e.symm
        simp [this]
      · simp [h2]
/-- a read of a `defaultdict` does not change what later reads see -/
theorem get_touch (d : NDict (List Nat)) (k k' : Nat) : DDict.get (NDict.set d k (DDict.get d k)) k' = DDict.get d k' := by
  unfold DDict.get
  rw [get?_set]
  split
  · rename_i h; subst h; cases NDict.get? d k <;> rfl
  · rfl

/-- reading an existing key leaves the dict as it is -/
theorem set_self {V : Type} (d : NDict V) (k : Nat) (v : V) (h : NDict.get? d k = some v) : NDict.set d k v = d := by
  induction d with
  | nil => simp [NDict.get?] at h
  | cons e t ih =>
    obtain ⟨a, b⟩ := e
    simp only [NDict.set, NDict.get?] at *
    by_cases hk : a = k
    · subst hk; simp at h; simp [h]
    · have : (a == k) = false := by simpa using hk
      simp only [this] at h ⊢
      simp [ih h]

/-! ### `reduce_children_to_one_level` -/

open Gen.PlanGen

/-- inner loop: `for c_o_c in child_of_child: if c_o_c in children_uuids: new.discard(c_o_c)` -/
def redInner (ch : PSet) (new : PSet) (l : List Nat) : PSet :=
  l.foldl (fun new x => if PSet.has ch x then PSet.differenceUpdate new [x] else new) new

/-- one round of the outer loop on the state `(adjacency_list, new_children_uuids)` -/
def redStep (ch : PSet) (child : Nat) (st : NDict (List Nat) × PSet) : NDict (List Nat) × PSet :=
  ((DDict.read st.1 child).2, redInner ch st.2 (DDict.read st.1 child).1)

theorem reduce_unfold (ch : PSet) (adj : NDict (List Nat)) :
    Plan.reduce_children_to_one_level ch () adj =
      .ok ((ch.foldl (fun st c => redStep ch c st) (adj, ch)).2, (ch.foldl (fun st c => redStep ch c st) (adj, ch)).1) := by
  unfold Plan.reduce_children_to_one_level
  simp only [bind, Except.bind, pure, Except.pure]
  rw [PyRt.forIn_yield_spec ch _ (fun c st => redStep ch c st)]
  intro child st
  rw [PyRt.forIn_yield_spec _ _ (fun x new => if PSet.has ch x then PSet.differenceUpdate new [x] else new)]
  · rfl
  · intro x new
    split <;> rfl

theorem redInner_nodup (ch : PSet) (l : List Nat) (new : PSet) (h : new.Nodup) : (redInner ch new l).Nodup := by
  induction l generalizing new with
  | nil => exact h
  | cons a t ih =>
    simp only [redInner, List.foldl_cons]
    apply ih
    split
    · exact h.sublist List.filter_sublist
    · exact h

theorem redInner_eq (ch : PSet) (l : List Nat) (new : PSet) (h : new.Nodup) :
    redInner ch new l = l.foldl (fun new x => if x ∈ ch then new.erase x else new) new := by
  induction l generalizing new with
  | nil => rfl
  | cons a t ih =>
    simp only [redInner, List.foldl_cons, PSet.has]
    by_cases ha : a ∈ ch
    · simp only [ha, decide_true, if_true]
      rw [differenceUpdate_single h]
      exact ih _ (h.erase a)
    · simp only [ha, decide_false, if_false]
      exact ih _ h

theorem reduce_loop (ch : PSet) (adj : NDict (List Nat)) (l : List Nat) (st : NDict (List Nat) × PSet)
    (hn : st.2.Nodup) (hg : ∀ k, DDict.get st.1 k = DDict.get adj k) :
    (l.foldl (fun st c => redStep ch c st) st).2 =
        l.foldl (fun new c => (DDict.get adj c).foldl (fun new x => if x ∈ ch then new.erase x else new) new) st.2 ∧
      ∀ k, DDict.get (l.foldl (fun st c => redStep ch c st) st).1 k = DDict.get adj k := by
  induction l generalizing st with
  | nil => exact ⟨rfl, hg⟩
  | cons c t ih =>
    simp only [List.foldl_cons]
    have h1 : (redStep ch c st).2 = (DDict.get adj c).foldl (fun new x => if x ∈ ch then new.erase x else new) st.2 := by
      simp only [redStep, DDict.read, hg]
      exact redInner_eq ch _ _ hn
    have h2 : ∀ k, DDict.get (redStep ch c st).1 k = DDict.get adj k := by
      intro k
      simp only [redStep, DDict.read]
      rw [get_touch, hg]
    have h3 : (redStep ch c st).2.Nodup := redInner_nodup ch _ _ hn
    have := ih (redStep ch c st) h3 h2
    rw [h1] at this
    exact this

/-! ### `find_feature_uuids` -/

theorem set_new {V : Type} (d : NDict V) (k : Nat) (v : V) (h : NDict.get? d k = none) : NDict.set d k v = d ++ [(k, v)] := by
  induction d with
  | nil => rfl
  | cons e t ih =>
    obtain ⟨a, b⟩ := e
    simp only [NDict.get?] at h
    split at h
    · cases h
    · rename_i hk
      simp only [NDict.set, hk, List.cons_append, ih h]
      rfl

theorem get?_append_new {V : Type} (d : NDict V) (k : Nat) (v : V) (h : NDict.get? d k = none) :
    NDict.get? (d ++ [(k, v)]) k = some v := by
  rw [← set_new d k v h, get?_set]; simp

theorem set_append_new {V : Type} (d : NDict V) (k : Nat) (v v' : V) (h : NDict.get? d k = none) :
    NDict.set (d ++ [(k, v)]) k v' = d ++ [(k, v')] := by
  induction d with
  | nil => simp [NDict.set]
  | cons e t ih =>
    obtain ⟨a, b⟩ := e
    simp only [NDict.get?] at h
    split at h
    · cases h
    · rename_i hk
      simp only [List.cons_append, NDict.set, hk, ih h]
      rfl

theorem get?_append_ne {V : Type} (d : NDict V) (k k' : Nat) (v : V) (hk : k ≠ k') :
    NDict.get? (d ++ [(k, v)]) k' = NDict.get? d k' := by
  induction d with
  | nil => simp [NDict.get?, hk]
  | cons e t ih => simp only [List.cons_append, NDict.get?, ih]

/-- inner loop of `find_feature_uuids` on the state `(feature_set_collection_per_uuid, already_used_parents)` -/
def ffInner (p : Nat) (fsc : List PSet) (st : NDict (List Nat) × PSet) : NDict (List Nat) × PSet :=
  fsc.foldl (fun st fu => if PSet.has fu p then (DDict.updateAt st.1 p fu, PSet.update st.2 fu) else st) st

def ffStep (fsc : List PSet) (p : Nat) (st : NDict (List Nat) × PSet) : NDict (List Nat) × PSet :=
  if PSet.has st.2 p then st else ffInner p fsc st

theorem find_unfold (parents : PSet) (fsc : List PSet) :
    Plan.find_feature_uuids parents fsc = .ok (parents.foldl (fun st p => ffStep fsc p st) ([], [])).1 := by
  unfold Plan.find_feature_uuids
  simp only [bind, Except.bind, pure, Except.pure]
  rw [PyRt.forIn_yield_spec parents _ (fun p st => ffStep fsc p st)]
  intro p st
  unfold ffStep
  split
  · rfl
  · rw [PyRt.forIn_yield_spec _ _ (fun fu st => if PSet.has fu p then (DDict.updateAt st.1 p fu, PSet.update st.2 fu) else st)]
    · rfl
    · intro fu st'
      split <;> rfl

theorem ffInner_filter (p : Nat) (fsc : List PSet) (st : NDict (List Nat) × PSet) :
    ffInner p fsc st = (fsc.filter (fun s => decide (p ∈ s))).foldl (fun st fu => (DDict.updateAt st.1 p fu, PSet.update st.2 fu)) st := by
  unfold ffInner
  induction fsc generalizing st with
  | nil => rfl
  | cons a t ih =>
    simp only [List.foldl_cons, List.filter_cons, PSet.has]
    by_cases h : p ∈ a
    · simp only [h, decide_true, if_true, List.foldl_cons]; exact ih _
    · simp only [h, decide_false]
      exact ih _

theorem ff_hits_tail (p : Nat) (hs : List PSet) (d : NDict (List Nat)) (v used : PSet) (hd : NDict.get? d p = none) :
    hs.foldl (fun (st : NDict (List Nat) × PSet) fu => (DDict.updateAt st.1 p fu, PSet.update st.2 fu)) (d ++ [(p, v)], used) =
      (d ++ [(p, hs.foldl PSet.update v)], hs.foldl PSet.update used) := by
  induction hs generalizing v used with
  | nil => rfl
  | cons a t ih =>
    simp only [List.foldl_cons, DDict.updateAt, DDict.get, get?_append_new d p v hd, Option.getD_some, set_append_new d p _ _ hd]
    exact ih _ _

/-- the inner loop for a parent that has no entry yet: nothing, or one new entry at the end -/
theorem ffInner_new (p : Nat) (fsc : List PSet) (d : NDict (List Nat)) (used : PSet) (hd : NDict.get? d p = none) :
    ffInner p fsc (d, used) =
      if (fsc.filter (fun s => decide (p ∈ s))).isEmpty then (d, used)
      else (d ++ [(p, (fsc.filter (fun s => decide (p ∈ s))).foldl PSet.update [])], (fsc.filter (fun s => decide (p ∈ s))).foldl PSet.update used) := by
  rw [ffInner_filter]
  cases hh : fsc.filter (fun s => decide (p ∈ s)) with
  | nil => rfl
  | cons a t =>
    simp only [List.foldl_cons, List.isEmpty_cons, Bool.false_eq_true, if_false]
    have h1 : DDict.updateAt d p a = d ++ [(p, PSet.update [] a)] := by
      simp only [DDict.updateAt, DDict.get, hd, Option.getD_none]
      exact set_new d p _ hd
    simp only [h1]
    exact ff_hits_tail p t d _ _ hd

theorem foldl_update_sets (hs : List PSet) (s : PSet) (h : ∀ a ∈ hs, a.Nodup) : hs.foldl PSet.update s = U s hs.flatten := by
  have := foldl_update (fun a => a) hs s h
  simpa [List.flatMap_id] using this

theorem mem_foldl_update_sets (hs : List PSet) (s : PSet) (x : Nat) : x ∈ hs.foldl PSet.update s ↔ x ∈ s ∨ x ∈ hs.flatten := by
  have := mem_foldl_update (fun a => a) hs s x
  simpa [List.flatMap_id] using this

theorem find_loop (fsc : List PSet) (hnd : ∀ s ∈ fsc, s.Nodup) (ps : List Nat) (st : NDict (List Nat) × PSet) (used : List Nat)
    (hu : ∀ x, x ∈ st.2 ↔ x ∈ used) (hk : ∀ k, k ∉ st.2 → NDict.get? st.1 k = none) :
    (ps.foldl (fun st p => ffStep fsc p st) st).1 = PlanFull.findGo fsc ps used st.1 := by
  induction ps generalizing st used with
  | nil => rfl
  | cons p t ih =>
    simp only [List.foldl_cons, PlanFull.findGo]
    by_cases hp : p ∈ st.2
    · have hp' : p ∈ used := (hu p).1 hp
      have : ffStep fsc p st = st := by simp [ffStep, PSet.has, hp]
      rw [this, if_pos hp']
      exact ih st used hu hk
    · have hp' : p ∉ used := fun h => hp ((hu p).2 h)
      have h1 : ffStep fsc p st = ffInner p fsc (st.1, st.2) := by simp [ffStep, PSet.has, hp]
      rw [h1, if_neg hp', ffInner_new p fsc st.1 st.2 (hk p hp)]
      cases hh : fsc.filter (fun s => decide (p ∈ s)) with
      | nil =>
        simp only [List.isEmpty_nil, if_true]
        exact ih st used hu hk
      | cons a r =>
        simp only [List.isEmpty_cons, Bool.false_eq_true, if_false]
        have hnd' : ∀ s ∈ a :: r, s.Nodup := by
          intro s hs; rw [← hh] at hs; exact hnd s (List.mem_filter.1 hs).1
        have hpa : p ∈ a := by
          have : a ∈ fsc.filter (fun s => decide (p ∈ s)) := by rw [hh]; exact List.mem_cons_self
          simpa using (List.mem_filter.1 this).2
        rw [foldl_update_sets (a :: r) [] hnd', U_nil]
        apply ih
        · intro x
          show x ∈ List.foldl PSet.update st.2 (a :: r) ↔ x ∈ used ++ (a :: r).flatten
          rw [mem_foldl_update_sets, List.mem_append, hu]
        · intro k hk'
          show NDict.get? (st.1 ++ [(p, (a :: r).flatten.eraseDups)]) k = none
          have hk2 : k ∉ List.foldl PSet.update st.2 (a :: r) := hk'
          rw [mem_foldl_update_sets] at hk2
          have hkp : p ≠ k := by
            intro e; subst e; apply hk2; right; simp [hpa]
          rw [get?_append_ne _ _ _ _ hkp]
          exact hk k (fun h => hk2 (Or.inl h))

/-! ### `get_parent_parents`, `retrieve_nodes_which_must_be_calculated_before` -/

def gppStep (p : Nat) (st : NDict (List Nat) × PSet) : NDict (List Nat) × PSet :=
  ((DDict.read st.1 p).2, PSet.update st.2 (DDict.read st.1 p).1)

theorem gpp_unfold (parents : PSet) (p2c : NDict (List Nat)) :
    Plan.get_parent_parents parents () p2c =
      .ok ((parents.foldl (fun st p => gppStep p st) (p2c, [])).2, (parents.foldl (fun st p => gppStep p st) (p2c, [])).1) := by
  unfold Plan.get_parent_parents
  simp only [bind, Except.bind, pure, Except.pure]
  rw [PyRt.forIn_yield_spec parents _ (fun p st => gppStep p st)]
  intro p st
  unfold gppStep
  split
  · rfl
  · rename_i h
    have h0 : (DDict.read st.1 p).1 = [] := by
      cases hh : (DDict.read st.1 p).1 with
      | nil => rfl
      | cons a t => rw [hh] at h; simp at h
    rw [h0, update_nil]

theorem gpp_loop (p2c : NDict (List Nat)) (ps : List Nat) (st : NDict (List Nat) × PSet)
    (hg : ∀ k, DDict.get st.1 k = DDict.get p2c k) :
    (ps.foldl (fun st p => gppStep p st) st).2 = ps.foldl (fun s p => PSet.update s (DDict.get p2c p)) st.2 ∧
      ∀ k, DDict.get (ps.foldl (fun st p => gppStep p st) st).1 k = DDict.get p2c k := by
  induction ps generalizing st with
  | nil => exact ⟨rfl, hg⟩
  | cons p t ih =>
    simp only [List.foldl_cons]
    have h2 : ∀ k, DDict.get (gppStep p st).1 k = DDict.get p2c k := by
      intro k
      simp only [gppStep, DDict.read]
      rw [get_touch, hg]
    have h1 : (gppStep p st).2 = PSet.update st.2 (DDict.get p2c p) := by
      simp only [gppStep, DDict.read, hg]
    have := ih (gppStep p st) h2
    rw [h1] at this
    exact this

def rnStep (f : Nat) (st : NDict (List Nat) × PSet) : NDict (List Nat) × PSet :=
  if NDict.has st.1 f then ((DDict.read st.1 f).2, PSet.update st.2 (DDict.read st.1 f).1) else st

theorem rn_unfold (feats : List Nat) (p2c : NDict (List Nat)) :
    Plan.retrieve_nodes_which_must_be_calculated_before feats p2c =
      .ok ((feats.foldl (fun st f => rnStep f st) (p2c, [])).2, (feats.foldl (fun st f => rnStep f st) (p2c, [])).1) := by
  unfold Plan.retrieve_nodes_which_must_be_calculated_before
  simp only [bind, Except.bind, pure, Except.pure]
  rw [PyRt.forIn_yield_spec feats _ (fun f st => rnStep f st)]
  intro f st
  unfold rnStep
  split <;> rfl

/-- the guarded read changes nothing; a feature without an entry contributes nothing -/
theorem rnStep_eq (f : Nat) (st : NDict (List Nat) × PSet) : rnStep f st = (st.1, PSet.update st.2 (DDict.get st.1 f)) := by
  unfold rnStep NDict.has DDict.read DDict.get
  cases h : NDict.get? st.1 f with
  | none => simp [update_nil]
  | some v => simp [set_self st.1 f v h]

theorem rn_loop (feats : List Nat) (st : NDict (List Nat) × PSet) :
    feats.foldl (fun st f => rnStep f st) st = (st.1, feats.foldl (fun s f => PSet.update s (DDict.get st.1 f)) st.2) := by
  induction feats generalizing st with
  | nil => rfl
  | cons f t ih =>
    simp only [List.foldl_cons]
    rw [ih, rnStep_eq]

/-! ### dicts with arbitrary keys -/

section kdict
variable {K V : Type} [DecidableEq K]

theorem kget?_none_iff (d : KDict K V) (k : K) : KDict.get? d k = none ↔ k ∉ KDict.keys d := by
  induction d with
  | nil => simp [KDict.get?, KDict.keys]
  | cons e t ih =>
    simp only [KDict.get?, KDict.keys, List.map_cons, List.mem_cons, not_or] at *
    by_cases h : e.1 = k
    · simp [h]
    · simp only [h, if_false, ih]
      constructor
      · intro h'; exact ⟨fun e' => h e'.symm, h'⟩
      · intro h'; exact h'.2

theorem kget?_append_none (d d' : KDict K V) (k : K) (h : KDict.get? d k = none) : KDict.get? (d ++ d') k = KDict.get? d' k := by
  induction d with
  | nil => rfl
  | cons e t ih =>
    simp only [KDict.get?] at h
    split at h
    · cases h
    · rename_i hk; simp only [List.cons_append, KDict.get?, hk, if_false]; exact ih h

theorem kget?_append_some (d d' : KDict K V) (k : K) (v : V) (h : KDict.get? d k = some v) : KDict.get? (d ++ d') k = some v := by
  induction d with
  | nil => cases h
  | cons e t ih =>
    simp only [KDict.get?] at h
    split at h
    · rename_i hk; simp only [List.cons_append, KDict.get?, hk, if_true]; exact h
    · rename_i hk; simp only [List.cons_append, KDict.get?, hk, if_false]; exact ih h

theorem kget?_map_val (g : K → V → V) (d : KDict K V) (k : K) :
    KDict.get? (d.map (fun e => (e.1, g e.1 e.2))) k = (KDict.get? d k).map (g k) := by
  induction d with
  | nil => rfl
  | cons e t ih =>
    simp only [List.map_cons, KDict.get?]
    by_cases h : e.1 = k
    · simp [h]
    · simp [h, ih]

omit [DecidableEq K] in
theorem keys_map_val (g : K → V → V) (d : KDict K V) : KDict.keys (d.map (fun e => (e.1, g e.1 e.2))) = KDict.keys d := by
  simp [KDict.keys, List.map_map, Function.comp_def]

end kdict

/-- the value `d[u]` of the `defaultdict(set)` (`[]` for a missing key) -/
def getL {K E : Type} [DecidableEq K] (d : KDict K (List E)) (u : K) : List E := (KDict.get? d u).getD []

section addAt
variable {K E : Type} [DecidableEq K] [DecidableEq E]

theorem addAt_eq (d : KDict K (List E)) (k : K) (x : E) :
    KDict.addAt d k x = if k ∈ KDict.keys d then d.map (fun e => (e.1, if e.1 = k then PyList.addE e.2 x else e.2)) else d ++ [(k, [x])] := by
  unfold KDict.addAt
  split
  · apply List.map_congr_left
    intro e _
    unfold PyList.addE
    split <;> rfl
  · rfl

theorem getL_addAt (d : KDict K (List E)) (k k' : K) (x : E) :
    getL (KDict.addAt d k x) k' = if k' = k then PyList.addE (getL d k) x else getL d k' := by
  rw [addAt_eq]
  unfold getL
  by_cases hk : k ∈ KDict.keys d
  · rw [if_pos hk, kget?_map_val (fun a v => if a = k then PyList.addE v x else v)]
    by_cases h : k' = k
    · subst h
      have : KDict.get? d k' ≠ none := fun h => (kget?_none_iff d k').1 h hk
      cases hh : KDict.get? d k' with
      | none => exact absurd hh this
      | some v => simp
    · cases hh : KDict.get? d k' <;> simp [h]
  · rw [if_neg hk]
    have hn := (kget?_none_iff d k).2 hk
    by_cases h : k' = k
    · subst h
      rw [kget?_append_none _ _ _ hn, hn]
      simp [KDict.get?, PyList.addE]
    · rw [if_neg h]
      cases hh : KDict.get? d k' with
      | none => rw [kget?_append_none _ _ _ hh]; simp [KDict.get?, Ne.symm h]
      | some v => rw [kget?_append_some _ _ _ _ hh]

theorem keys_addAt (d : KDict K (List E)) (k k' : K) (x : E) :
    k' ∈ KDict.keys (KDict.addAt d k x) ↔ k' ∈ KDict.keys d ∨ k' = k := by
  rw [addAt_eq]
  by_cases hk : k ∈ KDict.keys d
  · rw [if_pos hk, keys_map_val (fun a v => if a = k then PyList.addE v x else v)]
    constructor
    · exact Or.inl
    · rintro (h | h)
      · exact h
      · subst h; exact hk
  · rw [if_neg hk]; simp [KDict.keys]

theorem addE_idem (l : List E) (x : E) : PyList.addE (PyList.addE l x) x = PyList.addE l x := by
  unfold PyList.addE
  by_cases h : x ∈ l <;> simp [h]

/-- `for uuid in uuids: new_dict[uuid].add(link)` -/
def invInner (k : E) (us : List K) (d : KDict K (List E)) : KDict K (List E) := us.foldl (fun d u => KDict.addAt d u k) d

theorem getL_invInner (k : E) (us : List K) (d : KDict K (List E)) (u : K) :
    getL (invInner k us d) u = if u ∈ us then PyList.addE (getL d u) k else getL d u := by
  unfold invInner
  induction us generalizing d with
  | nil => simp
  | cons a t ih =>
    simp only [List.foldl_cons, ih, getL_addAt, List.mem_cons]
    by_cases h1 : u = a
    · subst h1; simp [addE_idem]
    · simp [h1]

theorem keys_invInner (k : E) (us : List K) (d : KDict K (List E)) (u : K) :
    u ∈ KDict.keys (invInner k us d) ↔ u ∈ KDict.keys d ∨ u ∈ us := by
  unfold invInner
  induction us generalizing d with
  | nil => simp
  | cons a t ih => simp only [List.foldl_cons, ih, keys_addAt, List.mem_cons]; grind

/-- the two loops of `invert_link_trekker` -/
def invAll (data : List (E × List K)) (d : KDict K (List E)) : KDict K (List E) := data.foldl (fun d e => invInner e.1 e.2 d) d

theorem getL_invAll (data : List (E × List K)) (d : KDict K (List E)) (u : K) (hnd : (data.map (·.1)).Nodup)
    (hd : ∀ k ∈ getL d u, k ∉ data.map (·.1)) :
    getL (invAll data d) u = getL d u ++ (data.filter (fun e => decide (u ∈ e.2))).map (·.1) := by
  unfold invAll
  induction data generalizing d with
  | nil => simp
  | cons e t ih =>
    simp only [List.map_cons, List.nodup_cons] at hnd
    simp only [List.foldl_cons]
    have hstep : getL (invInner e.1 e.2 d) u = getL d u ++ (if u ∈ e.2 then [e.1] else []) := by
      rw [getL_invInner]
      by_cases hu : u ∈ e.2
      · have : e.1 ∉ getL d u := fun h => hd _ h (by simp)
        simp [hu, PyList.addE, this]
      · simp [hu]
    rw [ih _ hnd.2, hstep]
    · by_cases hu : u ∈ e.2 <;> simp [hu]
    · intro k hk
      rw [hstep] at hk
      rcases List.mem_append.1 hk with h | h
      · exact fun h' => hd k h (by simp [h'])
      · by_cases hu : u ∈ e.2
        · simp [hu] at h; subst h; exact hnd.1
        · simp [hu] at h

theorem keys_invAll (data : List (E × List K)) (d : KDict K (List E)) (u : K) :
    u ∈ KDict.keys (invAll data d) ↔ u ∈ KDict.keys d ∨ ∃ e ∈ data, u ∈ e.2 := by
  unfold invAll
  induction data generalizing d with
  | nil => simp
  | cons e t ih => simp only [List.foldl_cons, ih, keys_invInner, List.mem_cons]; grind

end addAt

theorem invert_unfold (t : PTrek) : Plan.invert_link_trekker t = .ok (invAll t.data []) := by
  unfold Plan.invert_link_trekker
  simp only [bind, Except.bind, pure, Except.pure]
  rw [PyRt.forIn_yield_spec t.data _ (fun e d => invInner e.1 e.2 d)]
  · rfl
  · intro e d
    rw [PyRt.forIn_yield_spec e.2 _ (fun u d => KDict.addAt d u e.1)]
    · rfl
    · intro u d'; rfl

/-! ### the abstraction to `PlanFull` -/

/-- a key of `link_trekker.data` as the model sees it -/
def absK (k : PKey) : PlanFull.Key := ⟨k.1.uuid, k.2.1, k.2.2⟩

/-- `link_trekker.data.items()` as the model sees it -/
def absData (t : PTrek) : List (PlanFull.Key × List Nat) := t.data.map (fun e => (absK e.1, e.2))

theorem absK_inj {a b : PKey} (h : absK a = absK b) : a = b := by
  obtain ⟨⟨a1⟩, a2, a3⟩ := a
  obtain ⟨⟨b1⟩, b2, b3⟩ := b
  simp only [absK, PlanFull.Key.mk.injEq] at h
  obtain ⟨h1, h2, h3⟩ := h
  subst h1 h2 h3
  rfl

theorem childLinks_abs (t : PTrek) (u : Nat) :
    PlanFull.childLinks (absData t) u = ((t.data.filter (fun e => decide (u ∈ e.2))).map (·.1)).map absK := by
  simp [PlanFull.childLinks, absData, List.filter_map, List.map_map, Function.comp_def]

theorem childLinks_ne_nil (t : PTrek) (u : Nat) : PlanFull.childLinks (absData t) u ≠ [] ↔ ∃ e ∈ t.data, u ∈ e.2 := by
  rw [childLinks_abs]
  constructor
  · intro h
    cases hh : t.data.filter (fun e => decide (u ∈ e.2)) with
    | nil => rw [hh] at h; exact absurd rfl h
    | cons a r =>
      have : a ∈ t.data.filter (fun e => decide (u ∈ e.2)) := by rw [hh]; exact List.mem_cons_self
      rw [List.mem_filter] at this
      exact ⟨a, this.1, by simpa using this.2⟩
  · rintro ⟨e, he, hu⟩ h
    have : e ∈ t.data.filter (fun e => decide (u ∈ e.2)) := List.mem_filter.2 ⟨he, by simpa using hu⟩
    cases hh : t.data.filter (fun e => decide (u ∈ e.2)) with
    | nil => rw [hh] at this; cases this
    | cons a r => rw [hh] at h; simp at h

/-- `invert_link_trekker(t)[u]` is the model's `childLinks` (keys of `t.data` pairwise different) -/
theorem invert_get (t : PTrek) (hk : (t.data.map (·.1)).Nodup) (u : Nat) :
    (getL (invAll t.data []) u).map absK = PlanFull.childLinks (absData t) u := by
  rw [getL_invAll t.data [] u hk (by intro k h; cases h), childLinks_abs]
  rfl

/-! ### `retrieve_links_which_must_be_calculated_before` -/

theorem foldl_U {α : Type} (f : α → List Nat) (l : List α) (s : PSet) : l.foldl (fun s a => U s (f a)) s = U s (l.flatMap f) := by
  induction l generalizing s with
  | nil => rfl
  | cons a t ih => simp only [List.foldl_cons, List.flatMap_cons, U_append, ih]

theorem update_ofList (s : PSet) (l : List Nat) : PSet.update s (PSet.ofList l) = U s l := by
  have := update_U s [] l
  rw [update_nil] at this
  exact this

def rlStep (f : Nat) (st : KDict Nat (List PKey) × PSet) : KDict Nat (List PKey) × PSet :=
  if KDict.has st.1 f then
    ((KDict.readD st.1 f []).2, PSet.update st.2 (PSet.ofList (List.map (fun link => link.1.uuid) (KDict.readD st.1 f []).1)))
  else st

theorem rl_unfold (feats : List Nat) (d : KDict Nat (List PKey)) :
    Plan.retrieve_links_which_must_be_calculated_before feats d =
      .ok ((feats.foldl (fun st f => rlStep f st) (d, [])).2, (feats.foldl (fun st f => rlStep f st) (d, [])).1) := by
  unfold Plan.retrieve_links_which_must_be_calculated_before
  simp only [bind, Except.bind, pure, Except.pure]
  rw [PyRt.forIn_yield_spec feats _ (fun f st => rlStep f st)]
  intro f st
  unfold rlStep
  split <;> rfl

/-- the guarded read of the defaultdict inserts nothing -/
theorem rlStep_eq (f : Nat) (st : KDict Nat (List PKey) × PSet) :
    rlStep f st = (st.1, U st.2 ((getL st.1 f).map (fun link => link.1.uuid))) := by
  unfold rlStep KDict.has KDict.readD getL
  cases h : KDict.get? st.1 f with
  | none =>
    have := (kget?_none_iff st.1 f).1 h
    simp [this, U]
  | some v =>
    have : f ∈ KDict.keys st.1 := by
      apply Classical.byContradiction
      intro hn
      rw [(kget?_none_iff st.1 f).2 hn] at h
      cases h
    simp only [this, decide_true, if_true, Option.getD_some, update_ofList]

theorem rl_loop (feats : List Nat) (st : KDict Nat (List PKey) × PSet) :
    feats.foldl (fun st f => rlStep f st) st = (st.1, U st.2 (feats.flatMap (fun f => (getL st.1 f).map (fun link => link.1.uuid)))) := by
  rw [← foldl_U]
  induction feats generalizing st with
  | nil => rfl
  | cons f t ih =>
    simp only [List.foldl_cons]
    rw [ih, rlStep_eq]

/-! ### `JoinStepCollection` -/

/-- what the model's `collection` entry and the Python one have in common: the two frameworks, `get_uuids()`, the stored set -/
abbrev JRow := Nat × Nat × List Nat × List Nat

def simT (l : List JRow) (lf rf : Nat) : List Nat :=
  ((l.filter (fun e => e.1 == lf || e.2.1 == lf || e.1 == rf || e.2.1 == rf)).flatMap (·.2.2.1)).eraseDups

def rowPy (e : PJoin × PSet) : JRow := (e.1.left_framework, e.1.right_framework, [e.1.uuid, e.1.link_uuid], e.2)
def rowM (e : PlanFull.PStep × List Nat) : JRow := (e.1.fw, e.1.fw2, e.1.outs, e.2)

theorem similarUuids_eq (coll : List (PlanFull.PStep × List Nat)) (lf rf : Nat) :
    PlanFull.similarUuids coll lf rf = simT (coll.map rowM) lf rf := by
  simp [PlanFull.similarUuids, simT, rowM, List.filter_map, List.flatMap_map, Function.comp_def]

def simStep (lf rf : Nat) (step : PJoin) (s : PSet) : PSet :=
  if (step.left_framework == lf || step.right_framework == lf || step.left_framework == rf || step.right_framework == rf) then
    PSet.update s (PSet.ofList [step.uuid, step.link_uuid])
  else s

theorem similar_unfold (self : Jsc.JscSelf) (lf rf : Nat) :
    Jsc.similar_dependent_joins_uuids self lf rf = .ok ((KDict.keys self.collection).foldl (fun s step => simStep lf rf step s) []) := by
  unfold Jsc.similar_dependent_joins_uuids
  simp only [bind, Except.bind, pure, Except.pure]
  rw [PyRt.forIn_yield_spec _ _ (fun step s => simStep lf rf step s)]
  intro step s
  unfold simStep
  split <;> rfl

theorem similar_loop (lf rf : Nat) (c : KDict PJoin PSet) (s : PSet) :
    (KDict.keys c).foldl (fun s step => simStep lf rf step s) s =
      U s (((c.map rowPy).filter (fun e => e.1 == lf || e.2.1 == lf || e.1 == rf || e.2.1 == rf)).flatMap (·.2.2.1)) := by
  induction c generalizing s with
  | nil => rfl
  | cons e t ih =>
    simp only [KDict.keys, List.map_cons, List.foldl_cons] at ih ⊢
    rw [ih]
    unfold simStep
    simp only [List.filter_cons, rowPy]
    split
    · simp only [List.flatMap_cons, U_append, update_ofList]
    · rfl

theorem similar_eq (self : Jsc.JscSelf) (lf rf : Nat) :
    Jsc.similar_dependent_joins_uuids self lf rf = .ok (simT (self.collection.map rowPy) lf rf) := by
  rw [similar_unfold, similar_loop, U_nil]; rfl

theorem add_eq (self : Jsc.JscSelf) (j : PJoin) :
    Jsc.add self j = .ok { collection := KDict.set self.collection j (simT (self.collection.map rowPy) j.left_framework j.right_framework) } := by
  unfold Jsc.add
  simp only [bind, Except.bind, pure, Except.pure, similar_eq]

theorem kset_new {K V : Type} [DecidableEq K] (d : KDict K V) (k : K) (v : V) (h : k ∉ KDict.keys d) : KDict.set d k v = d ++ [(k, v)] := by
  unfold KDict.set; rw [if_neg h]

theorem get_required_eq (self : Jsc.JscSelf) (j : PJoin) :
    Jsc.get_required_join_uuids self j = .ok ((KDict.readD self.collection j []).1, { collection := (KDict.readD self.collection j []).2 }) := rfl

theorem readD_some {K V : Type} [DecidableEq K] (d : KDict K V) (k : K) (dflt v : V) (h : KDict.get? d k = some v) :
    KDict.readD d k dflt = (v, d) := by
  unfold KDict.readD; rw [h]

theorem readD_none {K V : Type} [DecidableEq K] (d : KDict K V) (k : K) (dflt : V) (h : KDict.get? d k = none) :
    KDict.readD d k dflt = (dflt, d ++ [(k, dflt)]) := by
  unfold KDict.readD; rw [h]

/-- the model's view of `collection`: uuid of the step ↦ stored set -/
def jcPy (c : KDict PJoin PSet) : List (Nat × List Nat) := c.map (fun e => (e.1.uuid, e.2))

/-- look-up by the step (Python: `JoinStep.__eq__` compares the uuids) is the model's look-up by uuid when the uuids of the
stored steps are pairwise different -/
theorem collOf_get (c : KDict PJoin PSet) (j : PJoin) (v : PSet) (hnd : (c.map (·.1.uuid)).Nodup) (h : KDict.get? c j = some v) :
    PlanFull.collOf (jcPy c) j.uuid = v := by
  induction c with
  | nil => cases h
  | cons e t ih =>
    simp only [List.map_cons, List.nodup_cons] at hnd
    simp only [KDict.get?] at h
    split at h
    · rename_i he
      cases h
      subst he
      simp [PlanFull.collOf, jcPy]
    · rename_i he
      have hj : j ∈ KDict.keys t := by
        apply Classical.byContradiction
        intro hn
        rw [(kget?_none_iff t j).2 hn] at h
        cases h
      have hu : e.1.uuid ≠ j.uuid := by
        intro heq
        apply hnd.1
        rw [heq]
        simp only [KDict.keys, List.mem_map] at hj ⊢
        obtain ⟨x, hx, hxj⟩ := hj
        exact ⟨x, hx, by rw [hxj]⟩
      have := ih hnd.2 h
      simp only [PlanFull.collOf, jcPy, List.map_cons, List.find?_cons] at this ⊢
      have hb : (e.1.uuid == j.uuid) = false := by simpa using hu
      rw [hb]
      exact this

theorem collOf_fresh (c : KDict PJoin PSet) (u : Nat) (h : u ∉ c.map (·.1.uuid)) : PlanFull.collOf (jcPy c) u = [] := by
  induction c with
  | nil => rfl
  | cons e t ih =>
    simp only [List.map_cons, List.mem_cons, not_or] at h
    have hb : (e.1.uuid == u) = false := by simpa using (fun e' => h.1 e'.symm)
    have := ih h.2
    simp only [PlanFull.collOf, jcPy, List.map_cons, List.find?_cons, hb] at this ⊢
    exact this

end PlanGenL
