import MlodaVerif.Model.PyVal
/-! Lemmas about `PyVal`: list-level characterisations of the mutually recursive definitions, an induction principle,
and the key fact behind every hash/eq coherence theorem: `pyEq v w → pyEq (mh v) (mh w)`. -/

namespace PyVal

/-! ## induction principle for the nested inductive type -/

theorem induct (P : PyVal → Prop)
    (hnone : P .none) (hbool : ∀ b, P (.bool b)) (hint : ∀ i, P (.int i)) (hfloat : ∀ m e, P (.float m e))
    (hstr : ∀ s, P (.str s)) (hobj : ∀ n, P (.obj n)) (hfeat : ∀ n c, P (.feat n c))
    (htuple : ∀ l, (∀ x ∈ l, P x) → P (.tuple l))
    (hlist : ∀ l, (∀ x ∈ l, P x) → P (.list l))
    (hset : ∀ l, (∀ x ∈ l, P x) → P (.set l))
    (hfrozenset : ∀ l, (∀ x ∈ l, P x) → P (.frozenset l))
    (hdict : ∀ d, (∀ kv ∈ d, P kv.2) → P (.dict d)) : ∀ v, P v := by
  intro v
  refine PyVal.rec (motive_1 := P) (motive_2 := fun l => ∀ x ∈ l, P x) (motive_3 := fun d => ∀ kv ∈ d, P kv.2)
    (motive_4 := fun kv => P kv.2) hnone hbool hint hfloat hstr hobj hfeat htuple hlist hset hfrozenset hdict
    ?_ ?_ ?_ ?_ ?_ v
  · intro x hx; cases hx
  · intro h t ih1 ih2 x hx
    cases hx with
    | head => exact ih1
    | tail _ hm => exact ih2 x hm
  · intro kv hkv; cases hkv
  · intro h t ih1 ih2 kv hkv
    cases hkv with
    | head => exact ih1
    | tail _ hm => exact ih2 kv hm
  · intro k v ih; exact ih

end PyVal

namespace PyVal

/-! ## the mutually recursive list functions as ordinary list statements -/

theorem mhL_eq_map (l : List PyVal) : mhL l = l.map mh := by
  induction l with
  | nil => simp [mhL]
  | cons x xs ih => simp [mhL, ih]

theorem mhKV_eq_map (d : PyDict) : mhKV d = d.map (fun kv => (kv.1, mh kv.2)) := by
  induction d with
  | nil => simp [mhKV]
  | cons kv t ih => obtain ⟨k, v⟩ := kv; simp [mhKV, mhP, ih]

theorem allMem_iff (a b : List PyVal) : allMem a b = true ↔ ∀ x ∈ a, ∃ y ∈ b, pyEq x y = true := by
  induction a with
  | nil => simp [allMem]
  | cons x xs ih => simp [allMem, ih]

theorem allLookup_iff (a b : PyDict) :
    allLookup a b = true ↔ ∀ kv ∈ a, ∃ v', b.lookup kv.1 = some v' ∧ pyEq kv.2 v' = true := by
  induction a with
  | nil => simp [allLookup]
  | cons kv t ih =>
    obtain ⟨k, v⟩ := kv
    simp only [allLookup, Bool.and_eq_true, ih, List.mem_cons, forall_eq_or_imp]
    constructor
    · rintro ⟨h1, h2⟩
      refine ⟨?_, h2⟩
      cases hb : b.lookup k with
      | none => simp [hb] at h1
      | some v' => simp [hb, pyEqSnd] at h1; exact ⟨v', rfl, h1⟩
    · rintro ⟨⟨v', hv', he⟩, h2⟩
      exact ⟨by simp [hv', pyEqSnd, he], h2⟩

/-- pointwise lifting through `eqList` -/
theorem eqList_map (f : PyVal → PyVal) :
    ∀ (a b : List PyVal), (∀ x ∈ a, ∀ w, pyEq x w = true → pyEq (f x) (f w) = true) →
      eqList a b = true → eqList (a.map f) (b.map f) = true := by
  intro a
  induction a with
  | nil => intro b _ h; cases b <;> simp_all [eqList]
  | cons x xs ih =>
    intro b hf h
    cases b with
    | nil => simp [eqList] at h
    | cons y ys =>
      simp only [eqList, Bool.and_eq_true] at h
      simp only [List.map_cons, eqList, Bool.and_eq_true]
      exact ⟨hf x (by simp) y h.1, ih ys (fun z hz => hf z (by simp [hz])) h.2⟩

end PyVal
