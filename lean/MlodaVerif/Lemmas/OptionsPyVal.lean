import MlodaVerif.Model.PyVal
/-! Lemmas about `PyVal`: list-level characterisations of the mutually recursive definitions, an induction principle,
and the key fact behind every hash/eq coherence theorem: `pyEq v w → pyEq (mh v) (mh w)`. -/

namespace PyVal

/-! ## induction principle for the nested inductive type -/

theorem induct (P : PyVal → Prop)
    (hnone : P .none) (hbool : ∀ b, P (.bool b)) (hint : ∀ i, P (.int i)) (hfloat : ∀ m e, P (.float m e))
    (hstr : ∀ s, P (.str s)) (hobj : ∀ n, P (.obj n)) (hfeat : ∀ n c, P (.feat n c))
    (htuple : ∀ l, (∀ x ∈ l, P x) → P (.tuple l))
    (hlist : ∀ l, (∀ x ∈ l, P x) → P (.list l))
    (hset : ∀ l, (∀ x ∈ l, P x) → P (.set l))
    (hfrozenset : ∀ l, (∀ x ∈ l, P x) → P (.frozenset l))
    (hdict : ∀ d, (∀ kv ∈ d, P kv.2) → P (.dict d)) : ∀ v, P v := by
  intro v
  refine PyVal.rec (motive_1 := P) (motive_2 := fun l => ∀ x ∈ l, P x) (motive_3 := fun d => ∀ kv ∈ d, P kv.2)
    (motive_4 := fun kv => P kv.2) hnone hbool hint hfloat hstr hobj hfeat htuple hlist hset hfrozenset hdict
    ?_ ?_ ?_ ?_ ?_ v
  · intro x hx; cases hx
  · intro h t ih1 ih2 x hx
    cases hx with
    | head => exact ih1
    | tail _ hm => exact ih2 x hm
  · intro kv hkv; cases hkv
  · intro h t ih1 ih2 kv hkv
    cases hkv with
    | head => exact ih1
    | tail _ hm => exact ih2 kv hm
  · intro k v ih; exact ih

end PyVal
