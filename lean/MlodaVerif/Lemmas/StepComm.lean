import MlodaVerif.Model.StepExec
import MlodaVerif.Lemmas.StepTrace
/-! Micro-steps of steps that share no object commute; consequences for schedules. -/
namespace StepExec
open StepTrace

variable {V : Type}

/-- dependence of agents: the same step, or steps one of which writes an object the other reads or writes -/
def dep (ds : List (Desc V)) (i j : Nat) : Bool := decide (i = j) || shares ds i j

theorem shares_symm (ds : List (Desc V)) (i j : Nat) : shares ds i j = shares ds j i := by
  unfold shares
  cases hi : ds[i]? <;> cases hj : ds[j]? <;> simp
  rename_i a b
  by_cases h1 : a.obj = b.obj <;> by_cases h2 : a.obj = b.src <;> by_cases h3 : a.src = b.obj <;>
    simp [h1, h2, h3, eq_comm] <;> simp_all [eq_comm]

theorem dep_symm (ds : List (Desc V)) (i j : Nat) : dep ds i j = dep ds j i := by
  unfold dep
  rw [shares_symm]
  by_cases h : i = j
  · subst h; rfl
  · have : ¬ j = i := fun e => h e.symm
    simp [h, this]

theorem dep_refl (ds : List (Desc V)) (i : Nat) : dep ds i i = true := by simp [dep]

/-- what `mstep` leaves alone -/
theorem mstep_locs_ne (ds : List (Desc V)) (σ : MSt V) (i j : Nat) (h : i ≠ j) : (mstep ds σ i).locs[j]? = σ.locs[j]? := by
  unfold mstep
  split
  · split
    · split
      · rfl
      · simp [List.getElem?_set_ne h]
      · simp [List.getElem?_set_ne h]
    · rfl
  · rfl

theorem mstep_objs_ne (ds : List (Desc V)) (σ : MSt V) (i : Nat) (d : Desc V) (hd : ds[i]? = some d) (k : Nat) (h : d.obj ≠ k) :
    (mstep ds σ i).objs[k]? = σ.objs[k]? := by
  unfold mstep
  rw [hd]
  split
  · rename_i d' l hd' hl
    cases hd'
    split
    · split
      · rfl
      · rfl
      · simp [List.getElem?_set_ne h]
    · rfl
  · rfl

theorem mstep_of_desc_none (ds : List (Desc V)) (σ : MSt V) (i : Nat) (h : ds[i]? = none) : mstep ds σ i = σ := by
  unfold mstep; rw [h]

/-- the state after `mstep` as a function of what the step reads -/
def applyEff (σ : MSt V) (i a : Nat) : Eff V → MSt V
  | .skip => σ
  | .fail l' => { σ with locs := σ.locs.set i l' }
  | .ok l' o' => { objs := σ.objs.set a o', locs := σ.locs.set i l' }

/-- the three things step i reads -/
def rd (σ : MSt V) (i : Nat) (d : Desc V) : Option (Local V × Obj V × Obj V) :=
  match σ.locs[i]?, σ.objs[d.obj]?, σ.objs[d.src]? with
  | some l, some o, some s => some (l, o, s)
  | _, _, _ => none

theorem mstep_eq (ds : List (Desc V)) (σ : MSt V) (i : Nat) (d : Desc V) (hd : ds[i]? = some d) :
    mstep ds σ i = match rd σ i d with
      | some t => applyEff σ i d.obj (effect d t.1 t.2.1 t.2.2)
      | none => σ := by
  cases hl : σ.locs[i]? with
  | none => simp [mstep, rd, hd, hl]
  | some l =>
    cases ho : σ.objs[d.obj]? with
    | none => simp [mstep, rd, hd, hl, ho]
    | some o =>
      cases hs : σ.objs[d.src]? with
      | none => simp [mstep, rd, hd, hl, ho, hs]
      | some s =>
        simp only [mstep, rd, hd, hl, ho, hs]
        cases effect d l o s <;> rfl

theorem rd_congr (σ τ : MSt V) (i : Nat) (d : Desc V) (h1 : τ.locs[i]? = σ.locs[i]?) (h2 : τ.objs[d.obj]? = σ.objs[d.obj]?)
    (h3 : τ.objs[d.src]? = σ.objs[d.src]?) : rd τ i d = rd σ i d := by
  unfold rd; rw [h1, h2, h3]

theorem applyEff_locs_ne (σ : MSt V) (i a j : Nat) (e : Eff V) (h : i ≠ j) : (applyEff σ i a e).locs[j]? = σ.locs[j]? := by
  cases e <;> simp [applyEff, List.getElem?_set_ne h]

theorem applyEff_objs_ne (σ : MSt V) (i a k : Nat) (e : Eff V) (h : a ≠ k) : (applyEff σ i a e).objs[k]? = σ.objs[k]? := by
  cases e <;> simp [applyEff, List.getElem?_set_ne h]

theorem applyEff_comm (σ : MSt V) (i a j b : Nat) (e₁ e₂ : Eff V) (hij : i ≠ j) (hab : a ≠ b) :
    applyEff (applyEff σ i a e₁) j b e₂ = applyEff (applyEff σ j b e₂) i a e₁ := by
  cases e₁ <;> cases e₂ <;> simp [applyEff, List.set_comm _ _ hij, List.set_comm _ _ hab]

/-- **micro-steps of two different steps that share no object commute** -/
theorem mstep_comm (ds : List (Desc V)) (σ : MSt V) (i j : Nat) (h : dep ds i j = false) :
    mstep ds (mstep ds σ i) j = mstep ds (mstep ds σ j) i := by
  simp only [dep, Bool.or_eq_false_iff, decide_eq_false_iff_not] at h
  obtain ⟨hij, hsh⟩ := h
  cases hdi : ds[i]? with
  | none => rw [mstep_of_desc_none ds σ i hdi, mstep_of_desc_none ds _ i hdi]
  | some a =>
    cases hdj : ds[j]? with
    | none => rw [mstep_of_desc_none ds σ j hdj, mstep_of_desc_none ds _ j hdj]
    | some b =>
      simp only [shares, hdi, hdj, Bool.or_eq_false_iff, decide_eq_false_iff_not] at hsh
      obtain ⟨⟨h1, h2⟩, h3⟩ := hsh
      have hji : j ≠ i := fun e => hij e.symm
      have h1' : b.obj ≠ a.obj := fun e => h1 e.symm
      have h2' : b.src ≠ a.obj := fun e => h2 e.symm
      have h3' : b.obj ≠ a.src := fun e => h3 e.symm
      -- what j reads is untouched by i's step and vice versa
      have rj : rd (mstep ds σ i) j b = rd σ j b :=
        rd_congr σ _ j b (mstep_locs_ne ds σ i j hij) (mstep_objs_ne ds σ i a hdi b.obj h1) (mstep_objs_ne ds σ i a hdi b.src h2)
      have ri : rd (mstep ds σ j) i a = rd σ i a :=
        rd_congr σ _ i a (mstep_locs_ne ds σ j i hji) (mstep_objs_ne ds σ j b hdj a.obj h1') (mstep_objs_ne ds σ j b hdj a.src h3')
      rw [mstep_eq ds (mstep ds σ i) j b hdj, mstep_eq ds (mstep ds σ j) i a hdi, rj, ri,
          mstep_eq ds σ i a hdi, mstep_eq ds σ j b hdj]
      cases rd σ i a with
      | none => cases rd σ j b <;> rfl
      | some ti =>
        cases rd σ j b with
        | none => rfl
        | some tj => exact applyEff_comm σ i a.obj j b.obj _ _ hij h1

theorem mrun_eq_run (ds : List (Desc V)) (σ : MSt V) (l : List Nat) : mrun ds σ l = StepTrace.run (mstep ds) σ l := rfl

theorem commutes_mstep (ds : List (Desc V)) : Commutes (mstep ds) (dep ds) := fun σ i j h => mstep_comm ds σ i j h

end StepExec
