import MlodaVerif.Lemmas.PlanFullTfs
/-! The invariant of the main loop of `add_tfs`. -/
namespace PlanFull
open Sched OptGroup

/-- the effect of one iteration (object `i` = `ep`) on the objects, the inserted transform steps and the supply -/
structure Eff (g : Graph) (jc : List (Nat × List Nat)) (ep : PStep) (i : Nat) (cur cur' : List PStep) (n n' : Nat)
    (ts : List PStep) : Prop where
  core_eq : cur'.map core = cur.map core
  others : ∀ j, j ≠ i → ∀ s s', cur[j]? = some s → cur'[j]? = some s' →
    s'.req = s.req ∧ (s'.anyUuid = s.anyUuid ∨
      (ep.kind = .join ∧ ep.fw = ep.fw2 ∧ ∃ sv ∈ ep.lfu, s'.anyUuid = some sv ∧ (∃ x ∈ ep.lfu, x ∈ s.req) ∧ (∃ y ∈ ep.rfu, y ∈ s.req)))
  own : ∃ s1, cur'[i]? = some s1 ∧
    s1.req = ep.req ++ ts.map (·.uuid) ++ (if ep.kind = .join ∧ ep.fw ≠ ep.fw2 then collOf jc ep.uuid else [])
  own_any : ep.kind = .fg → ∃ s1, cur'[i]? = some s1 ∧ s1.anyUuid = ep.anyUuid
  shape : ∀ x ∈ ts, x.kind = .tfs ∧ x.outs = [x.uuid] ∧ n ≤ x.uuid ∧ x.uuid < n'
  jreq : ep.kind = .join → ∀ x ∈ ts, x.req = ep.req
  freq : ep.kind = .fg → ∀ x ∈ ts, ∃ a q, ep.anyUuid = some a ∧ q ∈ g.anc a ∧ g.fw q ≠ ep.fw ∧ x.req = [q]
  n_le : n ≤ n'
  sorted : (ts.map (·.uuid)).Pairwise (· < ·)

theorem map_core_of_coreReq {l l' : List PStep} (h : l'.map coreReq = l.map coreReq) : l'.map core = l.map core := by
  have e : ∀ m : List PStep, m.map core = (m.map coreReq).map (fun y => ({ y with req := [] } : PStep)) := by
    intro m; rw [List.map_map]; rfl
  rw [e l', e l, h]

/-- marking `need_to_upload` afterwards does not disturb the effect -/
theorem Eff.mark {g : Graph} {jc : List (Nat × List Nat)} {ep : PStep} {i : Nat} {cur cur' : List PStep} {n n' : Nat}
    {ts : List PStep} (h : Eff g jc ep i cur cur' n n' ts) (upl : List Nat) :
    Eff g jc ep i cur (markUpload i upl cur') n n' ts := by
  have hm := markUpload_rel ep i upl cur'
  refine { h with core_eq := (map_core_of_coreReq hm.1).trans h.core_eq, others := ?_, own := ?_, own_any := ?_ }
  rotate_left 2
  · intro hk
    obtain ⟨s1, hs1, ha⟩ := h.own_any hk
    have hany := markUpload_any i upl cur' i
    rw [hs1] at hany
    cases hc : (markUpload i upl cur')[i]? with
    | none => rw [hc] at hany; cases hany
    | some s2 =>
      rw [hc] at hany
      simp only [Option.map_some, Option.some.injEq] at hany
      exact ⟨s2, rfl, hany.trans ha⟩
  · intro j hj s s'' hs hs''
    have h1 := getElem?_of_map_eq hm.1 j
    rw [hs''] at h1
    cases hc : cur'[j]? with
    | none => rw [hc] at h1; cases h1
    | some s' =>
      rw [hc] at h1
      simp only [Option.map_some, Option.some.injEq] at h1
      have hany := markUpload_any i upl cur' j
      rw [hs'', hc] at hany
      simp only [Option.map_some, Option.some.injEq] at hany
      obtain ⟨hr, ha⟩ := h.others j hj s s' hs hc
      refine ⟨(req_of_coreReq h1).trans hr, ?_⟩
      rw [hany]; exact ha
  · obtain ⟨s1, hs1, hr⟩ := h.own
    have h1 := getElem?_of_map_eq hm.1 i
    rw [hs1] at h1
    cases hc : (markUpload i upl cur')[i]? with
    | none => rw [hc] at h1; cases h1
    | some s2 =>
      rw [hc] at h1
      simp only [Option.map_some, Option.some.injEq] at h1
      exact ⟨s2, rfl, (req_of_coreReq h1).trans hr⟩

theorem core_modAt_req (ep : PStep) (r : List Nat) (i : Nat) (cur : List PStep) :
    (modAt (fun s => { s with req := r }) i cur).map core = cur.map core :=
  by apply map_modAt; intro s; rfl

/-- JoinStep between different frameworks -/
theorem eff_joinCross (g : Graph) (linfo : Nat → LinkInfo) (o : Ord) (jc : List (Nat × List Nat)) (i : Nat) (ep : PStep)
    (st : TState) (hep : st.cur[i]? = some ep) (hk : ep.kind = .join) (hx : ep.fw ≠ ep.fw2) :
    ∃ ts, (tfsJoinCross linfo o jc i ep st).ins = st.ins ++ [ts] ∧
      Eff g jc ep i st.cur (tfsJoinCross linfo o jc i ep st).cur st.n (tfsJoinCross linfo o jc i ep st).n ts := by
  unfold tfsJoinCross
  simp only
  by_cases hnew : tkey (tfsOfJoin linfo o ep st.n) ∉ st.tc
  · simp only [hnew, not_false_eq_true, decide_true, if_true]
    refine ⟨[tfsOfJoin linfo o ep st.n], rfl, ?_⟩
    refine ⟨(by apply map_modAt; intro s; rfl), ?_, ?_, (fun h => by rw [hk] at h; cases h), ?_, ?_, ?_, Nat.le_succ _, by simp⟩
    · intro j hj s s' hs hs'
      rw [getElem?_modAt, if_neg hj, hs] at hs'
      cases hs'; exact ⟨rfl, Or.inl rfl⟩
    · refine ⟨_, by rw [getElem?_modAt, if_pos rfl, hep]; rfl, ?_⟩
      simp [hk, hx, tfsOfJoin]
    · intro x hx'
      simp only [List.mem_singleton] at hx'
      subst hx'
      exact ⟨rfl, rfl, Nat.le_refl _, Nat.lt_succ_self _⟩
    · intro _ x hx'
      simp only [List.mem_singleton] at hx'
      subst hx'; rfl
    · intro h; rw [hk] at h; cases h
  · simp only [hnew, decide_false, Bool.false_eq_true, if_false]
    refine ⟨[], rfl, ?_⟩
    refine ⟨(by apply map_modAt; intro s; rfl), ?_, ?_, (fun h => by rw [hk] at h; cases h), (by intro x hx'; cases hx'),
      (by intro _ x hx'; cases hx'), (by intro _ x hx'; cases hx'), Nat.le_succ _, by simp⟩
    · intro j hj s s' hs hs'
      rw [getElem?_modAt, if_neg hj, hs] at hs'
      cases hs'; exact ⟨rfl, Or.inl rfl⟩
    · refine ⟨_, by rw [getElem?_modAt, if_pos rfl, hep]; rfl, ?_⟩
      simp [hk, hx]

end PlanFull

namespace PlanFull
open Sched OptGroup

/-- JoinStep inside one framework: only `children_if_root`, `tfs_ids`, `any_uuid` of FeatureGroupSteps change -/
theorem eff_joinSame (g : Graph) (jc : List (Nat × List Nat)) (i : Nat) (ep : PStep) (cur cur' : List PStep) (n : Nat)
    (hep : cur[i]? = some ep) (hk : ep.kind = .join) (hx : ¬ ep.fw ≠ ep.fw2) (hrel : Rel ep cur cur') :
    Eff g jc ep i cur cur' n n [] := by
  refine ⟨map_core_of_coreReq hrel.1, ?_, ?_, (fun h => by rw [hk] at h; cases h), (by intro x hx'; cases hx'),
    (by intro _ x hx'; cases hx'), (by intro _ x hx'; cases hx'), Nat.le_refl _, by simp⟩
  · intro j _ s s' hs hs'
    have h1 := getElem?_of_map_eq hrel.1 j
    rw [hs, hs'] at h1
    simp only [Option.map_some, Option.some.injEq] at h1
    refine ⟨req_of_coreReq h1, ?_⟩
    rcases hrel.2 j s s' hs hs' with h | h
    · exact Or.inl h
    · exact Or.inr ⟨hk, Classical.not_not.mp hx, h⟩
  · have h1 := getElem?_of_map_eq hrel.1 i
    rw [hep] at h1
    cases hc : cur'[i]? with
    | none => rw [hc] at h1; cases h1
    | some s1 =>
      rw [hc] at h1
      simp only [Option.map_some, Option.some.injEq] at h1
      refine ⟨s1, rfl, ?_⟩
      rw [req_of_coreReq h1]
      simp [hx]

/-- FeatureGroupStep: transform steps for direct parents of `any_uuid` on other frameworks -/
theorem eff_fg (g : Graph) (jc : List (Nat × List Nat)) (i : Nat) (ep : PStep) (cur : List PStep) (hep : cur[i]? = some ep)
    (hk : ep.kind = .fg) (a : Nat) (ha : ep.anyUuid = some a) (joins : List PStep) (pp : List Nat) (tc : List TKey)
    (upl : List Nat) (n : Nat) :
    let f := fgTfsLoop g joins pp (g.anc a) { ep := ep, tc := tc, upl := upl, n := n }
    Eff g jc ep i cur (modAt (fun _ => f.ep) i cur) n f.n f.new := by
  intro f
  obtain ⟨added, h⟩ := fgTfsLoop_spec g joins pp (g.anc a) { ep := ep, tc := tc, upl := upl, n := n }
  have hnew : f.new = added := by have := h.new_eq; simpa using this
  rw [hnew]
  refine ⟨?_, ?_, ?_, (fun _ => ⟨f.ep, by rw [getElem?_modAt, if_pos rfl, hep]; rfl, h.any_eq⟩), ?_,
    (by intro hj; rw [hk] at hj; cases hj), ?_, h.n_le, h.sorted⟩
  · -- core
    apply List.ext_getElem?
    intro j
    simp only [List.getElem?_map, getElem?_modAt]
    split
    · rename_i hji; subst hji; rw [hep]; simp only [Option.map_some]; exact congrArg some h.core_eq
    · rfl
  · intro j hj s s' hs hs'
    rw [getElem?_modAt, if_neg hj, hs] at hs'
    cases hs'; exact ⟨rfl, Or.inl rfl⟩
  · refine ⟨f.ep, by rw [getElem?_modAt, if_pos rfl, hep]; rfl, ?_⟩
    have := h.req_eq
    simp only at this
    rw [this]
    simp [hk]
  · intro x hx
    obtain ⟨h1, h2, h3, h4, _⟩ := h.each x hx
    exact ⟨h1, h2, h3, h4⟩
  · intro _ x hx
    obtain ⟨_, _, _, _, q, hq, hfw, hr⟩ := h.each x hx
    exact ⟨a, q, ha, hq, hfw, hr⟩

/-- one iteration of the main loop of `add_tfs` -/
theorem tfsStep_eff (g : Graph) (linfo : Nat → LinkInfo) (o : Ord) (jc : List (Nat × List Nat)) (st st' : TState) (i : Nat)
    (ep : PStep) (hep : st.cur[i]? = some ep) (h : tfsStep g linfo o jc st i = .ok st') :
    ∃ ts, st'.ins = st.ins ++ [ts] ∧ Eff g jc ep i st.cur st'.cur st.n st'.n ts := by
  unfold tfsStep at h
  rw [hep] at h
  simp only at h
  cases hk : ep.kind with
  | tfs => rw [hk] at h; simp at h
  | join =>
    rw [hk] at h
    simp only at h
    by_cases hx : ep.fw ≠ ep.fw2
    · have hb : (ep.fw != ep.fw2) = true := by simpa using hx
      simp only [hb, if_true] at h
      cases h
      obtain ⟨ts, h1, h2⟩ := eff_joinCross g linfo o jc i ep st hep hk hx
      exact ⟨ts, h1, h2.mark _⟩
    · have hb : (ep.fw != ep.fw2) = false := by simpa using hx
      simp only [hb, Bool.false_eq_true, if_false] at h
      cases hl : sameFwLoop o ep (List.range st.cur.length) (st.cur, st.upl, none) with
      | error e => rw [hl] at h; cases h
      | ok r =>
        obtain ⟨cur', upl', store'⟩ := r
        rw [hl] at h
        simp only at h
        cases h
        have hrel := sameFwLoop_rel o ep _ _ _ _ _ _ _ (by intro sv hsv; cases hsv) hl
        exact ⟨[], rfl, (eff_joinSame g jc i ep st.cur cur' st.n hep hk hx hrel).mark _⟩
  | fg =>
    rw [hk] at h
    simp only at h
    cases ha : ep.anyUuid with
    | none => rw [ha] at h; cases h
    | some a =>
      rw [ha] at h
      simp only at h
      cases h
      exact ⟨_, rfl, (eff_fg g jc i ep st.cur hep hk a ha _ _ st.tc st.upl st.n).mark _⟩

end PlanFull

namespace PlanFull
open Sched OptGroup

/-- the representative `features.any_uuid` a FeatureGroupStep can have when `add_tfs` reaches it: the one it was built with, or
a left uuid of a same-framework join of which the step requires a left and a right uuid -/
def AnyOK (p : List PStep) (s : PStep) (a : Option Nat) : Prop :=
  a = s.anyUuid ∨ ∃ js ∈ p, js.kind = .join ∧ js.fw = js.fw2 ∧ ∃ sv ∈ js.lfu, a = some sv ∧ (∃ x ∈ js.lfu, x ∈ s.req) ∧ (∃ y ∈ js.rfu, y ∈ s.req)

/-- object `s` of the input plan, the object `s'` it has become and the transform steps `ts` inserted before it -/
structure Done (g : Graph) (p : List PStep) (jc : List (Nat × List Nat)) (s s' : PStep) (ts : List PStep) : Prop where
  tfs : ∀ x ∈ ts, x.kind = .tfs ∧ x.outs = [x.uuid]
  req : s'.req = s.req ++ ts.map (·.uuid) ++ (if s.kind = .join ∧ s.fw ≠ s.fw2 then collOf jc s.uuid else [])
  jreq : s.kind = .join → ∀ x ∈ ts, x.req = s.req
  freq : s.kind = .fg → ∀ x ∈ ts, ∃ a q, AnyOK p s (some a) ∧ q ∈ g.anc a ∧ g.fw q ≠ s.fw ∧ x.req = [q]

structure TInv (g : Graph) (p : List PStep) (jc : List (Nat × List Nat)) (n0 k : Nat) (st : TState) : Prop where
  core_eq : st.cur.map core = p.map core
  ins_len : st.ins.length = k
  later : ∀ i, k ≤ i → ∀ s s', p[i]? = some s → st.cur[i]? = some s' → s'.req = s.req ∧ AnyOK p s s'.anyUuid
  done : ∀ i, i < k → ∀ s, p[i]? = some s → ∃ s' ts, st.cur[i]? = some s' ∧ st.ins[i]? = some ts ∧ Done g p jc s s' ts
  n_le : n0 ≤ st.n
  fresh : ∀ x ∈ st.ins.flatten, n0 ≤ x.uuid ∧ x.uuid < st.n
  sorted : (st.ins.flatten.map (·.uuid)).Pairwise (· < ·)

theorem TInv.init (g : Graph) (p : List PStep) (jc : List (Nat × List Nat)) (n : Nat) :
    TInv g p jc n 0 { cur := p, n := n } :=
  ⟨rfl, rfl, fun i _ s s' hs hs' => by rw [hs] at hs'; cases hs'; exact ⟨rfl, Or.inl rfl⟩,
    fun i hi => absurd hi (Nat.not_lt_zero _), Nat.le_refl _, (by intro x hx; simp at hx), by simp⟩

theorem core_at {l l' : List PStep} (h : l'.map core = l.map core) {i : Nat} {s s' : PStep} (hs : l[i]? = some s)
    (hs' : l'[i]? = some s') : core s' = core s := by
  have := getElem?_of_map_eq h i
  rw [hs, hs'] at this
  simpa using this

theorem exists_at_of_core {l l' : List PStep} (h : l'.map core = l.map core) {i : Nat} {s : PStep} (hs : l[i]? = some s) :
    ∃ s', l'[i]? = some s' := by
  have := getElem?_of_map_eq h i
  rw [hs] at this
  cases hc : l'[i]? with
  | none => rw [hc] at this; cases this
  | some s' => exact ⟨s', rfl⟩

theorem TInv.step {g : Graph} {linfo : Nat → LinkInfo} {o : Ord} {p : List PStep} {jc : List (Nat × List Nat)} {n0 k : Nat}
    {st st' : TState} (hinv : TInv g p jc n0 k st) (hk : k < p.length) (h : tfsStep g linfo o jc st k = .ok st') :
    TInv g p jc n0 (k + 1) st' := by
  have hpk : p[k]? = some p[k] := List.getElem?_eq_getElem hk
  obtain ⟨ep, hep⟩ := exists_at_of_core hinv.core_eq hpk
  have hcore : core ep = core p[k] := core_at hinv.core_eq hpk hep
  obtain ⟨hreq, hany⟩ := hinv.later k (Nat.le_refl _) _ _ hpk hep
  obtain ⟨ts, hins, heff⟩ := tfsStep_eff g linfo o jc st st' k ep hep h
  have hkind := kind_of_core hcore
  refine ⟨heff.core_eq.trans hinv.core_eq, by rw [hins]; simp [hinv.ins_len], ?_, ?_, Nat.le_trans hinv.n_le heff.n_le, ?_, ?_⟩
  · -- objects not reached yet
    intro i hi s s'' hs hs''
    obtain ⟨s', hs'⟩ := exists_at_of_core hinv.core_eq hs
    obtain ⟨hr', ha'⟩ := hinv.later i (by omega) s s' hs hs'
    obtain ⟨hr, ha⟩ := heff.others i (by omega) s' s'' hs' hs''
    refine ⟨hr.trans hr', ?_⟩
    rcases ha with ha | ⟨hj, hsame, sv, hsv, hsome, hx, hy⟩
    · rw [ha]; exact ha'
    · refine Or.inr ⟨p[k], List.getElem_mem hk, by rw [← hkind]; exact hj, by rw [← fw_of_core hcore, ← fw2_of_core hcore]; exact hsame, sv, by rw [← lfu_of_core hcore]; exact hsv, hsome, ?_, ?_⟩
      · obtain ⟨x, hx1, hx2⟩ := hx; exact ⟨x, by rw [← lfu_of_core hcore]; exact hx1, by rw [← hr']; exact hx2⟩
      · obtain ⟨y, hy1, hy2⟩ := hy; exact ⟨y, by rw [← rfu_of_core hcore]; exact hy1, by rw [← hr']; exact hy2⟩
  · -- objects already handled, and object k
    intro i hi s hs
    by_cases hik : i = k
    · subst hik
      rw [hpk] at hs; cases hs
      obtain ⟨s1, hs1, hr1⟩ := heff.own
      refine ⟨s1, ts, hs1, by rw [hins, List.getElem?_append_right (by rw [hinv.ins_len]; exact Nat.le_refl _), hinv.ins_len]; simp, ?_⟩
      refine ⟨fun x hx => ⟨(heff.shape x hx).1, (heff.shape x hx).2.1⟩, ?_, ?_, ?_⟩
      · rw [hr1, hreq, hkind, fw_of_core hcore, fw2_of_core hcore, uuid_of_core hcore]
      · intro hj x hx; rw [heff.jreq (by rw [hkind]; exact hj) x hx, hreq]
      · intro hf x hx
        obtain ⟨a, q, ha, hq, hfw, hr⟩ := heff.freq (by rw [hkind]; exact hf) x hx
        exact ⟨a, q, by rw [← ha]; exact hany, hq, by rw [← fw_of_core hcore]; exact hfw, hr⟩
    · obtain ⟨s', ts', hs', hts', hd⟩ := hinv.done i (by omega) s hs
      obtain ⟨s'', hs''⟩ := exists_at_of_core heff.core_eq hs'
      obtain ⟨hr, _⟩ := heff.others i hik s' s'' hs' hs''
      refine ⟨s'', ts', hs'', by rw [hins, List.getElem?_append_left (by rw [hinv.ins_len]; omega)]; exact hts', ?_⟩
      exact { hd with req := by rw [hr]; exact hd.req }
  · intro x hx
    rw [hins, List.flatten_append, List.mem_append] at hx
    rcases hx with hx | hx
    · obtain ⟨h1, h2⟩ := hinv.fresh x hx
      exact ⟨h1, Nat.lt_of_lt_of_le h2 heff.n_le⟩
    · simp only [List.flatten_cons, List.flatten_nil, List.append_nil] at hx
      obtain ⟨_, _, h3, h4⟩ := heff.shape x hx
      exact ⟨Nat.le_trans hinv.n_le h3, h4⟩
  · rw [hins, List.flatten_append, List.map_append, List.pairwise_append]
    refine ⟨hinv.sorted, by simpa using heff.sorted, ?_⟩
    intro u hu v hv
    obtain ⟨x, hx, rfl⟩ := List.mem_map.mp hu
    obtain ⟨y, hy, rfl⟩ := List.mem_map.mp hv
    simp only [List.flatten_cons, List.flatten_nil, List.append_nil] at hy
    have h1 := (hinv.fresh x hx).2
    have h2 := (heff.shape y hy).2.2.1
    omega

/-- the invariant holds at the end of `add_tfs` -/
theorem addTfs_inv {g : Graph} {linfo : Nat → LinkInfo} {o : Ord} {jc : List (Nat × List Nat)} {p P : List PStep} {n : Nat}
    (h : addTfs g linfo o jc p n = .ok P) : ∃ st, TInv g p jc n p.length st ∧ P = assemble st.ins st.cur := by
  unfold addTfs at h
  cases hf : (List.range p.length).foldlM (tfsStep g linfo o jc) { cur := p, n := n } with
  | error e => rw [hf] at h; cases h
  | ok st =>
    rw [hf] at h
    cases h
    refine ⟨st, ?_, rfl⟩
    have := foldlM_inv (tfsStep g linfo o jc) (fun k st => k ≤ p.length → TInv g p jc n k st) (List.range p.length)
      { cur := p, n := n } st (fun _ => TInv.init g p jc n)
      (by
        intro k a s s' hka hP hstep hk1
        have hak : a = k := by
          have := List.getElem?_range (n := p.length) (i := k)
          by_cases hlt : k < p.length
          · rw [List.getElem?_range hlt] at hka; cases hka; rfl
          · omega
        subst hak
        exact (hP (by omega)).step (by omega) hstep) hf
    simp only [List.length_range] at this
    exact this (Nat.le_refl _)

end PlanFull
