import MlodaVerif.Lemmas.PlanFullTfsInv
import MlodaVerif.Lemmas.PlanCoreRank
/-! `add_tfs` keeps a plan runnable: from a uuid rank (with gaps of two) for the plan after `add_joinstep` to
`NonemptyOuts ∧ DisjointOuts ∧ WellRanked` of the final plan. -/
namespace PlanFull
open Sched OptGroup

/-! ### membership in the assembled plan -/

theorem mem_assemble {ins : List (List PStep)} {cur : List PStep} {x : PStep} (h : x ∈ assemble ins cur) :
    ∃ (i : Nat) (ts : List PStep) (s : PStep), ins[i]? = some ts ∧ cur[i]? = some s ∧ (x ∈ ts ∨ x = s) := by
  induction ins generalizing cur with
  | nil => simp [assemble] at h
  | cons ts r ih =>
    cases cur with
    | nil => simp [assemble] at h
    | cons s c =>
      simp only [assemble, List.zip_cons_cons, List.flatMap_cons, List.mem_append, List.mem_singleton] at h
      rcases h with (h | h) | h
      · exact ⟨0, ts, s, rfl, rfl, Or.inl h⟩
      · exact ⟨0, ts, s, rfl, rfl, Or.inr h⟩
      · obtain ⟨i, ts', s', h1, h2, h3⟩ := ih (cur := c) h
        exact ⟨i + 1, ts', s', by simpa using h1, by simpa using h2, h3⟩

theorem mem_assemble_of {ins : List (List PStep)} {cur : List PStep} {i : Nat} {ts : List PStep} {s x : PStep}
    (h1 : ins[i]? = some ts) (h2 : cur[i]? = some s) (h3 : x ∈ ts ∨ x = s) : x ∈ assemble ins cur := by
  induction ins generalizing cur i with
  | nil => simp at h1
  | cons ts0 r ih =>
    cases cur with
    | nil => simp at h2
    | cons s0 c =>
      simp only [assemble, List.zip_cons_cons, List.flatMap_cons, List.mem_append, List.mem_singleton]
      cases i with
      | zero =>
        simp at h1 h2; subst h1; subst h2
        rcases h3 with h | h
        · exact Or.inl (Or.inl h)
        · exact Or.inl (Or.inr h)
      | succ i => exact Or.inr (ih (by simpa using h1) (by simpa using h2))

/-- the output uuids of the assembled plan: those of the objects plus the uuids of the inserted transform steps -/
theorem assemble_outs_perm : ∀ (ins : List (List PStep)) (cur : List PStep), ins.length = cur.length →
    (∀ ts ∈ ins, ∀ x ∈ ts, x.outs = [x.uuid]) →
    ((assemble ins cur).flatMap (·.outs)).Perm (cur.flatMap (·.outs) ++ ins.flatten.map (·.uuid)) := by
  intro ins
  induction ins with
  | nil => intro cur hl _; cases cur with
    | nil => simp [assemble]
    | cons _ _ => simp at hl
  | cons ts r ih =>
    intro cur hl hs
    cases cur with
    | nil => simp at hl
    | cons s c =>
      have hrec := ih c (by simpa using hl) (fun ts' h' => hs ts' (List.mem_cons_of_mem _ h'))
      have hts : ts.flatMap (·.outs) = ts.map (·.uuid) := by
        have := hs ts (by simp)
        clear hrec ih hs hl
        induction ts with
        | nil => rfl
        | cons a t iht =>
          simp only [List.flatMap_cons, List.map_cons, this a (by simp)]
          rw [iht (fun x hx => this x (List.mem_cons_of_mem _ hx))]; rfl
      simp only [assemble, List.zip_cons_cons, List.flatMap_cons, List.flatMap_append, List.flatMap_nil, List.append_nil,
        List.flatten_cons, List.map_append, hts]
      unfold assemble at hrec
      -- ts.uuids ++ s.outs ++ REST  ~  s.outs ++ c.outs ++ (ts.uuids ++ r.uuids)
      have h1 : (List.map (·.uuid) ts ++ s.outs ++ List.flatMap (·.outs) (List.flatMap (fun e => e.1 ++ [e.2]) (r.zip c))).Perm
          (List.map (·.uuid) ts ++ s.outs ++ (c.flatMap (·.outs) ++ r.flatten.map (·.uuid))) := List.Perm.append_left _ hrec
      refine h1.trans ?_
      generalize List.map (·.uuid) ts = A
      generalize s.outs = B
      generalize c.flatMap (·.outs) = C
      generalize r.flatten.map (·.uuid) = D
      -- A ++ B ++ (C ++ D) ~ B ++ C ++ (A ++ D)
      have e1 : (A ++ B ++ (C ++ D)).Perm (B ++ A ++ (C ++ D)) := List.Perm.append_right _ List.perm_append_comm
      refine e1.trans ?_
      simp only [List.append_assoc]
      refine List.Perm.append_left B ?_
      -- A ++ (C ++ D) ~ C ++ (A ++ D)
      rw [← List.append_assoc, ← List.append_assoc]
      exact List.Perm.append_right D List.perm_append_comm

/-! ### maximum of a list -/

def maxOf (l : List Nat) : Nat := l.foldl max 0

theorem foldl_max_ge (l : List Nat) : ∀ a, a ≤ l.foldl max a := by
  induction l with
  | nil => intro a; exact Nat.le_refl _
  | cons x r ih => intro a; exact Nat.le_trans (Nat.le_max_left a x) (ih _)

theorem le_foldl_max {l : List Nat} {x : Nat} (h : x ∈ l) : ∀ a, x ≤ l.foldl max a := by
  induction l with
  | nil => cases h
  | cons y r ih =>
    intro a
    rcases List.mem_cons.mp h with rfl | h
    · exact Nat.le_trans (Nat.le_max_right a x) (foldl_max_ge r _)
    · exact ih h _

theorem le_maxOf {l : List Nat} {x : Nat} (h : x ∈ l) : x ≤ maxOf l := le_foldl_max h 0

theorem foldl_max_le {l : List Nat} {b : Nat} (h : ∀ x ∈ l, x ≤ b) : ∀ a, a ≤ b → l.foldl max a ≤ b := by
  induction l with
  | nil => intro a ha; exact ha
  | cons y r ih =>
    intro a ha
    exact ih (fun x hx => h x (List.mem_cons_of_mem _ hx)) _ (Nat.max_le.mpr ⟨ha, h y (by simp)⟩)

theorem maxOf_le {l : List Nat} {b : Nat} (h : ∀ x ∈ l, x ≤ b) : maxOf l ≤ b := foldl_max_le h 0 (Nat.zero_le _)

/-! ### the rank of the final plan -/

/-- rank of a step of the final plan from a uuid rank `φ` of the plan before `add_tfs` -/
def finalRank (φ : Nat → Nat) (st : Step) : Nat :=
  if st.kind = .tfs then maxOf (st.req.map (fun w => φ w + 2))
  else match st.outs with
    | v :: _ => φ v + 1
    | [] => 0

/-- the uuids a step of the plan before `add_tfs` waits for in the end, apart from its own transform steps -/
def reqExt (jc : List (Nat × List Nat)) (s : PStep) : List Nat :=
  s.req ++ (if s.kind = .join ∧ s.fw ≠ s.fw2 then collOf jc s.uuid else [])

/-- the hypotheses on the plan `p` after `add_joinstep` (all decidable for a given `φ`) -/
structure MidOK (g : Graph) (p : List PStep) (jc : List (Nat × List Nat)) (n : Nat) (φ : Nat → Nat) : Prop where
  notfs : ∀ s ∈ p, s.kind ≠ .tfs
  nonempty : ∀ s ∈ p, s.outs ≠ []
  nodup : (p.flatMap (·.outs)).Nodup
  below : ∀ u ∈ p.flatMap (·.outs), u < n
  const : ∀ s ∈ p, ∀ u ∈ s.outs, ∀ v ∈ s.outs, φ u = φ v
  ranked : ∀ s ∈ p, ∀ u ∈ reqExt jc s, ∃ sj ∈ p, u ∈ sj.outs ∧ ∀ v ∈ s.outs, φ u + 2 ≤ φ v
  parents : ∀ s ∈ p, s.kind = .fg → ∀ a, AnyOK p s (some a) → ∀ q ∈ g.anc a, g.fw q ≠ s.fw →
    ∃ sj ∈ p, q ∈ sj.outs ∧ ∀ v ∈ s.outs, φ q + 2 ≤ φ v

theorem finalRank_obj {φ : Nat → Nat} {s : PStep} (hk : s.kind ≠ .tfs) {v : Nat} (hv : v ∈ s.outs)
    (hc : ∀ u ∈ s.outs, ∀ w ∈ s.outs, φ u = φ w) : finalRank φ (toSched s) = φ v + 1 := by
  unfold finalRank toSched
  simp only [hk, if_false]
  cases ho : s.outs with
  | nil => rw [ho] at hv; cases hv
  | cons h t =>
    simp only
    rw [hc h (by rw [ho]; simp) v hv]

theorem addTfs_planOK {g : Graph} {linfo : Nat → LinkInfo} {o : Ord} {jc : List (Nat × List Nat)} {p P : List PStep} {n : Nat}
    {φ : Nat → Nat} (hm : MidOK g p jc n φ) (h : addTfs g linfo o jc p n = .ok P) :
    NonemptyOuts (toSchedPlan P) ∧ DisjointOuts (toSchedPlan P) ∧ WellRanked (toSchedPlan P) := by
  obtain ⟨st, hinv, rfl⟩ := addTfs_inv h
  have hlen_cur : st.cur.length = p.length := by
    have := congrArg List.length hinv.core_eq; simpa using this
  -- every object of the final plan and the input object it comes from
  have hobj : ∀ (i : Nat) (s' : PStep), st.cur[i]? = some s' → ∃ s ts, p[i]? = some s ∧ st.ins[i]? = some ts ∧ core s' = core s ∧ Done g p jc s s' ts := by
    intro i s' hs'
    have hi : i < p.length := by
      rw [← hlen_cur]; exact (List.getElem?_eq_some_iff.mp hs').1
    have hp : p[i]? = some p[i] := List.getElem?_eq_getElem hi
    obtain ⟨s'', ts, h1, h2, h3⟩ := hinv.done i hi _ hp
    rw [hs'] at h1; cases h1
    exact ⟨_, ts, hp, h2, core_at hinv.core_eq hp hs', h3⟩
  have hins : ∀ (i : Nat) (ts : List PStep), st.ins[i]? = some ts → ∃ s s', p[i]? = some s ∧ st.cur[i]? = some s' ∧ core s' = core s ∧ Done g p jc s s' ts := by
    intro i ts hts
    have hi : i < p.length := by
      rw [← hinv.ins_len]; exact (List.getElem?_eq_some_iff.mp hts).1
    have hp : p[i]? = some p[i] := List.getElem?_eq_getElem hi
    obtain ⟨s', ts', h1, h2, h3⟩ := hinv.done i hi _ hp
    rw [hts] at h2; cases h2
    exact ⟨_, s', hp, h1, core_at hinv.core_eq hp h1, h3⟩
  have hshape : ∀ ts ∈ st.ins, ∀ x ∈ ts, x.kind = .tfs ∧ x.outs = [x.uuid] := by
    intro ts hts x hx
    obtain ⟨i, hi⟩ := List.mem_iff_getElem?.mp hts
    obtain ⟨s, s', _, _, _, hd⟩ := hins i ts hi
    exact hd.tfs x hx
  -- the object of the final plan that produces the uuids of an input object
  have hprod : ∀ sj ∈ p, ∃ sj', sj' ∈ assemble st.ins st.cur ∧ core sj' = core sj := by
    intro sj hsj
    obtain ⟨j, hj⟩ := List.mem_iff_getElem?.mp hsj
    obtain ⟨sj', hsj'⟩ := exists_at_of_core hinv.core_eq hj
    obtain ⟨s, ts, h1, h2, h3, _⟩ := hobj j sj' hsj'
    rw [hj] at h1; cases h1
    exact ⟨sj', mem_assemble_of h2 hsj' (Or.inr rfl), h3⟩
  refine ⟨?_, ?_, ?_⟩
  · -- non-empty outputs
    intro x hx
    simp only [toSchedPlan, List.mem_map] at hx
    obtain ⟨y, hy, rfl⟩ := hx
    obtain ⟨i, ts, s', h1, h2, h3⟩ := mem_assemble hy
    rcases h3 with h3 | rfl
    · rw [toSched, (hshape ts (List.mem_of_getElem? h1) y h3).2]; simp
    · obtain ⟨s, _, hp, _, hc, _⟩ := hobj i y h2
      simp only [toSched]
      rw [outs_of_core hc]; exact hm.nonempty s (List.mem_of_getElem? hp)
  · -- disjoint outputs
    apply nodup_flatMap_disjoint
    have hperm := assemble_outs_perm st.ins st.cur (by rw [hinv.ins_len, hlen_cur]) (fun ts hts x hx => (hshape ts hts x hx).2)
    have hall : allOuts (toSchedPlan (assemble st.ins st.cur)) = (assemble st.ins st.cur).flatMap (·.outs) := by
      simp [allOuts, toSchedPlan, List.flatMap_map, toSched]
    rw [hall, hperm.nodup_iff]
    have hcur : st.cur.flatMap (·.outs) = p.flatMap (·.outs) := by
      have := congrArg (List.flatMap (·.outs)) hinv.core_eq
      simpa [List.flatMap_map, core] using this
    rw [hcur, List.nodup_append]
    refine ⟨hm.nodup, hinv.sorted.imp (fun h => Nat.ne_of_lt h), ?_⟩
    intro u hu v hv
    obtain ⟨x, hx, rfl⟩ := List.mem_map.mp hv
    have := (hinv.fresh x hx).1
    have := hm.below u hu
    omega
  · -- well ranked
    apply PlanCore.wellRanked_of_stepRank _ (finalRank φ)
    intro x hx u hu
    simp only [toSchedPlan, List.mem_map] at hx
    obtain ⟨y, hy, rfl⟩ := hx
    obtain ⟨i, ts, s', h1, h2, h3⟩ := mem_assemble hy
    obtain ⟨s, _, hp, hts, hc, hd⟩ := hobj i s' h2
    rw [h1] at hts; cases hts
    have hsp : s ∈ p := List.mem_of_getElem? hp
    have hsk : s'.kind ≠ .tfs := by rw [kind_of_core hc]; exact hm.notfs s hsp
    obtain ⟨v0, hv0⟩ := List.exists_mem_of_ne_nil _ (hm.nonempty s hsp)
    have hv0' : v0 ∈ s'.outs := by rw [outs_of_core hc]; exact hv0
    have hconst' : ∀ a ∈ s'.outs, ∀ b ∈ s'.outs, φ a = φ b := by rw [outs_of_core hc]; exact hm.const s hsp
    -- a requirement that is ranked two below `s` is produced by an object of the final plan
    have viaObj : ∀ w, (∃ sj ∈ p, w ∈ sj.outs ∧ ∀ v ∈ s.outs, φ w + 2 ≤ φ v) →
        ∃ z ∈ List.map toSched (assemble st.ins st.cur), w ∈ z.outs ∧ finalRank φ z = φ w + 1 ∧ φ w + 2 ≤ φ v0 := by
      intro w ⟨sj, hsj, hw, hrank⟩
      obtain ⟨sj', hsj', hcj⟩ := hprod sj hsj
      have hw' : w ∈ sj'.outs := by rw [outs_of_core hcj]; exact hw
      refine ⟨toSched sj', List.mem_map_of_mem hsj', hw', ?_, hrank v0 hv0⟩
      exact finalRank_obj (by rw [kind_of_core hcj]; exact hm.notfs sj hsj) hw' (by rw [outs_of_core hcj]; exact hm.const sj hsj)
    rcases h3 with h3 | rfl
    · -- x is a transform step inserted before object i
      have hxk := (hd.tfs y h3).1
      have hfr : finalRank φ (toSched y) = maxOf (y.req.map (fun w => φ w + 2)) := by
        simp [finalRank, toSched, hxk]
      have hu' : u ∈ y.req := hu
      have hle : φ u + 2 ≤ finalRank φ (toSched y) := by
        rw [hfr]; exact le_maxOf (List.mem_map.mpr ⟨u, hu', rfl⟩)
      have hsrc : ∃ sj ∈ p, u ∈ sj.outs ∧ ∀ v ∈ s.outs, φ u + 2 ≤ φ v := by
        cases hks : s.kind with
        | tfs => exact absurd hks (hm.notfs s hsp)
        | join =>
          rw [hd.jreq hks y h3] at hu'
          exact hm.ranked s hsp u (by simp [reqExt, hu'])
        | fg =>
          obtain ⟨a, q, ha, hq, hfw, hr⟩ := hd.freq hks y h3
          rw [hr] at hu'
          simp only [List.mem_singleton] at hu'
          subst hu'
          exact hm.parents s hsp hks a ha u hq hfw
      obtain ⟨z, hz, hwz, hrz, _⟩ := viaObj u hsrc
      exact ⟨z, hz, hwz, by omega⟩
    · -- x is object i
      have hfr : finalRank φ (toSched y) = φ v0 + 1 := finalRank_obj hsk hv0' hconst'
      have hu' : u ∈ y.req := hu
      rw [hd.req, List.append_assoc, List.mem_append] at hu'
      rcases hu' with hu' | hu'
      · obtain ⟨z, hz, hwz, hrz, hlt⟩ := viaObj u (hm.ranked s hsp u (by simp [reqExt, hu']))
        exact ⟨z, hz, hwz, by omega⟩
      · rw [List.mem_append] at hu'
        rcases hu' with hu' | hu'
        · -- one of its own transform steps
          obtain ⟨t, ht, rfl⟩ := List.mem_map.mp hu'
          refine ⟨toSched t, List.mem_map_of_mem (mem_assemble_of h1 h2 (Or.inl ht)), by simp [toSched, (hd.tfs t ht).2], ?_⟩
          have hfrt : finalRank φ (toSched t) = maxOf (t.req.map (fun w => φ w + 2)) := by
            simp [finalRank, toSched, (hd.tfs t ht).1]
          rw [hfrt, hfr]
          apply Nat.lt_succ_of_le
          apply maxOf_le
          intro b hb
          obtain ⟨w, hw, rfl⟩ := List.mem_map.mp hb
          cases hks : s.kind with
          | tfs => exact absurd hks (hm.notfs s hsp)
          | join =>
            rw [hd.jreq hks t ht] at hw
            obtain ⟨_, _, _, hr⟩ := hm.ranked s hsp w (by simp [reqExt, hw])
            exact hr v0 hv0
          | fg =>
            obtain ⟨a, q, ha, hq, hfw, hr⟩ := hd.freq hks t ht
            rw [hr] at hw
            simp only [List.mem_singleton] at hw
            subst hw
            obtain ⟨_, _, _, hr'⟩ := hm.parents s hsp hks a ha w hq hfw
            exact hr' v0 hv0
        · obtain ⟨z, hz, hwz, hrz, hlt⟩ := viaObj u (hm.ranked s hsp u (by
            simp only [reqExt, List.mem_append]; exact Or.inr hu'))
          exact ⟨z, hz, hwz, by omega⟩

end PlanFull
