import MlodaVerif.Lemmas.ChainResolve
/-! Rendered names of well-formed chains and the unary case of `parse ∘ render = id`. -/
open Gen.Chain
open Chain

/-! ## rendering facts -/

theorem Chain.render_step (c : Chain) (op : Op) : (Chain.step c op).render = c.render ++ chainSep ++ op.suffix := rfl

theorem Chain.wfU_render (c : Chain) (h : c.wfU = true) : c.render ≠ [] ∧ ∀ ch ∈ c.render, ch ≠ '&' := by
  induction c with
  | src ns =>
    match ns, h with
    | [n], h =>
      obtain ⟨h1, _, h3, _⟩ := srcOk_elim (by simpa [Chain.wfU] using h)
      exact ⟨by simpa [Chain.render, joinWith] using h1, by simpa [Chain.render, joinWith] using h3⟩
    | [], h => simp [Chain.wfU] at h
    | _ :: _ :: _, h => simp [Chain.wfU] at h
  | step c op ih =>
    simp only [Chain.wfU, Bool.and_eq_true] at h
    obtain ⟨⟨hc, hok⟩, _⟩ := h
    obtain ⟨g, _, _, hf⟩ := sufFacts_of_ok op hok
    obtain ⟨hne, hamp⟩ := ih hc
    refine ⟨by simp [Chain.render_step, hne], ?_⟩
    intro ch hch
    simp only [Chain.render_step, List.mem_append] at hch
    rcases hch with (hch | hch) | hch
    · exact hamp ch hch
    · have : chainSep = ['_', '_'] := by decide
      rw [this] at hch
      intro he; subst he; simp at hch
    · exact hf.noAmp ch hch


theorem mixin_single_count (op : Op) (g : Group) (hg : groupAt op.gid = some g) (har : op.arityOk 1 = true) (s : Str)
    (hs : ∀ ch ∈ s, ch ≠ '&') : validateCount g (splitOn inputSep s).length = .ok () := by
  have : splitOn inputSep s = [s] := splitOn_of_not_mem _ _ (by simpa [inputSep] using hs)
  rw [this]
  exact validateCount_of_arity g 1 (arityOk_elim hg har)

theorem parse_render_unary (c : Chain) (h : c.wfU = true) : ∀ fuel, c.depth < fuel → parseAll fuel c.render = some c := by
  induction c with
  | src ns =>
    intro fuel hf
    match ns, h with
    | [n], h =>
      obtain ⟨_, h2, _, _⟩ := srcOk_elim (by simpa [Chain.wfU] using h)
      cases fuel with
      | zero => simp [Chain.depth] at hf
      | succ f => simpa [parseAll, Chain.render, joinWith] using resolveFeat_leaf f n h2
    | [], h => simp [Chain.wfU] at h
    | _ :: _ :: _, h => simp [Chain.wfU] at h
  | step c op ih =>
    intro fuel hf
    simp only [Chain.wfU, Bool.and_eq_true] at h
    obtain ⟨⟨hc, hok⟩, har⟩ := h
    obtain ⟨hne, hamp⟩ := Chain.wfU_render c hc
    cases fuel with
    | zero => simp [Chain.depth] at hf
    | succ f =>
      have hdf : c.depth < f := by simp [Chain.depth] at hf; omega
      obtain ⟨g, hg, hstep⟩ := resolveStep_rendered op hok c.render hne
        (fun g' hg' _ => mixin_single_count op g' hg' har c.render hamp)
        (fun g' hg' hk => by
          -- a two-input group cannot have arity 1
          have hmod : modelled g' = true := by
            obtain ⟨g'', hg'', hm'', _⟩ := sufFacts_of_ok op hok
            rw [hg'] at hg''; cases hg''; exact hm''
          rcases kinds (mem_modelledGroups (groupAt_mem hg') hmod) with ⟨hk', _⟩ | ⟨hk', _, _⟩ | ⟨_, hmin, _⟩
          · rw [hk] at hk'; exact absurd hk' (by decide)
          · rw [hk] at hk'; exact absurd hk' (by decide)
          · have := arityOk_elim hg' har
            simp [hmin] at this)
      have hmain : (nameInputs g c.render).main = [mkFeat c.render] := by
        have hmod : modelled g = true := by
          obtain ⟨g'', hg'', hm'', _⟩ := sufFacts_of_ok op hok
          rw [hg] at hg''; cases hg''; exact hm''
        rcases kinds (mem_modelledGroups (groupAt_mem hg) hmod) with ⟨hk, _⟩ | ⟨hk, _, _⟩ | ⟨hk, hmin, _⟩
        · have : splitOn inputSep c.render = [c.render] := splitOn_of_not_mem _ _ (by simpa [inputSep] using hamp)
          simp [nameInputs, hk, this, dedupe_single]
        · have hne1 : (twName == mixinName) = false := by decide
          simp [nameInputs, hk, hne1]
        · have := arityOk_elim hg har
          simp [hmin] at this
      have ih' := ih hc f hdf
      simp only [parseAll] at ih' ⊢
      rw [Chain.render_step]
      simp only [resolveFeat, featName_mkFeat, featOpts_mkFeat, hstep, hmain, ih', Option.map_some]


theorem columnSep_eq : columnSep = '~' := by decide

/-! concrete option dictionaries used by the witness theorems of `Props/C16.lean` -/
def wAggOpts (inVal : PV) : Opts := ⟨[], [("aggregation_type".toList, .str "sum".toList), (inFeaturesKey, inVal)]⟩
/-- one option-configured level with a single context parameter -/
def wLevel (name key val : String) (inVal : PV) : PV :=
  .feat (.str name.toList) [] [(key.toList, .str val.toList), (inFeaturesKey, inVal)]
/-- the same with *group* options (what the JSON loader builds from nested `options`) -/
def wLevelG (name key val : String) (inVal : PV) : PV :=
  .feat (.str name.toList) [(key.toList, .str val.toList), (inFeaturesKey, inVal)] []
