import MlodaVerif.Lemmas.LifeStore
/-! Counting `drop_cfw_data` calls against the events that (re)track an object. -/
namespace Life
open Store

theorem nTrack_append (o : Nat) (a b : List Ev) : nTrack o (a ++ b) = nTrack o a + nTrack o b := by
  induction a with
  | nil => simp [nTrack]
  | cons e t ih =>
    cases e <;> simp only [List.cons_append, nTrack, ih] <;> omega

theorem trackedDrops_append (o : Nat) (a b : List DropRec) : trackedDrops o (a ++ b) = trackedDrops o a + trackedDrops o b := by
  simp [trackedDrops, List.filter_append]

theorem trackedDrops_of_untracked (o : Nat) (l : List DropRec) (h : ∀ d ∈ l, d.tracked = false) : trackedDrops o l = 0 := by
  simp only [trackedDrops, List.length_eq_zero_iff, List.filter_eq_nil_iff]
  intro d hd
  simp [h d hd]

theorem trackedDrops_of_tracked (o : Nat) (l : List DropRec) (h : ∀ d ∈ l, d.tracked = true) :
    trackedDrops o l = List.count o (l.map (·.obj)) := by
  induction l with
  | nil => rfl
  | cons d t ih =>
    have hd := h d (by simp)
    have ih' := ih (fun d' hd' => h d' (List.mem_cons_of_mem _ hd'))
    simp only [trackedDrops] at ih' ⊢
    simp only [List.filter_cons, hd, Bool.true_and, List.map_cons, List.count_cons]
    by_cases ho : d.obj = o
    · simp [ho, ih']
    · have : (d.obj == o) = false := by simp [ho]
      simp [this, ih']

/-- non-periodic events never call `drop_cfw_data` -/
theorem step_untracked (s : LS) (e : Ev) (he : e ≠ .periodic) : ∀ d ∈ (step s e).2.1, d.tracked = false := by
  intro d hd
  cases ht : d.tracked with
  | false => rfl
  | true => exact absurd (step_drops_tracked s e d hd ht).1 he

theorem ite_mem_le {o : Nat} {a b : List Nat} (h : o ∈ a → o ∈ b) : (if o ∈ a then 1 else 0) ≤ (if o ∈ b then 1 else 0) := by
  by_cases ha : o ∈ a
  · simp [ha, h ha]
  · simp only [ha, if_false]; split <;> omega

/-- `drop_cfw_data(o)` calls so far, plus one if `o` is tracked now, never exceed the events that tracked `o` -/
structure WFC (o : Nat) (h : List Ev) (s : LS) (log : List DropRec) : Prop where
  nodup : (dkeys s.track).Nodup
  count : trackedDrops o log + (if o ∈ dkeys s.track then 1 else 0) ≤ nTrack o h

theorem WFC.atInit (o : Nat) (loc : Bool) (store : List Nat) : WFC o [] (Life.init loc store) [] :=
  ⟨by simp [Life.init, dkeys], by simp [Life.init, dkeys, trackedDrops, nTrack]⟩

theorem WFC.next {o : Nat} {h : List Ev} {s : LS} {log : List DropRec} (e : Ev) (w : WFC o h s log) (hok : (step s e).2.2 = none) :
    WFC o (h ++ [e]) (step s e).1 (log ++ (step s e).2.1) := by
  refine ⟨step_track_nodup s e w.nodup, ?_⟩
  rw [trackedDrops_append, nTrack_append]
  have hc := w.count
  rcases step_track_eq s e with h1 | ⟨o1, ids, he, h1⟩ | ⟨o1, st, F, req, ob, he, _, _, h1⟩ | ⟨he, hf, hgo, h1⟩
  · by_cases hp : e = .periodic
    · -- a periodic call that left the dict alone: finished_ids empty, or nothing to delete
      subst hp
      have hlog : (step s .periodic).2.1 = (periodic s).2.1 := rfl
      rcases periodic_cases s with ⟨_, hs⟩ | ⟨_, err, _, hs⟩ | ⟨_, hgo, hs⟩
      · rw [hlog, hs, h1]
        have h0 : trackedDrops o ([] : List DropRec) = 0 := rfl
        simp only [h0, nTrack]; omega
      · have : (step s .periodic).2.2 = some err := by show (periodic s).2.2 = _; rw [hs]
        rw [this] at hok; cases hok
      · -- track unchanged although the loop ran: every dropped key would have been filtered out, so nothing was dropped
        have hdel := periodicGo_del s.finished s.track s hgo
        have htr : (step s .periodic).1.track = s.track.filter (fun p => decide (p.1 ∉ (periodicGo s.finished s.track s).2.1)) := by
          show (periodic s).1.track = _; rw [hs]; simp only [(periodicGo_frame _ _ _).1]
        rw [hlog, hs]
        simp only
        rw [trackedDrops_of_tracked o _ (periodicGo_log _ _ _).2, (periodicGo_log _ _ _).1]
        have hk := dkeys_filter_key s.track (fun k => decide (k ∉ (periodicGo s.finished s.track s).2.1))
        have hsub : List.Sublist (periodicGo s.finished s.track s).2.1 (dkeys s.track) := periodicGo_del_sublist _ _ _
        have hnd : ((periodicGo s.finished s.track s).2.1).Nodup := List.Nodup.sublist hsub w.nodup
        have hcnt := List.nodup_iff_count.mp hnd o
        by_cases hin : o ∈ (periodicGo s.finished s.track s).2.1
        · have hnot : o ∉ dkeys (step s .periodic).1.track := by
            rw [htr, hk]; simp [hin]
          have hwas : o ∈ dkeys s.track := hsub.subset hin
          simp only [hnot, if_false, hwas, if_true] at hc ⊢
          simp only [nTrack]; omega
        · have h0 : List.count o (periodicGo s.finished s.track s).2.1 = 0 := List.count_eq_zero.mpr hin
          rw [h0, h1]; simp only [nTrack]; omega
    · rw [trackedDrops_of_untracked o _ (step_untracked s e hp), h1]; omega
  · subst he
    rw [trackedDrops_of_untracked o _ (step_untracked s _ (by simp)), h1]
    simp only [nTrack]
    by_cases ho : o1 = o
    · subst ho
      have : o1 ∈ dkeys (dset s.track o1 ids) := (mem_dkeys_dset _ _ _ _).mpr (Or.inr rfl)
      simp only [this, if_true]
      split at hc <;> omega
    · have : (if o ∈ dkeys (dset s.track o1 ids) then 1 else 0) ≤ (if o ∈ dkeys s.track then 1 else 0) := by
        apply ite_mem_le
        intro hm
        rcases (mem_dkeys_dset _ _ _ _).mp hm with hm | hm
        · exact hm
        · exact absurd hm.symm ho
      simp only [ho, if_false]; omega
  · subst he
    rw [trackedDrops_of_untracked o _ (step_untracked s _ (by simp)), h1]
    simp only [nTrack]
    have hkeys : ∀ k, k ∈ dkeys (dropTrack s o1 ob F) → k ∈ dkeys s.track ∨ k = o1 := by
      intro k hk
      rcases dropTrack_eq s o1 ob F with h2 | ⟨_, _, h2⟩ | ⟨_, _, h2⟩
      · rw [h2] at hk; exact Or.inl hk
      · rw [h2] at hk; exact (mem_dkeys_dset _ _ _ _).mp hk
      · rw [h2] at hk; exact (mem_dkeys_dset _ _ _ _).mp hk
    by_cases ho : o1 = o
    · subst ho
      simp only [if_true]
      split <;> split at hc <;> omega
    · have : (if o ∈ dkeys (dropTrack s o1 ob F) then 1 else 0) ≤ (if o ∈ dkeys s.track then 1 else 0) := by
        apply ite_mem_le
        intro hm
        rcases hkeys o hm with hm | hm
        · exact hm
        · exact absurd hm.symm ho
      simp only [ho, if_false]; omega
  · subst he
    have hlog : (step s .periodic).2.1 = (periodicGo s.finished s.track s).2.2.1 := by
      show (periodic s).2.1 = _
      rcases periodic_cases s with ⟨hf', _⟩ | ⟨_, err, hg', _⟩ | ⟨_, _, hs⟩
      · exact absurd hf' hf
      · rw [hgo] at hg'; cases hg'
      · rw [hs]
    rw [hlog, trackedDrops_of_tracked o _ (periodicGo_log _ _ _).2, (periodicGo_log _ _ _).1, h1]
    have hk := dkeys_filter_key s.track (fun k => decide (k ∉ (periodicGo s.finished s.track s).2.1))
    have hsub : List.Sublist (periodicGo s.finished s.track s).2.1 (dkeys s.track) := periodicGo_del_sublist _ _ _
    have hnd : ((periodicGo s.finished s.track s).2.1).Nodup := List.Nodup.sublist hsub w.nodup
    have hcnt := List.nodup_iff_count.mp hnd o
    simp only [nTrack]
    by_cases hin : o ∈ (periodicGo s.finished s.track s).2.1
    · have hnot : o ∉ dkeys (s.track.filter (fun p => decide (p.1 ∉ (periodicGo s.finished s.track s).2.1))) := by
        rw [hk]; simp [hin]
      have hwas : o ∈ dkeys s.track := hsub.subset hin
      simp only [hnot, if_false, hwas, if_true] at hc ⊢
      omega
    · have h0 : List.count o (periodicGo s.finished s.track s).2.1 = 0 := List.count_eq_zero.mpr hin
      rw [h0]
      have : (if o ∈ dkeys (s.track.filter (fun p => decide (p.1 ∉ (periodicGo s.finished s.track s).2.1))) then 1 else 0) ≤ (if o ∈ dkeys s.track then 1 else 0) := by
        apply ite_mem_le
        intro hm
        rw [hk] at hm
        exact (List.mem_filter.mp hm).1
      omega

theorem WFC.ofRun (o : Nat) (loc : Bool) (store : List Nat) (evs : List Ev) (hok : (Life.run (Life.init loc store) evs).2.2 = none) :
    WFC o evs (Life.run (Life.init loc store) evs).1 (Life.run (Life.init loc store) evs).2.1 := by
  have := run_inv (fun h s log => WFC o h s log) (fun h s log e w hk => WFC.next e w hk) evs [] (Life.init loc store) [] (WFC.atInit o loc store) hok
  simpa using this

end Life

namespace Life
open Store

/-- one step calls `drop_cfw_data(o)` at most once, and only if `o` is tracked -/
theorem step_trackedDrops_le (s : LS) (e : Ev) (o : Nat) (hn : (dkeys s.track).Nodup) :
    trackedDrops o (step s e).2.1 ≤ (if o ∈ dkeys s.track then 1 else 0) := by
  by_cases hp : e = .periodic
  · subst hp
    have hgo : trackedDrops o (periodicGo s.finished s.track s).2.2.1 ≤ (if o ∈ dkeys s.track then 1 else 0) := by
      rw [trackedDrops_of_tracked o _ (periodicGo_log _ _ _).2, (periodicGo_log _ _ _).1]
      have hsub : List.Sublist (periodicGo s.finished s.track s).2.1 (dkeys s.track) := periodicGo_del_sublist _ _ _
      have hnd : ((periodicGo s.finished s.track s).2.1).Nodup := List.Nodup.sublist hsub hn
      have hcnt := List.nodup_iff_count.mp hnd o
      by_cases hin : o ∈ (periodicGo s.finished s.track s).2.1
      · simp only [hsub.subset hin, if_true]; exact hcnt
      · rw [List.count_eq_zero.mpr hin]; omega
    show trackedDrops o (periodic s).2.1 ≤ _
    rcases periodic_cases s with ⟨_, hs⟩ | ⟨_, err, _, hs⟩ | ⟨_, _, hs⟩
    · rw [hs]; simp [trackedDrops]
    · rw [hs]; exact hgo
    · rw [hs]; exact hgo
  · rw [trackedDrops_of_untracked o _ (step_untracked s e hp)]; omega

theorem nTrack_mono (o : Nat) (a b : List Ev) : nTrack o a ≤ nTrack o (a ++ b) := by
  rw [nTrack_append]; omega

end Life
