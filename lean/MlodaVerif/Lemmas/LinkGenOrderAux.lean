import MlodaVerif.Lemmas.LinkGenBase
import MlodaVerif.Lemmas.LinkOrderReorder
/-! # Bridge, group B (the order relation), part 1: generic lemmas and `order_ordered_ids_by_relation`

* "parametricity" of the dict primitives: mapping the VALUES of an association list (`mapVal f`, e.g. handle ↦ set) commutes with
  `KDict.set` / `get?` / `moveToEnd` / keys / length (`mapVal_set`, …);
* heap facts (`SHeap.get` after `set` / allocation);
* `reorder_bridge`: `Trk.order_ordered_ids_by_relation` (which only READS the heap) against `LinkOrder.reorder`. -/
namespace LinkGen.Ord
open LinkOrder PyRt Gen.LinkOrderGen

/-! ### mapping the values of a dict -/
section mapval
variable {κ : Type} [DecidableEq κ] {α β : Type}

/-- the dict with `f` applied to every value -/
def mapVal (f : α → β) (d : List (κ × α)) : List (κ × β) := d.map (fun e => (e.1, f e.2))

omit [DecidableEq κ] in
@[simp] theorem mapVal_nil (f : α → β) : mapVal f ([] : List (κ × α)) = [] := rfl

omit [DecidableEq κ] in
@[simp] theorem mapVal_cons (f : α → β) (e : κ × α) (d : List (κ × α)) : mapVal f (e :: d) = (e.1, f e.2) :: mapVal f d := rfl

omit [DecidableEq κ] in
@[simp] theorem mapVal_append (f : α → β) (a b : List (κ × α)) : mapVal f (a ++ b) = mapVal f a ++ mapVal f b := by
  simp [mapVal]

omit [DecidableEq κ] in
@[simp] theorem dkeys_mapVal (f : α → β) (d : List (κ × α)) : dkeys (mapVal f d) = dkeys d := by
  simp [dkeys, mapVal, List.map_map, Function.comp_def]

omit [DecidableEq κ] in
@[simp] theorem length_mapVal (f : α → β) (d : List (κ × α)) : (mapVal f d).length = d.length := by
  simp [mapVal]

theorem dget_mapVal (f : α → β) (d : List (κ × α)) (k : κ) : dget (mapVal f d) k = (dget d k).map f := by
  induction d with
  | nil => rfl
  | cons e r ih =>
    simp only [mapVal_cons, dget]
    by_cases hk : e.1 = k
    · simp [hk]
    · simp [hk, ih]

theorem mapVal_dmodify (f : α → β) (d : List (κ × α)) (k : κ) (g : α → α) (g' : β → β) (hg : ∀ a, f (g a) = g' (f a)) :
    mapVal f (dmodify d k g) = dmodify (mapVal f d) k g' := by
  induction d with
  | nil => rfl
  | cons e r ih =>
    simp only [dmodify, List.map_cons, mapVal_cons] at ih ⊢
    rw [ih]
    by_cases hk : e.1 = k <;> simp [hk, hg]

theorem mapVal_dset (f : α → β) (d : List (κ × α)) (k : κ) (v : α) : mapVal f (dset d k v) = dset (mapVal f d) k (f v) := by
  unfold dset
  rw [dkeys_mapVal]
  split
  · exact mapVal_dmodify f d k _ _ (fun _ => rfl)
  · simp

/-- `KDict.set` on handles, seen through the map handle ↦ value -/
theorem mapVal_set (f : α → β) (d : List (κ × α)) (k : κ) (v : α) : mapVal f (KDict.set d k v) = dset (mapVal f d) k (f v) := by
  rw [set_eq, mapVal_dset]

omit [DecidableEq κ] in
theorem mapVal_filter (f : α → β) (d : List (κ × α)) (p : κ → Bool) :
    mapVal f (d.filter (fun e => p e.1)) = (mapVal f d).filter (fun e => p e.1) := by
  induction d with
  | nil => rfl
  | cons e r ih =>
    simp only [List.filter_cons, mapVal_cons]
    cases hp : p e.1 <;> simp [ih]

theorem mapVal_moveToEnd (f : α → β) (d : List (κ × α)) (k : κ) : mapVal f (moveToEnd d k) = moveToEnd (mapVal f d) k := by
  unfold moveToEnd
  rw [mapVal_append]
  have h1 := mapVal_filter f d (fun x => decide (x ≠ k))
  have h2 := mapVal_filter f d (fun x => decide (x = k))
  rw [h1, h2]

omit [DecidableEq κ] in
theorem mem_mapVal {f : α → β} {d : List (κ × α)} {e : κ × α} (h : e ∈ d) : (e.1, f e.2) ∈ mapVal f d :=
  List.mem_map.mpr ⟨e, h, rfl⟩

theorem mem_dset {d : List (κ × α)} {k : κ} {v : α} {e : κ × α} (h : e ∈ dset d k v) : e ∈ d ∨ e = (k, v) := by
  unfold dset at h
  split at h
  · simp only [dmodify, List.mem_map] at h
    obtain ⟨a, ha, hae⟩ := h
    by_cases hk : a.1 = k
    · simp only [hk, if_true] at hae; exact Or.inr hae.symm
    · simp only [hk, if_false] at hae; exact Or.inl (hae ▸ ha)
  · simpa using h

omit [DecidableEq κ] in
theorem mem_moveToEnd [DecidableEq κ] {d : List (κ × α)} {k : κ} {e : κ × α} (h : e ∈ moveToEnd d k) : e ∈ d := by
  unfold moveToEnd at h
  rw [List.mem_append] at h
  rcases h with h | h <;> exact (List.mem_filter.mp h).1

theorem moveToEnd_perm (d : List (κ × α)) (k : κ) : (moveToEnd d k).Perm d := by
  unfold moveToEnd
  have h := List.filter_append_perm (fun e : κ × α => decide (e.1 ≠ k)) d
  have e : (d.filter fun x => !decide (x.1 ≠ k)) = d.filter (fun e => decide (e.1 = k)) := by
    apply List.filter_congr; intro x _; by_cases hx : x.1 = k <;> simp [hx]
  rw [e] at h
  exact h

theorem nodup_dkeys_moveToEnd {d : List (κ × α)} {k : κ} (h : (dkeys d).Nodup) : (dkeys (moveToEnd d k)).Nodup := by
  unfold dkeys at h ⊢
  exact ((moveToEnd_perm d k).map (·.1)).nodup_iff.mpr h

omit [DecidableEq κ] in
theorem mem_dkeys_of_mem {d : List (κ × α)} {e : κ × α} (h : e ∈ d) : e.1 ∈ dkeys d :=
  List.mem_map.mpr ⟨e, h, rfl⟩

/-- in a dict the value under a key is the one of the entry -/
theorem dget_of_mem {d : List (κ × α)} {e : κ × α} (hn : (dkeys d).Nodup) (h : e ∈ d) : dget d e.1 = some e.2 :=
  dget_of_mem_nodup hn (by cases e; exact h)

omit [DecidableEq κ] in
/-- entries with pairwise different keys that are taken from a dict whose values are pairwise different have pairwise different
values -/
theorem nodup_vals_of_sub {d o : List (κ × α)} (hk : (dkeys d).Nodup) (hs : ∀ e ∈ d, e ∈ o) (ho : (o.map (·.2)).Nodup) :
    (d.map (·.2)).Nodup := by
  unfold dkeys at hk
  unfold List.Nodup at hk ho ⊢
  rw [List.pairwise_map] at hk ho ⊢
  refine hk.imp_of_mem ?_
  intro a b ha hb hab hv
  apply hab
  have ha' := hs a ha
  have hb' := hs b hb
  -- two entries of `o` with the same value are the same entry
  have key : ∀ (l : List (κ × α)), l.Pairwise (fun a b => a.2 ≠ b.2) → ∀ a ∈ l, ∀ b ∈ l, a.2 = b.2 → a = b := by
    intro l hl
    induction hl with
    | nil => intro a ha; cases ha
    | @cons x t hx _ ih =>
      intro a ha b hb hab
      rcases List.mem_cons.mp ha with ha | ha
      · rcases List.mem_cons.mp hb with hb | hb
        · rw [ha, hb]
        · rw [ha] at hab; exact absurd hab (hx _ hb)
      · rcases List.mem_cons.mp hb with hb | hb
        · rw [hb] at hab; exact absurd hab.symm (hx _ ha)
        · exact ih a ha b hb hab
  rw [key o ho a ha' b hb' hv]

end mapval

theorem absOrder_eq (o : KDict Nat Nat) (h : SHeap) : absOrder o h = mapVal (SHeap.get h) o := rfl

/-! ### loops over `enumerate` -/

theorem enumerate_eq {α : Type} (l : List α) : PyList.enumerate l = (List.range' 0 l.length).zip l := by
  unfold PyList.enumerate; rw [List.range_eq_range']

theorem range'_zip_cons {α : Type} (i : Nat) (a : α) (t : List α) :
    (List.range' i (a :: t).length).zip (a :: t) = (i, a) :: (List.range' (i + 1) t.length).zip t := by
  simp [List.range'_succ]

/-! ### `order_ordered_ids_by_relation` -/

/-- the inner loop as written: it walks over ALL positions and skips those `≤ o_pos` -/
def latestAll (oPos oId : Nat) : List (Nat × List Nat) → Nat → Option Nat → Option Nat
  | [], _, acc => acc
  | e :: r, i, acc => latestAll oPos oId r (i + 1) (if oPos ≥ i then acc else if oId ∈ e.2 then some i else acc)

theorem latestAll_eq (oPos oId : Nat) (l : List (Nat × List Nat)) (i : Nat) (acc : Option Nat) :
    (i ≤ oPos → latestAll oPos oId l i acc = latestFrom oId (l.drop (oPos + 1 - i)) (oPos + 1) acc) ∧
    (oPos < i → latestAll oPos oId l i acc = latestFrom oId l i acc) := by
  induction l generalizing i acc with
  | nil => simp [latestAll, latestFrom]
  | cons e r ih =>
    constructor
    · intro hi
      have hge : oPos ≥ i := hi
      simp only [latestAll, hge, if_true]
      have e1 : oPos + 1 - i = (oPos - i) + 1 := by omega
      rw [e1, List.drop_succ_cons]
      by_cases h2 : i + 1 ≤ oPos
      · rw [(ih (i + 1) acc).1 h2]
        have e2 : oPos + 1 - (i + 1) = oPos - i := by omega
        rw [e2]
      · have h3 : oPos < i + 1 := by omega
        rw [(ih (i + 1) acc).2 h3]
        have e2 : oPos - i = 0 := by omega
        have e3 : i + 1 = oPos + 1 := by omega
        rw [e2, e3]; rfl
    · intro hi
      have hge : ¬ (oPos ≥ i) := by omega
      simp only [latestAll, hge, if_false]
      rw [(ih (i + 1) _).2 (by omega)]
      rfl

theorem latestAll_latestPos (o : Order) (oPos oId : Nat) : latestAll oPos oId o 0 none = latestPos o oPos oId := by
  rw [(latestAll_eq oPos oId o 0 none).1 (Nat.zero_le _)]; rfl

/-- the inner loop of `order_ordered_ids_by_relation` -/
theorem latest_loop (h : SHeap) (oPos oId : Nat) (l : KDict Nat Nat) (i : Nat) (acc : Option Nat) :
    forIn ((List.range' i l.length).zip l) acc (fun (x_1 : Nat × Nat × Nat) (__s : Option Nat) =>
        if decide (oPos ≥ x_1.fst) = true then (Except.ok (ForInStep.yield __s) : Except PyExc _)
        else if (!h.has x_1.2.snd oId) = true then Except.ok (ForInStep.yield __s)
        else Except.ok (ForInStep.yield (some x_1.fst)))
      = .ok (latestAll oPos oId (absOrder l h) i acc) := by
  induction l generalizing i acc with
  | nil => rfl
  | cons e r ih =>
    rw [range'_zip_cons, List.forIn_cons]
    simp only [absOrder, List.map_cons, latestAll]
    by_cases h1 : oPos ≥ i
    · simp only [h1, decide_true, if_true, bind, Except.bind]
      exact ih (i + 1) acc
    · simp only [h1, decide_false, if_false, Bool.false_eq_true]
      by_cases h2 : oId ∈ SHeap.get h e.2
      · have : h.has e.2 oId = true := by simp [SHeap.has, PSet.has, h2]
        simp only [this, Bool.not_true, Bool.false_eq_true, if_false, h2, if_true, bind, Except.bind]
        exact ih (i + 1) (some i)
      · have : h.has e.2 oId = false := by simp [SHeap.has, PSet.has, h2]
        simp only [this, Bool.not_false, if_true, h2, if_false, bind, Except.bind]
        exact ih (i + 1) acc

/-- `pos_marker` with the handles replaced by their sets -/
def absPm (pm : KDict Nat (Nat × Nat)) (h : SHeap) : PosMarker := mapVal (fun p => (p.1, SHeap.get h p.2)) pm

/-- the collision loop: the second component of its state -/
theorem bump_loop (pm : KDict Nat (Nat × Nat)) (l : List Nat) (st : Option Nat × Nat) :
    ∃ r, forIn l st (fun (i : Nat) (__s_1 : Option Nat × Nat) =>
        if (!KDict.has pm i) = true then (Except.ok (ForInStep.done (some (i + __s_1.snd), i + __s_1.snd)) : Except PyExc _)
        else Except.ok (ForInStep.yield (__s_1.fst, __s_1.snd))) = .ok r ∧
      r.2 = match l.find? (fun i => decide (i ∉ dkeys pm)) with
        | some i => i + st.2
        | none => st.2 := by
  induction l generalizing st with
  | nil => exact ⟨st, rfl, rfl⟩
  | cons a t ih =>
    rw [List.forIn_cons, List.find?_cons]
    by_cases ha : a ∈ dkeys pm
    · have : KDict.has pm a = true := by rw [has_eq]; simp [ha]
      simp only [this, Bool.not_true, Bool.false_eq_true, if_false, bind, Except.bind, ha, not_true_eq_false, decide_false]
      exact ih (st.1, st.2)
    · have : KDict.has pm a = false := by rw [has_eq]; simp [ha]
      simp only [this, Bool.not_false, if_true, bind, Except.bind, ha, not_false_eq_true, decide_true, pure, Except.pure]
      exact ⟨_, rfl, rfl⟩

/-- one round of the main loop on handles -/
def reoStep (h : SHeap) (order : KDict Nat Nat) (x : Nat × Nat × Nat) (st : KDict Nat Nat × KDict Nat (Nat × Nat)) :
    KDict Nat Nat × KDict Nat (Nat × Nat) :=
  match latestPos (absOrder order h) x.1 x.2.1 with
  | none => (KDict.set st.1 x.2.1 x.2.2, st.2)
  | some lp => (st.1, KDict.set st.2 (bumpPos (absPm st.2 h) lp) x.2)

/-- one round of the last loop on handles -/
def flushStepPy (pm : KDict Nat (Nat × Nat)) (no : KDict Nat Nat) (i : Nat) : KDict Nat Nat :=
  match KDict.get? pm i with
  | some e => moveToEnd (dset no e.1 e.2) e.1
  | none => no

/-- the translated function with its loops replaced by folds -/
def reorderPy (s : Trk.TrekkerSelf) (h : SHeap) : Trk.TrekkerSelf :=
  let st := (PyList.enumerate s.order).foldl (fun st x => reoStep h s.order x st) ([], [])
  if st.2.length = 0 then s
  else { s with order := (List.range ((dkeys st.2).foldl max 0 + 1)).foldl (flushStepPy st.2) st.1 }

theorem foldl_max_eq (x : Nat) (r : List Nat) : r.foldl Nat.max x = (x :: r).foldl max 0 := by
  simp only [List.foldl_cons, Nat.zero_max]

/-- `order_ordered_ids_by_relation` never raises and is `reorderPy` -/
theorem reorder_unfold (s : Trk.TrekkerSelf) (h : SHeap) : Trk.order_ordered_ids_by_relation s h = .ok (reorderPy s h) := by
  unfold Trk.order_ordered_ids_by_relation
  simp only [bind, Except.bind, pure, Except.pure]
  rw [PyRt.forIn_yield_spec (PyList.enumerate s.order) _ (fun x st => reoStep h s.order x st) ?hbody]
  case hbody =>
    intro x st
    rw [enumerate_eq, latest_loop, latestAll_latestPos]
    unfold reoStep
    cases hl : latestPos (absOrder s.order h) x.1 x.2.1 with
    | none => rfl
    | some lp =>
      simp only
      unfold bumpPos
      rw [absPm, dkeys_mapVal, length_mapVal]
      by_cases hm : lp ∈ dkeys st.2
      · have : KDict.has st.2 lp = true := by rw [has_eq]; simp [hm]
        rw [if_pos this, if_pos hm]
        obtain ⟨r, hr, hr2⟩ := bump_loop st.2 (PyList.range lp st.2.length) (some lp, lp)
        rw [hr]
        simp only
        rw [hr2]
        unfold PyList.range
        cases (List.range' lp (st.2.length - lp)).find? (fun i => decide (i ∉ dkeys st.2)) <;> rfl
      · have : ¬ (KDict.has st.2 lp = true) := by rw [has_eq]; simp [hm]
        rw [if_neg this, if_neg hm]
  simp only
  unfold reorderPy
  simp only
  generalize (PyList.enumerate s.order).foldl (fun st x => reoStep h s.order x st) ([], []) = st
  by_cases hlen : st.2.length = 0
  · have : ¬ ((KDict.keys st.2).length != 0) = true := by simp [KDict.keys, hlen]
    rw [if_neg this, if_pos hlen]
  · have : ((KDict.keys st.2).length != 0) = true := by simp [KDict.keys, hlen]
    rw [if_pos this, if_neg hlen]
    cases hk : KDict.keys st.2 with
    | nil => simp [KDict.keys] at hk; simp [hk] at hlen
    | cons a t =>
      simp only [PyList.max]
      rw [PyRt.forIn_yield_spec _ _ (fun i no => flushStepPy st.2 no i) ?hflush]
      case hflush =>
        intro i no
        unfold flushStepPy
        by_cases hi : i ∈ dkeys st.2
        · have : KDict.has st.2 i = true := by rw [has_eq]; simp [hi]
          rw [if_pos this]
          unfold KDict.getItem
          cases hg : KDict.get? st.2 i with
          | none => rw [get?_eq, dget_none_iff] at hg; exact absurd hi hg
          | some e =>
            simp only
            rw [moveToEnd_eq, set_eq, if_pos (mem_dkeys_dset.mpr (Or.inr rfl))]
        · have : ¬ (KDict.has st.2 i = true) := by rw [has_eq]; simp [hi]
          rw [if_neg this]
          have hg : KDict.get? st.2 i = none := by rw [get?_eq, dget_none_iff]; exact hi
          rw [hg]
      simp only
      rw [foldl_max_eq, ← hk, keys_eq]

/-! #### the folds against the model -/

theorem reoStep_abs (h : SHeap) (order : KDict Nat Nat) (x : Nat × Nat × Nat) (st : KDict Nat Nat × KDict Nat (Nat × Nat)) :
    (absOrder (reoStep h order x st).1 h, absPm (reoStep h order x st).2 h) =
      match latestPos (absOrder order h) x.1 x.2.1 with
      | none => (dset (absOrder st.1 h) x.2.1 (SHeap.get h x.2.2), absPm st.2 h)
      | some lp => (absOrder st.1 h, dset (absPm st.2 h) (bumpPos (absPm st.2 h) lp) (x.2.1, SHeap.get h x.2.2)) := by
  unfold reoStep
  cases latestPos (absOrder order h) x.1 x.2.1 with
  | none => simp only [absOrder_eq, mapVal_set]
  | some lp => simp only [absPm, mapVal_set]

theorem reoLoop_abs (h : SHeap) (order : KDict Nat Nat) (l : KDict Nat Nat) (pos : Nat)
    (st : KDict Nat Nat × KDict Nat (Nat × Nat)) :
    (fun r : KDict Nat Nat × KDict Nat (Nat × Nat) => (absOrder r.1 h, absPm r.2 h))
        (((List.range' pos l.length).zip l).foldl (fun st x => reoStep h order x st) st) =
      reorderLoop (absOrder order h) (absOrder l h) pos (absOrder st.1 h, absPm st.2 h) := by
  induction l generalizing pos st with
  | nil => rfl
  | cons e r ih =>
    rw [range'_zip_cons, List.foldl_cons, ih]
    have hs := reoStep_abs h order (pos, e) st
    simp only at hs
    rw [hs]
    simp only [absOrder, List.map_cons, reorderLoop]
    cases latestPos (List.map (fun e => (e.fst, SHeap.get h e.snd)) order) pos e.1 <;> rfl

theorem flushStepPy_abs (h : SHeap) (pm : KDict Nat (Nat × Nat)) (no : KDict Nat Nat) (i : Nat) :
    absOrder (flushStepPy pm no i) h = flushStep (absPm pm h) (absOrder no h) i := by
  unfold flushStepPy flushStep
  rw [absPm, dget_mapVal, get?_eq]
  cases dget pm i with
  | none => rfl
  | some e => simp only [Option.map, absOrder_eq, mapVal_moveToEnd, mapVal_dset]

theorem flushFold_abs (h : SHeap) (pm : KDict Nat (Nat × Nat)) (is : List Nat) (no : KDict Nat Nat) :
    absOrder (is.foldl (flushStepPy pm) no) h = is.foldl (flushStep (absPm pm h)) (absOrder no h) := by
  induction is generalizing no with
  | nil => rfl
  | cons i t ih => rw [List.foldl_cons, List.foldl_cons, ih, flushStepPy_abs]

theorem reorderPy_abs (s : Trk.TrekkerSelf) (h : SHeap) : absOrder (reorderPy s h).order h = reorder (absOrder s.order h) := by
  unfold reorderPy reorder
  have hl := reoLoop_abs h s.order s.order 0 ([], [])
  rw [← enumerate_eq] at hl
  simp only at hl
  have e0 : (absOrder [] h, absPm [] h) = (([] : Order), ([] : PosMarker)) := rfl
  rw [e0] at hl
  have hlen : s.order.length = (absOrder s.order h).length := by simp [absOrder]
  simp only
  rw [← hl]
  simp only [absPm, length_mapVal]
  split
  · rfl
  · simp only
    rw [flushFold_abs, flushMarkers_eq, absPm, dkeys_mapVal]

/-! #### what the new `order` consists of -/

/-- entries of `order`, pairwise different keys -/
def SubOrder (order d : KDict Nat Nat) : Prop := (∀ e ∈ d, e ∈ order) ∧ (dkeys d).Nodup

theorem reoStep_sub (h : SHeap) (order : KDict Nat Nat) (x : Nat × Nat × Nat) (st : KDict Nat Nat × KDict Nat (Nat × Nat))
    (hx : x.2 ∈ order) (h1 : SubOrder order st.1) (h2 : ∀ e ∈ st.2, e.2 ∈ order) :
    SubOrder order (reoStep h order x st).1 ∧ ∀ e ∈ (reoStep h order x st).2, e.2 ∈ order := by
  unfold reoStep
  cases latestPos (absOrder order h) x.1 x.2.1 with
  | none =>
    simp only
    refine ⟨⟨?_, ?_⟩, h2⟩
    · intro e he
      rw [set_eq] at he
      rcases mem_dset he with he | he
      · exact h1.1 e he
      · rw [he]; exact hx
    · rw [set_eq]; exact nodup_dkeys_dset h1.2
  | some lp =>
    simp only
    refine ⟨h1, ?_⟩
    intro e he
    rw [set_eq] at he
    rcases mem_dset he with he | he
    · exact h2 e he
    · rw [he]; exact hx

theorem reoLoop_sub (h : SHeap) (order : KDict Nat Nat) (l : List (Nat × Nat × Nat)) (st : KDict Nat Nat × KDict Nat (Nat × Nat))
    (hl : ∀ x ∈ l, x.2 ∈ order) (h1 : SubOrder order st.1) (h2 : ∀ e ∈ st.2, e.2 ∈ order) :
    SubOrder order (l.foldl (fun st x => reoStep h order x st) st).1 ∧
      ∀ e ∈ (l.foldl (fun st x => reoStep h order x st) st).2, e.2 ∈ order := by
  induction l generalizing st with
  | nil => exact ⟨h1, h2⟩
  | cons x t ih =>
    rw [List.foldl_cons]
    have hs := reoStep_sub h order x st (hl x List.mem_cons_self) h1 h2
    exact ih _ (fun y hy => hl y (List.mem_cons_of_mem _ hy)) hs.1 hs.2

theorem flushStepPy_sub (order : KDict Nat Nat) (pm : KDict Nat (Nat × Nat)) (no : KDict Nat Nat) (i : Nat)
    (h1 : SubOrder order no) (h2 : ∀ e ∈ pm, e.2 ∈ order) : SubOrder order (flushStepPy pm no i) := by
  unfold flushStepPy
  cases hg : KDict.get? pm i with
  | none => exact h1
  | some v =>
    simp only
    rw [get?_eq] at hg
    have hv : v ∈ order := h2 (i, v) (dget_some_mem hg)
    refine ⟨?_, nodup_dkeys_moveToEnd (nodup_dkeys_dset h1.2)⟩
    intro e he
    rcases mem_dset (mem_moveToEnd he) with he | he
    · exact h1.1 e he
    · rw [he]; exact hv

theorem flushFold_sub (order : KDict Nat Nat) (pm : KDict Nat (Nat × Nat)) (is : List Nat) (no : KDict Nat Nat)
    (h1 : SubOrder order no) (h2 : ∀ e ∈ pm, e.2 ∈ order) : SubOrder order (is.foldl (flushStepPy pm) no) := by
  induction is generalizing no with
  | nil => exact h1
  | cons i t ih => rw [List.foldl_cons]; exact ih _ (flushStepPy_sub order pm no i h1 h2)

theorem mem_zip_snd {α β : Type} {l1 : List α} {l2 : List β} {x : α × β} (h : x ∈ l1.zip l2) : x.2 ∈ l2 :=
  (List.of_mem_zip (a := x.1) (b := x.2) h).2

theorem reorderPy_sub (s : Trk.TrekkerSelf) (h : SHeap) (hk : (dkeys s.order).Nodup) : SubOrder s.order (reorderPy s h).order := by
  unfold reorderPy
  simp only
  have hs := reoLoop_sub h s.order (PyList.enumerate s.order) ([], [])
    (fun x hx => by unfold PyList.enumerate at hx; exact mem_zip_snd hx)
    ⟨fun e he => (by cases he), List.nodup_nil⟩ (fun e he => (by cases he))
  split
  · exact ⟨fun e he => he, hk⟩
  · exact flushFold_sub s.order _ _ _ hs.1 hs.2

/-- replacing `order` by entries of the old one with pairwise different keys keeps the representation invariant -/
theorem wf_of_subOrder {L : Links} {s : Trk.TrekkerSelf} {h : SHeap} (hwf : WF L s h) (o : KDict Nat Nat)
    (hsub : SubOrder s.order o) : WF L { s with order := o } h := by
  have hrefs : ∀ r ∈ o.map (·.2), r ∈ s.order.map (·.2) := by
    intro r hr
    obtain ⟨e, he, rfl⟩ := List.mem_map.mp hr
    exact List.mem_map.mpr ⟨e, hsub.1 e he, rfl⟩
  have hdo := List.nodup_append.mp hwf.refsDO
  refine { canonD := hwf.canonD, canonDO := hwf.canonDO, keysD := hwf.keysD, keysDO := hwf.keysDO, keysO := hsub.2,
           refsDO := ?_, refsDord := hwf.refsDord, share := hwf.share, disjO := ?_, allocD := hwf.allocD,
           allocDO := hwf.allocDO, allocO := ?_, setsNodup := hwf.setsNodup }
  · rw [List.nodup_append]
    exact ⟨hdo.1, nodup_vals_of_sub hsub.2 hsub.1 hdo.2.1, fun a ha b hb => hdo.2.2 a ha b (hrefs b hb)⟩
  · intro e he hr; exact hwf.disjO e he (hrefs _ hr)
  · intro e he; exact hwf.allocO e (hsub.1 e he)

end LinkGen.Ord

namespace LinkGen
open LinkOrder PyRt Gen.LinkOrderGen LinkGen.Ord

/-- **`order_ordered_ids_by_relation`** against `LinkOrder.reorder`: it never raises, touches neither `data` nor `data_ordered`
(nor the heap), the new `order` is the model's, it consists of entries of the old one with pairwise different keys, and the
representation invariant is kept -/
theorem reorder_bridge {L : Links} {s : Trk.TrekkerSelf} {h : SHeap} (hwf : WF L s h) :
    ∃ s', Trk.order_ordered_ids_by_relation s h = .ok s' ∧ s'.data = s.data ∧ s'.data_ordered = s.data_ordered ∧
      absOrder s'.order h = reorder (absOrder s.order h) ∧ WF L s' h ∧
      (∀ e ∈ s'.order, e ∈ s.order) ∧ (s'.order.map (·.1)).Nodup := by
  have hsub := reorderPy_sub s h hwf.keysO
  have hd : (reorderPy s h).data = s.data := by unfold reorderPy; simp only; split <;> rfl
  have hdo : (reorderPy s h).data_ordered = s.data_ordered := by unfold reorderPy; simp only; split <;> rfl
  refine ⟨reorderPy s h, reorder_unfold s h, hd, hdo, reorderPy_abs s h, ?_, hsub.1, hsub.2⟩
  have := wf_of_subOrder hwf (reorderPy s h).order hsub
  have e : ({ s with order := (reorderPy s h).order } : Trk.TrekkerSelf) = reorderPy s h := by
    cases hr : reorderPy s h with
    | mk d dd o => rw [hr] at hd hdo; simp only at hd hdo; rw [hd, hdo]
  rw [e] at this
  exact this

end LinkGen

namespace LinkGen.Ord
open LinkOrder PyRt Gen.LinkOrderGen

/-- the abstraction of the whole trekker after `order_ordered_ids_by_relation` -/
theorem reorder_absT {L : Links} {s s' : Trk.TrekkerSelf} {h : SHeap} (hwf : WF L s h)
    (hr : Trk.order_ordered_ids_by_relation s h = .ok s') : absT s' h = { absT s h with order := reorder (absT s h).order } := by
  obtain ⟨s'', h1, h2, h3, h4, _⟩ := reorder_bridge hwf
  rw [hr] at h1
  cases Except.ok.inj h1
  simp only [absT, h2, h3, h4]

end LinkGen.Ord
