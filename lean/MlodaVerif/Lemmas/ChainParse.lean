import MlodaVerif.Lemmas.ChainStr
/-! `parse_feature_name`, `match_feature_group_criteria` and the group-selection loop on rendered names. -/
open Gen.Chain

namespace Chain

theorem chainSep_eq : chainSep = sep2 := by decide

/-- `operation_config` of `parse_feature_name` for a match with captures `caps` on the suffix `suf` -/
def opCfg (toks : List Tk) (caps : Caps) (suf : Str) : Option Str :=
  if hasGroups toks then caps.head?.join else some ((splitOn '_' suf).headD [])

theorem parseFeatureName_append (toks : List Tk) (s suf : Str) (caps : Caps) (hs : s ≠ []) (h : sufOk suf = true)
    (hm : matchToks toks suf = some caps) :
    parseFeatureName chainSep [toks] (s ++ chainSep ++ suf) = .ok (some (opCfg toks caps suf, s)) := by
  rw [chainSep_eq]
  have hse : s.isEmpty = false := by cases s <;> simp_all
  simp only [parseFeatureName, parseFeatureName.go, rsplitOnce_append s suf h, matchPattern_append toks s suf caps h hm,
    Option.isNone_some, hse, Bool.or_self, Bool.false_eq_true, if_false, opCfg]
  split <;> rfl

theorem parseFeatureName_no_source (toks : List Tk) (suf : Str) (caps : Caps) (h : sufOk suf = true)
    (hm : matchToks toks suf = some caps) :
    parseFeatureName chainSep [toks] (chainSep ++ suf) = .error (.value "no-source") := by
  rw [chainSep_eq]
  have h1 := rsplitOnce_append [] suf h
  have h2 := matchPattern_append toks [] suf caps h hm
  simp only [List.nil_append] at h1 h2
  simp [parseFeatureName, parseFeatureName.go, h1, h2]

theorem parseFeatureName_none (sep : Str) (toks : List Tk) (name : Str) (h : matchPattern toks name = none) :
    parseFeatureName sep [toks] name = .ok none := by
  simp [parseFeatureName, parseFeatureName.go, h]

/-! ### `match_feature_group_criteria` -/

theorem matchCriteria_own (g : Group) (hmod : modelled g = true) (s suf : Str) (caps : Caps) (o : Opts) (hs : s ≠ [])
    (h : sufOk suf = true) (hm : matchToks g.toks suf = some caps) (hcfg : (opCfg g.toks caps suf).isSome = true) :
    matchCriteria g (s ++ chainSep ++ suf) o = .ok true := by
  obtain ⟨cfg, hcfg'⟩ := Option.isSome_iff_exists.mp hcfg
  unfold matchCriteria matchConfiguration
  rw [parseFeatureName_append g.toks s suf caps hs h hm, hcfg']
  simp [hmod]

def vfOf (g : Group) : Str → Option (PV → Bool) := fun id => validatorFn id (supportedOpsOf g)

theorem matchCriteria_no_pattern (g : Group) (hmod : modelled g = true) (name : Str) (o : Opts)
    (hn : matchPattern g.toks name = none) :
    matchCriteria g name o =
      (match validateProps (vfOf g) g.props o with
       | .error e => .error e
       | .ok none => .ok false
       | .ok (some r) => .ok r) := by
  unfold matchCriteria matchConfiguration vfOf
  rw [parseFeatureName_none chainSep g.toks name hn]
  simp only [hmod, Bool.not_true, Bool.false_eq_true, if_false]
  generalize validateProps (fun id => validatorFn id (supportedOpsOf g)) g.props o = v
  cases v with
  | error e => rfl
  | ok r => cases r <;> rfl

/-! ### the selection loop -/

/-- indices (starting at `i`) of the list elements satisfying `f` -/
def idxFilter (f : Group → Bool) : List Group → Nat → List Nat
  | [], _ => []
  | g :: gs, i => if f g then i :: idxFilter f gs (i + 1) else idxFilter f gs (i + 1)

theorem matchingGroups_go (name : Str) (o : Opts) (p : Group → Bool) (gs : List Group) (i : Nat)
    (h : ∀ g ∈ gs, modelled g = true → matchCriteria g name o = .ok (p g)) :
    matchingGroups.go name o gs i = .ok (idxFilter (fun g => modelled g && p g) gs i) := by
  induction gs generalizing i with
  | nil => rfl
  | cons g gs ih =>
    have ih' := ih (i + 1) (fun g' hg' => h g' (by simp [hg']))
    unfold matchingGroups.go
    by_cases hm : modelled g = true
    · have hg := h g (by simp) hm
      simp only [hm, Bool.not_true, Bool.false_eq_true, if_false, hg, ih', idxFilter, Bool.true_and]
      cases p g <;> rfl
    · simp only [Bool.not_eq_true] at hm
      simp [hm, ih', idxFilter]

theorem matchingGroups_eq (name : Str) (o : Opts) (p : Group → Bool)
    (h : ∀ g ∈ groups, modelled g = true → matchCriteria g name o = .ok (p g)) :
    matchingGroups name o = .ok (idxFilter (fun g => modelled g && p g) groups 0) :=
  matchingGroups_go name o p groups 0 h

/-! ### table facts (re-checked whenever the generated table changes) -/

def modelledGroups : List Group := groups.filter modelled

/-- every modelled pattern ends in a literal, and no such literal is a suffix of another group's -/
def lastLitsOk : Bool :=
  modelledGroups.all fun g =>
    modelledGroups.all fun g' =>
      match lastLit g.toks, lastLit g'.toks with
      | some a, some b => g.name == g'.name || (!a.isSuffixOf b && !b.isSuffixOf a)
      | _, _ => false

theorem lastLitsOk_true : lastLitsOk = true := by decide

/-- with empty options no modelled group matches by configuration (each has a required property) -/
def emptyOptsOk : Bool :=
  modelledGroups.all fun g =>
    match validateProps (vfOf g) g.props emptyOpts with
    | .ok (some false) => true
    | _ => false

theorem emptyOptsOk_true : emptyOptsOk = true := by decide

/-- selecting by name picks exactly the index of that group -/
def indexOk : Bool :=
  (List.range groups.length).all fun i =>
    match groupAt i with
    | some g => !modelled g || idxFilter (fun g' => modelled g' && g'.name == g.name) groups 0 == [i]
    | none => true

theorem indexOk_true : indexOk = true := by decide

/-- class names are unique in the table -/
def namesUniqueB : Bool := groups.all fun a => groups.all fun b => !(a.name == b.name) || decide (a = b)

theorem namesUniqueB_true : namesUniqueB = true := by decide

theorem namesUnique (a b : Group) (ha : a ∈ groups) (hb : b ∈ groups) (hne : a ≠ b) : (a.name == b.name) = false := by
  have h := namesUniqueB_true
  simp only [namesUniqueB, List.all_eq_true] at h
  have := h a ha b hb
  simp only [Bool.or_eq_true, Bool.not_eq_true', decide_eq_true_eq] at this
  rcases this with h1 | h1
  · exact h1
  · exact absurd h1 hne

theorem mem_modelledGroups {g : Group} (hg : g ∈ groups) (hm : modelled g = true) : g ∈ modelledGroups := by
  simp [modelledGroups, hg, hm]

theorem groupAt_mem {i : Nat} {g : Group} (h : groupAt i = some g) : g ∈ groups := by
  unfold groupAt at h
  exact List.mem_of_getElem? h

theorem groupAt_lt {i : Nat} {g : Group} (h : groupAt i = some g) : i < groups.length := by
  unfold groupAt at h
  exact (List.getElem?_eq_some_iff.mp h).1

theorem lastLit_exists {g : Group} (hg : g ∈ modelledGroups) : ∃ l, lastLit g.toks = some l := by
  have h := lastLitsOk_true
  simp only [lastLitsOk, List.all_eq_true] at h
  have := h g hg g hg
  cases hl : lastLit g.toks with
  | none => simp [hl] at this
  | some l => exact ⟨l, rfl⟩

theorem lastLit_incomparable {g g' : Group} (hg : g ∈ modelledGroups) (hg' : g' ∈ modelledGroups) (hne : (g.name == g'.name) = false)
    {a b : Str} (ha : lastLit g.toks = some a) (hb : lastLit g'.toks = some b) : ¬ a <:+ b ∧ ¬ b <:+ a := by
  have h := lastLitsOk_true
  simp only [lastLitsOk, List.all_eq_true] at h
  have := h g hg g' hg'
  simp only [ha, hb, hne, Bool.false_or, Bool.and_eq_true, Bool.not_eq_true'] at this
  constructor
  · intro hs; have := List.isSuffixOf_iff_suffix.mpr hs; simp_all
  · intro hs; have := List.isSuffixOf_iff_suffix.mpr hs; simp_all

theorem emptyOpts_no_match {g : Group} (hg : g ∈ modelledGroups) :
    validateProps (vfOf g) g.props emptyOpts = .ok (some false) := by
  have h := emptyOptsOk_true
  simp only [emptyOptsOk, List.all_eq_true] at h
  have := h g hg
  split at this <;> simp_all

/-- **exactly one group claims a rendered name**: the group whose suffix was written last -/
theorem matchingGroups_rendered (i : Nat) (g : Group) (hgi : groupAt i = some g) (hmod : modelled g = true)
    (s suf : Str) (caps : Caps) (hs : s ≠ []) (h : sufOk suf = true) (hm : matchToks g.toks suf = some caps)
    (hcfg : (opCfg g.toks caps suf).isSome = true) :
    matchingGroups (s ++ chainSep ++ suf) emptyOpts = .ok [i] := by
  have hg : g ∈ modelledGroups := mem_modelledGroups (groupAt_mem hgi) hmod
  obtain ⟨l, hl⟩ := lastLit_exists hg
  have hlsuf : l <:+ s ++ chainSep ++ suf := (matchToks_lastLit g.toks l hl suf caps hm).trans (List.suffix_append _ _)
  rw [matchingGroups_eq _ _ (fun g' => g'.name == g.name)]
  · have hi := indexOk_true
    simp only [indexOk, List.all_eq_true, List.mem_range] at hi
    have := hi i (groupAt_lt hgi)
    simp only [hgi, hmod, Bool.not_true, Bool.false_or, beq_iff_eq] at this
    rw [this]
  · intro g' hg'mem hg'mod
    have hg' : g' ∈ modelledGroups := mem_modelledGroups hg'mem hg'mod
    by_cases hsame : g' = g
    · subst hsame
      have : (g'.name == g'.name) = true := by simp
      rw [this]
      exact matchCriteria_own g' hmod s suf caps emptyOpts hs h hm hcfg
    · have hne := namesUnique g' g hg'mem (groupAt_mem hgi) hsame
      rw [hne]
      obtain ⟨l', hl'⟩ := lastLit_exists hg'
      have hinc := lastLit_incomparable hg' hg hne hl' hl
      have hnot : ¬ l' <:+ s ++ chainSep ++ suf := by
        intro hl's
        rcases List.suffix_or_suffix_of_suffix hl's hlsuf with h1 | h1
        · exact hinc.1 h1
        · exact hinc.2 h1
      rw [matchCriteria_no_pattern g' hg'mod _ _ (matchPattern_none_of_lastLit g'.toks l' hl' _ hnot), emptyOpts_no_match hg']

end Chain
