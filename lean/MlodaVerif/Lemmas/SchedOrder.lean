import MlodaVerif.Lemmas.SchedInv
/-! Ordering facts: monotone history sets, "a started step's requirements were produced by completed steps",
ancestors first. -/

namespace Sched

theorem done_mono (p : Plan) (s : St) (e : Ev) {j : Nat} (h : j ∈ s.done) : j ∈ (stepEv p s e).done := by
  cases e <;> simp only [stepEv] <;> repeat' split
  all_goals first | exact h | (simp; exact Or.inr h)

theorem started_mono (p : Plan) (s : St) (e : Ev) {j : Nat} (h : j ∈ s.started) : j ∈ (stepEv p s e).started := by
  cases e <;> simp only [stepEv] <;> repeat' split
  all_goals first | exact h | (simp; exact Or.inr h)

theorem finished_mono (p : Plan) (s : St) (e : Ev) {u : Nat} (h : u ∈ s.finished) : u ∈ (stepEv p s e).finished := by
  cases e <;> simp only [stepEv] <;> repeat' split
  all_goals first | exact h | (simp [markFinished]; exact Or.inl h)

theorem done_mono_run (p : Plan) (evs : List Ev) (s : St) {j : Nat} (h : j ∈ s.done) : j ∈ (run p s evs).done := by
  induction evs generalizing s with
  | nil => exact h
  | cons e es ih => exact ih _ (done_mono p s e h)

/-- what a new member of `started` tells us: it was just started by `scan i`, whose gate was open -/
theorem started_new {p : Plan} {s : St} {e : Ev} {j : Nat} (h : j ∈ (stepEv p s e).started) (hn : j ∉ s.started) :
    e = .scan j ∧ ∃ st, p[j]? = some st ∧ canRun st.req st.outs s.finished s.running = true := by
  cases e with
  | scan i =>
    simp only [stepEv] at h
    split at h
    · exact absurd h hn
    · split at h
      · exact absurd h hn
      · rename_i st hst
        split at h
        · exact absurd h hn
        · split at h
          · exact absurd h hn
          · split at h
            · exact absurd h hn
            · exact absurd h hn
          · split at h
            · rename_i hcan
              simp at h
              rcases h with rfl | h
              · exact ⟨rfl, st, hst, hcan⟩
              · exact absurd h hn
            · exact absurd h hn
  | begin i => simp only [stepEv] at h; split at h <;> exact absurd h hn
  | finish i => simp only [stepEv] at h; split at h <;> exact absurd h hn
  | fail i => simp only [stepEv] at h; split at h <;> exact absurd h hn
  | loopHead => simp only [stepEv] at h; repeat' split at h
                all_goals exact absurd h hn

/-- every `done` member got there through a `finish` event -/
theorem done_new {p : Plan} {s : St} {e : Ev} {j : Nat} (h : j ∈ (stepEv p s e).done) (hn : j ∉ s.done) :
    e = .finish j := by
  cases e with
  | scan i =>
    simp only [stepEv] at h
    repeat' split at h
    all_goals first | exact absurd h hn | (simp [markFinished] at h; exact absurd h hn)
  | begin i => simp only [stepEv] at h; split at h <;> exact absurd h hn
  | finish i =>
    simp only [stepEv] at h; split at h
    · simp at h; rcases h with rfl | h
      · rfl
      · exact absurd h hn
    · exact absurd h hn
  | fail i => simp only [stepEv] at h; split at h <;> exact absurd h hn
  | loopHead => simp only [stepEv] at h; repeat' split at h
                all_goals exact absurd h hn

theorem done_has_finish_event (p : Plan) (evs : List Ev) (s : St) {j : Nat}
    (h : j ∈ (run p s evs).done) (hn : j ∉ s.done) : Ev.finish j ∈ evs := by
  induction evs generalizing s with
  | nil => exact absurd h hn
  | cons e es ih =>
    by_cases hj : j ∈ (stepEv p s e).done
    · have := done_new hj hn; subst this; simp
    · have := ih (stepEv p s e) h hj; simp [this]

theorem begun_new {p : Plan} {s : St} {e : Ev} {j : Nat} (h : j ∈ (stepEv p s e).begun) (hn : j ∉ s.begun) :
    e = .begin j ∧ j ∈ s.started := by
  cases e with
  | scan i =>
    simp only [stepEv] at h
    repeat' split at h
    all_goals first | exact absurd h hn | (simp [markFinished] at h; exact absurd h hn)
  | begin i =>
    simp only [stepEv] at h; split at h
    · rename_i hc; simp at h; rcases h with rfl | h
      · exact ⟨rfl, hc.1⟩
      · exact absurd h hn
    · exact absurd h hn
  | finish i => simp only [stepEv] at h; split at h <;> exact absurd h hn
  | fail i => simp only [stepEv] at h; split at h <;> exact absurd h hn
  | loopHead => simp only [stepEv] at h; repeat' split at h
                all_goals exact absurd h hn

/-- `returned` is set only by a loop head at which every uuid of the plan is finished -/
theorem returned_new {p : Plan} {s : St} {e : Ev} (h : (stepEv p s e).returned = true) (hn : s.returned ≠ true) :
    (allOuts p).all (· ∈ s.finished) = true := by
  cases e with
  | scan i =>
    simp only [stepEv] at h
    repeat' split at h
    all_goals first | exact absurd h hn | (simp only [markFinished] at h; exact absurd h hn)
  | begin i => simp only [stepEv] at h; split at h <;> exact absurd h hn
  | finish i => simp only [stepEv] at h; split at h <;> exact absurd h hn
  | fail i => simp only [stepEv] at h; split at h <;> exact absurd h hn
  | loopHead =>
    simp only [stepEv] at h
    split at h
    · exact absurd h hn
    · split at h
      · rename_i hc; exact hc.1
      · split at h <;> exact absurd h hn

theorem returned_all_finished {p : Plan} (evs : List Ev) (s : St)
    (h0 : s.returned = true → (allOuts p).all (· ∈ s.finished) = true)
    (hr : (run p s evs).returned = true) : (allOuts p).all (· ∈ (run p s evs).finished) = true := by
  induction evs generalizing s with
  | nil => exact h0 hr
  | cons e es ih =>
    refine ih (stepEv p s e) ?_ hr
    intro hr'
    have hall : (allOuts p).all (· ∈ s.finished) = true := by
      by_cases hold : s.returned = true
      · exact h0 hold
      · exact returned_new hr' hold
    simp only [List.all_eq_true, decide_eq_true_eq] at hall ⊢
    intro u hu; exact finished_mono p s e (hall u hu)

/-- `RInv`: every uuid a started step requires was produced by a step whose execution has completed -/
def RInv (p : Plan) (s : St) : Prop :=
  ∀ i ∈ s.started, ∀ st, p[i]? = some st → ∀ u ∈ st.req, ∃ j sj, p[j]? = some sj ∧ u ∈ sj.outs ∧ j ∈ s.done

theorem canRun_req {req outs finished running : List Nat} (h : canRun req outs finished running = true) :
    ∀ u ∈ req, u ∈ finished := by
  simp [canRun] at h; exact h.1

theorem rinv_step {p : Plan} {s : St} (hi : SInv p s) (hr : RInv p s) (e : Ev) : RInv p (stepEv p s e) := by
  intro i his st hst u hu
  by_cases hold : i ∈ s.started
  · obtain ⟨j, sj, h1, h2, h3⟩ := hr i hold st hst u hu
    exact ⟨j, sj, h1, h2, done_mono p s e h3⟩
  · obtain ⟨rfl, st', hst', hcan⟩ := started_new his hold
    have : st' = st := by rw [hst] at hst'; exact (Option.some.inj hst').symm
    subst this
    obtain ⟨j, sj, hj1, hj2, hj3⟩ := hi.fin_owner u (canRun_req hcan u hu)
    exact ⟨j, sj, hj2, hj3, done_mono p s _ (hi.coll_sub j hj1)⟩

theorem rinv_reach {p : Plan} (hd : DisjointOuts p) (evs : List Ev) :
    RInv p (run p init evs) ∧ SInv p (run p init evs) := by
  suffices ∀ s, SInv p s → RInv p s → RInv p (run p s evs) ∧ SInv p (run p s evs) from
    this init (sinv_init p) (by intro i hi; simp [init] at hi)
  induction evs with
  | nil => intro s hi hr; exact ⟨hr, hi⟩
  | cons e es ih => intro s hi hr; exact ih _ (sinv_step hd hi e) (rinv_step hi hr e)

/-! ### ancestors -/

/-- `Anc parents a f`: `a` is a (transitive) ancestor of feature `f` in the dependency graph given by direct parents -/
inductive Anc (parents : Nat → List Nat) : Nat → Nat → Prop where
  | direct {a f : Nat} : a ∈ parents f → Anc parents a f
  | trans {a m f : Nat} : m ∈ parents f → Anc parents a m → Anc parents a f

/-- every direct parent of every feature a step produces is among the step's required uuids -/
def ParentsCovered (p : Plan) (parents : Nat → List Nat) : Prop :=
  ∀ (i : Nat) (st : Step), p[i]? = some st → ∀ f ∈ st.outs, ∀ a ∈ parents f, a ∈ st.req

def AInv (p : Plan) (parents : Nat → List Nat) (s : St) : Prop :=
  ∀ i ∈ s.started, ∀ st, p[i]? = some st → ∀ f ∈ st.outs, ∀ a, Anc parents a f →
    ∃ j sj, p[j]? = some sj ∧ a ∈ sj.outs ∧ j ∈ s.done

theorem ainv_step {p : Plan} {parents : Nat → List Nat} (hpc : ParentsCovered p parents) {s : St}
    (hi : SInv p s) (ha : AInv p parents s) (e : Ev) : AInv p parents (stepEv p s e) := by
  intro i his st hst f hf a hanc
  by_cases hold : i ∈ s.started
  · obtain ⟨j, sj, h1, h2, h3⟩ := ha i hold st hst f hf a hanc
    exact ⟨j, sj, h1, h2, done_mono p s e h3⟩
  · obtain ⟨rfl, st', hst', hcan⟩ := started_new his hold
    have : st' = st := by rw [hst] at hst'; exact (Option.some.inj hst').symm
    subst this
    -- producer of a direct parent m of f: collected, hence done and started in the pre-state
    have prod : ∀ m ∈ parents f, ∃ j sj, j ∈ s.collected ∧ p[j]? = some sj ∧ m ∈ sj.outs := by
      intro m hm
      exact hi.fin_owner m (canRun_req hcan m (hpc _ st' hst f hf m hm))
    cases hanc with
    | direct hm =>
      obtain ⟨j, sj, hj1, hj2, hj3⟩ := prod a hm
      exact ⟨j, sj, hj2, hj3, done_mono p s _ (hi.coll_sub j hj1)⟩
    | trans hm hrest =>
      rename_i m
      obtain ⟨j, sj, hj1, hj2, hj3⟩ := prod m hm
      have hjs : j ∈ s.started := hi.begun_sub j (hi.done_sub j (hi.coll_sub j hj1))
      obtain ⟨k, sk, hk1, hk2, hk3⟩ := ha j hjs sj hj2 m hj3 a hrest
      exact ⟨k, sk, hk1, hk2, done_mono p s _ hk3⟩

theorem ainv_reach {p : Plan} {parents : Nat → List Nat} (hd : DisjointOuts p) (hpc : ParentsCovered p parents)
    (evs : List Ev) : AInv p parents (run p init evs) := by
  suffices ∀ s, SInv p s → AInv p parents s → AInv p parents (run p s evs) from
    this init (sinv_init p) (by intro i hi; simp [init] at hi)
  induction evs with
  | nil => intro s _ ha; exact ha
  | cons e es ih => intro s hi ha; exact ih _ (sinv_step hd hi e) (ainv_step hpc hi ha e)

end Sched
