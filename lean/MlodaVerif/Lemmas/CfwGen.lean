import MlodaVerif.Model.CfwReg
import MlodaVerif.Gen.CfwManagerGen
/-! # Bridge between the translation of `CfwManager` (`Gen/CfwManagerGen.lean`) and the hand-written `Model/CfwReg.lean`

State correspondence `toSelf` / `ofSelf`, the error correspondence `toExc`, the dict primitives of `PyRtDict` against
`CfwReg.dget` / `dset`, and the two loop lemmas (`while` with fuel in `find_leftmost`, `for … return` in `get_cfw_uuid`). -/
namespace CfwGen
open CfwReg PyRt Gen.CfwManagerGen

/-! ### states -/

/-- `compute_frameworks[uuid]` is the pair `(cls_name, children_if_root)` -/
def objPair (q : Uuid × Obj) : Nat × (Nat × PSet) := (q.1, (q.2.cls, q.2.children))
def pairObj (q : Nat × (Nat × PSet)) : Uuid × Obj := (q.1, ⟨q.2.1, q.2.2⟩)

/-- the Python object of a model state: field by field, `compute_frameworks` values as tuples -/
def toSelf (s : Reg) : CfwMgr :=
  { compute_frameworks := s.cfws.map objPair, cfw_merge_relation := s.rel, location := s.location, error := s.error,
    msg := s.msg, exc_info := s.exc, uuid_column_names := s.colNames, uuid_flyway_datasets := s.flyway,
    artifact_to_save := s.artifacts, api_data := s.apiData }

/-- the model state of a Python object -/
def ofSelf (g : CfwMgr) : Reg :=
  { cfws := g.compute_frameworks.map pairObj, rel := g.cfw_merge_relation, location := g.location, error := g.error,
    msg := g.msg, exc := g.exc_info, colNames := g.uuid_column_names, flyway := g.uuid_flyway_datasets,
    artifacts := g.artifact_to_save, apiData := g.api_data }

theorem pairObj_objPair (q : Uuid × Obj) : pairObj (objPair q) = q := rfl
theorem objPair_pairObj (q : Nat × (Nat × PSet)) : objPair (pairObj q) = q := rfl

theorem ofSelf_toSelf (s : Reg) : ofSelf (toSelf s) = s := by
  cases s
  simp [ofSelf, toSelf, List.map_map, Function.comp_def, pairObj_objPair]

theorem toSelf_ofSelf (g : CfwMgr) : toSelf (ofSelf g) = g := by
  cases g
  simp [ofSelf, toSelf, List.map_map, Function.comp_def, objPair_pairObj]

/-! ### errors -/

/-- what the model's error values are in Python (the last four belong to the executor and are never raised by
`CfwManager`) -/
def toExc : Err → PyExc
  | .dupUuid => .valueError "UUID {} already exists in compute_frameworks"
  | .noCfw => .valueError "No compute framework registered."
  | .keyError => .keyError
  | .fuel => .fuel
  | .stopIteration => .stopIteration
  | .dupArtifact => .valueError "Artifact name {} already exists."
  | .noApiData => .valueError "No api data set."
  | .apiKeyMissing => .valueError "Api data with key {} not found."
  | .anyUuidNone | .tfsNoSource | .notOccur | .fromNone => .exception "raised by ComputeFrameworkExecutor, not by CfwManager"

/-- a model result as a result of the translated function -/
def lift {α β : Type} (f : α → β) : Except Err α → Except PyExc β
  | .ok a => .ok (f a)
  | .error e => .error (toExc e)

@[simp] theorem lift_ok {α β : Type} (f : α → β) (a : α) : lift f (.ok a) = .ok (f a) := rfl
@[simp] theorem lift_error {α β : Type} (f : α → β) (e : Err) : lift f (.error e : Except Err α) = .error (toExc e) := rfl

theorem toExc_fuel_iff (e : Err) : toExc e = .fuel ↔ e = .fuel := by
  cases e <;> simp [toExc]

theorem lift_eq_fuel_iff {α β : Type} (f : α → β) (r : Except Err α) : lift f r = .error .fuel ↔ r = .error .fuel := by
  cases r with
  | ok a => simp [lift]
  | error e => simp [lift, toExc_fuel_iff]

theorem lift_eq_ok_iff {α β : Type} (f : α → β) (r : Except Err α) (b : β) : lift f r = .ok b ↔ ∃ a, r = .ok a ∧ f a = b := by
  cases r with
  | ok a => simp [lift]
  | error e => simp [lift]

/-! ### dicts -/
section dict
variable {V W : Type}

theorem get?_eq_dget (d : List (Nat × V)) (k : Nat) : NDict.get? d k = dget d k := by
  induction d with
  | nil => rfl
  | cons a t ih => obtain ⟨k', v'⟩ := a; simp only [NDict.get?, dget, ih]

theorem set_eq_dset (d : List (Nat × V)) (k : Nat) (v : V) : NDict.set d k v = dset d k v := by
  induction d with
  | nil => rfl
  | cons a t ih => obtain ⟨k', v'⟩ := a; simp only [NDict.set, dset, ih]

theorem has_eq_dget (d : List (Nat × V)) (k : Nat) : NDict.has d k = (dget d k).isSome := by
  simp [NDict.has, get?_eq_dget]

theorem getItem_eq_dget (d : List (Nat × V)) (k : Nat) :
    NDict.getItem d k = match dget d k with | some v => .ok v | none => .error .keyError := by
  unfold NDict.getItem; rw [get?_eq_dget]; cases dget d k <;> rfl

theorem dget_map (d : List (Nat × V)) (f : V → W) (k : Nat) :
    dget (d.map (fun q => (q.1, f q.2))) k = (dget d k).map f := by
  induction d with
  | nil => rfl
  | cons a t ih =>
    obtain ⟨k', v'⟩ := a
    by_cases h : k' = k <;> simp [dget, h, ih]

theorem dset_map (d : List (Nat × V)) (f : V → W) (k : Nat) (v : V) :
    dset (d.map (fun q => (q.1, f q.2))) k (f v) = (dset d k v).map (fun q => (q.1, f q.2)) := by
  induction d with
  | nil => rfl
  | cons a t ih =>
    obtain ⟨k', v'⟩ := a
    by_cases h : k' = k <;> simp [dset, h, ih]

end dict

theorem objPair_eq : objPair = fun q => (q.1, (fun o : Obj => (o.cls, o.children)) q.2) := rfl

theorem dget_cfws (cfws : List (Uuid × Obj)) (k : Nat) :
    dget (cfws.map objPair) k = (dget cfws k).map (fun o => (o.cls, o.children)) := by
  rw [objPair_eq]; exact dget_map cfws (fun o : Obj => (o.cls, o.children)) k

theorem dset_cfws (cfws : List (Uuid × Obj)) (k : Nat) (c : Cls) (ch : List Uuid) :
    dset (cfws.map objPair) k (c, ch) = (dset cfws k ⟨c, ch⟩).map objPair := by
  rw [objPair_eq]; exact dset_map cfws (fun o : Obj => (o.cls, o.children)) k ⟨c, ch⟩

/-! ### loops -/

/-- `n` rounds of a loop body that does not look at the loop variable -/
def loopN {σ ε : Type} (f : σ → Except ε (ForInStep σ)) : Nat → σ → Except ε σ
  | 0, s => .ok s
  | n + 1, s =>
    match f s with
    | .error e => .error e
    | .ok (.done s') => .ok s'
    | .ok (.yield s') => loopN f n s'

theorem forIn_const_eq_loopN {α σ ε : Type} (l : List α) (f : σ → Except ε (ForInStep σ)) (s : σ) :
    forIn l s (fun _ st => f st) = loopN f l.length s := by
  induction l generalizing s with
  | nil => rfl
  | cons a t ih =>
    simp only [List.forIn_cons, List.length_cons, loopN, bind, Except.bind]
    cases f s with
    | error e => rfl
    | ok r => cases r with
      | done s' => rfl
      | yield s' => exact ih s'

theorem loopN_congr {σ ε : Type} {f g : σ → Except ε (ForInStep σ)} (h : ∀ s, f s = g s) : loopN f = loopN g := by
  rw [show f = g from funext h]

/-- the `for _ in List.range fuel` of a translated `while` -/
theorem forIn_range_eq_loopN {σ ε : Type} (n : Nat) (f : σ → Except ε (ForInStep σ)) (s : σ) :
    forIn (List.range n) s (fun _ st => f st) = loopN f n s := by
  rw [forIn_const_eq_loopN, List.length_range]

/-- a `for` loop that leaves at its first element satisfying `P` (with the state / exception `R x`) and otherwise goes on
with the unchanged state: the shape of `for x in xs: if P(x): return …` -/
theorem forIn_search {α σ ε : Type} (l : List α) (init : σ) (f : α → σ → Except ε (ForInStep σ)) (P : α → Bool)
    (R : α → Except ε σ) (hyield : ∀ x, P x = false → f x init = .ok (.yield init))
    (hdone : ∀ x, P x = true → f x init = match R x with | .error e => .error e | .ok s => .ok (.done s)) :
    forIn l init f = match l.find? P with | none => .ok init | some x => R x := by
  induction l with
  | nil => rfl
  | cons a t ih =>
    simp only [List.forIn_cons, List.find?_cons, bind, Except.bind]
    cases hp : P a with
    | false => rw [hyield a hp]; exact ih
    | true =>
      rw [hdone a hp]
      cases hR : R a <;> simp [hR, pure, Except.pure]

end CfwGen
