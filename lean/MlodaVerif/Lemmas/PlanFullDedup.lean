import MlodaVerif.Lemmas.PlanFullTfsInv
import MlodaVerif.Lemmas.PlanFullRank
/-! `tfs_collecion`: the transform steps of a plan have pairwise different (from framework, to framework, from class, to class). -/
namespace PlanFull
open Sched OptGroup

/-- how a piece of `add_tfs` extends the inserted transform steps `added` and the key collection -/
structure TcAdded (tc tc' : List TKey) (added : List PStep) : Prop where
  nodup : (added.map tkey).Nodup
  fresh : ∀ x ∈ added, tkey x ∉ tc ∧ tkey x ∈ tc'
  mono : ∀ y ∈ tc, y ∈ tc'
  cover : ∀ y ∈ tc', y ∈ tc ∨ y ∈ added.map tkey

theorem TcAdded.refl (tc : List TKey) : TcAdded tc tc [] :=
  ⟨by simp, (by intro x hx; cases hx), fun _ h => h, fun _ h => Or.inl h⟩

theorem TcAdded.trans {a b c : List TKey} {x y : List PStep} (h1 : TcAdded a b x) (h2 : TcAdded b c y) : TcAdded a c (x ++ y) := by
  refine ⟨?_, ?_, fun k hk => h2.mono k (h1.mono k hk), ?_⟩
  rotate_left 2
  · intro k hk
    rcases h2.cover k hk with h | h
    · rcases h1.cover k h with h' | h'
      · exact Or.inl h'
      · exact Or.inr (by rw [List.map_append]; exact List.mem_append_left _ h')
    · exact Or.inr (by rw [List.map_append]; exact List.mem_append_right _ h)
  · rw [List.map_append, List.nodup_append]
    refine ⟨h1.nodup, h2.nodup, ?_⟩
    intro u hu v hv
    obtain ⟨p, hp, rfl⟩ := List.mem_map.mp hu
    obtain ⟨q, hq, rfl⟩ := List.mem_map.mp hv
    intro heq
    exact (h2.fresh q hq).1 (heq ▸ (h1.fresh p hp).2)
  · intro p hp
    rcases List.mem_append.mp hp with hp | hp
    · exact ⟨(h1.fresh p hp).1, h2.mono _ (h1.fresh p hp).2⟩
    · exact ⟨fun h => (h2.fresh p hp).1 (h1.mono _ h), (h2.fresh p hp).2⟩

theorem fgTfsBody_tc (g : Graph) (joins : List PStep) (pp : List Nat) (s : FState) (p : Nat) :
    ∃ added, (fgTfsBody g joins pp s p).new = s.new ++ added ∧ TcAdded s.tc (fgTfsBody g joins pp s p).tc added := by
  unfold fgTfsBody
  split
  · exact ⟨[], by simp, TcAdded.refl _⟩
  · split
    · exact ⟨[], by simp, TcAdded.refl _⟩
    · split
      · simp only
        by_cases hisNew : tkey (fgTfs g s.ep s.n p) ∉ s.tc
        · simp only [hisNew, not_false_eq_true, decide_true, if_true]
          refine ⟨[fgTfs g s.ep s.n p], rfl, by simp, ?_, fun y hy => List.mem_append_left _ hy, ?_⟩
          · intro x hx
            simp only [List.mem_singleton] at hx
            subst hx
            exact ⟨hisNew, by simp⟩
          · intro y hy
            simpa using hy
        · simp only [hisNew, decide_false, Bool.false_eq_true, if_false]
          exact ⟨[], by simp, TcAdded.refl _⟩
      · exact ⟨[], by simp, TcAdded.refl _⟩

theorem fgTfsLoop_tc (g : Graph) (joins : List PStep) (pp : List Nat) : ∀ (parents : List Nat) (s : FState),
    ∃ added, (fgTfsLoop g joins pp parents s).new = s.new ++ added ∧ TcAdded s.tc (fgTfsLoop g joins pp parents s).tc added := by
  intro parents
  induction parents with
  | nil => intro s; exact ⟨[], by simp [fgTfsLoop], TcAdded.refl _⟩
  | cons p ps ih =>
    intro s
    obtain ⟨a1, h1, t1⟩ := fgTfsBody_tc g joins pp s p
    obtain ⟨a2, h2, t2⟩ := ih (fgTfsBody g joins pp s p)
    refine ⟨a1 ++ a2, ?_, ?_⟩
    · simp only [fgTfsLoop, List.foldl_cons] at h2 ⊢
      rw [h2, h1, List.append_assoc]
    · simp only [fgTfsLoop, List.foldl_cons] at t2 ⊢
      exact t1.trans t2

/-- one iteration of the main loop of `add_tfs` and the key collection -/
theorem tfsStep_tc {g : Graph} {linfo : Nat → LinkInfo} {o : Ord} {jc : List (Nat × List Nat)} {st st' : TState} {i : Nat}
    (h : tfsStep g linfo o jc st i = .ok st') : ∃ ts, st'.ins = st.ins ++ ts ∧ TcAdded st.tc st'.tc ts.flatten := by
  unfold tfsStep at h
  cases hep : st.cur[i]? with
  | none => rw [hep] at h; simp only at h; cases h; exact ⟨[], by simp, TcAdded.refl _⟩
  | some ep =>
    rw [hep] at h
    simp only at h
    cases hk : ep.kind with
    | tfs => rw [hk] at h; simp at h
    | join =>
      rw [hk] at h
      simp only at h
      by_cases hb : (ep.fw != ep.fw2) = true
      · simp only [hb, if_true] at h
        cases h
        simp only [tfsJoinCross]
        by_cases hnew : tkey (tfsOfJoin linfo o ep st.n) ∉ st.tc
        · simp only [hnew, not_false_eq_true, decide_true, if_true]
          refine ⟨[[tfsOfJoin linfo o ep st.n]], rfl, by simp, ?_, fun y hy => List.mem_append_left _ hy, ?_⟩
          · intro x hx
            simp only [List.flatten_cons, List.flatten_nil, List.append_nil, List.mem_singleton] at hx
            subst hx
            exact ⟨hnew, by simp⟩
          · intro y hy
            simpa using hy
        · simp only [hnew, decide_false, Bool.false_eq_true, if_false]
          exact ⟨[[]], rfl, TcAdded.refl _⟩
      · simp only [hb, if_false] at h
        cases hl : sameFwLoop o ep (List.range st.cur.length) (st.cur, st.upl, none) with
        | error e => rw [hl] at h; cases h
        | ok r =>
          obtain ⟨cur', upl', store'⟩ := r
          rw [hl] at h
          simp only at h
          cases h
          exact ⟨[[]], rfl, TcAdded.refl _⟩
    | fg =>
      rw [hk] at h
      simp only at h
      cases ha : ep.anyUuid with
      | none => rw [ha] at h; cases h
      | some a =>
        rw [ha] at h
        simp only at h
        cases h
        obtain ⟨added, h1, h2⟩ := fgTfsLoop_tc g (st.cur.filter (fun s => s.kind == .join)) ((g.anc a).flatMap g.anc) (g.anc a)
          { ep := ep, tc := st.tc, upl := st.upl, n := st.n }
        simp only [List.nil_append] at h1
        refine ⟨[added], by simp only [h1], ?_⟩
        simpa using h2

/-- the final state of the main loop of `add_tfs` -/
theorem addTfs_state {g : Graph} {linfo : Nat → LinkInfo} {o : Ord} {jc : List (Nat × List Nat)} {p P : List PStep} {n : Nat}
    (h : addTfs g linfo o jc p n = .ok P) :
    ∃ st, (List.range p.length).foldlM (tfsStep g linfo o jc) { cur := p, n := n } = .ok st ∧ P = assemble st.ins st.cur := by
  unfold addTfs at h
  cases hf : (List.range p.length).foldlM (tfsStep g linfo o jc) { cur := p, n := n } with
  | error e => rw [hf] at h; cases h
  | ok st => rw [hf] at h; cases h; exact ⟨st, rfl, rfl⟩

theorem assemble_filter_tfs : ∀ (ins : List (List PStep)) (cur : List PStep), ins.length = cur.length →
    (∀ ts ∈ ins, ∀ x ∈ ts, x.kind = .tfs) → (∀ s ∈ cur, s.kind ≠ .tfs) →
    (assemble ins cur).filter (fun s => s.kind == .tfs) = ins.flatten := by
  intro ins
  induction ins with
  | nil => intro cur hl _ _; cases cur with
    | nil => rfl
    | cons _ _ => simp at hl
  | cons ts r ih =>
    intro cur hl hs hc
    cases cur with
    | nil => simp at hl
    | cons s c =>
      have hrec := ih c (by simpa using hl) (fun ts' h' => hs ts' (List.mem_cons_of_mem _ h')) (fun x hx => hc x (List.mem_cons_of_mem _ hx))
      unfold assemble at hrec ⊢
      simp only [List.zip_cons_cons, List.flatMap_cons, List.filter_append, hrec, List.flatten_cons]
      have h1 : ts.filter (fun s => s.kind == .tfs) = ts := by
        apply List.filter_eq_self.mpr
        intro x hx; simp [hs ts (by simp) x hx]
      have h2 : [s].filter (fun s => s.kind == .tfs) = [] := by
        have := hc s (by simp)
        simp [this]
      rw [h1, h2]; simp

/-- in the plan `add_tfs` returns no two transform steps are `==` -/
theorem addTfs_tfs_keys_nodup {g : Graph} {linfo : Nat → LinkInfo} {o : Ord} {jc : List (Nat × List Nat)} {p P : List PStep}
    {n : Nat} (h : addTfs g linfo o jc p n = .ok P) (hp : ∀ s ∈ p, s.kind ≠ .tfs) :
    ((P.filter (fun s => s.kind == .tfs)).map tkey).Nodup := by
  obtain ⟨st, hf, rfl⟩ := addTfs_state h
  obtain ⟨st', hinv, hP'⟩ := addTfs_inv h
  -- the key collection invariant
  have hkeys := foldlM_inv (tfsStep g linfo o jc)
    (fun _ s => (s.ins.flatten.map tkey).Nodup ∧ ∀ x ∈ s.ins.flatten, tkey x ∈ s.tc) (List.range p.length)
    { cur := p, n := n } st ⟨by simp, by intro x hx; simp at hx⟩
    (by
      intro k a s s' _ ⟨hnd, hin⟩ hstep
      obtain ⟨ts, hins, htc⟩ := tfsStep_tc hstep
      rw [hins, List.flatten_append]
      refine ⟨?_, ?_⟩
      · rw [List.map_append, List.nodup_append]
        refine ⟨hnd, htc.nodup, ?_⟩
        intro u hu v hv
        obtain ⟨x, hx, rfl⟩ := List.mem_map.mp hu
        obtain ⟨y, hy, rfl⟩ := List.mem_map.mp hv
        intro heq
        exact (htc.fresh y hy).1 (heq ▸ hin x hx)
      · intro x hx
        rcases List.mem_append.mp hx with hx | hx
        · exact htc.mono _ (hin x hx)
        · exact (htc.fresh x hx).2) hf
  -- the structural invariant, for the same final state
  have hinv2 : TInv g p jc n p.length st := by
    have := foldlM_inv (tfsStep g linfo o jc) (fun k st => k ≤ p.length → TInv g p jc n k st) (List.range p.length)
      { cur := p, n := n } st (fun _ => TInv.init g p jc n)
      (by
        intro k a s s' hka hP hstep hk1
        have hak : a = k := by
          by_cases hlt : k < p.length
          · rw [List.getElem?_range hlt] at hka; cases hka; rfl
          · omega
        subst hak
        exact (hP (by omega)).step (by omega) hstep) hf
    simp only [List.length_range] at this
    exact this (Nat.le_refl _)
  have hlen : st.ins.length = st.cur.length := by
    have := congrArg List.length hinv2.core_eq
    simp only [List.length_map] at this
    rw [hinv2.ins_len, this]
  have htfs : ∀ ts ∈ st.ins, ∀ x ∈ ts, x.kind = .tfs := by
    intro ts hts x hx
    obtain ⟨i, hi⟩ := List.mem_iff_getElem?.mp hts
    have hlt : i < p.length := by rw [← hinv2.ins_len]; exact (List.getElem?_eq_some_iff.mp hi).1
    obtain ⟨s', ts', _, h2, hd⟩ := hinv2.done i hlt _ (List.getElem?_eq_getElem hlt)
    rw [hi] at h2; cases h2
    exact (hd.tfs x hx).1
  have hcur : ∀ s ∈ st.cur, s.kind ≠ .tfs := by
    intro s hs
    obtain ⟨i, hi⟩ := List.mem_iff_getElem?.mp hs
    have hlt : i < p.length := by
      have := congrArg List.length hinv2.core_eq
      simp only [List.length_map] at this
      rw [← this]; exact (List.getElem?_eq_some_iff.mp hi).1
    have hc := core_at hinv2.core_eq (List.getElem?_eq_getElem hlt) hi
    rw [kind_of_core hc]
    exact hp _ (List.getElem_mem hlt)
  rw [assemble_filter_tfs st.ins st.cur hlen htfs hcur]
  exact hkeys.1

end PlanFull

namespace PlanFull
open Sched OptGroup

/-- the `==` class of the transform step `fill_tfs_by_joinstep` makes for a JoinStep -/
def joinKey (linfo : Nat → LinkInfo) (s : PStep) : TKey := tkey (tfsOfJoin linfo [] s 0)

theorem tkey_tfsOfJoin (linfo : Nat → LinkInfo) (o : Ord) (ep : PStep) (n : Nat) :
    tkey (tfsOfJoin linfo o ep n) = joinKey linfo ep := rfl

theorem joinKey_of_core {linfo : Nat → LinkInfo} {s s' : PStep} (h : core s' = core s) : joinKey linfo s' = joinKey linfo s := by
  have h1 : s'.fw = s.fw := fw_of_core h
  have h2 : s'.fw2 = s.fw2 := fw2_of_core h
  have h3 : s'.jt = s.jt := by have := congrArg PStep.jt h; simpa [core] using this
  have h4 : s'.link = s.link := by have := congrArg PStep.link h; simpa [core] using this
  simp [joinKey, tkey, tfsOfJoin, h1, h2, h3, h4]

/-- after the iteration for a JoinStep between two frameworks its key is in `tfs_collecion`; the transform steps inserted for it
are none, or exactly one with that key -/
theorem tfsStep_cross_key {g : Graph} {linfo : Nat → LinkInfo} {o : Ord} {jc : List (Nat × List Nat)} {st st' : TState} {i : Nat}
    {ep : PStep} (hep : st.cur[i]? = some ep) (hk : ep.kind = .join) (hx : ep.fw ≠ ep.fw2)
    (h : tfsStep g linfo o jc st i = .ok st') :
    joinKey linfo ep ∈ st'.tc ∧ ∃ ts, st'.ins = st.ins ++ [ts] ∧ (ts = [] ∨ ∃ x, ts = [x] ∧ tkey x = joinKey linfo ep) := by
  unfold tfsStep at h
  rw [hep] at h
  simp only [hk] at h
  have hb : (ep.fw != ep.fw2) = true := by simpa using hx
  simp only [hb, if_true] at h
  cases h
  simp only [tfsJoinCross, tkey_tfsOfJoin]
  by_cases hnew : joinKey linfo ep ∉ st.tc
  · simp only [hnew, not_false_eq_true, decide_true, if_true]
    exact ⟨by simp, _, rfl, Or.inr ⟨_, rfl, tkey_tfsOfJoin linfo o ep st.n⟩⟩
  · simp only [hnew, decide_false, Bool.false_eq_true, if_false]
    exact ⟨Classical.not_not.mp hnew, _, rfl, Or.inl rfl⟩

/-- every JoinStep between two frameworks has a transform step with its key somewhere in the plan, and the transform steps
inserted directly before it are none or exactly that one -/
theorem addTfs_cross_join {g : Graph} {linfo : Nat → LinkInfo} {o : Ord} {jc : List (Nat × List Nat)} {p P : List PStep} {n : Nat}
    (h : addTfs g linfo o jc p n = .ok P) {i : Nat} {s : PStep} (hs : p[i]? = some s) (hk : s.kind = .join) (hx : s.fw ≠ s.fw2) :
    (∃ y ∈ P, y.kind = .tfs ∧ tkey y = joinKey linfo s) ∧
    ∃ st, P = assemble st.ins st.cur ∧ TInv g p jc n p.length st ∧
      ∃ ts, st.ins[i]? = some ts ∧ (ts = [] ∨ ∃ x, ts = [x] ∧ tkey x = joinKey linfo s) := by
  obtain ⟨st, hf, rfl⟩ := addTfs_state h
  have hi : i < p.length := (List.getElem?_eq_some_iff.mp hs).1
  have hinv := foldlM_inv (tfsStep g linfo o jc)
    (fun k st => k ≤ p.length → TInv g p jc n k st ∧
      (∀ y ∈ st.tc, y ∈ st.ins.flatten.map tkey) ∧
      (i < k → joinKey linfo s ∈ st.tc ∧ ∃ ts, st.ins[i]? = some ts ∧ (ts = [] ∨ ∃ x, ts = [x] ∧ tkey x = joinKey linfo s)))
    (List.range p.length) { cur := p, n := n } st
    (fun _ => ⟨TInv.init g p jc n, (by intro y hy; cases hy), fun h => absurd h (Nat.not_lt_zero _)⟩)
    (by
      intro k a s0 s1 hka hP hstep hk1
      have hak : a = k := by
        by_cases hlt : k < p.length
        · rw [List.getElem?_range hlt] at hka; cases hka; rfl
        · omega
      subst hak
      obtain ⟨hT, hcov, hdone⟩ := hP (by omega)
      obtain ⟨tss, hins, htc⟩ := tfsStep_tc hstep
      refine ⟨hT.step (by omega) hstep, ?_, ?_⟩
      · intro y hy
        rw [hins, List.flatten_append, List.map_append]
        rcases htc.cover y hy with h' | h'
        · exact List.mem_append_left _ (hcov y h')
        · exact List.mem_append_right _ h'
      · intro hik
        by_cases hia : i = a
        · subst hia
          obtain ⟨ep, hep⟩ := exists_at_of_core hT.core_eq hs
          have hc := core_at hT.core_eq hs hep
          obtain ⟨h1, ts, h2, h3⟩ := tfsStep_cross_key hep (by rw [kind_of_core hc]; exact hk)
            (by rw [fw_of_core hc, fw2_of_core hc]; exact hx) hstep
          rw [joinKey_of_core hc] at h1 h3
          refine ⟨h1, ts, ?_, h3⟩
          rw [h2, List.getElem?_append_right (by rw [hT.ins_len]; exact Nat.le_refl _), hT.ins_len]; simp
        · obtain ⟨h1, ts, h2, h3⟩ := hdone (by omega)
          refine ⟨htc.mono _ h1, ts, ?_, h3⟩
          rw [hins, List.getElem?_append_left (by rw [hT.ins_len]; omega)]; exact h2) hf
  simp only [List.length_range] at hinv
  obtain ⟨hT, hcov, hdone⟩ := hinv (Nat.le_refl _)
  obtain ⟨hkey, ts, hts, hshape⟩ := hdone hi
  refine ⟨?_, st, rfl, hT, ts, hts, hshape⟩
  obtain ⟨y, hy, hyk⟩ := List.mem_map.mp (hcov _ hkey)
  obtain ⟨ts', hts', hyts⟩ := List.mem_flatten.mp hy
  obtain ⟨j, hj⟩ := List.mem_iff_getElem?.mp hts'
  have hjlt : j < p.length := by rw [← hT.ins_len]; exact (List.getElem?_eq_some_iff.mp hj).1
  obtain ⟨s', ts'', h1, h2, hd⟩ := hT.done j hjlt _ (List.getElem?_eq_getElem hjlt)
  rw [hj] at h2; cases h2
  exact ⟨y, mem_assemble_of hj h1 (Or.inl hyts), (hd.tfs y hyts).1, hyk⟩

end PlanFull
