import MlodaVerif.Lemmas.LifeInv
/-! `Life` refines the run-level store of `Model/Store.lean` (keys of the run's objects + content of the flight store). -/
namespace Life
open Store

theorem Run.ext' (a b : Run) (h1 : a.keys = b.keys) (h2 : a.store = b.store) : a = b := by
  cases a; cases b; simp only at h1 h2; subst h1; subst h2; rfl

theorem srun_append (r : Run) (a b : List SEv) : srun r (a ++ b) = srun (srun r a) b := by
  simp [srun, List.foldl_append]

theorem dkeys_dset_mem {α : Type} (d : List (Nat × α)) (k : Nat) (v : α) (h : k ∈ dkeys d) : dkeys (dset d k v) = dkeys d := by
  rw [dkeys_dset, if_pos h]

theorem rm_refines (r : Run) (k : Option Nat) : ∃ sevs, ({ keys := r.keys, store := rm r.store k } : Run) = srun r sevs := by
  cases k with
  | none => exact ⟨[], by cases r; rfl⟩
  | some k => exact ⟨[.drop k], by cases r; rfl⟩

theorem periodicGo_refines (fin : List Nat) (items : List (Nat × List Nat)) (s : LS) :
    ∃ sevs, toRun (periodicGo fin items s).1 = srun (toRun s) sevs := by
  induction items generalizing s with
  | nil => exact ⟨[], rfl⟩
  | cons p t ih =>
    obtain ⟨o, ids⟩ := p
    simp only [periodicGo]
    split
    · split
      · exact ⟨[], rfl⟩
      · rename_i ob hget
        obtain ⟨sevs2, h2⟩ := ih { s with objs := dset s.objs o (cleared ob), store := rm s.store (if s.loc = true then ob.cfw.dataKey else none) }
        obtain ⟨sevs1, h1⟩ := rm_refines (toRun s) (if s.loc = true then ob.cfw.dataKey else none)
        refine ⟨sevs1 ++ sevs2, ?_⟩
        rw [srun_append, ← h1]
        simp only at h2 ⊢
        rw [h2]
        congr 1
        apply Run.ext'
        · simp only [toRun]; exact dkeys_dset_mem _ _ _ (mem_dkeys_of_dget hget)
        · rfl
    · exact ih s

/-- one event of the orchestrator is a (possibly empty) sequence of register / upload / drop events of the run-level store -/
theorem step_refines (s : LS) (e : Ev) : ∃ sevs, toRun (step s e).1 = srun (toRun s) sevs := by
  cases e with
  | register o ch =>
    simp only [step]
    rcases opt_cases (dget s.objs o) with hg | ⟨ob, hg⟩
    · simp only [hg]
      refine ⟨[.register o], ?_⟩
      have hk : o ∉ dkeys s.objs := (dget_eq_none_iff _ _).mp hg
      apply Run.ext'
      · simp only [toRun, srun, List.foldl, sstep, dkeys_dset, if_neg hk]; simp [hk]
      · simp only [toRun, srun, List.foldl, sstep]
    · simp only [hg]; exact ⟨[], rfl⟩
  | spawn o =>
    simp only [step]
    rcases opt_cases (dget s.objs o) with hg | ⟨ob, hg⟩
    · simp only [hg]; exact ⟨[], rfl⟩
    · simp only [hg]
      refine ⟨[], ?_⟩
      apply Run.ext'
      · simp only [toRun, srun, List.foldl]; exact dkeys_dset_mem _ _ _ (mem_dkeys_of_dget hg)
      · rfl
  | ran o =>
    simp only [step]
    rcases opt_cases (dget s.objs o) with hg | ⟨ob, hg⟩
    · simp only [hg]; exact ⟨[], rfl⟩
    · simp only [hg]
      refine ⟨[], ?_⟩
      apply Run.ext'
      · simp only [toRun, srun, List.foldl]; exact dkeys_dset_mem _ _ _ (mem_dkeys_of_dget hg)
      · rfl
  | uploadKeep o =>
    simp only [step]
    rcases opt_cases (dget s.objs o) with hg | ⟨ob, hg⟩
    · simp only [hg]; exact ⟨[], rfl⟩
    · simp only [hg]
      split
      · exact ⟨[], rfl⟩
      · split
        · exact ⟨[], rfl⟩
        · refine ⟨[.upload o], ?_⟩
          have hk : o ∈ dkeys s.objs := mem_dkeys_of_dget hg
          apply Run.ext'
          · simp only [toRun, srun, List.foldl, sstep, hk, if_true]; exact dkeys_dset_mem _ _ _ hk
          · simp only [toRun, srun, List.foldl, sstep, hk, if_true, addKey]; split <;> simp_all
  | uploadReplace o =>
    simp only [step]
    rcases opt_cases (dget s.objs o) with hg | ⟨ob, hg⟩
    · simp only [hg]; exact ⟨[], rfl⟩
    · simp only [hg]
      split
      · exact ⟨[], rfl⟩
      · split
        · exact ⟨[], rfl⟩
        · refine ⟨[.upload o], ?_⟩
          have hk : o ∈ dkeys s.objs := mem_dkeys_of_dget hg
          apply Run.ext'
          · simp only [toRun, srun, List.foldl, sstep, hk, if_true]; exact dkeys_dset_mem _ _ _ hk
          · simp only [toRun, srun, List.foldl, sstep, hk, if_true, addKey]; split <;> simp_all
  | setFlyway o ids => exact ⟨[], rfl⟩
  | trackFlyway o ids => exact ⟨[], rfl⟩
  | otherDone ids => exact ⟨[], rfl⟩
  | pop => simp only [step]; split <;> exact ⟨[], rfl⟩
  | fgDone o st F req =>
    rcases fgDone_cases s o st F req with ⟨_, hs⟩ | ⟨ob1, err, _, hs⟩ | ⟨ob1, hg, _, hs⟩
    · have hs' : step s (.fgDone o st F req) = (s, [], some .noObject) := hs
      rw [hs']; exact ⟨[], rfl⟩
    · have hs' : step s (.fgDone o st F req) = (s, [], some err) := hs
      rw [hs']; exact ⟨[], rfl⟩
    · have hs' : step s (.fgDone o st F req) = _ := hs
      rw [hs']
      obtain ⟨sevs, h1⟩ := rm_refines (toRun s) (dropKey s.loc ob1 F)
      refine ⟨sevs, ?_⟩
      rw [← h1]
      apply Run.ext'
      · simp only [toRun]; exact dkeys_dset_mem _ _ _ (mem_dkeys_of_dget hg)
      · rfl
  | periodic =>
    show ∃ sevs, toRun (periodic s).1 = _
    rcases periodic_cases s with ⟨_, hs⟩ | ⟨_, err, _, hs⟩ | ⟨_, _, hs⟩
    · rw [hs]; exact ⟨[], rfl⟩
    · rw [hs]; exact periodicGo_refines _ _ _
    · rw [hs]
      obtain ⟨sevs, h⟩ := periodicGo_refines s.finished s.track s
      exact ⟨sevs, by rw [← h]; rfl⟩

theorem run_refines (s : LS) (evs : List Ev) : ∃ sevs, toRun (run s evs).1 = srun (toRun s) sevs := by
  induction evs generalizing s with
  | nil => exact ⟨[], rfl⟩
  | cons e es ih =>
    obtain ⟨sevs1, h1⟩ := step_refines s e
    rcases opt_cases (step s e).2.2 with he | ⟨err, he⟩
    · rw [run_cons_ok s e es he]
      obtain ⟨sevs2, h2⟩ := ih (step s e).1
      exact ⟨sevs1 ++ sevs2, by rw [srun_append, ← h1]; exact h2⟩
    · rw [run_cons_err s e es err he]
      exact ⟨sevs1, h1⟩

theorem finalCleanup_toRun (s : LS) (h : s.loc = true) : toRun (finalCleanup s) = finalDrop (toRun s) := by
  simp only [finalCleanup, h, if_true, toRun, finalDrop]; congr

theorem finalCleanup_objs (s : LS) : (finalCleanup s).objs = s.objs := by
  simp only [finalCleanup]; split <;> rfl

end Life
