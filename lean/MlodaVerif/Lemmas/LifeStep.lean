import MlodaVerif.Lemmas.LifeDict
/-! One-step facts about `Life.step` (what each event can do to each part of the state). -/
namespace Life
open Store

/-! ### `cleared` -/

@[simp] theorem cleared_children (ob : Obj) : (cleared ob).cfw.children = ob.cfw.children := rfl
@[simp] theorem cleared_tracker (ob : Obj) : (cleared ob).cfw.tracker = ob.cfw.tracker := rfl
@[simp] theorem cleared_objectIds (ob : Obj) : (cleared ob).cfw.objectIds = ob.cfw.objectIds := rfl
@[simp] theorem cleared_queue (ob : Obj) : (cleared ob).queue = ob.queue := rfl
@[simp] theorem cleared_dataKey (ob : Obj) : (cleared ob).cfw.dataKey = none := rfl
@[simp] theorem cleared_table (ob : Obj) : (cleared ob).table = false := rfl
@[simp] theorem cleared_cleared (ob : Obj) : cleared (cleared ob) = cleared ob := rfl

/-! ### the loop of `drop_data_for_finished_cfws` -/

theorem periodicGo_frame (fin : List Nat) (items : List (Nat × List Nat)) (s : LS) :
    (periodicGo fin items s).1.track = s.track ∧ (periodicGo fin items s).1.flyway = s.flyway ∧
    (periodicGo fin items s).1.results = s.results ∧ (periodicGo fin items s).1.yielded = s.yielded ∧
    (periodicGo fin items s).1.finished = s.finished ∧ (periodicGo fin items s).1.loc = s.loc ∧
    dkeys (periodicGo fin items s).1.objs = dkeys s.objs := by
  induction items generalizing s with
  | nil => simp [periodicGo]
  | cons p t ih =>
    obtain ⟨o, ids⟩ := p
    simp only [periodicGo]
    split
    · split
      · simp
      · rename_i ob hget
        have := ih { s with objs := dset s.objs o (cleared ob), store := rm s.store (if s.loc = true then ob.cfw.dataKey else none) }
        simp only at this ⊢
        refine ⟨this.1, this.2.1, this.2.2.1, this.2.2.2.1, this.2.2.2.2.1, this.2.2.2.2.2.1, ?_⟩
        rw [this.2.2.2.2.2.2, dkeys_dset]
        simp [mem_dkeys_of_dget hget]
    · exact ih s

/-- an object is only ever cleared by the loop -/
theorem periodicGo_obj (fin : List Nat) (items : List (Nat × List Nat)) (s : LS) (o : Nat) (ob' : Obj)
    (h : dget (periodicGo fin items s).1.objs o = some ob') :
    ∃ ob, dget s.objs o = some ob ∧ (ob' = ob ∨ ob' = cleared ob) := by
  induction items generalizing s with
  | nil => exact ⟨ob', by simpa [periodicGo] using h, Or.inl rfl⟩
  | cons p t ih =>
    obtain ⟨o1, ids⟩ := p
    simp only [periodicGo] at h
    split at h
    · split at h
      · exact ⟨ob', h, Or.inl rfl⟩
      · rename_i ob1 hget
        obtain ⟨ob, hob, hrel⟩ := ih _ h
        simp only [dget_dset] at hob
        by_cases ho : o1 = o
        · subst ho
          simp only [if_true, Option.some.injEq] at hob
          subst hob
          refine ⟨ob1, hget, Or.inr ?_⟩
          rcases hrel with r | r <;> simp [r]
        · simp only [ho, if_false] at hob
          exact ⟨ob, hob, hrel⟩
    · exact ih s h

/-- objects persist through the loop -/
theorem periodicGo_obj_persist (fin : List Nat) (items : List (Nat × List Nat)) (s : LS) (o : Nat) (ob : Obj)
    (h : dget s.objs o = some ob) : ∃ ob', dget (periodicGo fin items s).1.objs o = some ob' := by
  have hk : o ∈ dkeys (periodicGo fin items s).1.objs := by
    rw [(periodicGo_frame fin items s).2.2.2.2.2.2]; exact mem_dkeys_of_dget h
  exact dget_of_mem_dkeys hk

theorem periodicGo_store (fin : List Nat) (items : List (Nat × List Nat)) (s : LS) (x : Nat)
    (h : x ∈ (periodicGo fin items s).1.store) : x ∈ s.store := by
  induction items generalizing s with
  | nil => simpa [periodicGo] using h
  | cons p t ih =>
    obtain ⟨o1, ids⟩ := p
    simp only [periodicGo] at h
    split at h
    · split at h
      · exact h
      · have := ih _ h
        simp only [mem_rm] at this
        exact this.1
    · exact ih s h

/-- `cfw_to_delete` and the drop records: exactly the tracked entries whose ids are all finished, in dict order -/
theorem periodicGo_del (fin : List Nat) (items : List (Nat × List Nat)) (s : LS)
    (h : (periodicGo fin items s).2.2.2 = none) :
    (periodicGo fin items s).2.1 = (items.filter (fun p => p.2.all (fun i => decide (i ∈ fin)))).map (·.1) := by
  induction items generalizing s with
  | nil => simp [periodicGo]
  | cons p t ih =>
    obtain ⟨o1, ids⟩ := p
    simp only [periodicGo] at h ⊢
    split
    · rename_i hall
      split
      · rename_i hget; simp [hall, hget] at h
      · rename_i ob1 hget
        simp only [hall, hget] at h
        simp only [List.filter_cons, hall, if_true, List.map_cons]
        rw [ih _ h]
    · rename_i hall
      simp only [hall] at h
      simp only [List.filter_cons, hall]
      exact ih s h

theorem periodicGo_log (fin : List Nat) (items : List (Nat × List Nat)) (s : LS) :
    (periodicGo fin items s).2.2.1.map (·.obj) = (periodicGo fin items s).2.1 ∧
    ∀ d ∈ (periodicGo fin items s).2.2.1, d.tracked = true := by
  induction items generalizing s with
  | nil => simp [periodicGo]
  | cons p t ih =>
    obtain ⟨o1, ids⟩ := p
    simp only [periodicGo]
    split
    · split
      · simp
      · rename_i ob1 hget
        have := ih { s with objs := dset s.objs o1 (cleared ob1), store := rm s.store (if s.loc = true then ob1.cfw.dataKey else none) }
        refine ⟨by simp [this.1], ?_⟩
        intro d hd
        simp only [List.mem_cons] at hd
        rcases hd with hd | hd
        · subst hd; rfl
        · exact this.2 d hd
    · exact ih s

/-- whatever happens (also when the loop raises): the dropped objects are a sub-sequence of the tracked keys -/
theorem periodicGo_del_sublist (fin : List Nat) (items : List (Nat × List Nat)) (s : LS) :
    List.Sublist (periodicGo fin items s).2.1 (dkeys items) := by
  induction items generalizing s with
  | nil => simp [periodicGo, dkeys]
  | cons p t ih =>
    obtain ⟨o1, ids⟩ := p
    simp only [periodicGo, dkeys, List.map_cons]
    split
    · split
      · simp
      · exact List.Sublist.cons_cons _ (ih _)
    · exact List.Sublist.cons _ (ih s)

/-- the loop does not raise when every tracked key has an object -/
theorem periodicGo_no_error (fin : List Nat) (items : List (Nat × List Nat)) (s : LS)
    (h : ∀ k ∈ dkeys items, k ∈ dkeys s.objs) : (periodicGo fin items s).2.2.2 = none := by
  induction items generalizing s with
  | nil => simp [periodicGo]
  | cons p t ih =>
    obtain ⟨o1, ids⟩ := p
    simp only [periodicGo]
    split
    · split
      · rename_i hget
        have := h o1 (by simp [dkeys])
        exact absurd this ((dget_eq_none_iff _ _).mp hget)
      · apply ih
        intro k hk
        simp only [mem_dkeys_dset]
        exact Or.inl (h k (by simp only [dkeys, List.map_cons, List.mem_cons] at hk ⊢; exact Or.inr hk))
    · apply ih
      intro k hk
      exact h k (by simp only [dkeys, List.map_cons, List.mem_cons] at hk ⊢; exact Or.inr hk)

/-- a drop record of the loop belongs to a tracked entry whose ids are all finished -/
theorem periodicGo_log_mem (fin : List Nat) (items : List (Nat × List Nat)) (s : LS) (d : DropRec)
    (hd : d ∈ (periodicGo fin items s).2.2.1) : ∃ ids, (d.obj, ids) ∈ items ∧ ∀ i ∈ ids, i ∈ fin := by
  induction items generalizing s with
  | nil => simp [periodicGo] at hd
  | cons p t ih =>
    obtain ⟨o1, ids⟩ := p
    simp only [periodicGo] at hd
    split at hd
    · rename_i hall
      split at hd
      · simp at hd
      · simp only [List.mem_cons] at hd
        rcases hd with hd | hd
        · subst hd
          refine ⟨ids, by simp, ?_⟩
          simpa using hall
        · obtain ⟨ids', hm, hf⟩ := ih _ hd
          exact ⟨ids', List.mem_cons_of_mem _ hm, hf⟩
    · obtain ⟨ids', hm, hf⟩ := ih s hd
      exact ⟨ids', List.mem_cons_of_mem _ hm, hf⟩

end Life

namespace Life
open Store

/-! ### `Store.report` -/

theorem report_children (c : Cfw) (F : List Nat) : (report c F).1.children = c.children := by
  simp only [report]; split
  · rfl
  · split <;> rfl

theorem report_objectIds (c : Cfw) (F : List Nat) : (report c F).1.objectIds = c.objectIds := by
  simp only [report]; split
  · rfl
  · split <;> rfl

theorem report_tracker_mem (c : Cfw) (F : List Nat) (x : Nat) : x ∈ (report c F).1.tracker ↔ x ∈ c.tracker ∨ x ∈ F := by
  have key : x ∈ c.tracker ++ F.filter (fun y => decide (y ∉ c.tracker)) ↔ x ∈ c.tracker ∨ x ∈ F := by
    simp only [List.mem_append, List.mem_filter, decide_eq_true_eq]
    constructor
    · rintro (h | h)
      · exact Or.inl h
      · exact Or.inr h.1
    · rintro (h | h)
      · exact Or.inl h
      · by_cases hx : x ∈ c.tracker
        · exact Or.inl hx
        · exact Or.inr ⟨h, hx⟩
  simp only [report]; split
  · exact key
  · split <;> exact key

theorem report_dataKey (c : Cfw) (F : List Nat) : (report c F).1.dataKey = c.dataKey ∨ (report c F).1.dataKey = none := by
  simp only [report]; split
  · exact Or.inr rfl
  · split <;> exact Or.inl rfl

/-- the drop test is SET inclusion: `dropped` iff every child is in the tracker or in the report -/
theorem report_dropped_iff (c : Cfw) (F : List Nat) :
    (∃ k, (report c F).2 = .dropped k) ↔ ∀ x ∈ c.children, x ∈ c.tracker ∨ x ∈ F := by
  simp only [report]
  split
  · rename_i hall
    simp only [List.all_eq_true, decide_eq_true_eq] at hall
    constructor
    · intro _ x hx
      have := hall x hx
      simp only [List.mem_append, List.mem_filter, decide_eq_true_eq] at this
      rcases this with h | h
      · exact Or.inl h
      · exact Or.inr h.1
    · intro _; exact ⟨_, rfl⟩
  · rename_i hall
    constructor
    · rintro ⟨k, hk⟩
      by_cases ho : c.objectIds > 0
      · rw [if_pos ho] at hk; cases hk
      · rw [if_neg ho] at hk; cases hk
    · intro h
      exfalso; apply hall
      simp only [List.all_eq_true, decide_eq_true_eq]
      intro x hx
      simp only [List.mem_append, List.mem_filter, decide_eq_true_eq]
      rcases h x hx with h1 | h1
      · exact Or.inl h1
      · by_cases hx' : x ∈ c.tracker
        · exact Or.inl hx'
        · exact Or.inr ⟨h1, hx'⟩

theorem report_dropped_key (c : Cfw) (F : List Nat) (k : Option Nat) (h : (report c F).2 = .dropped k) :
    k = c.dataKey ∧ (report c F).1.dataKey = none := by
  simp only [report] at h ⊢
  by_cases hall : (c.children.all fun x => decide (x ∈ c.tracker ++ List.filter (fun x => decide (x ∉ c.tracker)) F)) = true
  · rw [if_pos hall] at h ⊢; cases h; exact ⟨rfl, rfl⟩
  · rw [if_neg hall] at h
    by_cases ho : c.objectIds > 0
    · rw [if_pos ho] at h; cases h
    · rw [if_neg ho] at h; cases h

theorem report_pending (c : Cfw) (F : List Nat) (h : (report c F).2 = .pending) : c.objectIds > 0 := by
  simp only [report] at h
  by_cases hall : (c.children.all fun x => decide (x ∈ c.tracker ++ List.filter (fun x => decide (x ∉ c.tracker)) F)) = true
  · rw [if_pos hall] at h; cases h
  · rw [if_neg hall] at h
    by_cases ho : c.objectIds > 0
    · exact ho
    · rw [if_neg ho] at h; cases h

/-! ### how one object changes in one step -/

structure ObjStep (s : LS) (e : Ev) (o : Nat) (ob ob' : Obj) : Prop where
  children : ob'.cfw.children = ob.cfw.children
  trackerMono : ∀ x ∈ ob.cfw.tracker, x ∈ ob'.cfw.tracker
  trackerFrom : ∀ x ∈ ob'.cfw.tracker, x ∈ ob.cfw.tracker ∨ x ∈ reportedIn o [e]
  key : ob'.cfw.dataKey = ob.cfw.dataKey ∨ ob'.cfw.dataKey = none ∨ ob'.cfw.dataKey = some o
  queueNone : ob.queue = none → e ≠ .spawn o → ob'.queue = none
  reportedAll : (step s e).2.2 = none → ob.queue = none → ∀ x ∈ reportedIn o [e], x ∈ ob'.cfw.tracker

theorem ObjStep.refl_of (s : LS) (e : Ev) (o : Nat) (ob : Obj) (h : reportedIn o [e] = []) : ObjStep s e o ob ob :=
  ⟨rfl, fun _ h => h, fun _ h => Or.inl h, Or.inl rfl, fun h _ => h, by intro _ _ x hx; rw [h] at hx; cases hx⟩

theorem ObjStep.cleared_of (s : LS) (e : Ev) (o : Nat) (ob : Obj) (h : reportedIn o [e] = []) : ObjStep s e o ob (cleared ob) :=
  ⟨rfl, fun _ h => h, fun _ h => Or.inl h, Or.inr (Or.inl rfl), fun h _ => h, by intro _ _ x hx; rw [h] at hx; cases hx⟩

end Life

namespace Life
open Store

theorem opt_cases' {α : Type} (x : Option α) : x = none ∨ ∃ v, x = some v := by
  cases x with
  | none => exact Or.inl rfl
  | some v => exact Or.inr ⟨v, rfl⟩

theorem dropObj_none {ob : Obj} (F : List Nat) (h : ob.queue = none) :
    dropObj ob F = { ob with cfw := (report ob.cfw F).1, table := match (report ob.cfw F).2 with | .dropped _ => false | _ => ob.table } := by
  unfold dropObj
  split
  · rfl
  · rename_i q hq; rw [h] at hq; cases hq

theorem dropObj_some {ob : Obj} (F : List Nat) {q : List (List Nat)} (h : ob.queue = some q) :
    dropObj ob F = { ob with queue := some (q ++ [F]) } := by
  unfold dropObj
  split
  · rename_i hq; rw [h] at hq; cases hq
  · rename_i q' hq; rw [h] at hq; cases hq; rfl

/-- the three ways `_process_step_result` + `_mark_step_as_finished` can go -/
theorem fgDone_cases (s : LS) (o st : Nat) (F : List Nat) (req : Bool) :
    (dget s.objs o = none ∧ fgDone s o st F req = (s, [], some .noObject)) ∨
    (∃ ob err, dget s.objs o = some ob ∧ fgDone s o st F req = (s, [], some err)) ∨
    (∃ ob, dget s.objs o = some ob ∧ (req = true → getResultErr s o ob = none) ∧
      fgDone s o st F req =
        ({ s with results := if req then dset s.results st o else s.results, objs := dset s.objs o (dropObj ob F),
                  store := rm s.store (dropKey s.loc ob F), track := dropTrack s o ob F, finished := union s.finished F },
         dropRecs s.loc o ob F, none)) := by
  rcases opt_cases' (dget s.objs o) with hg | ⟨ob, hg⟩
  · exact Or.inl ⟨hg, by simp only [fgDone, hg]⟩
  · rcases opt_cases' (if req = true then getResultErr s o ob else none) with hres | ⟨err, hres⟩
    · refine Or.inr (Or.inr ⟨ob, hg, ?_, by simp only [fgDone, hg, hres]⟩)
      intro hr; simpa [hr] using hres
    · exact Or.inr (Or.inl ⟨ob, err, hg, by simp only [fgDone, hg, hres]⟩)

theorem opt_cases {α : Type} (x : Option α) : x = none ∨ ∃ v, x = some v := by
  cases x with
  | none => exact Or.inl rfl
  | some v => exact Or.inr ⟨v, rfl⟩

theorem dset_case {α : Type} {d : List (Nat × α)} {o1 o : Nat} {v ob' : α} (h : dget (dset d o1 v) o = some ob') :
    (o1 = o ∧ ob' = v) ∨ (o1 ≠ o ∧ dget d o = some ob') := by
  rw [dget_dset] at h
  by_cases ho : o1 = o
  · simp only [ho, if_true, Option.some.injEq] at h; exact Or.inl ⟨ho, h.symm⟩
  · simp only [ho, if_false] at h; exact Or.inr ⟨ho, h⟩

theorem ObjStep.of_same (s : LS) (e : Ev) (o : Nat) (ob ob' : Obj) (hc : ob'.cfw.children = ob.cfw.children)
    (ht : ob'.cfw.tracker = ob.cfw.tracker)
    (hk : ob'.cfw.dataKey = ob.cfw.dataKey ∨ ob'.cfw.dataKey = none ∨ ob'.cfw.dataKey = some o)
    (hq : ob.queue = none → e ≠ .spawn o → ob'.queue = none) (hr : reportedIn o [e] = []) : ObjStep s e o ob ob' :=
  ⟨hc, fun x h => ht ▸ h, fun x h => Or.inl (ht ▸ h), hk, hq, by intro _ _ x hx; rw [hr] at hx; cases hx⟩

/-- every way an object can come out of one step -/
theorem step_obj (s : LS) (e : Ev) (o : Nat) (ob' : Obj) (h : dget (step s e).1.objs o = some ob') :
    (∃ ob, dget s.objs o = some ob ∧ ObjStep s e o ob ob') ∨
    (dget s.objs o = none ∧ ∃ ch, e = .register o ch ∧ ob' = { cfw := { children := ch } }) := by
  cases e with
  | register o1 ch =>
    simp only [step] at h
    cases hg : dget s.objs o1 with
    | some x =>
      simp only [hg] at h
      exact Or.inl ⟨ob', h, ObjStep.refl_of _ _ _ _ (by simp [reportedIn])⟩
    | none =>
      simp only [hg] at h
      rcases dset_case h with ⟨ho, hv⟩ | ⟨ho, hv⟩
      · subst ho; exact Or.inr ⟨hg, ch, rfl, hv⟩
      · exact Or.inl ⟨ob', hv, ObjStep.refl_of _ _ _ _ (by simp [reportedIn])⟩
  | spawn o1 =>
    simp only [step] at h
    cases hg : dget s.objs o1 with
    | none => simp only [hg] at h; exact Or.inl ⟨ob', h, ObjStep.refl_of _ _ _ _ (by simp [reportedIn])⟩
    | some ob1 =>
      simp only [hg] at h
      rcases dset_case h with ⟨ho, hv⟩ | ⟨ho, hv⟩
      · subst ho; subst hv
        exact Or.inl ⟨ob1, hg, ObjStep.of_same _ _ _ _ _ rfl rfl (Or.inl rfl) (fun _ hne => absurd rfl hne) (by simp [reportedIn])⟩
      · exact Or.inl ⟨ob', hv, ObjStep.refl_of _ _ _ _ (by simp [reportedIn])⟩
  | ran o1 =>
    simp only [step] at h
    cases hg : dget s.objs o1 with
    | none => simp only [hg] at h; exact Or.inl ⟨ob', h, ObjStep.refl_of _ _ _ _ (by simp [reportedIn])⟩
    | some ob1 =>
      simp only [hg] at h
      rcases dset_case h with ⟨ho, hv⟩ | ⟨ho, hv⟩
      · subst ho; subst hv
        exact Or.inl ⟨ob1, hg, ObjStep.of_same _ _ _ _ _ rfl rfl (Or.inr (Or.inl rfl)) (fun hq _ => hq) (by simp [reportedIn])⟩
      · exact Or.inl ⟨ob', hv, ObjStep.refl_of _ _ _ _ (by simp [reportedIn])⟩
  | uploadKeep o1 =>
    simp only [step] at h
    cases hg : dget s.objs o1 with
    | none => simp only [hg] at h; exact Or.inl ⟨ob', h, ObjStep.refl_of _ _ _ _ (by simp [reportedIn])⟩
    | some ob1 =>
      simp only [hg] at h
      split at h
      · exact Or.inl ⟨ob', h, ObjStep.refl_of _ _ _ _ (by simp [reportedIn])⟩
      · split at h
        · exact Or.inl ⟨ob', h, ObjStep.refl_of _ _ _ _ (by simp [reportedIn])⟩
        · rcases dset_case h with ⟨ho, hv⟩ | ⟨ho, hv⟩
          · subst ho; subst hv
            exact Or.inl ⟨ob1, hg, ObjStep.of_same _ _ _ _ _ rfl rfl (Or.inl rfl) (fun hq _ => hq) (by simp [reportedIn])⟩
          · exact Or.inl ⟨ob', hv, ObjStep.refl_of _ _ _ _ (by simp [reportedIn])⟩
  | uploadReplace o1 =>
    simp only [step] at h
    cases hg : dget s.objs o1 with
    | none => simp only [hg] at h; exact Or.inl ⟨ob', h, ObjStep.refl_of _ _ _ _ (by simp [reportedIn])⟩
    | some ob1 =>
      simp only [hg] at h
      split at h
      · exact Or.inl ⟨ob', h, ObjStep.refl_of _ _ _ _ (by simp [reportedIn])⟩
      · split at h
        · exact Or.inl ⟨ob', h, ObjStep.refl_of _ _ _ _ (by simp [reportedIn])⟩
        · rcases dset_case h with ⟨ho, hv⟩ | ⟨ho, hv⟩
          · subst ho; subst hv
            exact Or.inl ⟨ob1, hg, ObjStep.of_same _ _ _ _ _ rfl rfl (Or.inr (Or.inr rfl)) (fun hq _ => hq) (by simp [reportedIn])⟩
          · exact Or.inl ⟨ob', hv, ObjStep.refl_of _ _ _ _ (by simp [reportedIn])⟩
  | setFlyway o1 ids => exact Or.inl ⟨ob', by simpa [step] using h, ObjStep.refl_of _ _ _ _ (by simp [reportedIn])⟩
  | trackFlyway o1 ids => exact Or.inl ⟨ob', by simpa [step] using h, ObjStep.refl_of _ _ _ _ (by simp [reportedIn])⟩
  | otherDone ids => exact Or.inl ⟨ob', by simpa [step] using h, ObjStep.refl_of _ _ _ _ (by simp [reportedIn])⟩
  | pop =>
    simp only [step] at h
    split at h <;> exact Or.inl ⟨ob', h, ObjStep.refl_of _ _ _ _ (by simp [reportedIn])⟩
  | periodic =>
    simp only [step, periodic] at h
    split at h
    · exact Or.inl ⟨ob', h, ObjStep.refl_of _ _ _ _ (by simp [reportedIn])⟩
    · have key : ∀ ob'', dget (periodicGo s.finished s.track s).1.objs o = some ob'' →
          ∃ ob, dget s.objs o = some ob ∧ ObjStep s .periodic o ob ob'' := by
        intro ob'' h2
        obtain ⟨ob, hob, hrel⟩ := periodicGo_obj _ _ _ _ _ h2
        rcases hrel with r | r
        · subst r; exact ⟨ob'', hob, ObjStep.refl_of _ _ _ _ (by simp [reportedIn])⟩
        · subst r; exact ⟨ob, hob, ObjStep.cleared_of _ _ _ _ (by simp [reportedIn])⟩
      split at h
      · exact Or.inl (key ob' h)
      · exact Or.inl (key ob' h)
  | fgDone o1 st F req =>
    rcases fgDone_cases s o1 st F req with ⟨hg, hs⟩ | ⟨ob1, err, hg, hs⟩ | ⟨ob1, hg, _, hs⟩
    · have hs' : step s (.fgDone o1 st F req) = (s, [], some .noObject) := hs
      rw [hs'] at h
      refine Or.inl ⟨ob', h, rfl, fun _ hx => hx, fun _ hx => Or.inl hx, Or.inl rfl, fun hq _ => hq, ?_⟩
      intro herr; rw [hs'] at herr; cases herr
    · have hs' : step s (.fgDone o1 st F req) = (s, [], some err) := hs
      rw [hs'] at h
      refine Or.inl ⟨ob', h, rfl, fun _ hx => hx, fun _ hx => Or.inl hx, Or.inl rfl, fun hq _ => hq, ?_⟩
      intro herr; rw [hs'] at herr; cases herr
    · have hs' : (step s (.fgDone o1 st F req)).1.objs = dset s.objs o1 (dropObj ob1 F) := by
        show (fgDone s o1 st F req).1.objs = _
        rw [hs]
      rw [hs'] at h
      rcases dset_case h with ⟨ho, hv⟩ | ⟨ho, hv⟩
      · subst ho; subst hv
        refine Or.inl ⟨ob1, hg, ?_⟩
        rcases opt_cases ob1.queue with hq | ⟨q, hq⟩
        · rw [dropObj_none F hq]
          refine ⟨report_children _ _, ?_, ?_, ?_, fun _ _ => hq, ?_⟩
          · intro x hx; exact (report_tracker_mem _ _ _).mpr (Or.inl hx)
          · intro x hx
            rcases (report_tracker_mem _ _ _).mp hx with h1 | h1
            · exact Or.inl h1
            · right; simp [reportedIn, h1]
          · rcases report_dataKey ob1.cfw F with h1 | h1
            · exact Or.inl h1
            · exact Or.inr (Or.inl h1)
          · intro _ _ x hx
            simp only [reportedIn, if_true, List.append_nil] at hx
            exact (report_tracker_mem _ _ _).mpr (Or.inr hx)
        · rw [dropObj_some F hq]
          refine ⟨rfl, fun _ hx => hx, fun _ hx => Or.inl hx, Or.inl rfl, ?_, ?_⟩
          · intro hq' _; rw [hq] at hq'; cases hq'
          · intro _ hq'; rw [hq] at hq'; cases hq'
      · exact Or.inl ⟨ob', hv, ObjStep.refl_of _ _ _ _ (by simp [reportedIn, ho])⟩

end Life

namespace Life
open Store

theorem periodic_cases (s : LS) :
    (s.finished = [] ∧ periodic s = (s, [], none)) ∨
    (s.finished ≠ [] ∧ ∃ err, (periodicGo s.finished s.track s).2.2.2 = some err ∧
      periodic s = ((periodicGo s.finished s.track s).1, (periodicGo s.finished s.track s).2.2.1, some err)) ∨
    (s.finished ≠ [] ∧ (periodicGo s.finished s.track s).2.2.2 = none ∧
      periodic s = ({ (periodicGo s.finished s.track s).1 with
                      track := (periodicGo s.finished s.track s).1.track.filter (fun p => decide (p.1 ∉ (periodicGo s.finished s.track s).2.1)) },
                    (periodicGo s.finished s.track s).2.2.1, none)) := by
  by_cases hf : s.finished = []
  · left; refine ⟨hf, ?_⟩; simp [periodic, hf]
  · right
    have hne : s.finished.isEmpty = false := by cases hfl : s.finished <;> simp_all
    rcases opt_cases (periodicGo s.finished s.track s).2.2.2 with hg | ⟨err, hg⟩
    · right; refine ⟨hf, hg, ?_⟩; simp only [periodic, hne, hg]; rfl
    · left; refine ⟨hf, err, hg, ?_⟩; simp only [periodic, hne, hg]; rfl

theorem dget_filter_key {α : Type} (d : List (Nat × α)) (f : Nat → Bool) (k : Nat) :
    dget (d.filter (fun p => f p.1)) k = if f k then dget d k else none := by
  induction d with
  | nil => simp [dget]
  | cons p t ih =>
    obtain ⟨a, b⟩ := p
    simp only [List.filter_cons]
    by_cases hfa : f a = true
    · simp only [hfa, if_true, dget]
      by_cases hak : a = k
      · subst hak; simp [hfa]
      · simp only [hak, if_false, ih]
    · have hfa' : f a = false := by cases hh : f a <;> simp_all
      simp only [hfa', Bool.false_eq_true, if_false, dget]
      by_cases hak : a = k
      · subst hak; rw [ih]; simp [hfa']
      · simp only [hak, if_false, ih]

theorem dkeys_filter_key {α : Type} (d : List (Nat × α)) (f : Nat → Bool) :
    dkeys (d.filter (fun p => f p.1)) = (dkeys d).filter f := by
  induction d with
  | nil => rfl
  | cons p t ih =>
    simp only [dkeys, List.filter_cons, List.map_cons] at ih ⊢
    by_cases hfa : f p.1 = true
    · simp [hfa, ih]
    · simp [hfa, ih]

/-! ### `finished_ids` -/

theorem step_finished (s : LS) (e : Ev) (x : Nat) (hok : (step s e).2.2 = none) :
    x ∈ (step s e).1.finished ↔ x ∈ s.finished ∨ x ∈ finishedIn [e] := by
  cases e with
  | fgDone o st F req =>
    rcases fgDone_cases s o st F req with ⟨_, hs⟩ | ⟨ob1, err, _, hs⟩ | ⟨ob1, _, _, hs⟩
    · have hs' : step s (.fgDone o st F req) = (s, [], some .noObject) := hs
      rw [hs'] at hok; cases hok
    · have hs' : step s (.fgDone o st F req) = (s, [], some err) := hs
      rw [hs'] at hok; cases hok
    · have hs' : (step s (.fgDone o st F req)).1.finished = union s.finished F := by
        show (fgDone s o st F req).1.finished = _; rw [hs]
      rw [hs', mem_union]; simp [finishedIn]
  | otherDone ids => simp [step, mem_union, finishedIn]
  | periodic =>
    have : (step s .periodic).1.finished = s.finished := by
      show (periodic s).1.finished = _
      rcases periodic_cases s with ⟨_, hs⟩ | ⟨_, err, _, hs⟩ | ⟨_, _, hs⟩
      · rw [hs]
      · rw [hs]; exact (periodicGo_frame _ _ _).2.2.2.2.1
      · rw [hs]; exact (periodicGo_frame _ _ _).2.2.2.2.1
    rw [this]; simp [finishedIn]
  | pop => simp only [step]; split <;> simp [finishedIn]
  | register o ch => simp only [step]; split <;> simp [finishedIn]
  | spawn o => simp only [step]; split <;> simp [finishedIn]
  | ran o => simp only [step]; split <;> simp [finishedIn]
  | uploadKeep o =>
    simp only [step]; split
    · simp [finishedIn]
    · split
      · simp [finishedIn]
      · split <;> simp [finishedIn]
  | uploadReplace o =>
    simp only [step]; split
    · simp [finishedIn]
    · split
      · simp [finishedIn]
      · split <;> simp [finishedIn]
  | setFlyway o ids => simp [step, finishedIn]
  | trackFlyway o ids => simp [step, finishedIn]

end Life
