import MlodaVerif.Lemmas.ChainOps
/-! One resolution step on a rendered name, leaves, and the inputs each kind of `input_features` derives. -/
open Gen.Chain

namespace Chain

/-! ### leaves -/

theorem idxFilter_none (f : Group → Bool) (hf : ∀ g, f g = false) (gs : List Group) (i : Nat) : idxFilter f gs i = [] := by
  induction gs generalizing i with
  | nil => rfl
  | cons g gs ih => simp [idxFilter, hf g, ih]

theorem idxFilter_false (gs : List Group) (i : Nat) : idxFilter (fun g => modelled g && false) gs i = [] :=
  idxFilter_none _ (fun g => by simp) gs i

theorem srcOk_elim {n : Str} (h : srcOk n = true) :
    n ≠ [] ∧ hasInfix sep2 n = false ∧ (∀ c ∈ n, c ≠ '&') ∧ (∀ c ∈ n, c ≠ '~') := by
  simp only [srcOk, Bool.and_eq_true, Bool.not_eq_true'] at h
  obtain ⟨⟨⟨h1, h2⟩, h3⟩, h4⟩ := h
  refine ⟨by intro hn; subst hn; simp at h1, h2, ?_, ?_⟩
  · intro c hc hce; subst hce
    have : n.contains inputSep = true := by simpa [inputSep] using hc
    rw [this] at h3; exact absurd h3 (by decide)
  · intro c hc hce; subst hce
    have : n.contains columnSep = true := by simpa [columnSep] using hc
    rw [this] at h4; exact absurd h4 (by decide)

/-- a name without `__` is claimed by no chained group: it is a source -/
theorem resolveStep_leaf (n : Str) (h : hasInfix sep2 n = false) : resolveStep n emptyOpts = .ok none := by
  have hm : matchingGroups n emptyOpts = .ok [] := by
    rw [matchingGroups_eq n emptyOpts (fun _ => false)]
    · rw [idxFilter_false]
    · intro g hg hmod
      rw [matchCriteria_no_pattern g hmod n emptyOpts (matchPattern_none g.toks n h),
        emptyOpts_no_match (mem_modelledGroups hg hmod)]
  simp only [resolveStep, hm, bind, Except.bind, pure, Except.pure]

theorem featName_mkFeat (n : Str) : featName? (mkFeat n) = some n := rfl
theorem featOpts_mkFeat (n : Str) : featOpts (mkFeat n) = emptyOpts := rfl

theorem isLeaf_mkFeat (n : Str) (h : hasInfix sep2 n = false) : isLeaf (mkFeat n) = true := by
  simp [isLeaf, featName_mkFeat, featOpts_mkFeat, resolveStep_leaf n h]

theorem resolveFeat_leaf (fuel : Nat) (n : Str) (h : hasInfix sep2 n = false) :
    resolveFeat (fuel + 1) (mkFeat n) = some (.src [n]) := by
  simp [resolveFeat, featName_mkFeat, featOpts_mkFeat, resolveStep_leaf n h]

/-! ### `dedupe` on distinct names -/

theorem eqv_mkFeat (a b : Str) : (mkFeat a).eqv (mkFeat b) = (a == b) := by
  simp [mkFeat, PV.eqv, eqvKV]

theorem dedupe_single (x : PV) : dedupe [x] = [x] := by simp [dedupe]

theorem dedupe_mkFeat (ns : List Str) (h : allDistinct ns = true) : dedupe (ns.map mkFeat) = ns.map mkFeat := by
  induction ns with
  | nil => rfl
  | cons a r ih =>
    simp only [allDistinct, Bool.and_eq_true, Bool.not_eq_true'] at h
    have ih' := ih h.2
    have hnot : (List.map mkFeat r).any (fun y => (mkFeat a).eqv y) = false := by
      rw [List.any_eq_false]
      intro y hy
      obtain ⟨b, hb, rfl⟩ := List.mem_map.mp hy
      rw [eqv_mkFeat]
      intro hab
      have : a = b := by simpa using hab
      subst this
      have : r.contains a = true := by simpa using hb
      rw [this] at h; exact absurd h.1 (by decide)
    simp only [List.map_cons, dedupe, ih', hnot]
    rfl

/-! ### joining and splitting the sources -/

theorem joinWith_ne_nil (c : Char) (ns : List Str) (h : ∃ n ∈ ns, n ≠ []) (hall : ∀ n ∈ ns, n ≠ []) : joinWith c ns ≠ [] := by
  obtain ⟨n, hn, _⟩ := h
  cases ns with
  | nil => simp at hn
  | cons a r =>
    have ha : a ≠ [] := hall a (by simp)
    cases r with
    | nil => simpa [joinWith] using ha
    | cons b r' =>
      simp only [joinWith]
      intro hc
      have := List.append_eq_nil_iff.mp hc
      exact ha this.1

theorem splitOn_joinWith (c : Char) (ns : List Str) (hne : ns ≠ []) (h : ∀ n ∈ ns, ∀ d ∈ n, d ≠ c) :
    splitOn c (joinWith c ns) = ns := by
  induction ns with
  | nil => exact absurd rfl hne
  | cons a r ih =>
    cases r with
    | nil => simpa [joinWith] using splitOn_of_not_mem c a (h a (by simp))
    | cons b r' =>
      have := ih (by simp) (fun n hn => h n (by simp [hn]))
      simp only [joinWith]
      rw [splitOn_append c a _ (h a (by simp)), this]

/-! ### table facts about the three kinds of `input_features` -/

def twName : Str := "TimeWindowFeatureGroup".toList
def geoName : Str := "GeoDistanceFeatureGroup".toList

def kindsOk : Bool :=
  modelledGroups.all fun g =>
    (g.inputImpl == mixinName && g.inSep == [inputSep]) ||
    (g.inputImpl == twName && g.minIn == 1 && g.maxIn == some 1) ||
    (g.inputImpl == geoName && g.minIn == 2 && g.maxIn == some 2)

theorem kindsOk_true : kindsOk = true := by decide

theorem kinds {g : Group} (hg : g ∈ modelledGroups) :
    (g.inputImpl = mixinName ∧ g.inSep = [inputSep]) ∨ (g.inputImpl = twName ∧ g.minIn = 1 ∧ g.maxIn = some 1) ∨
      (g.inputImpl = geoName ∧ g.minIn = 2 ∧ g.maxIn = some 2) := by
  have h := kindsOk_true
  simp only [kindsOk, List.all_eq_true] at h
  have := h g hg
  simp only [Bool.or_eq_true, Bool.and_eq_true, beq_iff_eq] at this
  rcases this with (h1 | h1) | h1
  · exact Or.inl ⟨h1.1, h1.2⟩
  · exact Or.inr (Or.inl ⟨h1.1.1, h1.1.2, h1.2⟩)
  · exact Or.inr (Or.inr ⟨h1.1.1, h1.1.2, h1.2⟩)

theorem validateCount_of_arity (g : Group) (n : Nat)
    (h : (g.minIn ≤ n && (match g.maxIn with | some m => n ≤ m | none => true)) = true) : validateCount g n = .ok () := by
  simp only [Bool.and_eq_true, decide_eq_true_eq] at h
  unfold validateCount
  have h1 : ¬ n < g.minIn := by omega
  simp only [h1, if_false]
  cases hm : g.maxIn with
  | none => rfl
  | some m =>
    have := h.2
    simp only [hm, decide_eq_true_eq] at this
    have h2 : ¬ n > m := by omega
    simp [h2]

theorem arityOk_elim {op : Op} {g : Group} (hg : groupAt op.gid = some g) {n : Nat} (h : op.arityOk n = true) :
    (g.minIn ≤ n && (match g.maxIn with | some m => decide (n ≤ m) | none => true)) = true := by
  unfold Op.arityOk at h
  rw [hg] at h
  exact h

/-! ### one step -/

/-- the inputs a group derives from the *name* `s__<suffix>` -/
def nameInputs (g : Group) (s : Str) : Inputs :=
  if g.inputImpl == mixinName then ⟨dedupe ((splitOn inputSep s).map mkFeat), []⟩
  else if g.inputImpl == twName then ⟨[mkFeat s], if referenceTimeKey == s then [] else [mkFeat referenceTimeKey]⟩
  else match splitOnce '&' s with
    | some (a, b) => ⟨dedupe [mkFeat a, mkFeat b], []⟩
    | none => ⟨[], []⟩

theorem inputFeatures_rendered (g : Group) (hg : g ∈ modelledGroups) (s suf : Str) (caps : Caps) (hs : s ≠ [])
    (h : sufOk suf = true) (hm : matchToks g.toks suf = some caps) (hcfg : (opCfg g.toks caps suf).isSome = true)
    (hcount : g.inputImpl = mixinName → validateCount g (splitOn inputSep s).length = .ok ())
    (hgeo : g.inputImpl = geoName → (splitOnce '&' s).isSome = true) :
    inputFeatures g emptyOpts (s ++ chainSep ++ suf) = .ok (nameInputs g s) := by
  obtain ⟨cfg, hcfg'⟩ := Option.isSome_iff_exists.mp hcfg
  have hp := parseFeatureName_append g.toks s suf caps hs h hm
  rw [hcfg'] at hp
  have hse : s.isEmpty = false := by cases s <;> simp_all
  rcases kinds hg with ⟨hk, hsep⟩ | ⟨hk, _, _⟩ | ⟨hk, _, _⟩
  · have hc := hcount hk
    unfold inputFeatures nameInputs inputFeaturesMixin
    simp only [hk, beq_self_eq_true, if_true, hsep]
    rw [hp]
    simp only [bind, Except.bind, pure, Except.pure, hse, Bool.not_false, if_true, hc]
  · have hne1 : (twName == mixinName) = false := by decide
    unfold inputFeatures nameInputs inputFeaturesTimeWindow
    simp only [hk, hne1, Bool.false_eq_true, if_false, beq_self_eq_true, if_true]
    rw [hp]
    have hrt : referenceTimeColumn emptyOpts = .ok referenceTimeKey := by rfl
    have hself : (twName == "TimeWindowFeatureGroup".toList) = true := by decide
    simp only [bind, Except.bind, pure, Except.pure, hrt, hself, if_true]
  · have hne1 : (geoName == mixinName) = false := by decide
    have hne2 : (geoName == twName) = false := by decide
    have hr : rsplitOnce sep2 (s ++ chainSep ++ suf) = some (s, suf) := by rw [chainSep_eq]; exact rsplitOnce_append s suf h
    obtain ⟨⟨a, b⟩, hab⟩ := Option.isSome_iff_exists.mp (hgeo hk)
    have hself1 : (geoName == "TimeWindowFeatureGroup".toList) = false := by decide
    have hself2 : (geoName == "GeoDistanceFeatureGroup".toList) = true := by decide
    unfold inputFeatures nameInputs inputFeaturesGeo
    simp only [hk, hne1, hne2, hself1, hself2, Bool.false_eq_true, if_false, beq_self_eq_true, if_true, hr, hab]

/-- **one resolution step** of a rendered name: the last suffix's group, its parameters, the inputs read from the rest -/
theorem resolveStep_rendered (op : Op) (hok : op.ok = true) (s : Str) (hs : s ≠ [])
    (hcount : ∀ g, groupAt op.gid = some g → g.inputImpl = mixinName → validateCount g (splitOn inputSep s).length = .ok ())
    (hgeo : ∀ g, groupAt op.gid = some g → g.inputImpl = geoName → (splitOnce '&' s).isSome = true) :
    ∃ g, groupAt op.gid = some g ∧ resolveStep (s ++ chainSep ++ op.suffix) emptyOpts = .ok (some ⟨op.gid, op.params, nameInputs g s⟩) := by
  obtain ⟨g, hg, hmod, hf⟩ := sufFacts_of_ok op hok
  obtain ⟨caps, hm, hcfg⟩ := hf.matched
  refine ⟨g, hg, ?_⟩
  have hmg := matchingGroups_rendered op.gid g hg hmod s op.suffix caps hs hf.sufok hm hcfg
  have hin := inputFeatures_rendered g (mem_modelledGroups (groupAt_mem hg) hmod) s op.suffix caps hs hf.sufok hm hcfg
    (hcount g hg) (hgeo g hg)
  simp only [resolveStep, hmg, bind, Except.bind, hg, hin, hf.params s hs, pure, Except.pure]

end Chain
