import MlodaVerif.Lemmas.RelAlgebra
namespace Rel

/-! ### `TableEq` is "some reordering is row-wise equivalent" -/

theorem tableEq_cons_split {a : Row} {A B : Table} (h : TableEq (a :: A) B) :
    ∃ b B', B.Perm (b :: B') ∧ RowEq a b ∧ TableEq A B' := by
  have ha := h a
  have hpos : 0 < B.countP (rowBEq a) := by
    rw [← ha, List.countP_cons]
    have : rowBEq a a = true := rowBEq_iff.mpr (RowEq.refl a)
    simp [this]
  obtain ⟨b, hbB, hab⟩ := List.countP_pos_iff.mp hpos
  refine ⟨b, B.erase b, List.perm_cons_erase hbB, rowBEq_iff.mp hab, ?_⟩
  intro x
  have h1 := h x
  have h2 : B.countP (rowBEq x) = (b :: B.erase b).countP (rowBEq x) := (List.perm_cons_erase hbB).countP_eq _
  rw [h2, List.countP_cons, List.countP_cons, rowBEq_congr_right (rowBEq_iff.mp hab) x] at h1
  omega

theorem TableEq.map_congr_fun {E E' : Table} (h : TableEq E E') (f : Row → Row)
    (hf : ∀ a b, RowEq a b → RowEq (f a) (f b)) : TableEq (E.map f) (E'.map f) := by
  induction E generalizing E' with
  | nil =>
    have := TableEq.length_eq_of_nil h.symm
    subst this; exact TableEq.refl _
  | cons a A ih =>
    obtain ⟨b, B', hp, hab, hAB⟩ := tableEq_cons_split h
    have h1 : TableEq ((a :: A).map f) ((b :: B').map f) := by
      simp only [List.map_cons]
      exact TableEq.append (A := [f a]) (B := [f b]) (TableEq.single (hf a b hab)) (ih hAB)
    exact h1.trans (TableEq.of_perm (hp.map f).symm)

theorem TableEq.flatMap_congr_left {E E' : Table} (h : TableEq E E') (F : Row → Table)
    (hF : ∀ a b, RowEq a b → TableEq (F a) (F b)) : TableEq (E.flatMap F) (E'.flatMap F) := by
  induction E generalizing E' with
  | nil =>
    have := TableEq.length_eq_of_nil h.symm
    subst this; exact TableEq.refl _
  | cons a A ih =>
    obtain ⟨b, B', hp, hab, hAB⟩ := tableEq_cons_split h
    have h1 : TableEq ((a :: A).flatMap F) ((b :: B').flatMap F) := by
      simp only [List.flatMap_cons]
      exact TableEq.append (hF a b hab) (ih hAB)
    exact h1.trans (TableEq.of_perm (hp.flatMap_right F).symm)

theorem rowEq_append_left (p : Row) {a b : Row} (h : RowEq a b) : RowEq (p ++ a) (p ++ b) := by
  unfold RowEq at *; rw [core_append, core_append]; exact List.Perm.append_left _ h

theorem rowEq_append_right (p : Row) {a b : Row} (h : RowEq a b) : RowEq (a ++ p) (b ++ p) := by
  unfold RowEq at *; rw [core_append, core_append]; exact List.Perm.append_right _ h

/-- exchanging two nested loops -/
theorem flatMap_comm_perm {α β γ : Type} (L : List α) (R : List β) (f : α → β → List γ) :
    (L.flatMap (fun l => R.flatMap (f l))).Perm (R.flatMap (fun r => L.flatMap (fun l => f l r))) := by
  induction L with
  | nil => simp [flatMap_nil_fun]
  | cons a L ih =>
    simp only [List.flatMap_cons]
    refine List.Perm.trans ?_ (flatMap_append_perm R _ _).symm
    exact List.Perm.append_left _ ih

section nat
variable (ks : List Col)

/-- the part of a row that a natural join on `ks` appends -/
def dropK (y : Row) : Row := y.filter (fun e => decide (e.1 ∉ ks))

theorem combine_self_eq (x y : Row) : combine (coalesced ks ks) x y = x ++ dropK ks y := by
  unfold combine dropK; rw [coalesced_self]

theorem cell_dropK_key {y : Row} {k : Col} (hk : k ∈ ks) : cell (dropK ks y) k = none := by
  unfold dropK
  rw [cell_filter (fun c => decide (c ∉ ks))]
  simp [hk]

theorem not_mem_rcols_dropK {y : Row} {k : Col} (hk : k ∈ ks) : k ∉ rcols (dropK ks y) := by
  unfold dropK
  rw [rcols_filter (fun c => decide (c ∉ ks))]
  simp [List.mem_filter, hk]

/-- F1: appending key-free columns does not change the key -/
theorem keyOf_append_dropK (x y : Row) : keyOf ks (x ++ dropK ks y) = keyOf ks x := by
  unfold keyOf
  refine List.map_congr_left (fun k hk => ?_)
  rw [cell_append]
  by_cases h : k ∈ rcols x
  · rw [if_pos h]
  · rw [if_neg h, cell_dropK_key ks hk, cell_of_not_mem h]

theorem matchesK_congr_left {x x' : Row} (h : keyOf ks x = keyOf ks x') (z : Row) :
    matchesK ks ks x z = matchesK ks ks x' z := by unfold matchesK; rw [h]

theorem matchesK_congr_right (x : Row) {z z' : Row} (h : keyOf ks z = keyOf ks z') :
    matchesK ks ks x z = matchesK ks ks x z' := by unfold matchesK; rw [h]

/-- F5 -/
theorem matchesK_trans {x y : Row} (h : matchesK ks ks x y = true) (z : Row) :
    matchesK ks ks y z = matchesK ks ks x z := by
  have hk := matchesK_keys h
  unfold matchesK; rw [hk]

theorem dropK_append (x y : Row) : dropK ks (x ++ y) = dropK ks x ++ dropK ks y := by
  unfold dropK; rw [List.filter_append]

theorem dropK_idem (x : Row) : dropK ks (dropK ks x) = dropK ks x := by
  unfold dropK; rw [List.filter_filter]; congr 1; funext e; simp

theorem innerJoin_self_eq (A B : Table) :
    innerJoin ks ks A B = A.flatMap (fun a => (B.filter (matchesK ks ks a)).map (fun b => a ++ dropK ks b)) := by
  unfold innerJoin
  congr 1; funext a
  exact List.map_congr_left (fun b _ => combine_self_eq ks a b)

theorem assoc_row (a : Row) (B C : Table) :
    ((B.filter (matchesK ks ks a)).map (fun b => a ++ dropK ks b)).flatMap
        (fun ab => (C.filter (matchesK ks ks ab)).map (fun c => ab ++ dropK ks c))
      = ((B.flatMap (fun b => (C.filter (matchesK ks ks b)).map (fun c => b ++ dropK ks c))).filter
          (matchesK ks ks a)).map (fun bc => a ++ dropK ks bc) := by
  induction B with
  | nil => rfl
  | cons b B ih =>
    simp only [List.flatMap_cons, List.filter_append, List.map_append]
    by_cases hm : matchesK ks ks a b = true
    · rw [List.filter_cons_of_pos hm]
      simp only [List.map_cons, List.flatMap_cons]
      rw [ih]
      congr 1
      -- all of b's rows survive the filter
      have hkeep : ((C.filter (matchesK ks ks b)).map (fun c => b ++ dropK ks c)).filter (matchesK ks ks a)
          = (C.filter (matchesK ks ks b)).map (fun c => b ++ dropK ks c) := by
        rw [List.filter_eq_self]
        intro y hy
        obtain ⟨c, _, rfl⟩ := List.mem_map.mp hy
        rw [matchesK_congr_right ks a (keyOf_append_dropK ks b c)]; exact hm
      rw [hkeep, List.map_map]
      have hf : C.filter (matchesK ks ks (a ++ dropK ks b)) = C.filter (matchesK ks ks b) := by
        refine List.filter_congr (fun c _ => ?_)
        rw [matchesK_congr_left ks (keyOf_append_dropK ks a b) c, matchesK_trans ks hm c]
      rw [hf]
      refine List.map_congr_left (fun c _ => ?_)
      simp only [Function.comp]
      rw [dropK_append, dropK_idem, List.append_assoc]
    · have hm' : matchesK ks ks a b = false := by simpa using hm
      rw [List.filter_cons_of_neg (by simp [hm'])]
      have hdrop : ((C.filter (matchesK ks ks b)).map (fun c => b ++ dropK ks c)).filter (matchesK ks ks a) = [] := by
        rw [List.filter_eq_nil_iff]
        intro y hy
        obtain ⟨c, _, rfl⟩ := List.mem_map.mp hy
        rw [matchesK_congr_right ks a (keyOf_append_dropK ks b c), hm']; simp
      rw [hdrop, ih]; rfl

/-- natural inner join on common key columns is associative — as lists, for all tables -/
theorem innerJoin_assoc (A B C : Table) :
    innerJoin ks ks (innerJoin ks ks A B) C = innerJoin ks ks A (innerJoin ks ks B C) := by
  rw [innerJoin_self_eq ks (innerJoin ks ks A B) C, innerJoin_self_eq ks A B, innerJoin_self_eq ks A (innerJoin ks ks B C),
    innerJoin_self_eq ks B C, List.flatMap_assoc]
  refine flatMap_congr_mem (fun a _ => ?_)
  exact assoc_row ks a B C

end nat
section nway
variable (ks : List Col)

/-- what a base row `x` is extended by when the tables `Ts` are joined on, in that order -/
def exts (x : Row) : List Table → List Row
  | [] => [[]]
  | T :: Ts => (T.filter (matchesK ks ks x)).flatMap (fun t => (exts x Ts).map (fun e => dropK ks t ++ e))

theorem exts_congr {x x' : Row} (h : keyOf ks x = keyOf ks x') (Ts : List Table) : exts ks x Ts = exts ks x' Ts := by
  induction Ts with
  | nil => rfl
  | cons T Ts ih =>
    unfold exts
    have : matchesK ks ks x = matchesK ks ks x' := funext (matchesK_congr_left ks h)
    rw [this, ih]

theorem joinAll_cons (X T : Table) (Ts : List Table) : joinAll ks X (T :: Ts) = joinAll ks (innerJoin ks ks X T) Ts := rfl

/-- closed form of the left-deep n-way join -/
theorem joinAll_eq (X : Table) (Ts : List Table) :
    joinAll ks X Ts = X.flatMap (fun x => (exts ks x Ts).map (fun e => x ++ e)) := by
  induction Ts generalizing X with
  | nil =>
    unfold joinAll exts
    induction X with
    | nil => rfl
    | cons x X ih => simp only [List.foldl_nil, List.flatMap_cons, List.map_cons, List.map_nil, List.append_nil] at ih ⊢; rw [← ih]; rfl
  | cons T Ts ih =>
    rw [joinAll_cons, ih, innerJoin_self_eq, List.flatMap_assoc]
    refine flatMap_congr_mem (fun x _ => ?_)
    rw [List.flatMap_map]
    show _ = ((T.filter (matchesK ks ks x)).flatMap (fun t => (exts ks x Ts).map (fun e => dropK ks t ++ e))).map (fun e => x ++ e)
    rw [List.map_flatMap]
    refine flatMap_congr_mem (fun t _ => ?_)
    rw [exts_congr ks (keyOf_append_dropK ks x t), List.map_map]
    refine List.map_congr_left (fun e _ => ?_)
    simp [List.append_assoc]

theorem exts_perm (x : Row) {Ts Ts' : List Table} (h : Ts.Perm Ts') : TableEq (exts ks x Ts) (exts ks x Ts') := by
  induction h with
  | nil => exact TableEq.refl _
  | cons T _ ih =>
    unfold exts
    refine TableEq.flatMap_congr _ _ _ (fun t _ => ?_)
    exact TableEq.map_congr_fun ih _ (fun a b hab => rowEq_append_left _ hab)
  | swap A B Ts =>
    -- exts x (B :: A :: Ts)  vs  exts x (A :: B :: Ts)
    show TableEq (exts ks x (B :: A :: Ts)) (exts ks x (A :: B :: Ts))
    have e1 : exts ks x (B :: A :: Ts) = (B.filter (matchesK ks ks x)).flatMap (fun b =>
        (A.filter (matchesK ks ks x)).flatMap (fun a => (exts ks x Ts).map (fun e => dropK ks b ++ (dropK ks a ++ e)))) := by
      show (B.filter (matchesK ks ks x)).flatMap (fun b => (exts ks x (A :: Ts)).map (fun e => dropK ks b ++ e)) = _
      refine flatMap_congr_mem (fun b _ => ?_)
      show ((A.filter (matchesK ks ks x)).flatMap (fun a => (exts ks x Ts).map (fun e => dropK ks a ++ e))).map (fun e => dropK ks b ++ e) = _
      rw [List.map_flatMap]
      refine flatMap_congr_mem (fun a _ => ?_)
      rw [List.map_map]; rfl
    have e2 : exts ks x (A :: B :: Ts) = (A.filter (matchesK ks ks x)).flatMap (fun a =>
        (B.filter (matchesK ks ks x)).flatMap (fun b => (exts ks x Ts).map (fun e => dropK ks a ++ (dropK ks b ++ e)))) := by
      show (A.filter (matchesK ks ks x)).flatMap (fun a => (exts ks x (B :: Ts)).map (fun e => dropK ks a ++ e)) = _
      refine flatMap_congr_mem (fun a _ => ?_)
      show ((B.filter (matchesK ks ks x)).flatMap (fun b => (exts ks x Ts).map (fun e => dropK ks b ++ e))).map (fun e => dropK ks a ++ e) = _
      rw [List.map_flatMap]
      refine flatMap_congr_mem (fun b _ => ?_)
      rw [List.map_map]; rfl
    rw [e1, e2]
    refine (TableEq.of_perm (flatMap_comm_perm _ _ _)).trans ?_
    refine TableEq.flatMap_congr _ _ _ (fun a _ => ?_)
    refine TableEq.flatMap_congr _ _ _ (fun b _ => ?_)
    refine TableEq.map_congr _ _ _ (fun e _ => ?_)
    refine RowEq.of_perm ?_
    rw [← List.append_assoc, ← List.append_assoc]
    exact List.Perm.append_right _ List.perm_append_comm
  | trans _ _ ih1 ih2 => exact ih1.trans ih2

/-- the tables joined onto a base can be taken in any order -/
theorem joinAll_perm (X : Table) {Ts Ts' : List Table} (h : Ts.Perm Ts') :
    TableEq (joinAll ks X Ts) (joinAll ks X Ts') := by
  rw [joinAll_eq, joinAll_eq]
  refine TableEq.flatMap_congr _ _ _ (fun x _ => ?_)
  exact TableEq.map_congr_fun (exts_perm ks x h) _ (fun a b hab => rowEq_append_left _ hab)

/-- generalised associativity: joining `B, T₁, …, Tₙ` onto `A` one after the other = joining `A` with the join of `B, T₁, …, Tₙ` -/
theorem joinAll_assoc (A B : Table) (Ts : List Table) :
    joinAll ks A (B :: Ts) = innerJoin ks ks A (joinAll ks B Ts) := by
  induction Ts generalizing B with
  | nil => rfl
  | cons T Ts ih =>
    rw [joinAll_cons, joinAll_cons, innerJoin_assoc, ← joinAll_cons, ih]; rfl

theorem joinAll_append_single (X A : Table) (Ts : List Table) :
    joinAll ks X (Ts ++ [A]) = innerJoin ks ks (joinAll ks X Ts) A := by
  unfold joinAll; rw [List.foldl_append]; rfl

/-- any table can serve as the base -/
theorem joinAll_swap_base (A B : Table) (Ts : List Table) (wfA : RowsWF A) (wfJ : RowsWF (joinAll ks B Ts)) :
    TableEq (joinAll ks A (B :: Ts)) (joinAll ks B (A :: Ts)) := by
  rw [joinAll_assoc]
  refine (innerJoin_comm wfA wfJ).trans ?_
  rw [← joinAll_append_single]
  exact joinAll_perm ks B (List.perm_append_comm (l₁ := Ts) (l₂ := [A]))

end nway
/-! ### well-formedness is preserved by joins of tables with disjoint non-key columns -/

theorem rowsWF_innerJoin {lk rk : List Col} {L R : Table} (wfL : RowsWF L) (wfR : RowsWF R) (ho : NoOverlap lk rk L R) :
    RowsWF (innerJoin lk rk L R) := by
  intro x hx
  obtain ⟨l, hl, r, hr, _, rfl⟩ := mem_innerJoin.mp hx
  exact nodup_combine (wfL l hl) (wfR r hr) (ho l hl r hr)

theorem mem_tcols_innerJoin {ks : List Col} {L R : Table} {c : Col} (h : c ∈ tcols (innerJoin ks ks L R)) :
    c ∈ tcols L ∨ c ∈ tcols R := by
  obtain ⟨x, hx, hc⟩ := mem_tcols.mp h
  obtain ⟨l, hl, r, hr, _, rfl⟩ := mem_innerJoin.mp hx
  rw [rcols_combine, List.mem_append] at hc
  rcases hc with hc | hc
  · exact Or.inl (mem_tcols.mpr ⟨l, hl, hc⟩)
  · exact Or.inr (mem_tcols.mpr ⟨r, hr, (List.mem_filter.mp hc).1⟩)

theorem noOverlap_of_keyOnly {ks : List Col} {A B : Table} (h : KeyOnlyOverlap ks A B) : NoOverlap ks ks A B := by
  intro l hl r hr c hcl hcr
  rw [coalesced_self]
  exact h c (mem_tcols.mpr ⟨l, hl, hcl⟩) (mem_tcols.mpr ⟨r, hr, hcr⟩)

theorem rowsWF_joinAll {ks : List Col} {B : Table} {Ts : List Table} (wfB : RowsWF B) (wfT : ∀ T ∈ Ts, RowsWF T)
    (hB : ∀ T ∈ Ts, KeyOnlyOverlap ks B T) (hT : Ts.Pairwise (KeyOnlyOverlap ks)) : RowsWF (joinAll ks B Ts) := by
  induction Ts generalizing B with
  | nil => exact wfB
  | cons T Ts ih =>
    rw [joinAll_cons]
    have hT' := List.pairwise_cons.mp hT
    refine ih (rowsWF_innerJoin wfB (wfT T List.mem_cons_self) (noOverlap_of_keyOnly (hB T List.mem_cons_self)))
      (fun T' hT'' => wfT T' (List.mem_cons_of_mem _ hT'')) ?_ hT'.2
    intro T' hT'' c hc hc'
    rcases mem_tcols_innerJoin hc with h | h
    · exact hB T' (List.mem_cons_of_mem _ hT'') c h hc'
    · exact hT'.1 T' hT'' c h hc'

/-! ### full outer join is symmetric -/

theorem outerJoin_comm {lk rk ls rs : List Col} {L R : Table} (wfL : RowsWF L) (wfR : RowsWF R) :
    TableEq (outerJoin lk rk ls rs L R) (outerJoin rk lk rs ls R L) := by
  let co := coalesced lk rk
  let uL := L.filter (fun l => R.all (fun r => !matchesK lk rk l r))
  let uR := R.filter (fun r => L.all (fun l => !matchesK lk rk l r))
  have huL : L.filter (fun l => R.all (fun r => !matchesK rk lk r l)) = uL :=
    List.filter_congr (fun l _ => by simp only [matchesK_comm lk rk])
  have huR : R.filter (fun r => L.all (fun l => !matchesK rk lk r l)) = uR :=
    List.filter_congr (fun r _ => by simp only [matchesK_comm lk rk])
  have h1 : TableEq (outerJoin lk rk ls rs L R) ((innerJoin lk rk L R ++ uL.map (padRight co rs)) ++ uR.map (padLeft co ls)) := by
    unfold outerJoin
    exact TableEq.append (TableEq.of_perm (leftJoin_eq_inner_append_unmatched lk rk rs L R)) (TableEq.refl _)
  have h2 : TableEq (outerJoin rk lk rs ls R L) ((innerJoin rk lk R L ++ uR.map (padRight co ls)) ++ uL.map (padLeft co rs)) := by
    unfold outerJoin
    have := TableEq.append (TableEq.of_perm (leftJoin_eq_inner_append_unmatched rk lk ls R L))
      (TableEq.refl ((L.filter (fun l => R.all (fun r => !matchesK rk lk r l))).map (padLeft (coalesced rk lk) rs)))
    rw [huL, huR, coalesced_comm lk rk] at this
    rw [huL, coalesced_comm lk rk]
    exact this
  refine h1.trans (TableEq.trans ?_ h2.symm)
  have pL : TableEq (uL.map (padRight co rs)) (uL.map (padLeft co rs)) :=
    TableEq.map_congr _ _ _ (fun l _ => RowEq.of_core_eq (by rw [core_padRight, core_padLeft]))
  have pR : TableEq (uR.map (padLeft co ls)) (uR.map (padRight co ls)) :=
    TableEq.map_congr _ _ _ (fun r _ => RowEq.of_core_eq (by rw [core_padRight, core_padLeft]))
  have hi := innerJoin_comm (lk := lk) (rk := rk) wfL wfR
  -- (I ++ PL) ++ PR  ≈  (I' ++ PR') ++ PL'
  refine (TableEq.append (TableEq.append hi pL) pR).trans ?_
  rw [List.append_assoc, List.append_assoc]
  exact TableEq.append (TableEq.refl _) (TableEq.of_perm List.perm_append_comm)

/-- the null padding of `joinSpec` depends on the schemas only through null cells -/
theorem joinSpec_schema_irrelevant (t : JoinType) (lk rk ls rs ls' rs' : List Col) (L R : Table) :
    TableEq (joinSpec t lk rk ls rs L R) (joinSpec t lk rk ls' rs' L R) := by
  have hl : ∀ (X : Table), TableEq (leftJoin lk rk rs X R) (leftJoin lk rk rs' X R) := by
    intro X
    unfold leftJoin
    refine TableEq.flatMap_congr _ _ _ (fun l _ => ?_)
    by_cases he : (R.filter (matchesK lk rk l)).isEmpty
    · simp only [he, if_true]
      exact TableEq.single (RowEq.of_core_eq (by rw [core_padRight, core_padRight]))
    · simp only [he, Bool.false_eq_true, if_false]; exact TableEq.refl _
  cases t with
  | inner => exact TableEq.refl _
  | left => exact hl L
  | right =>
    unfold joinSpec rightJoin
    refine TableEq.flatMap_congr _ _ _ (fun r _ => ?_)
    by_cases he : (L.filter (fun l => matchesK lk rk l r)).isEmpty
    · simp only [he, if_true]
      exact TableEq.single (RowEq.of_core_eq (by rw [core_padLeft, core_padLeft]))
    · simp only [he, Bool.false_eq_true, if_false]; exact TableEq.refl _
  | outer =>
    unfold joinSpec outerJoin
    refine TableEq.append (hl L) ?_
    exact TableEq.map_congr _ _ _ (fun r _ => RowEq.of_core_eq (by rw [core_padLeft, core_padLeft]))
  | append => exact TableEq.refl _
  | union => exact TableEq.refl _

end Rel
