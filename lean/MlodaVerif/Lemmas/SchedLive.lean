import MlodaVerif.Lemmas.SchedOrder
/-! Progress measure, deadlock freedom for well-ranked plans, failure handling. -/

namespace Sched

/-! ### a natural-number measure that no event increases -/

theorem filter_len_le (L : List Nat) (P Q : Nat → Bool) (h : ∀ x, P x = true → Q x = true) :
    (L.filter P).length ≤ (L.filter Q).length := by
  induction L with
  | nil => simp
  | cons x L ih =>
    simp only [List.filter_cons]
    cases hp : P x <;> cases hq : Q x <;> simp <;> first | omega | (have := h x hp; simp [hq] at this)

theorem filter_len_lt (L : List Nat) (P Q : Nat → Bool) (h : ∀ x, P x = true → Q x = true) (i : Nat) (hi : i ∈ L)
    (hP : P i = false) (hQ : Q i = true) : (L.filter P).length < (L.filter Q).length := by
  induction L with
  | nil => simp at hi
  | cons x L ih =>
    simp only [List.filter_cons]
    by_cases hx : x = i
    · subst hx
      have := filter_len_le L P Q h
      simp [hP, hQ]; omega
    · have hi' : i ∈ L := by
        simp at hi; rcases hi with h' | h'
        · exact absurd h'.symm hx
        · exact h'
      have := ih hi'
      cases hp : P x <;> cases hq : Q x <;> simp <;> first | omega | (have := h x hp; simp [hq] at this)

def missing (n : Nat) (l : List Nat) : Nat := ((List.range n).filter (fun x => decide (x ∉ l))).length

theorem missing_le_of_subset (n : Nat) (l l' : List Nat) (h : ∀ x ∈ l, x ∈ l') : missing n l' ≤ missing n l := by
  apply filter_len_le
  intro x hx
  simp at hx ⊢
  exact fun hm => hx (h x hm)

theorem missing_lt_of_new (n : Nat) (l l' : List Nat) (h : ∀ x ∈ l, x ∈ l') (i : Nat) (hi : i < n) (hnew : i ∉ l)
    (hin : i ∈ l') : missing n l' < missing n l := by
  apply filter_len_lt _ _ _ _ i (List.mem_range.mpr hi)
  · simp [hin]
  · simp [hnew]
  · intro x hx
    simp at hx ⊢
    exact fun hm => hx (h x hm)

def mu (p : Plan) (s : St) : Nat :=
  missing p.length s.started + missing p.length s.begun + missing p.length (s.done ++ s.failed)
    + missing p.length s.collected + (if halted s then 0 else 1)

theorem mu_init (p : Plan) : mu p init ≤ 4 * p.length + 1 := by
  have h : ∀ l, missing p.length l ≤ p.length := by
    intro l
    have := List.length_filter_le (fun x => decide (x ∉ l)) (List.range p.length)
    simpa [missing] using this
  unfold mu
  have := h init.started; have := h init.begun; have := h (init.done ++ init.failed); have := h init.collected
  split <;> omega


/-- history only grows -/
structure Le (s s' : St) : Prop where
  started : ∀ x ∈ s.started, x ∈ s'.started
  begun : ∀ x ∈ s.begun, x ∈ s'.begun
  df : ∀ x ∈ s.done ++ s.failed, x ∈ s'.done ++ s'.failed
  collected : ∀ x ∈ s.collected, x ∈ s'.collected
  halted : halted s = true → halted s' = true

theorem Le.refl (s : St) : Le s s := ⟨fun _ h => h, fun _ h => h, fun _ h => h, fun _ h => h, fun h => h⟩

theorem stepEv_le (p : Plan) (s : St) (e : Ev) : Le s (stepEv p s e) := by
  cases e with
  | scan i =>
    simp only [stepEv]
    split
    · exact Le.refl s
    · rename_i hh
      split
      · exact Le.refl s
      · split
        · exact Le.refl s
        · split
          · exact Le.refl s
          · split
            · exact ⟨fun _ h => h, fun _ h => h, fun _ h => h, fun x h => by simp; exact Or.inr h,
                     fun h => by simp only [markFinished]; simpa [Sched.halted] using h⟩
            · exact Le.refl s
          · split
            · exact ⟨fun x h => by simp; exact Or.inr h, fun _ h => h, fun _ h => h, fun _ h => h,
                     fun h => by simpa [Sched.halted] using h⟩
            · exact Le.refl s
  | begin i =>
    simp only [stepEv]; split
    · exact ⟨fun _ h => h, fun x h => by simp; exact Or.inr h, fun _ h => h, fun _ h => h,
             fun h => by simpa [Sched.halted] using h⟩
    · exact Le.refl s
  | finish i =>
    simp only [stepEv]; split
    · exact ⟨fun _ h => h, fun _ h => h, fun x h => by simp at h ⊢; rcases h with h | h <;> simp [h],
             fun _ h => h, fun h => by simpa [Sched.halted] using h⟩
    · exact Le.refl s
  | fail i =>
    simp only [stepEv]; split
    · exact ⟨fun _ h => h, fun _ h => h, fun x h => by simp at h ⊢; rcases h with h | h <;> simp [h],
             fun _ h => h, fun h => by simpa [Sched.halted] using h⟩
    · exact Le.refl s
  | loopHead =>
    simp only [stepEv]; split
    · exact Le.refl s
    · split
      · exact ⟨fun _ h => h, fun _ h => h, fun _ h => h, fun _ h => h, fun _ => by simp [Sched.halted]⟩
      · split
        · exact ⟨fun _ h => h, fun _ h => h, fun _ h => h, fun _ h => h, fun _ => by simp [Sched.halted]⟩
        · exact ⟨fun _ h => h, fun _ h => h, fun _ h => h, fun _ h => h, fun h => by simpa [Sched.halted] using h⟩

theorem mu_le_of_le (p : Plan) {s s' : St} (h : Le s s') : mu p s' ≤ mu p s := by
  unfold mu
  have h1 := missing_le_of_subset p.length _ _ h.started
  have h2 := missing_le_of_subset p.length _ _ h.begun
  have h3 := missing_le_of_subset p.length _ _ h.df
  have h4 := missing_le_of_subset p.length _ _ h.collected
  have h5 : (if halted s' then 0 else 1) ≤ (if halted s then 0 else 1) := by
    by_cases hs : halted s = true
    · simp [hs, h.halted hs]
    · simp [hs]; split <;> omega
  omega

/-- no event increases the measure -/
theorem mu_step_le (p : Plan) (s : St) (e : Ev) : mu p (stepEv p s e) ≤ mu p s :=
  mu_le_of_le p (stepEv_le p s e)

/-- an event *makes progress* when it strictly decreases the measure -/
def Progress (p : Plan) (s : St) (e : Ev) : Prop := mu p (stepEv p s e) < mu p s

instance (p : Plan) (s : St) (e : Ev) : Decidable (Progress p s e) := by unfold Progress; infer_instance

/-- number of progress events along a run -/
def progressCount (p : Plan) : St → List Ev → Nat
  | _, [] => 0
  | s, e :: es => (if mu p (stepEv p s e) < mu p s then 1 else 0) + progressCount p (stepEv p s e) es

theorem progress_bounded (p : Plan) (s : St) (evs : List Ev) :
    progressCount p s evs + mu p (run p s evs) ≤ mu p s := by
  induction evs generalizing s with
  | nil => simp [progressCount, run]
  | cons e es ih =>
    have := ih (stepEv p s e)
    have hle := mu_step_le p s e
    simp only [progressCount, run, List.foldl_cons] at this ⊢
    split <;> omega


theorem mu_lt_of_new (p : Plan) {s s' : St} (h : Le s s')
    (hnew : (∃ i, i < p.length ∧ i ∉ s.started ∧ i ∈ s'.started) ∨ (∃ i, i < p.length ∧ i ∉ s.begun ∧ i ∈ s'.begun) ∨
      (∃ i, i < p.length ∧ i ∉ s.done ++ s.failed ∧ i ∈ s'.done ++ s'.failed) ∨
      (∃ i, i < p.length ∧ i ∉ s.collected ∧ i ∈ s'.collected) ∨ (halted s = false ∧ halted s' = true)) :
    mu p s' < mu p s := by
  unfold mu
  have h1 := missing_le_of_subset p.length _ _ h.started
  have h2 := missing_le_of_subset p.length _ _ h.begun
  have h3 := missing_le_of_subset p.length _ _ h.df
  have h4 := missing_le_of_subset p.length _ _ h.collected
  have h5 : (if halted s' then 0 else 1) ≤ (if halted s then 0 else 1) := by
    by_cases hs : halted s = true
    · simp [hs, h.halted hs]
    · simp [hs]; split <;> omega
  rcases hnew with ⟨i, hi, hn, hin⟩ | ⟨i, hi, hn, hin⟩ | ⟨i, hi, hn, hin⟩ | ⟨i, hi, hn, hin⟩ | ⟨hf, ht⟩
  · have := missing_lt_of_new p.length _ _ h.started i hi hn hin; omega
  · have := missing_lt_of_new p.length _ _ h.begun i hi hn hin; omega
  · have := missing_lt_of_new p.length _ _ h.df i hi hn hin; omega
  · have := missing_lt_of_new p.length _ _ h.collected i hi hn hin; omega
  · simp [hf, ht]; omega

theorem lt_length_of_getElem? {p : Plan} {i : Nat} {st : Step} (h : p[i]? = some st) : i < p.length := by
  by_cases hlt : i < p.length
  · exact hlt
  · simp [List.getElem?_eq_none (Nat.le_of_not_lt hlt)] at h

/-- `WellRanked p`: every required uuid is produced by a step of strictly smaller rank, i.e. the plan is closed and its
wait-for relation is acyclic. -/
def WellRanked (p : Plan) : Prop :=
  ∃ rank : Nat → Nat, ∀ (i : Nat) (st : Step), p[i]? = some st → ∀ u ∈ st.req,
    ∃ j sj, p[j]? = some sj ∧ u ∈ sj.outs ∧ rank j < rank i

theorem not_isStepDone_of_uncollected {p : Plan} (hd : DisjointOuts p) (hne : NonemptyOuts p) {s : St}
    (hi : SInv p s) {i : Nat} {st : Step} (hst : p[i]? = some st) (hnc : i ∉ s.collected) :
    isStepDone st.outs s.finished = false := by
  obtain ⟨u, hu⟩ := List.exists_mem_of_ne_nil _ (hne st (List.mem_of_getElem? hst))
  cases h : isStepDone st.outs s.finished with
  | false => rfl
  | true =>
    simp [isStepDone] at h
    obtain ⟨j, sj, hj1, hj2, hj3⟩ := hi.fin_owner u (h u hu)
    have : j = i := hd j i sj st hj2 hst u hj3 hu
    subst this; exact absurd hj1 hnc

theorem scan_collects {p : Plan} (hd : DisjointOuts p) (hne : NonemptyOuts p) {s : St} (hi : SInv p s)
    (hnh : halted s = false) {i : Nat} {st : Step} (hst : p[i]? = some st) (hnc : i ∉ s.collected)
    (hs : i ∈ s.started) (hdone : i ∈ s.done) : i ∈ (stepEv p s (.scan i)).collected := by
  have hnd := not_isStepDone_of_uncollected hd hne hi hst hnc
  have hcr : currentlyRunning st.outs s.running = some true := by
    have hall := hi.run_outs i hs hnc st hst
    cases ho : st.outs with
    | nil => exact absurd ho (hne st (List.mem_of_getElem? hst))
    | cons u us => simp [currentlyRunning]; exact hall u (by simp [ho])
  simp [stepEv, hnh, hst, hnd, hcr, hdone, markFinished]

theorem scan_starts {p : Plan} (hd : DisjointOuts p) (hne : NonemptyOuts p) {s : St} (hi : SInv p s)
    (hnh : halted s = false) {i : Nat} {st : Step} (hst : p[i]? = some st) (hns : i ∉ s.started)
    (hreq : ∀ u ∈ st.req, u ∈ s.finished) : i ∈ (stepEv p s (.scan i)).started := by
  have hnc : i ∉ s.collected := fun h => hns (hi.begun_sub i (hi.done_sub i (hi.coll_sub i h)))
  have hnd := not_isStepDone_of_uncollected hd hne hi hst hnc
  have hnr : ∀ u ∈ st.outs, u ∉ s.running := by
    intro u hu hr
    obtain ⟨j, sj, hj1, _, hj3, hj4⟩ := hi.run_owner u hr
    have : j = i := hd j i sj st hj3 hst u hj4 hu
    subst this; exact hns hj1
  have hcr : currentlyRunning st.outs s.running = some false := by
    cases ho : st.outs with
    | nil => exact absurd ho (hne st (List.mem_of_getElem? hst))
    | cons u us => simp [currentlyRunning]; exact hnr u (by simp [ho])
  have hcan : canRun st.req st.outs s.finished s.running = true := by
    simp [canRun]; exact ⟨hreq, hnr⟩
  simp [stepEv, hnh, hst, hnd, hcr, hcan]

/-- an uncollected step of a well-ranked plan in a quiet state (no worker event pending, nothing failed) can be
collected or started, or a step it waits for can -/
theorem progress_of_uncollected {p : Plan} (hd : DisjointOuts p) (hne : NonemptyOuts p) (rank : Nat → Nat)
    (hwr : ∀ (i : Nat) (st : Step), p[i]? = some st → ∀ u ∈ st.req,
      ∃ j sj, p[j]? = some sj ∧ u ∈ sj.outs ∧ rank j < rank i)
    {s : St} (hi : SInv p s) (hnh : halted s = false) (hquiet : ∀ i ∈ s.started, i ∈ s.done) :
    ∀ (n : Nat) (i : Nat) (st : Step), rank i ≤ n → p[i]? = some st → i ∉ s.collected → ∃ e, Progress p s e := by
  intro n
  induction n with
  | zero =>
    intro i st hr hst hnc
    by_cases hs : i ∈ s.started
    · refine ⟨.scan i, mu_lt_of_new p (stepEv_le p s _) ?_⟩
      exact Or.inr (Or.inr (Or.inr (Or.inl ⟨i, lt_length_of_getElem? hst, hnc,
        scan_collects hd hne hi hnh hst hnc hs (hquiet i hs)⟩)))
    · have hreq : ∀ u ∈ st.req, u ∈ s.finished := by
        intro u hu
        obtain ⟨j, sj, _, _, hlt⟩ := hwr i st hst u hu
        omega
      refine ⟨.scan i, mu_lt_of_new p (stepEv_le p s _) ?_⟩
      exact Or.inl ⟨i, lt_length_of_getElem? hst, hs, scan_starts hd hne hi hnh hst hs hreq⟩
  | succ n ih =>
    intro i st hr hst hnc
    by_cases hs : i ∈ s.started
    · refine ⟨.scan i, mu_lt_of_new p (stepEv_le p s _) ?_⟩
      exact Or.inr (Or.inr (Or.inr (Or.inl ⟨i, lt_length_of_getElem? hst, hnc,
        scan_collects hd hne hi hnh hst hnc hs (hquiet i hs)⟩)))
    · by_cases hreq : ∀ u ∈ st.req, u ∈ s.finished
      · refine ⟨.scan i, mu_lt_of_new p (stepEv_le p s _) ?_⟩
        exact Or.inl ⟨i, lt_length_of_getElem? hst, hs, scan_starts hd hne hi hnh hst hs hreq⟩
      · simp only [Classical.not_forall, Classical.not_imp] at hreq
        obtain ⟨u, hu, hnf⟩ := hreq
        obtain ⟨j, sj, hj1, hj2, hlt⟩ := hwr i st hst u hu
        have hjc : j ∉ s.collected := fun hc => hnf (hi.coll_outs j hc sj hj1 u hj2)
        exact ih j sj (by omega) hj1 hjc

/-- **deadlock freedom**: in every reachable state of a well-ranked, non-empty plan with disjoint non-empty outputs in
which `compute` has neither returned nor raised, some event makes progress (strictly decreases the measure). -/
theorem deadlock_free {p : Plan} (hd : DisjointOuts p) (hne : NonemptyOuts p) (hwr : WellRanked p) (hp : p ≠ [])
    {s : St} (hr : Reach p s) (hnh : halted s = false) : ∃ e, Progress p s e := by
  have hi := sinv_reach hd hr
  obtain ⟨rank, hwr⟩ := hwr
  -- a started step that has not begun can begin
  by_cases h1 : ∃ i ∈ s.started, i ∉ s.begun ∧ i ∉ s.failed
  · obtain ⟨i, his, hib, hif⟩ := h1
    obtain ⟨st, hst⟩ := hi.started_valid i his
    refine ⟨.begin i, mu_lt_of_new p (stepEv_le p s _) (Or.inr (Or.inl ⟨i, lt_length_of_getElem? hst, hib, ?_⟩))⟩
    simp [stepEv, his, hib, hif]
  -- a begun step that is neither done nor failed can finish
  by_cases h2 : ∃ i ∈ s.begun, i ∉ s.done ∧ i ∉ s.failed
  · obtain ⟨i, hib, hid, hif⟩ := h2
    obtain ⟨st, hst⟩ := hi.started_valid i (hi.begun_sub i hib)
    refine ⟨.finish i, mu_lt_of_new p (stepEv_le p s _)
      (Or.inr (Or.inr (Or.inl ⟨i, lt_length_of_getElem? hst, by simp [hid, hif], ?_⟩)))⟩
    simp [stepEv, hib, hid, hif]
  -- something failed: the loop head halts (returns or raises)
  by_cases h3 : s.failed = []
  · -- quiet state
    have hquiet : ∀ i ∈ s.started, i ∈ s.done := by
      intro i his
      have hif : i ∉ s.failed := by simp [h3]
      have hib : i ∈ s.begun := by
        by_cases hb : i ∈ s.begun
        · exact hb
        · exact absurd ⟨i, his, hb, hif⟩ h1
      by_cases hdn : i ∈ s.done
      · exact hdn
      · exact absurd ⟨i, hib, hdn, hif⟩ h2
    by_cases hall : ∀ (i : Nat) (st : Step), p[i]? = some st → i ∈ s.collected
    · -- everything collected: the loop head returns
      refine ⟨.loopHead, mu_lt_of_new p (stepEv_le p s _) (Or.inr (Or.inr (Or.inr (Or.inr ⟨hnh, ?_⟩))))⟩
      have hfin : (allOuts p).all (· ∈ s.finished) = true := by
        simp only [List.all_eq_true, decide_eq_true_eq, allOuts, List.mem_flatMap]
        rintro u ⟨st, hst, hu⟩
        obtain ⟨i, hlt, rfl⟩ := List.mem_iff_getElem.mp hst
        have hget : p[i]? = some p[i] := List.getElem?_eq_getElem hlt
        exact hi.coll_outs i (hall i _ hget) _ hget u hu
      have hne' : s.finished ≠ [] := by
        cases p with
        | nil => exact absurd rfl hp
        | cons st0 rest =>
          have hget : (st0 :: rest)[0]? = some st0 := rfl
          obtain ⟨u, hu⟩ := List.exists_mem_of_ne_nil _ (hne st0 (by simp))
          have := hi.coll_outs 0 (hall 0 st0 hget) st0 hget u hu
          exact List.ne_nil_of_mem this
      have hnh' := hnh
      simp only [Sched.halted, Bool.or_eq_false_iff] at hnh'
      simp [stepEv, Sched.halted, hnh'.1, hnh'.2, hfin, hne']
    · simp only [Classical.not_forall, Classical.not_imp] at hall
      obtain ⟨i, st, hst, hnc⟩ := hall
      exact progress_of_uncollected hd hne rank hwr hi hnh hquiet (rank i) i st (Nat.le_refl _) hst hnc
  · have herr := hi.err_of_failed h3
    refine ⟨.loopHead, mu_lt_of_new p (stepEv_le p s _) (Or.inr (Or.inr (Or.inr (Or.inr ⟨hnh, ?_⟩))))⟩
    obtain ⟨e, he⟩ := Option.isSome_iff_exists.mp herr
    have hnh' := hnh
    simp only [Sched.halted, Bool.or_eq_false_iff] at hnh'
    simp only [stepEv, Sched.halted, hnh'.1, hnh'.2, Bool.or_self, Bool.false_eq_true, ↓reduceIte]
    split
    · simp
    · simp [he]

end Sched
