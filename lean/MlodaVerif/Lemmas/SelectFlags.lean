import MlodaVerif.Lemmas.Select
/-! Lemmas about who carries `initial_requested_data` (`processFeature` / `processRequest`) and about per-step tables. -/
namespace Select

/-- group and normalised name under which request feature `q` is stored -/
def reqKey (w : World) (q : Name) : Option (Nat × Name) :=
  match owner w q with
  | .error _ => none
  | .ok gid => match w.groups[gid]? with
    | none => none
    | some g => some (gid, setFeatureName g.supported q)

/-- hygiene for the flag: the (normalised) name of a requested feature is not also the name of a filter feature or
linked index column of its own group -/
def noAuxClash (w : World) (req : List Name) : Bool :=
  req.all (fun q => match owner w q with
    | .error _ => true
    | .ok gid => match w.groups[gid]? with
      | none => true
      | some g => !(auxNames w g).contains (setFeatureName g.supported q))

/-- the non-requested entries the engine adds on its own: dependencies (`child`) and filter / index features -/
def AuxOrChild (w : World) (e : Entry) : Prop :=
  e.2.requested = false ∧ (e.2.child = true ∨ ∃ g, w.groups[e.1]? = some g ∧ e.2.name ∈ auxNames w g)

theorem mem_addEntry {coll : List Entry} {e x : Entry} : x ∈ (addEntry coll e).1 → x ∈ coll ∨ x = e := by
  unfold addEntry; split
  · intro h; exact Or.inl h
  · intro h; simpa using h

theorem subset_addEntry {coll : List Entry} {e x : Entry} (h : x ∈ coll) : x ∈ (addEntry coll e).1 := by
  unfold addEntry; split
  · exact h
  · simp [h]

theorem mem_addAll {es : List Entry} : ∀ {coll : List Entry} {x : Entry}, x ∈ addAll coll es → x ∈ coll ∨ x ∈ es := by
  induction es with
  | nil => intro coll x h; exact Or.inl h
  | cons e es ih =>
    intro coll x h
    simp only [addAll, List.foldl_cons] at h
    rcases ih (coll := (addEntry coll e).1) h with h | h
    · rcases mem_addEntry h with h | h
      · exact Or.inl h
      · exact Or.inr (by simp [h])
    · exact Or.inr (by simp [h])

theorem subset_addAll {es : List Entry} : ∀ {coll : List Entry} {x : Entry}, x ∈ coll → x ∈ addAll coll es := by
  induction es with
  | nil => intro coll x h; exact h
  | cons e es ih =>
    intro coll x h
    simp only [addAll, List.foldl_cons]
    exact ih (subset_addEntry h)

/-- after `addEntry` an entry equal (in the sense of `Feature.__eq__`) to `e` is present -/
theorem addEntry_present (coll : List Entry) (e : Entry) :
    ∃ x ∈ (addEntry coll e).1, sameFeat e x = true := by
  unfold addEntry; split
  · rename_i h; obtain ⟨x, hx, hs⟩ := List.any_eq_true.mp h; exact ⟨x, hx, hs⟩
  · exact ⟨e, by simp, by simp [sameFeat]⟩

/-- `coll'` arises from `coll` by `add_feature_to_collection` calls for entries satisfying `P` -/
def Grows (P : Entry → Prop) (coll coll' : List Entry) : Prop :=
  ∃ es : List Entry, (∀ e ∈ es, P e) ∧ coll' = addAll coll es

theorem Grows.refl {P : Entry → Prop} (coll : List Entry) : Grows P coll coll := ⟨[], by simp, rfl⟩

theorem addAll_append (coll : List Entry) (a b : List Entry) : addAll coll (a ++ b) = addAll (addAll coll a) b := by
  simp [addAll, List.foldl_append]

theorem Grows.trans {P : Entry → Prop} {a b c : List Entry} (h1 : Grows P a b) (h2 : Grows P b c) : Grows P a c := by
  obtain ⟨e1, p1, rfl⟩ := h1
  obtain ⟨e2, p2, rfl⟩ := h2
  refine ⟨e1 ++ e2, ?_, (addAll_append _ _ _).symm⟩
  intro e he; rcases List.mem_append.mp he with h | h
  · exact p1 e h
  · exact p2 e h

theorem Grows.mem {P : Entry → Prop} {a b : List Entry} (h : Grows P a b) {x : Entry} (hx : x ∈ b) : x ∈ a ∨ P x := by
  obtain ⟨es, p, rfl⟩ := h
  rcases mem_addAll hx with h | h
  · exact Or.inl h
  · exact Or.inr (p x h)

theorem Grows.subset {P : Entry → Prop} {a b : List Entry} (h : Grows P a b) {x : Entry} (hx : x ∈ a) : x ∈ b := by
  obtain ⟨es, _, rfl⟩ := h; exact subset_addAll hx

theorem grows_addEntry {P : Entry → Prop} (coll : List Entry) (e : Entry) (h : P e) : Grows P coll (addEntry coll e).1 :=
  ⟨[e], by simpa using h, by simp [addAll]⟩

/-- the list of aux entries appended at the end of `_process_feature` -/
theorem aux_entries_ok (w : World) (gid : Nat) (g : GroupSpec) (hg : w.groups[gid]? = some g) :
    ∀ e ∈ (auxNames w g).map (fun n => ((gid, { name := n, child := false, requested := false }) : Entry)), AuxOrChild w e := by
  intro e he
  obtain ⟨n, hn, rfl⟩ := List.mem_map.mp he
  exact ⟨rfl, Or.inr ⟨g, hg, hn⟩⟩

/-- Shape of one `_process_feature` call: the feature itself is offered to `add_feature_to_collection` under its
group and normalised name; everything else that is added is a dependency or an aux (filter / index) feature. -/
theorem processFeature_shape (w : World) :
    ∀ (fuel : Nat) (coll : List Entry) (f : Feat) (coll' : List Entry),
      processFeature w fuel coll f = .ok coll' →
      ∃ gid g, owner w f.name = .ok gid ∧ w.groups[gid]? = some g ∧
        Grows (AuxOrChild w) (addEntry coll (gid, { f with name := setFeatureName g.supported f.name })).1 coll' := by
  intro fuel
  induction fuel with
  | zero => intro coll f coll' h; simp [processFeature] at h
  | succ fuel ih =>
    intro coll f coll' h
    unfold processFeature at h
    split at h
    · cases h
    · rename_i gid hown
      split at h
      · cases h
      · rename_i g hg
        refine ⟨gid, g, hown, hg, ?_⟩
        simp only at h
        generalize hadd : addEntry coll (gid, { f with name := setFeatureName g.supported f.name }) = r at h
        obtain ⟨coll1, added⟩ := r
        simp only at h
        -- the recursion over the parents only adds dependencies / aux entries
        have hrec : ∀ (ps : List Name) (c c' : List Entry),
            ps.foldlM (fun c p => processFeature w fuel c { name := p, child := true, requested := false }) c = .ok c' →
            Grows (AuxOrChild w) c c' := by
          intro ps
          induction ps with
          | nil => intro c c' hc; simp [List.foldlM, pure, Except.pure] at hc; subst hc; exact Grows.refl _
          | cons p ps ihp =>
            intro c c' hc
            rw [List.foldlM_cons] at hc
            cases hp : processFeature w fuel c { name := p, child := true, requested := false } with
            | error e => rw [hp] at hc; simp [bind, Except.bind] at hc
            | ok c1 =>
              rw [hp] at hc; simp only [bind, Except.bind] at hc
              obtain ⟨gid', g', _, hg', hgr⟩ := ih c _ c1 hp
              have h1 : Grows (AuxOrChild w) c (addEntry c (gid', { ({ name := p, child := true, requested := false } : Feat) with
                  name := setFeatureName g'.supported p })).1 :=
                grows_addEntry _ _ ⟨rfl, Or.inl rfl⟩
              exact (h1.trans hgr).trans (ihp c1 c' hc)
        split at h
        · cases h
        · rename_i coll2 hrec'
          simp only [Except.ok.injEq] at h
          subst h
          have h2 : Grows (AuxOrChild w) coll1 coll2 := by
            by_cases ha : added = true
            · simp only [ha, if_true] at hrec'; exact hrec _ _ _ hrec'
            · simp only [ha] at hrec'; simp at hrec'; subst hrec'; exact Grows.refl _
          exact h2.trans ⟨_, aux_entries_ok w gid g hg, rfl⟩

/-- entries carrying the flag -/
def FlaggedIn (coll : List Entry) (gid : Nat) (n : Name) : Prop :=
  ∃ e ∈ coll, e.1 = gid ∧ e.2.name = n ∧ e.2.requested = true

theorem mem_flaggedOf {coll : List Entry} {gid : Nat} {n : Name} : n ∈ flaggedOf coll gid ↔ FlaggedIn coll gid n := by
  unfold flaggedOf FlaggedIn
  simp only [List.mem_eraseDups, List.mem_map, List.mem_filter, Bool.and_eq_true, beq_iff_eq]
  constructor
  · rintro ⟨e, ⟨he, h1, h2⟩, h3⟩; exact ⟨e, he, h1, h3, h2⟩
  · rintro ⟨e, he, h1, h3, h2⟩; exact ⟨e, ⟨he, h1, h2⟩, h3⟩

/-- state invariant of `processRequest` after the prefix `done` of the request -/
structure FlagInv (w : World) (done : List Name) (coll : List Entry) : Prop where
  /-- flagged entries come from the request, are not dependencies -/
  sound : ∀ e ∈ coll, e.2.requested = true → e.2.child = false ∧ ∃ q ∈ done, reqKey w q = some (e.1, e.2.name)
  /-- every other non-dependency entry is a filter / index feature of its group -/
  aux : ∀ e ∈ coll, e.2.requested = false → e.2.child = false → ∃ g, w.groups[e.1]? = some g ∧ e.2.name ∈ auxNames w g

theorem FlagInv.nil (w : World) : FlagInv w [] [] := ⟨by simp, by simp⟩

theorem reqKey_of {w : World} {q : Name} {gid : Nat} {g : GroupSpec} (ho : owner w q = .ok gid)
    (hg : w.groups[gid]? = some g) : reqKey w q = some (gid, setFeatureName g.supported q) := by
  unfold reqKey; simp [ho, hg]

/-- one request feature keeps the invariant -/
theorem FlagInv.step {w : World} {done : List Name} {coll coll' : List Entry} {q : Name} {fuel : Nat}
    (inv : FlagInv w done coll)
    (h : processFeature w fuel coll { name := q, child := false, requested := true } = .ok coll') :
    FlagInv w (done ++ [q]) coll' := by
  obtain ⟨gid, g, ho, hg, hgr⟩ := processFeature_shape w fuel coll _ coll' h
  simp only at ho hgr
  constructor
  · intro e he hreq
    rcases hgr.mem he with h1 | h1
    · rcases mem_addEntry h1 with h2 | h2
      · obtain ⟨hc, q', hq', hk⟩ := inv.sound e h2 hreq
        exact ⟨hc, q', by simp [hq'], hk⟩
      · subst h2; exact ⟨rfl, q, by simp, reqKey_of ho hg⟩
    · rw [h1.1] at hreq; cases hreq
  · intro e he hreq hch
    rcases hgr.mem he with h1 | h1
    · rcases mem_addEntry h1 with h2 | h2
      · exact inv.aux e h2 hreq hch
      · subst h2; cases hreq
    · rcases h1.2 with h2 | h2
      · rw [h2] at hch; cases hch
      · exact h2

theorem foldlM_snoc_inv {w : World} {fuel : Nat} :
    ∀ (req done : List Name) (coll coll' : List Entry), FlagInv w done coll →
      req.foldlM (fun c q => processFeature w fuel c { name := q, child := false, requested := true }) coll = .ok coll' →
      FlagInv w (done ++ req) coll' := by
  intro req
  induction req with
  | nil => intro done coll coll' inv h; simp [List.foldlM, pure, Except.pure] at h; subst h; simpa using inv
  | cons q qs ih =>
    intro done coll coll' inv h
    rw [List.foldlM_cons] at h
    cases hp : processFeature w fuel coll { name := q, child := false, requested := true } with
    | error e => rw [hp] at h; simp [bind, Except.bind] at h
    | ok c1 =>
      rw [hp] at h; simp only [bind, Except.bind] at h
      have := ih (done ++ [q]) c1 coll' (inv.step hp) h
      simpa using this

theorem processRequest_inv {w : World} {fuel : Nat} {req : List Name} {coll : List Entry}
    (h : processRequest w fuel req = .ok coll) : FlagInv w req coll := by
  have := foldlM_snoc_inv (w := w) (fuel := fuel) req [] [] coll (FlagInv.nil w) h
  simpa using this

/-- completeness needs the hygiene hypothesis: once processed under hygiene, the request feature's flag is present and
stays present -/
theorem flagged_complete {w : World} {fuel : Nat} :
    ∀ (req done : List Name) (coll coll' : List Entry), FlagInv w done coll →
      (∀ q ∈ done, ∀ k, reqKey w q = some k → FlaggedIn coll k.1 k.2) →
      noAuxClash w req = true →
      req.foldlM (fun c q => processFeature w fuel c { name := q, child := false, requested := true }) coll = .ok coll' →
      ∀ q ∈ done ++ req, ∀ k, reqKey w q = some k → FlaggedIn coll' k.1 k.2 := by
  intro req
  induction req with
  | nil =>
    intro done coll coll' _ hdone _ h
    simp [List.foldlM, pure, Except.pure] at h; subst h; simpa using hdone
  | cons q qs ih =>
    intro done coll coll' inv hdone hyg h
    rw [List.foldlM_cons] at h
    cases hp : processFeature w fuel coll { name := q, child := false, requested := true } with
    | error e => rw [hp] at h; simp [bind, Except.bind] at h
    | ok c1 =>
      rw [hp] at h; simp only [bind, Except.bind] at h
      have hyg' : noAuxClash w qs = true := by
        unfold noAuxClash at hyg ⊢; simp only [List.all_cons, Bool.and_eq_true] at hyg; exact hyg.2
      obtain ⟨gid, g, ho, hg, hgr⟩ := processFeature_shape w fuel coll _ c1 hp
      simp only at ho hgr
      have hq : ¬ setFeatureName g.supported q ∈ auxNames w g := by
        unfold noAuxClash at hyg; simp only [List.all_cons, Bool.and_eq_true] at hyg
        have := hyg.1; simp only [ho, hg] at this; simpa using this
      have hdone' : ∀ q' ∈ done ++ [q], ∀ k, reqKey w q' = some k → FlaggedIn c1 k.1 k.2 := by
        intro q' hq' k hk
        rcases List.mem_append.mp hq' with h1 | h1
        · obtain ⟨e, he, h2⟩ := hdone q' h1 k hk
          exact ⟨e, hgr.subset (subset_addEntry he), h2⟩
        · simp only [List.mem_singleton] at h1; subst h1
          rw [reqKey_of ho hg] at hk; cases hk
          obtain ⟨x, hx, hs⟩ := addEntry_present coll (gid, { name := setFeatureName g.supported q', child := false, requested := true })
          simp only [sameFeat, Bool.and_eq_true, beq_iff_eq] at hs
          obtain ⟨⟨h3, h4⟩, h5⟩ := hs
          refine ⟨x, hgr.subset hx, h3.symm, h4.symm, ?_⟩
          -- x is either the entry just added, or an older entry, which under hygiene must be flagged
          rcases mem_addEntry hx with h6 | h6
          · cases hr : x.2.requested with
            | true => rfl
            | false =>
              obtain ⟨g', hg', hn⟩ := inv.aux x h6 hr h5.symm
              rw [← h3, hg] at hg'; cases hg'
              rw [← h4] at hn; exact absurd hn hq
          · rw [h6]
      have := ih (done ++ [q]) c1 coll' (inv.step hp) hdone' hyg' h
      simpa using this

/-! ### per-step tables -/

theorem results_ok_iff {fw : Fw} {o : ColOrder} : ∀ {steps : List Step} {ts : List (List Name)},
    results fw o steps = .ok ts →
    ts = steps.filterMap (fun s => match stepTable fw o s with | .ok (some t) => some t | _ => none) ∧
    ∀ s ∈ steps, ∃ t, stepTable fw o s = .ok t := by
  intro steps
  induction steps with
  | nil => intro ts h; simp [results] at h; subst h; simp
  | cons s ss ih =>
    intro ts h
    unfold results at h
    cases hs : stepTable fw o s with
    | error e => rw [hs] at h; cases h
    | ok t =>
      rw [hs] at h; simp only at h
      cases hr : results fw o ss with
      | error e => rw [hr] at h; cases h
      | ok ts' =>
        rw [hr] at h; simp only [Except.ok.injEq] at h
        obtain ⟨h1, h2⟩ := ih hr
        constructor
        · subst h
          cases t with
          | none => simp [hs, ← h1]
          | some t => simp [hs, ← h1]
        · intro s' hs'
          rcases List.mem_cons.mp hs' with rfl | h3
          · exact ⟨t, hs⟩
          · exact h2 s' h3

theorem results_of_all_ok {fw : Fw} {o : ColOrder} : ∀ {steps : List Step},
    (∀ s ∈ steps, ∃ t, stepTable fw o s = .ok t) → ∃ ts, results fw o steps = .ok ts := by
  intro steps
  induction steps with
  | nil => intro _; exact ⟨[], rfl⟩
  | cons s ss ih =>
    intro h
    obtain ⟨t, ht⟩ := h s (by simp)
    obtain ⟨ts, hts⟩ := ih (fun s' hs' => h s' (by simp [hs']))
    unfold results; rw [ht, hts]; simp

theorem mem_results {fw : Fw} {o : ColOrder} {steps : List Step} {ts : List (List Name)}
    (h : results fw o steps = .ok ts) (t : List Name) :
    t ∈ ts ↔ ∃ s ∈ steps, stepTable fw o s = .ok (some t) := by
  rw [(results_ok_iff h).1, List.mem_filterMap]
  constructor
  · rintro ⟨s, hs, hm⟩
    refine ⟨s, hs, ?_⟩
    split at hm
    · rename_i t' ht'; simp at hm; subst hm; exact ht'
    · cases hm
  · rintro ⟨s, hs, hm⟩; exact ⟨s, hs, by rw [hm]⟩

/-! ### feature sets -/

def members (bs : List Bucket) : List TFeat := bs.flatMap (·.2)

theorem members_insertBucket (bs : List Bucket) (k : Nat × Option Nat) (f : TFeat) :
    (members (insertBucket bs k f)).Perm (members bs ++ [f]) := by
  induction bs with
  | nil => simp [insertBucket, members]
  | cons b bs ih =>
    unfold insertBucket
    split
    · simp only [members, List.flatMap_cons, List.append_assoc]
      exact (List.perm_append_comm (l₁ := [f]) (l₂ := List.flatMap (·.2) bs)).append_left b.2
    · simp only [members, List.flatMap_cons, List.append_assoc] at ih ⊢
      exact ih.append_left b.2

theorem members_joinFirst (bs : List Bucket) (f : TFeat) : (members (joinFirst bs f)).Perm (members bs ++ [f]) := by
  induction bs with
  | nil => simp [joinFirst, members]
  | cons b bs ih =>
    unfold joinFirst
    split
    · simp only [members, List.flatMap_cons, List.append_assoc]
      exact (List.perm_append_comm (l₁ := [f]) (l₂ := List.flatMap (·.2) bs)).append_left b.2
    · simp only [members, List.flatMap_cons, List.append_assoc] at ih ⊢
      exact ih.append_left b.2

theorem members_foldl_insert (fs : List TFeat) : ∀ bs : List Bucket,
    (members (fs.foldl (fun bs f => insertBucket bs (f.opt, f.dtype) f) bs)).Perm (members bs ++ fs) := by
  induction fs with
  | nil => intro bs; simp
  | cons f fs ih =>
    intro bs
    simp only [List.foldl_cons]
    refine (ih _).trans ?_
    have := (members_insertBucket bs (f.opt, f.dtype) f).append_right fs
    simpa [List.append_assoc] using this

theorem members_foldl_join (fs : List TFeat) : ∀ bs : List Bucket,
    (members (fs.foldl joinFirst bs)).Perm (members bs ++ fs) := by
  induction fs with
  | nil => intro bs; simp
  | cons f fs ih =>
    intro bs
    simp only [List.foldl_cons]
    refine (ih _).trans ?_
    have := (members_joinFirst bs f).append_right fs
    simpa [List.append_assoc] using this

/-- buckets keep the first-pass discipline: every typed member carries the bucket's key -/
def KeyOK (b : Bucket) : Prop := ∀ f ∈ b.2, f.opt = b.1.1 ∧ (f.dtype.isSome → f.dtype = b.1.2)

theorem keyOK_insertBucket (bs : List Bucket) (f : TFeat) (h : ∀ b ∈ bs, KeyOK b) :
    ∀ b ∈ insertBucket bs (f.opt, f.dtype) f, KeyOK b := by
  induction bs with
  | nil => intro b hb; simp [insertBucket] at hb; subst hb; intro x hx; simp at hx; subst hx; exact ⟨rfl, fun _ => rfl⟩
  | cons b0 bs ih =>
    intro b hb
    unfold insertBucket at hb
    split at hb
    · rename_i hk
      have hk' : b0.1 = (f.opt, f.dtype) := by simpa using hk
      rcases List.mem_cons.mp hb with rfl | hb
      · intro x hx
        rcases List.mem_append.mp hx with hx | hx
        · exact h b0 (by simp) x hx
        · simp at hx; subst hx; simp [hk']
      · exact h b (by simp [hb])
    · rcases List.mem_cons.mp hb with rfl | hb
      · exact h b (by simp)
      · exact ih (fun b' hb' => h b' (by simp [hb'])) b hb

theorem keyOK_joinFirst (bs : List Bucket) (f : TFeat) (hf : f.dtype = none) (h : ∀ b ∈ bs, KeyOK b) :
    ∀ b ∈ joinFirst bs f, KeyOK b := by
  induction bs with
  | nil => intro b hb; simp [joinFirst] at hb; subst hb; intro x hx; simp at hx; subst hx; simp [hf]
  | cons b0 bs ih =>
    intro b hb
    unfold joinFirst at hb
    split at hb
    · rename_i hk
      have hk' : b0.1.1 = f.opt := by simpa using hk
      rcases List.mem_cons.mp hb with rfl | hb
      · intro x hx
        rcases List.mem_append.mp hx with hx | hx
        · exact h b0 (by simp) x hx
        · simp at hx; subst hx; simp [hk', hf]
      · exact h b (by simp [hb])
    · rcases List.mem_cons.mp hb with rfl | hb
      · exact h b (by simp)
      · exact ih (fun b' hb' => h b' (by simp [hb'])) b hb

end Select
