import MlodaVerif.Model.StepExec
import MlodaVerif.Lemmas.StepTrace
/-! MULTIPROCESSING: worker commands that touch different workers / datasets commute, so the order in which the worker
processes get to run does not matter as long as each worker's own queue order and every upload-before-download order is kept. -/
namespace StepExec
open StepTrace

variable {V : Type}

/-- what a command does, as a function of the slots it reads -/
inductive MEff (V : Type) where
  | nop
  | slot (a : Nat) (w : Slot V)
  | res (i : Nat) (r : Except Err (Table V))

def applyM (σ : MPSt V) : MEff V → MPSt V
  | .nop => σ
  | .slot a w => { σ with slots := σ.slots.set a w }
  | .res i r => { σ with results := σ.results.set i (some r) }

def mpEff (ds : List (MDesc V)) (σ : MPSt V) : Cmd → MEff V
  | .step i =>
    match ds[i]? with
    | none => .nop
    | some d =>
      match σ.slots[d.obj]?, σ.slots[d.src]? with
      | some w, some s =>
        if w.stopped then .nop else
        match mpStepCmd d w s with
        | .ok w' => .slot d.obj w'
        | .error e => .slot d.obj { w with err := some e, stopped := true }
      | _, _ => .nop
  | .collect i =>
    match ds[i]? with
    | none => .nop
    | some d =>
      match σ.slots[d.obj]? with
      | some w => .res i (mpCollect d w)
      | none => .nop
  | .drop i =>
    match ds[i]? with
    | none => .nop
    | some d =>
      match σ.slots[d.obj]? with
      | some w => if w.stopped then .nop else .slot d.obj (mpDrop d w)
      | none => .nop

theorem mpCmd_eq (ds : List (MDesc V)) (σ : MPSt V) (c : Cmd) : mpCmd ds σ c = applyM σ (mpEff ds σ c) := by
  cases c with
  | step i =>
    simp only [mpCmd, mpEff]
    cases ds[i]? with
    | none => rfl
    | some d =>
      simp only
      cases σ.slots[d.obj]? with
      | none => rfl
      | some w =>
        cases σ.slots[d.src]? with
        | none => rfl
        | some s =>
          simp only
          split
          · rfl
          · cases mpStepCmd d w s <;> rfl
  | collect i =>
    simp only [mpCmd, mpEff]
    cases ds[i]? with
    | none => rfl
    | some d =>
      simp only
      cases σ.slots[d.obj]? <;> rfl
  | drop i =>
    simp only [mpCmd, mpEff]
    cases ds[i]? with
    | none => rfl
    | some d =>
      simp only
      cases σ.slots[d.obj]? with
      | none => rfl
      | some w =>
        simp only
        split <;> rfl

/-- the slot a command writes, the slots it reads, the result cell it writes -/
def wslot (ds : List (MDesc V)) : Cmd → Option Nat
  | .step i => (ds[i]?).map (·.obj)
  | .drop i => (ds[i]?).map (·.obj)
  | .collect _ => none

def rslots (ds : List (MDesc V)) : Cmd → List Nat
  | .step i => match ds[i]? with | some d => [d.obj, d.src] | none => []
  | .drop i => match ds[i]? with | some d => [d.obj] | none => []
  | .collect i => match ds[i]? with | some d => [d.obj] | none => []

def wres : Cmd → Option Nat
  | .collect i => some i
  | _ => none

/-- the effect of a command depends only on the slots it reads -/
theorem mpEff_congr (ds : List (MDesc V)) (σ τ : MPSt V) (c : Cmd) (h : ∀ a ∈ rslots ds c, τ.slots[a]? = σ.slots[a]?) :
    mpEff ds τ c = mpEff ds σ c := by
  cases c with
  | step i =>
    simp only [mpEff]
    cases hd : ds[i]? with
    | none => rfl
    | some d =>
      have h1 := h d.obj (by simp [rslots, hd])
      have h2 := h d.src (by simp [rslots, hd])
      simp only [h1, h2]
  | collect i =>
    simp only [mpEff]
    cases hd : ds[i]? with
    | none => rfl
    | some d =>
      have h1 := h d.obj (by simp [rslots, hd])
      simp only [h1]
  | drop i =>
    simp only [mpEff]
    cases hd : ds[i]? with
    | none => rfl
    | some d =>
      have h1 := h d.obj (by simp [rslots, hd])
      simp only [h1]

/-- an effect writes at most the slot `wslot` / the result cell `wres` of its command -/
def ShapeOK (ds : List (MDesc V)) (c : Cmd) : MEff V → Prop
  | .nop => True
  | .slot a _ => wslot ds c = some a
  | .res i _ => wres c = some i

theorem mpEff_shape (ds : List (MDesc V)) (σ : MPSt V) (c : Cmd) : ShapeOK ds c (mpEff ds σ c) := by
  cases c with
  | step i =>
    simp only [mpEff]
    cases hd : ds[i]? with
    | none => trivial
    | some d =>
      simp only
      cases σ.slots[d.obj]? with
      | none => trivial
      | some w =>
        cases σ.slots[d.src]? with
        | none => trivial
        | some s =>
          simp only
          by_cases hst : w.stopped = true
          · simp [hst, ShapeOK]
          · simp only [hst]
            cases mpStepCmd d w s <;> simp [ShapeOK, wslot, hd]
  | collect i =>
    simp only [mpEff]
    cases hd : ds[i]? with
    | none => trivial
    | some d =>
      simp only
      cases σ.slots[d.obj]? <;> simp [ShapeOK, wres]
  | drop i =>
    simp only [mpEff]
    cases hd : ds[i]? with
    | none => trivial
    | some d =>
      simp only
      cases σ.slots[d.obj]? with
      | none => trivial
      | some w =>
        simp only
        by_cases hst : w.stopped = true
        · simp [hst, ShapeOK]
        · simp [hst, ShapeOK, wslot, hd]

/-- two commands are independent: neither writes a slot the other reads or writes, and they do not write the same result -/
def mpIndep (ds : List (MDesc V)) (c₁ c₂ : Cmd) : Bool :=
  (match wslot ds c₁ with
   | some a => !(rslots ds c₂).contains a && (wslot ds c₂ != some a)
   | none => true) &&
  (match wslot ds c₂ with
   | some a => !(rslots ds c₁).contains a
   | none => true) &&
  (match wres c₁, wres c₂ with
   | some i, some j => i != j
   | _, _ => true)

theorem applyM_slots_ne (σ : MPSt V) (e : MEff V) (k : Nat) (h : ∀ a w, e = .slot a w → a ≠ k) :
    (applyM σ e).slots[k]? = σ.slots[k]? := by
  cases e with
  | nop => rfl
  | res i r => rfl
  | slot a w => simp [applyM, List.getElem?_set_ne (h a w rfl)]

theorem mpCmd_comm (ds : List (MDesc V)) (σ : MPSt V) (c₁ c₂ : Cmd) (h : mpIndep ds c₁ c₂ = true) :
    mpCmd ds (mpCmd ds σ c₁) c₂ = mpCmd ds (mpCmd ds σ c₂) c₁ := by
  simp only [mpIndep, Bool.and_eq_true] at h
  obtain ⟨⟨h1, h2⟩, h3⟩ := h
  have s1 := mpEff_shape ds σ c₁
  have s2 := mpEff_shape ds σ c₂
  -- c₂'s reads are untouched by c₁'s effect and vice versa
  have r2 : mpEff ds (mpCmd ds σ c₁) c₂ = mpEff ds σ c₂ := by
    apply mpEff_congr
    intro a ha
    rw [mpCmd_eq]
    apply applyM_slots_ne
    intro b w hb
    rw [hb] at s1
    simp only [ShapeOK] at s1
    rw [s1] at h1
    simp only [Bool.and_eq_true, Bool.not_eq_true'] at h1
    intro e; subst e
    have : b ∉ rslots ds c₂ := by simpa using h1.1
    exact this ha
  have r1 : mpEff ds (mpCmd ds σ c₂) c₁ = mpEff ds σ c₁ := by
    apply mpEff_congr
    intro a ha
    rw [mpCmd_eq]
    apply applyM_slots_ne
    intro b w hb
    rw [hb] at s2
    simp only [ShapeOK] at s2
    rw [s2] at h2
    simp only [Bool.not_eq_true'] at h2
    intro e; subst e
    have : b ∉ rslots ds c₁ := by simpa using h2
    exact this ha
  rw [mpCmd_eq ds (mpCmd ds σ c₁) c₂, mpCmd_eq ds (mpCmd ds σ c₂) c₁, r1, r2, mpCmd_eq ds σ c₁, mpCmd_eq ds σ c₂]
  cases e1 : mpEff ds σ c₁ with
  | nop => cases mpEff ds σ c₂ <;> rfl
  | slot a w =>
    cases e2 : mpEff ds σ c₂ with
    | nop => rfl
    | res j r => rfl
    | slot b w' =>
      rw [e1] at s1; rw [e2] at s2
      simp only [ShapeOK] at s1 s2
      rw [s1, s2] at h1
      simp only [Bool.and_eq_true, bne_iff_ne, ne_eq, Option.some.injEq] at h1
      have hab : a ≠ b := fun e => h1.2 e.symm
      simp [applyM, List.set_comm _ _ hab]
  | res i r =>
    cases e2 : mpEff ds σ c₂ with
    | nop => rfl
    | slot b w' => rfl
    | res j r' =>
      rw [e1] at s1; rw [e2] at s2
      simp only [ShapeOK] at s1 s2
      rw [s1, s2] at h3
      simp only [bne_iff_ne, ne_eq] at h3
      simp [applyM, List.set_comm _ _ h3]

/-! ### commands as numbered agents, for the generic schedule theorem -/

def encodeCmd : Cmd → Nat
  | .step i => 3 * i
  | .collect i => 3 * i + 1
  | .drop i => 3 * i + 2

def decodeCmd (n : Nat) : Cmd :=
  if n % 3 = 0 then .step (n / 3) else if n % 3 = 1 then .collect (n / 3) else .drop (n / 3)

theorem decode_encode (c : Cmd) : decodeCmd (encodeCmd c) = c := by
  cases c <;> simp [decodeCmd, encodeCmd] <;> omega

def mpAct (ds : List (MDesc V)) (σ : MPSt V) (n : Nat) : MPSt V := mpCmd ds σ (decodeCmd n)

def mpDep (ds : List (MDesc V)) (m n : Nat) : Bool :=
  decide (m = n) || !(mpIndep ds (decodeCmd m) (decodeCmd n) && mpIndep ds (decodeCmd n) (decodeCmd m))

theorem mpDep_symm (ds : List (MDesc V)) (m n : Nat) : mpDep ds m n = mpDep ds n m := by
  unfold mpDep
  rw [Bool.and_comm]
  by_cases h : m = n
  · subst h; rfl
  · have : ¬ n = m := fun e => h e.symm
    simp [h, this]

theorem mpDep_refl (ds : List (MDesc V)) (n : Nat) : mpDep ds n n = true := by simp [mpDep]

theorem commutes_mp (ds : List (MDesc V)) : Commutes (mpAct ds) (mpDep ds) := by
  intro σ m n h
  simp only [mpDep, Bool.or_eq_false_iff, decide_eq_false_iff_not, Bool.not_eq_false', Bool.and_eq_true] at h
  exact mpCmd_comm ds σ (decodeCmd m) (decodeCmd n) h.2.1

theorem mpRun_eq_run (ds : List (MDesc V)) (σ : MPSt V) (cs : List Cmd) :
    mpRun ds σ cs = StepTrace.run (mpAct ds) σ (cs.map encodeCmd) := by
  unfold mpRun StepTrace.run
  induction cs generalizing σ with
  | nil => rfl
  | cons c cs ih =>
    simp only [List.foldl_cons, List.map_cons]
    rw [ih]
    simp [mpAct, decode_encode]

end StepExec
