import MlodaVerif.Model.Builtin
import MlodaVerif.Model.BuiltinImpute
import MlodaVerif.Model.BuiltinWindow
/-! Helper lemmas for `Props/C19.lean` (core Lean only). -/

namespace Builtin

variable {α : Type}

/-! ### null bookkeeping -/

theorem hasNull_cons_none (c : List (Option α)) : hasNull (none :: c) = true := by simp [hasNull]
theorem hasNull_cons_some (a : α) (c : List (Option α)) : hasNull (some a :: c) = hasNull c := by simp [hasNull]
theorem hasNull_nil : hasNull ([] : List (Option α)) = false := rfl

theorem hasNull_iff_nullCount (c : List (Option α)) : hasNull c = false ↔ nullCount c = 0 := by
  induction c with
  | nil => simp [hasNull, nullCount]
  | cons x c ih =>
    cases x with
    | none => simp [hasNull_cons_none, nullCount]
    | some a => simp [hasNull_cons_some, nullCount, ih]

theorem fillWith_none (c : List (Option α)) : fillWith none c = c := by
  induction c with
  | nil => rfl
  | cons x c ih => cases x <;> simp [fillWith, ih]

theorem fillWith_of_noNull (v : Option α) (c : List (Option α)) (h : hasNull c = false) : fillWith v c = c := by
  induction c with
  | nil => rfl
  | cons x c ih =>
    cases x with
    | none => simp [hasNull_cons_none] at h
    | some a => simp [fillWith, ih (by simpa [hasNull_cons_some] using h)]

theorem fillWith_some_noNull (v : α) (c : List (Option α)) : hasNull (fillWith (some v) c) = false := by
  induction c with
  | nil => rfl
  | cons x c ih => cases x <;> simp [fillWith, hasNull_cons_some, ih]

theorem fillWith_length (v : Option α) (c : List (Option α)) : (fillWith v c).length = c.length := by
  induction c with
  | nil => rfl
  | cons x c ih => cases x <;> simp [fillWith, ih]

theorem valid_ne_nil_of_mem {c : List (Option α)} {a : α} (h : some a ∈ c) : valid c ≠ [] := by
  induction c with
  | nil => simp at h
  | cons x c ih =>
    cases x with
    | some b => simp [valid]
    | none =>
      simp only [valid]
      exact ih (by simpa using h)

/-! ### forward / backward fill -/

theorem ffillLoop_eq_spec (last : Option α) (c : List (Option α)) :
    ffillLoop last c = (List.range c.length).map (fun i => (lastValid (c.take (i + 1))).or last) := by
  induction c generalizing last with
  | nil => rfl
  | cons x c ih =>
    rw [List.length_cons, List.range_succ_eq_map, List.map_cons, List.map_map]
    cases x with
    | some a =>
      simp only [ffillLoop, ih (some a)]
      refine List.cons_eq_cons.mpr ⟨by simp [lastValid], ?_⟩
      apply List.map_congr_left
      intro i _
      simp [lastValid]
    | none =>
      simp only [ffillLoop, ih last]
      refine List.cons_eq_cons.mpr ⟨by simp [lastValid], ?_⟩
      apply List.map_congr_left
      intro i _
      simp [lastValid]

/-- the pandas positional specification of ffill and the Python loop (pyarrow, python-dict) coincide -/
theorem pdFfill_eq_loop (c : List (Option α)) : pdFfill c = ffillLoop none c := by
  rw [ffillLoop_eq_spec]; simp [pdFfill]

theorem bfillLoop_spec (c : List (Option α)) :
    (bfillLoop c).2 = firstValid c ∧
    (bfillLoop c).1 = (List.range c.length).map (fun i => firstValid (c.drop i)) := by
  induction c with
  | nil => exact ⟨rfl, rfl⟩
  | cons x c ih =>
    obtain ⟨ih2, ih1⟩ := ih
    rw [List.length_cons, List.range_succ_eq_map, List.map_cons, List.map_map]
    cases x with
    | some a =>
      refine ⟨by simp [bfillLoop, firstValid], ?_⟩
      simp only [bfillLoop, ih1]
      congr 1
    | none =>
      refine ⟨by simp [bfillLoop, firstValid, ih2], ?_⟩
      simp only [bfillLoop, ih1, ih2]
      congr 1

theorem pdBfill_eq_loop (c : List (Option α)) : pdBfill c = (bfillLoop c).1 := by
  rw [(bfillLoop_spec c).2]; rfl

theorem ffillLoop_idem (last : Option α) (c : List (Option α)) :
    ffillLoop last (ffillLoop last c) = ffillLoop last c := by
  induction c generalizing last with
  | nil => rfl
  | cons x c ih =>
    cases x with
    | some a => simp [ffillLoop, ih]
    | none =>
      cases last with
      | none => simp [ffillLoop, ih]
      | some b => simp [ffillLoop, ih]

theorem ffillLoop_some_noNull (a : α) (c : List (Option α)) : hasNull (ffillLoop (some a) c) = false := by
  induction c generalizing a with
  | nil => rfl
  | cons x c ih => cases x <;> simp [ffillLoop, hasNull_cons_some, ih]

theorem ffillLoop_length (last : Option α) (c : List (Option α)) : (ffillLoop last c).length = c.length := by
  induction c generalizing last with
  | nil => rfl
  | cons x c ih => cases x <;> simp [ffillLoop, ih]

/-! ### statistics -/

theorem median_eq_quantileHalf (l : List Rat) : medianR l = quantileHalfR l := by
  unfold medianR quantileHalfR
  generalize isort rle l = s
  simp only
  by_cases h0 : s.length = 0
  · simp [h0]
  · simp only [h0, if_false]
    by_cases hodd : s.length % 2 = 1
    · have e : (s.length - 1) / 2 = s.length / 2 := by omega
      have hlt : s.length / 2 < s.length := by omega
      simp only [hodd, if_true, e, List.getElem?_eq_getElem hlt]
      have : ¬ (1 = 0) := by decide
      simp only [this, if_false]
      congr 1
      grind
    · have heven : s.length % 2 = 0 := by omega
      have e : (s.length - 1) / 2 = s.length / 2 - 1 := by omega
      have hlt1 : s.length / 2 - 1 < s.length := by omega
      have hlt2 : s.length / 2 < s.length := by omega
      simp only [heven, if_true, e, List.getElem?_eq_getElem hlt1, List.getElem?_eq_getElem hlt2]
      have : ¬ (0 = 1) := by decide
      simp only [this, if_false]
      congr 1
      grind

theorem sumR_const (v : Rat) (l : List Rat) (h : ∀ x ∈ l, x = v) : sumR l = (l.length : Rat) * v := by
  induction l with
  | nil => simp [sumR]
  | cons a as ih =>
    have ha : a = v := h a (by simp)
    have := ih (fun x hx => h x (by simp [hx]))
    simp only [sumR, this, ha, List.length_cons]
    have : ((as.length + 1 : Nat) : Rat) = (as.length : Rat) + 1 := by simp
    rw [this]; grind

theorem ssd_const (v : Rat) (l : List Rat) (h : ∀ x ∈ l, x = v) : ssd v l = 0 := by
  induction l with
  | nil => rfl
  | cons a as ih =>
    have ha : a = v := h a (by simp)
    simp only [ssd, ha, ih (fun x hx => h x (by simp [hx]))]
    grind

theorem natCast_ne_zero {n : Nat} (h : n ≠ 0) : (n : Rat) ≠ 0 := by
  intro h'; exact h (Rat.natCast_eq_zero_iff.mp h')

/-! ### sorting, windows -/

theorem isort_of_pairwise {β : Type} (le : β → β → Bool) (l : List β)
    (h : l.Pairwise (fun a b => le a b = true)) : isort le l = l := by
  induction l with
  | nil => rfl
  | cons a as ih =>
    rw [List.pairwise_cons] at h
    simp only [isort, ih h.2]
    cases as with
    | nil => rfl
    | cons b bs => simp [insertLe, h.1 b (by simp)]

theorem pairwise_zip_range' (times : List Int) (h : times.Pairwise (· ≤ ·)) (s : Nat) :
    (times.zip (List.range' s times.length)).Pairwise (fun (a b : Int × Nat) => decide (a.1 ≤ b.1) = true) := by
  induction times generalizing s with
  | nil => simp
  | cons t ts ih =>
    rw [List.pairwise_cons] at h
    simp only [List.length_cons, List.range'_succ, List.zip_cons_cons, List.pairwise_cons]
    refine ⟨?_, ih h.2 (s + 1)⟩
    intro p hp
    have := (List.of_mem_zip (a := p.1) (b := p.2) hp).1
    simpa using h.1 p.1 this

/-- on a time column that is already in ascending order the sort permutation is the identity -/
theorem sortIdx_of_sorted (times : List Int) (h : times.Pairwise (· ≤ ·)) :
    sortIdx times = List.range times.length := by
  unfold sortIdx
  rw [isort_of_pairwise _ _ (by simpa [List.range_eq_range'] using pairwise_zip_range' times h 0)]
  exact List.map_snd_zip (by simp)

theorem filterMap_congr' {β γ : Type} {f g : β → Option γ} {l : List β} (h : ∀ x ∈ l, f x = g x) :
    l.filterMap f = l.filterMap g := by
  induction l with
  | nil => rfl
  | cons a l ih =>
    simp only [List.filterMap_cons, h a (by simp), ih (fun x hx => h x (by simp [hx]))]

theorem filterMap_getElem?_range {β : Type} (l : List β) :
    (List.range l.length).filterMap (fun i => l[i]?) = l := by
  induction l with
  | nil => rfl
  | cons a l ih =>
    rw [List.length_cons, List.range_succ_eq_map, List.filterMap_cons]
    simp only [List.getElem?_cons_zero, List.filterMap_map]
    refine List.cons_eq_cons.mpr ⟨rfl, ?_⟩
    conv => rhs; rw [← ih]
    apply filterMap_congr'
    intro j _
    simp

theorem idxOf_range {n i : Nat} (h : i < n) : (List.range n).idxOf i = i := by
  have := List.Nodup.idxOf_getElem (List.nodup_range (n := n)) i (by simpa using h)
  simpa using this

theorem unsort_range (results : List Res) : unsort (List.range results.length) results = results := by
  unfold unsort
  have : (List.range results.length).filterMap (fun i => results[(List.range results.length).idxOf i]?) =
      (List.range results.length).filterMap (fun i => results[i]?) := by
    apply filterMap_congr'
    intro i hi
    rw [idxOf_range (by simpa using hi)]
  rw [this, filterMap_getElem?_range]

/-! ### reducers -/

theorem valid_nil_all_none {w : List (Option α)} (h : valid w = []) : ∀ x ∈ w, x = none := by
  induction w with
  | nil => simp
  | cons x w ih =>
    cases x with
    | some a => simp [valid] at h
    | none =>
      intro y hy
      rcases List.mem_cons.mp hy with rfl | hy
      · rfl
      · exact ih (by simpa [valid] using h) y hy

theorem valid_nil_head {w : List (Option α)} (h : valid w = []) : w.head?.join = none := by
  cases w with
  | nil => rfl
  | cons x w => simp [valid_nil_all_none h x (by simp)]

theorem valid_nil_getLast {w : List (Option α)} (h : valid w = []) : w.getLast?.join = none := by
  cases hl : w.getLast? with
  | none => rfl
  | some x => simp [valid_nil_all_none h x (List.mem_of_getLast? hl)]

/-- the per-window reducers of the two time-window implementations coincide for every function except std / var -/
theorem rolling_eq_window (op : String)
    (hop : op ∈ ["sum", "min", "max", "avg", "mean", "count", "median", "first", "last"]) :
    Pd.rolling op = Pa.window op := by
  simp only [List.mem_cons, List.not_mem_nil, or_false] at hop
  rcases hop with rfl | rfl | rfl | rfl | rfl | rfl | rfl | rfl | rfl
  · rfl
  · rfl
  · rfl
  · rfl
  · rfl
  · rfl
  · show some _ = some _
    congr 1; funext w; simp [median_eq_quantileHalf]
  · show some _ = some _
    congr 1; funext w
    by_cases h : valid w = []
    · simp [h, valid_nil_head h]
    · simp [h]
  · show some _ = some _
    congr 1; funext w
    by_cases h : valid w = []
    · simp [h, valid_nil_getLast h]
    · simp [h]

/-! ### modes -/

theorem leastOf_all_eq {β : Type} (le : β → β → Bool) (a : β) (l : List β) (h : ∀ x ∈ l, x = a) (hne : l ≠ []) :
    leastOf le l = some a := by
  cases l with
  | nil => exact absurd rfl hne
  | cons b bs =>
    have hb : b = a := h b (by simp)
    subst hb
    have : ∀ (bs : List β), (∀ x ∈ bs, x = b) → bs.foldl (fun m x => if le x m then x else m) b = b := by
      intro bs
      induction bs with
      | nil => intro _; rfl
      | cons c cs ih =>
        intro hc
        have : c = b := hc c (by simp)
        subst this
        simpa using ih (fun x hx => hc x (by simp [hx]))
    simp [leastOf, this bs (fun x hx => h x (by simp [hx]))]

/-- smallest and first-seen most frequent value coincide when there is only one most frequent value -/
theorem smallestMode_eq_firstSeen {β : Type} [DecidableEq β] (le : β → β → Bool) (l : List β)
    (h : ∀ x ∈ modes l, ∀ y ∈ modes l, x = y) : smallestMode le l = firstSeenMode l := by
  unfold smallestMode firstSeenMode
  rw [← List.head?_filter]
  show leastOf le (modes l) = (modes l).head?
  cases hm : modes l with
  | nil => rfl
  | cons a rest =>
    rw [← hm]
    rw [leastOf_all_eq le a (modes l) (fun x hx => h x hx a (by simp [hm])) (by simp [hm])]
    simp [hm]

theorem mem_valid {c : List (Option α)} {a : α} : a ∈ valid c ↔ some a ∈ c := by
  induction c with
  | nil => simp [valid]
  | cons x c ih => cases x <;> simp [valid, ih]

variable [DecidableEq α]

theorem count_some_eq (c : List (Option α)) (a : α) :
    @List.count (Option α) instBEqOfDecidableEq (some a) c = (valid c).count a := by
  induction c with
  | nil => rfl
  | cons x c ih =>
    cases x with
    | none => simp [valid, ih]
    | some b => simp [valid, List.count_cons, ih]

theorem count_none_eq (c : List (Option α)) : @List.count (Option α) instBEqOfDecidableEq none c = nullCount c := by
  induction c with
  | nil => rfl
  | cons x c ih => cases x <;> simp [nullCount, ih]

omit [DecidableEq α] in
theorem find?_valid (p : Option α → Bool) (q : α → Bool) (hn : p none = false) (hs : ∀ u, p (some u) = q u)
    (c : List (Option α)) : c.find? p = ((valid c).find? q).map some := by
  induction c with
  | nil => rfl
  | cons x c ih =>
    cases x with
    | none => simp [valid, hn, ih]
    | some a =>
      simp only [valid, List.find?_cons, hs a]
      cases q a <;> simp [ih]

/-- pyarrow's `value_counts` mode (nulls counted) is the python-dict mode of the valid values as soon as some value
occurs more often than null -/
theorem firstSeenMode_with_nulls (c : List (Option α)) (v : α) (hv : v ∈ valid c)
    (hlt : nullCount c < (valid c).count v) :
    firstSeenMode c = (firstSeenMode (valid c)).map some := by
  unfold firstSeenMode
  apply find?_valid
  · -- null is not a maximal-count entry
    simp only [isMaxCount, List.all_eq_false]
    refine ⟨some v, mem_valid.mp hv, ?_⟩
    simp [count_some_eq, count_none_eq]; omega
  · intro u
    simp only [isMaxCount]
    rw [Bool.eq_iff_iff]
    simp only [List.all_eq_true, decide_eq_true_eq]
    constructor
    · intro h w hw
      have := h (some w) (mem_valid.mp hw)
      simpa [count_some_eq] using this
    · intro h y hy
      cases y with
      | none =>
        have := h v hv
        simp [count_some_eq, count_none_eq]; omega
      | some w =>
        have := h w (mem_valid.mpr hy)
        simpa [count_some_eq] using this

end Builtin
