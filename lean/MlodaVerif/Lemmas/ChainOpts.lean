import MlodaVerif.Lemmas.ChainResolve
/-! The options form: PROPERTY_MAPPING validation on option dictionaries built from the vocabulary. -/
open Gen.Chain

namespace Chain

/-! ### values that `_process_found_property_value` handles without raising -/

def simpleElem : PV → Bool
  | .str _ => true
  | .int _ => true
  | .feat (.str _) _ _ => true
  | _ => false

def goodVal : PV → Bool
  | .fset l => l.all simpleElem
  | v => simpleElem v

def convElem (e : PV) : PV := match e with | .feat n _ _ => n | v => v

theorem mapM_conv (l : List PV) (h : l.all simpleElem = true) : l.mapM convElemM = .ok (l.map convElem) := by
  induction l with
  | nil => rfl
  | cons e l ih =>
    simp only [List.all_cons, Bool.and_eq_true] at h
    have := ih h.2
    cases e <;> simp_all [simpleElem, convElem, convElemM, List.mapM_cons, bind, Except.bind, pure, Except.pure]

theorem simpleElem_hashable {v : PV} (h : simpleElem v = true) : v.hashable = true := by
  cases v <;> simp_all [simpleElem, PV.hashable]

/-- the elements `_process_found_property_value` iterates over -/
def elemsOf : PV → List PV
  | .fset l => l
  | v => [v]

theorem processFound_good (p : PropSpec) (vfn : Option (PV → Bool)) (v : PV) (h : goodVal v = true) :
    processFound p vfn v = .ok (strictOk p vfn ((elemsOf v).map convElem), dedupe ((elemsOf v).map convElem)) := by
  have hel : elemsOfM v = .ok (elemsOf v) := by
    unfold elemsOfM
    cases v with
    | fset l => rfl
    | none => simp [goodVal, simpleElem] at h
    | bool b => simp [goodVal, simpleElem] at h
    | float r => simp [goodVal, simpleElem] at h
    | list l => simp [goodVal, simpleElem] at h
    | tuple l => simp [goodVal, simpleElem] at h
    | set l => simp [goodVal, simpleElem] at h
    | dict d => simp [goodVal, simpleElem] at h
    | int i => simp [elemsOf, PV.hashable]
    | str s => simp [elemsOf, PV.hashable]
    | feat n g c => simp [elemsOf, PV.hashable]
  have hall : (elemsOf v).all simpleElem = true := by
    cases v <;> simp_all [goodVal, elemsOf]
  unfold processFound
  rw [hel]
  simp only [bind, Except.bind, mapM_conv _ hall, pure, Except.pure]

theorem dedupe_ne_nil (l : List PV) (h : l ≠ []) : dedupe l ≠ [] := by
  induction l with
  | nil => exact absurd rfl h
  | cons x r ih =>
    simp only [dedupe]
    split
    · rename_i hany
      intro hd
      rw [hd] at hany
      simp at hany
    · simp

/-! ### `validateProps` : all properties satisfied / one required property missing -/

/-- per-property outcome used by `validateProps` -/
def propHere (vf : Str → Option (PV → Bool)) (p : PropSpec) (o : Opts) : Except Err (Option Bool) :=
  match o.get p.key with
  | .none => pure (some p.hasDefault)
  | v => do
    if !p.validator.isEmpty && (vf p.validator).isNone then throw (Err.unmodelled "validator")
    let (ok, coll) ← processFound p (vf p.validator) v
    pure (if ok then some (!coll.isEmpty || p.hasDefault) else none)

theorem validateProps_cons (vf : Str → Option (PV → Bool)) (p : PropSpec) (ps : List PropSpec) (o : Opts) :
    validateProps vf (p :: ps) o =
      (do
        let here ← propHere vf p o
        match here with
        | none => pure none
        | some h =>
          let rest ← validateProps vf ps o
          pure (rest.map (h && ·))) := by
  simp only [validateProps, propHere]
  cases o.get p.key <;> rfl

theorem validateProps_all_true (vf : Str → Option (PV → Bool)) (ps : List PropSpec) (o : Opts)
    (h : ∀ p ∈ ps, propHere vf p o = .ok (some true)) : validateProps vf ps o = .ok (some true) := by
  induction ps with
  | nil => rfl
  | cons p ps ih =>
    rw [validateProps_cons, h p (by simp), ih (fun q hq => h q (by simp [hq]))]
    rfl

/-- nothing raises, and a required property is absent: the configuration does not match -/
theorem validateProps_missing (vf : Str → Option (PV → Bool)) (ps : List PropSpec) (o : Opts)
    (hgood : ∀ p ∈ ps, ∃ r, propHere vf p o = .ok r)
    (hmiss : ∃ p ∈ ps, propHere vf p o = .ok (some false)) :
    ∃ r, validateProps vf ps o = .ok r ∧ r ≠ some true := by
  induction ps with
  | nil => obtain ⟨p, hp, _⟩ := hmiss; simp at hp
  | cons p ps ih =>
    rw [validateProps_cons]
    obtain ⟨r, hr⟩ := hgood p (by simp)
    rw [hr]
    cases r with
    | none => exact ⟨none, rfl, by simp⟩
    | some b =>
      have hrest : ∃ r', validateProps vf ps o = .ok r' ∧ (b = true → r' ≠ some true) := by
        obtain ⟨q, hq, hqf⟩ := hmiss
        rcases List.mem_cons.mp hq with rfl | hq'
        · -- the missing one is `p` itself: whatever the rest gives, the conjunction is false
          have : b = false := by rw [hr] at hqf; cases hqf; rfl
          subst this
          -- the rest still must not raise
          have : ∃ r', validateProps vf ps o = .ok r' := by
            clear ih hr hq hqf
            induction ps with
            | nil => exact ⟨_, rfl⟩
            | cons p' ps' ih' =>
              rw [validateProps_cons]
              obtain ⟨r1, hr1⟩ := hgood p' (by simp)
              rw [hr1]
              cases r1 with
              | none => exact ⟨none, rfl⟩
              | some b1 =>
                obtain ⟨r2, hr2⟩ := ih' (fun q hq => hgood q (by
                  rcases List.mem_cons.mp hq with rfl | h'
                  · simp
                  · simp [h']))
                exact ⟨r2.map (b1 && ·), by simp [bind, Except.bind, hr2, pure, Except.pure]⟩
          obtain ⟨r', hr'⟩ := this
          exact ⟨r', hr', by simp⟩
        · obtain ⟨r', hr', hne⟩ := ih (fun q hq => hgood q (by simp [hq])) ⟨q, hq', hqf⟩
          exact ⟨r', hr', fun _ => hne⟩
      obtain ⟨r', hr', hne⟩ := hrest
      refine ⟨r'.map (b && ·), by simp [bind, Except.bind, hr', pure, Except.pure], ?_⟩
      cases b with
      | false => cases r' <;> simp
      | true =>
        have := hne rfl
        cases r' with
        | none => simp
        | some x => cases x <;> simp_all

end Chain
