import MlodaVerif.Lemmas.PlanCore
/-! Well-rankedness of the planner core's plans when the feature-group buckets form a DAG and the dependencies inside
each bucket are acyclic. -/
namespace PlanCore
open Sched OptGroup

/-- a rank on step *values* that decreases along requirements gives a rank on step indices -/
theorem wellRanked_of_stepRank (p : Plan) (ρ : Step → Nat)
    (h : ∀ st ∈ p, ∀ u ∈ st.req, ∃ sj ∈ p, u ∈ sj.outs ∧ ρ sj < ρ st) : WellRanked p := by
  refine ⟨fun i => match p[i]? with | some st => ρ st | none => 0, ?_⟩
  intro i st hst u hu
  obtain ⟨sj, hsj, huj, hlt⟩ := h st (List.mem_of_getElem? hst) u hu
  obtain ⟨j, hj, rfl⟩ := List.mem_iff_getElem.mp hsj
  have hget : p[j]? = some p[j] := List.getElem?_eq_getElem hj
  exact ⟨j, p[j], hget, huj, by simp only [hst, hget]; exact hlt⟩

/-- index of the first level containing g -/
def lvlIdx (levels : List (List Nat)) (g : Nat) : Nat := levels.findIdx (fun L => decide (g ∈ L))

theorem lvlIdx_of_mem : ∀ (levels : List (List Nat)) (k : Nat) (L : List Nat) (g : Nat),
    levels.flatten.Nodup → levels[k]? = some L → g ∈ L → lvlIdx levels g = k := by
  intro levels
  induction levels with
  | nil => intro k L g _ h; simp at h
  | cons L0 rest ih =>
    intro k L g hnd hk hg
    cases k with
    | zero =>
      simp at hk; subst hk
      simp [lvlIdx, List.findIdx_cons, hg]
    | succ k =>
      simp at hk
      simp only [List.flatten_cons] at hnd
      have hnd' := List.nodup_append.mp hnd
      have hgrest : g ∈ rest.flatten := List.mem_flatten.mpr ⟨L, List.mem_of_getElem? hk, hg⟩
      have hg0 : g ∉ L0 := fun h0 => hnd'.2.2 g h0 g hgrest rfl
      have := ih k L g hnd'.2.1 hk hg
      simp only [lvlIdx] at this ⊢
      simp [List.findIdx_cons, hg0, this]

theorem length_le_flatten_of_nonempty : ∀ (levels : List (List Nat)), (∀ L ∈ levels, L ≠ []) →
    levels.length ≤ levels.flatten.length := by
  intro levels
  induction levels with
  | nil => intro _; simp
  | cons L rest ih =>
    intro h
    have h1 : 1 ≤ L.length := by
      cases hL : L with
      | nil => exact absurd hL (h L (by simp))
      | cons _ _ => simp
    have := ih (fun M hM => h M (List.mem_cons_of_mem _ hM))
    simp only [List.length_cons, List.flatten_cons, List.length_append]
    omega

/-- in a well layered list the intra-dependencies of a member of level k lie in `placed` or in an earlier level -/
theorem wellLayered_earlier (intra : Nat → List Nat) : ∀ (levels : List (List Nat)) (placed : List Nat),
    WellLayered intra placed levels → ∀ (k : Nat) (L : List Nat), levels[k]? = some L → ∀ u ∈ L, ∀ d ∈ intra u,
      d ∈ placed ∨ ∃ j, j < k ∧ ∃ Lj, levels[j]? = some Lj ∧ d ∈ Lj := by
  intro levels
  induction levels with
  | nil => intro placed _ k L h; simp at h
  | cons L0 rest ih =>
    intro placed hw k L hk u hu d hd
    obtain ⟨h0, _, hrest⟩ := hw
    cases k with
    | zero =>
      simp at hk; subst hk
      exact Or.inl (h0 u hu d hd)
    | succ k =>
      simp at hk
      rcases ih (placed ++ L0) hrest k L hk u hu d hd with h | ⟨j, hj, Lj, hLj, hdj⟩
      · rcases List.mem_append.mp h with h | h
        · exact Or.inl h
        · exact Or.inr ⟨0, by omega, L0, by simp, h⟩
      · exact Or.inr ⟨j + 1, by omega, Lj, by simpa using hLj, hdj⟩

/-- with disjoint buckets a feature lies in exactly one bucket -/
theorem bucket_unique : ∀ (buckets : List (List Nat)), buckets.flatten.Nodup → ∀ b ∈ buckets, ∀ b' ∈ buckets,
    ∀ g, g ∈ b → g ∈ b' → b = b' := by
  intro buckets
  induction buckets with
  | nil => intro _ b hb; cases hb
  | cons b0 rest ih =>
    intro hnd b hb b' hb' g hg hg'
    simp only [List.flatten_cons] at hnd
    have hnd' := List.nodup_append.mp hnd
    rcases List.mem_cons.mp hb with rfl | hbr
    · rcases List.mem_cons.mp hb' with rfl | hbr'
      · rfl
      · exact absurd rfl (hnd'.2.2 g hg g (List.mem_flatten.mpr ⟨b', hbr', hg'⟩))
    · rcases List.mem_cons.mp hb' with rfl | hbr'
      · exact absurd rfl (hnd'.2.2 g hg' g (List.mem_flatten.mpr ⟨b, hbr, hg⟩))
      · exact ih hnd'.2.1 b hbr b' hbr' g hg hg'

def bucketOf (buckets : List (List Nat)) (g : Nat) : List Nat :=
  match buckets.find? (fun b => b.contains g) with | some b => b | none => []

theorem bucketOf_eq {buckets : List (List Nat)} (hnd : buckets.flatten.Nodup) {b : List Nat} (hb : b ∈ buckets) {g : Nat}
    (hg : g ∈ b) : bucketOf buckets g = b := by
  unfold bucketOf
  cases hf : buckets.find? (fun b => b.contains g) with
  | none =>
    have := List.find?_eq_none.mp hf b hb
    simp [hg] at this
  | some b' =>
    have hb' := List.mem_of_find?_eq_some hf
    have hg' : g ∈ b' := by have := List.find?_some hf; simpa using this
    exact (bucket_unique buckets hnd b hb b' hb' g hg hg').symm

/-- the levels of a bucket are well layered when its internal dependencies are acyclic -/
theorem splitLevels_earlier (anc : Nat → List Nat) (b : List Nat) (r : Nat → Nat)
    (hacyc : ∀ u ∈ b, ∀ d ∈ anc u, d ∈ b → r d < r u) :
    ∀ (k : Nat) (L : List Nat), (splitLevels b anc)[k]? = some L → ∀ u ∈ L, ∀ d ∈ anc u, d ∈ b →
      ∃ j, j < k ∧ ∃ Lj, (splitLevels b anc)[j]? = some Lj ∧ d ∈ Lj := by
  intro k L hk u hu d hd hdb
  have hub : u ∈ b := (splitLevels_cover b anc).mem_iff.mp (List.mem_flatten.mpr ⟨L, List.mem_of_getElem? hk, hu⟩)
  have hintra : d ∈ (anc u).filter (fun x => b.contains x) := List.mem_filter.mpr ⟨hd, by simpa using hdb⟩
  unfold splitLevels at hk ⊢
  simp only at hk ⊢
  split
  · rename_i hall
    exfalso
    rw [List.all_eq_true] at hall
    have := hall u hub
    simp only [List.isEmpty_iff] at this
    rw [this] at hintra; cases hintra
  · rename_i hnot
    simp only [hnot] at hk
    have hw := levelLoop_wellLayered (fun u => (anc u).filter (fun x => b.contains x)) b r
      (by intro x y hy; have := (List.mem_filter.mp hy).2; simpa using this)
      (by intro x hx y hy; have h2 := List.mem_filter.mp hy; exact hacyc x hx y h2.1 (by simpa using h2.2))
      b.length b [] (by intro x hx; exact Or.inr hx) (by intro x hx; exact hx) (by intro x hx; cases hx)
    rcases wellLayered_earlier _ _ [] hw k L (by simpa [Bool.false_eq_true] using hk) u hu d hintra with h | h
    · cases h
    · obtain ⟨j, hj, Lj, hLj, hdj⟩ := h
      exact ⟨j, hj, Lj, by simpa using hLj, hdj⟩

end PlanCore

namespace PlanCore
open Sched OptGroup

theorem planCore_mem_of {anc : Nat → List Nat} {buckets : List (List Nat)} {b L : List Nat} (hb : b ∈ buckets)
    (hL : L ∈ splitLevels b anc) : ({ outs := L, req := (L.flatMap anc).eraseDups, kind := .fg } : Step) ∈ planCore anc buckets := by
  simp only [planCore, List.mem_flatMap, stepsOfBucket, List.mem_map]
  exact ⟨b, hb, L, hL, rfl⟩

theorem nodup_of_mem_flatten_nodup {buckets : List (List Nat)} (hnd : buckets.flatten.Nodup) {b : List Nat}
    (hb : b ∈ buckets) : b.Nodup := by
  induction buckets with
  | nil => cases hb
  | cons b0 rest ih =>
    simp only [List.flatten_cons] at hnd
    have h := List.nodup_append.mp hnd
    rcases List.mem_cons.mp hb with rfl | hr
    · exact h.1
    · exact ih h.2.1 hr

def stepRank (anc : Nat → List Nat) (buckets : List (List Nat)) (rb : Nat → Nat) (st : Step) : Nat :=
  match st.outs with
  | [] => 0
  | h :: _ => rb h * (buckets.flatten.length + 1) + lvlIdx (splitLevels (bucketOf buckets h) anc) h

/-- rank of the step made from level k of bucket b -/
theorem stepRank_level {anc : Nat → List Nat} {buckets : List (List Nat)} (rb : Nat → Nat) (hnd : buckets.flatten.Nodup)
    {b : List Nat} (hb : b ∈ buckets) {k : Nat} {L : List Nat} (hk : (splitLevels b anc)[k]? = some L) (hne : L ≠ [])
    (hsame : ∀ f ∈ b, ∀ g ∈ b, rb f = rb g) {g : Nat} (hg : g ∈ L) :
    stepRank anc buckets rb { outs := L, req := (L.flatMap anc).eraseDups, kind := .fg } =
      rb g * (buckets.flatten.length + 1) + k := by
  have hcov := splitLevels_cover b anc
  have hbn := nodup_of_mem_flatten_nodup hnd hb
  have hlevnd : (splitLevels b anc).flatten.Nodup := hcov.nodup_iff.mpr hbn
  have memb : ∀ x ∈ L, x ∈ b := fun x hx => hcov.mem_iff.mp (List.mem_flatten.mpr ⟨L, List.mem_of_getElem? hk, hx⟩)
  cases hL : L with
  | nil => exact absurd hL hne
  | cons h t =>
    have hh : h ∈ L := by simp [hL]
    simp only [stepRank]
    rw [bucketOf_eq hnd hb (memb h hh), lvlIdx_of_mem _ k L h hlevnd hk hh, hsame h (memb h hh) g (memb g hg)]

theorem planCore_wellRanked (anc : Nat → List Nat) (buckets : List (List Nat)) (rb r : Nat → Nat)
    (hnd : buckets.flatten.Nodup) (hne : ∀ b ∈ buckets, b ≠ [])
    (hcl : ∀ f ∈ buckets.flatten, ∀ a ∈ anc f, a ∈ buckets.flatten)
    (hsame : ∀ b ∈ buckets, ∀ f ∈ b, ∀ g ∈ b, rb f = rb g)
    (hrb : ∀ b ∈ buckets, ∀ f ∈ b, ∀ a ∈ anc f, a ∉ b → rb a < rb f)
    (hacyc : ∀ b ∈ buckets, ∀ u ∈ b, ∀ d ∈ anc u, d ∈ b → r d < r u) :
    WellRanked (planCore anc buckets) := by
  apply wellRanked_of_stepRank _ (stepRank anc buckets rb)
  intro st hst u hu
  obtain ⟨b, hb, L, hL, rfl⟩ := mem_planCore hst
  obtain ⟨k, hk⟩ := List.mem_iff_getElem?.mp hL
  have hLne := splitLevels_nonempty b anc (hne b hb) L hL
  have hcov := splitLevels_cover b anc
  simp only [List.mem_eraseDups, List.mem_flatMap] at hu
  obtain ⟨f, hfL, hua⟩ := hu
  have hfb : f ∈ b := hcov.mem_iff.mp (List.mem_flatten.mpr ⟨L, hL, hfL⟩)
  have hrank := stepRank_level rb hnd hb hk hLne (hsame b hb) hfL
  by_cases hub : u ∈ b
  · -- intra-bucket requirement: produced by an earlier level of the same bucket
    obtain ⟨j, hj, Lj, hLj, hdj⟩ := splitLevels_earlier anc b r (hacyc b hb) k L hk f hfL u hua hub
    have hLjmem := List.mem_of_getElem? hLj
    refine ⟨_, planCore_mem_of hb hLjmem, hdj, ?_⟩
    rw [hrank, stepRank_level rb hnd hb hLj (splitLevels_nonempty b anc (hne b hb) Lj hLjmem) (hsame b hb) hdj,
        hsame b hb u hub f hfb]
    omega
  · -- requirement from another bucket: strictly smaller bucket rank
    have hufl := hcl f (List.mem_flatten.mpr ⟨b, hb, hfb⟩) u hua
    obtain ⟨b', hb', hub'⟩ := List.mem_flatten.mp hufl
    have hcov' := splitLevels_cover b' anc
    obtain ⟨Lj, hLjmem, huLj⟩ := List.mem_flatten.mp (hcov'.mem_iff.mpr hub')
    obtain ⟨j, hLj⟩ := List.mem_iff_getElem?.mp hLjmem
    have hLjne := splitLevels_nonempty b' anc (hne b' hb') Lj hLjmem
    refine ⟨_, planCore_mem_of hb' hLjmem, huLj, ?_⟩
    rw [hrank, stepRank_level rb hnd hb' hLj hLjne (hsame b' hb') huLj]
    -- j < number of levels ≤ |b'| ≤ total
    have hjlt : j < (splitLevels b' anc).length := by
      by_cases h : j < (splitLevels b' anc).length
      · exact h
      · simp [List.getElem?_eq_none (Nat.le_of_not_lt h)] at hLj
    have h1 := length_le_flatten_of_nonempty (splitLevels b' anc) (splitLevels_nonempty b' anc (hne b' hb'))
    have h2 : (splitLevels b' anc).flatten.length = b'.length := hcov'.length_eq
    have h3 : b'.length ≤ buckets.flatten.length := by
      have : b'.Sublist buckets.flatten := List.sublist_flatten_of_mem hb'
      exact this.length_le
    have hlt := hrb b hb f hfb u hua hub
    have : (rb u + 1) * (buckets.flatten.length + 1) ≤ rb f * (buckets.flatten.length + 1) :=
      Nat.mul_le_mul_right _ hlt
    have hexp : (rb u + 1) * (buckets.flatten.length + 1) = rb u * (buckets.flatten.length + 1) + (buckets.flatten.length + 1) := by
      rw [Nat.add_mul]; simp
    omega

end PlanCore
