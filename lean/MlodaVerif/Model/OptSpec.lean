import MlodaVerif.Model.OptGroup
/-! # Vocabulary of the C15 property statements (definitions only; the theorems are in `Props/C15.lean`) -/

open PyVal (pyEq)

/-- the only law of the built-in `hash`: equal values hash equal -/
def C15.Respects {K : Type} (H : PyVal → K) : Prop := ∀ v w, pyEq v w = true → H v = H w

section
variable {K : Type}

def C15.isTyped (f : FeatureId) : Bool := f.dtype.isSome
/-- `has_similarity_properties()` / `base_similarity_properties()` under the hash function `H` -/
def C15.simHash (H : PyVal → K) (f : FeatureId) : K := H f.simVal
def C15.baseHash (H : PyVal → K) (f : FeatureId) : K := H f.baseVal

/-- group options and framework agree -/
def C15.AgreeBase (f g : FeatureId) : Prop :=
  f.options.eq g.options = true ∧ pyEq (cfwVal f.cfw) (cfwVal g.cfw) = true
/-- declared types agree; an undeclared type agrees with any -/
def C15.Compat (f g : FeatureId) : Prop :=
  match f.dtype, g.dtype with
  | some a, some b => a = b
  | _, _ => True

/-- at most one declared type per (group options, framework) among the features present -/
def C15.UniqueTypedPerBase (fs : List FeatureId) : Prop :=
  ∀ f ∈ fs, ∀ g ∈ fs, C15.isTyped f = true → C15.isTyped g = true → C15.AgreeBase f g → f.dtype = g.dtype

/-- the grouping function of the code: keyed by `similarity_key()` / `base_similarity_key()` compared with `==` -/
def C15.grouping (pick : List FeatureId → Option FeatureId) (fs : List FeatureId) : List (PyVal × List FeatureId) :=
  OptGroup.groupBy pyEq C15.isTyped FeatureId.simKey FeatureId.baseKey pick fs

/-- hash of a tuple is a function of the hashes of its elements (true of CPython's tuple hash) -/
def C15.TupleCong (H : PyVal → K) : Prop := ∀ l l' : List PyVal, l.map H = l'.map H → H (.tuple l) = H (.tuple l')

def C15.featX (v : PyVal) : FeatureId :=
  { name := "a", options := ⟨[("x", v)], [], []⟩, domain := none, cfw := none, dtype := none, child := none }

end
