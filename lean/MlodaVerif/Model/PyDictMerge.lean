import MlodaVerif.Model.Rel
/-! # `PythonDictMergeEngine` as it is written (python_dict_merge_engine.py), statement by statement

Data are `List[Dict[str, Any]]`; a dict is a `Rel.Row` (finite map; the insertion order of a dict is not observable
through equality and is not modelled: `{**l, **r}` and `m[c] = v` put the written entry last). The defects of the code are
kept: the `{key: row}` index maps keep only the LAST row of every key, `{**l, **r}` lets the right row override
same-named left columns, Python tuples of `None` compare equal (null keys match), `_union_join` de-duplicates on the
key columns only. The iteration order of the `all_keys` set in `_outer_join` is an explicit argument. -/
namespace PyDictMerge
open Rel

/-- `{tuple(r.get(c) for c in ks): r for r in data}.get(k)` — a later row with the same key replaces an earlier one -/
def indexGet (ks : List Col) (data : Table) (k : Key) : Option Row :=
  (data.filter (fun r => keyOf ks r == k)).getLast?

/-- `{**l, **r}` -/
def override (l r : Row) : Row := l.filter (fun e => decide (e.1 ∉ rcols r)) ++ r

/-- `m[c] = v` -/
def setCol (m : Row) (c : Col) (v : Cell) : Row := m.filter (fun e => decide (e.1 ≠ c)) ++ [(c, v)]

/-- `for col in cs: merged[col] = None` -/
def padNone (m : Row) (cs : List Col) : Row := cs.foldl (fun m c => setCol m c none) m

/-- `for i, col in enumerate(ks): merged[col] = key[i]` -/
def setKeys (m : Row) (ks : List Col) (key : Key) : Row := (ks.zip key).foldl (fun m p => setCol m p.1 p.2) m

def inner (lk rk : List Col) (L R : Table) : Table :=
  L.filterMap (fun l => (indexGet rk R (keyOf lk l)).map (override l))

def left (lk rk : List Col) (L R : Table) : Table :=
  -- right_columns = (all right columns - right key columns) - all left columns
  let rightColumns := ((tcols R).filter (fun c => decide (c ∉ rk))).filter (fun c => decide (c ∉ tcols L))
  L.map (fun l => match indexGet rk R (keyOf lk l) with
    | some r => override l r
    | none => padNone l rightColumns)

def right (lk rk : List Col) (L R : Table) : Table :=
  let leftColumns := ((tcols L).filter (fun c => decide (c ∉ lk))).filter (fun c => decide (c ∉ tcols R))
  R.map (fun r => match indexGet lk L (keyOf rk r) with
    | some l => override l r
    | none => padNone r leftColumns)

/-- one iteration of `for key in all_keys:` in `_outer_join` -/
def outerRow (lk rk : List Col) (L R : Table) (key : Key) : Row :=
  let leftRow := (indexGet lk L key).getD []
  let rightRow := (indexGet rk R key).getD []
  let m1 : Row :=
    if lk = rk then setKeys [] lk key
    else
      let m := if (indexGet lk L key).isSome then setKeys [] lk key else []
      if (indexGet rk R key).isSome then setKeys m rk key else m
  let m2 := (tcols L).foldl (fun m c => if c ∈ lk then m else setCol m c (cell leftRow c)) m1
  (tcols R).foldl (fun m c => if c ∈ rk then m else setCol m c (cell rightRow c)) m2

/-- `order` = iteration order of `set(left_index_map.keys()) | set(right_index_map.keys())` -/
def outer (lk rk : List Col) (L R : Table) (order : List Key) : Table := order.map (outerRow lk rk L R)

/-- one admissible iteration order of `all_keys` -/
def allKeys (lk rk : List Col) (L R : Table) : List Key := undup (L.map (keyOf lk) ++ R.map (keyOf rk))

/-- `order` enumerates the set `all_keys` -/
def ValidOrder (lk rk : List Col) (L R : Table) (order : List Key) : Prop :=
  order.Nodup ∧ ∀ k, k ∈ order ↔ (k ∈ L.map (keyOf lk) ∨ k ∈ R.map (keyOf rk))

/-- the two loops of `_union_join` over one side: `seen` is the set of keys, `result` the rows kept so far -/
def addRows (ks : List Col) : List Key → Table → Table → List Key × Table
  | seen, result, [] => (seen, result)
  | seen, result, row :: rest =>
    if keyOf ks row ∈ seen then addRows ks seen result rest
    else addRows ks (keyOf ks row :: seen) (result ++ [row]) rest

def union (lk rk : List Col) (L R : Table) : Table :=
  let s := addRows lk [] [] L
  (addRows rk s.1 s.2 R).2

/-- `merge_append`: `left_data + right_data` -/
def append (L R : Table) : Table := L ++ R

/-- `PythonDictMergeEngine.merge` after the dispatch of `BaseMergeEngine.merge` -/
def merge (t : JoinType) (lk rk : List Col) (L R : Table) (order : List Key) : Table :=
  match t with
  | .inner => inner lk rk L R
  | .left => left lk rk L R
  | .right => right lk rk L R
  | .outer => outer lk rk L R order
  | .append => append L R
  | .union => union lk rk L R

end PyDictMerge
