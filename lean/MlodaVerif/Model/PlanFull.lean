import MlodaVerif.Model.PlanCore
/-! # `ExecutionPlan.create_execution_plan` with joins and framework transformations
(mloda/core/prepare/execution_plan.py, joinstep_collection.py, core/step/{join_step,transform_frame_work_step,feature_group_step}.py)

Everything is over `Nat` ids.  One id space holds feature uuids, link uuids (`link.uuid`) and the uuids drawn while planning
(`JoinStep.uuid`, `TransformFrameworkStep.uuid`; drawn from the explicit supply `n`, one per *constructed* object - also for
transform steps that are thrown away by the de-duplication).  Feature-group classes and compute frameworks are `Nat`s too.

Inputs of `createPlan` = the arguments of the real function:
* the planned queue (`QEl`): link entries are trekker keys `(link, left cfw, right cfw)`; a feature-group entry carries the
  class and the buckets `group_features_by_compute_framework_and_options` makes of its features (as in `PlanCore`),
* the graph: `anc` = `parent_to_children_mapping` (lists in the iteration order of the stored sets), its keys, `adj` =
  `adjacency_list`, per node the compute framework and the feature-group class, `sub` = `issubclass` on classes,
* the `LinkTrekker`: `data.items()` and `order.items()`; per link uuid the join type and the two classes (`LinkInfo`),
* `Ord`: the iteration orders of the sets the code *builds and then iterates in an order-sensitive way*, tagged by site:
  0 = the feature set of a level (`next(iter(sub_features))`, first `FeatureSet.add` → `any_uuid`),
  1 = `FeatureGroupStep.get_uuids()`, 2 = the reduced children of a link in `run_link`,
  3 = `JoinStep.right_framework_uuids` (`TransformFrameworkStep.right_framework_uuid = next(iter(..))`).
  A set that has no entry is iterated in the order the model built it.

Links between EQUAL feature-group classes (`case_link_equal_feature_groups`) are modelled, with the self-join aliases abstracted to
the sets of uuids whose options match them (`LinkInfo.lal/ral`).
Not supported (explicit `unsupported:` error, the correspondence skips such inputs): APPEND / UNION links
(`create_joinstep_in_case_of_append_or_union`, `set_store_value_to_left_most_index_and_update_feature_group`).
`handle_append_or_union_joinstep` itself is modelled (it is the identity when no such join step exists). -/
namespace PlanFull
open Sched OptGroup

/-! ### lists as sets -/

def seteq (a b : List Nat) : Bool := a.all (fun x => decide (x ∈ b)) && b.all (fun x => decide (x ∈ a))

abbrev Ord := List (Nat × List Nat)

/-- the order in which the code iterates the set `s` at `site` -/
def iterAt (o : Ord) (site : Nat) (s : List Nat) : List Nat :=
  match o.find? (fun e => e.1 == site && seteq e.2 s) with
  | some e => e.2
  | none => s

/-! ### inputs -/

inductive JT where
  | inner | left | right | outer | append | union
  deriving DecidableEq, Repr, Inhabited

/-- a key of `LinkTrekker.data` / a link entry of the queue: `(Link, left cfw, right cfw)`; `link` = `link.uuid` -/
structure Key where
  link : Nat
  left : Nat
  right : Nat
  deriving DecidableEq, Repr, Inhabited

structure LinkInfo where
  jt : JT := .inner
  lcls : Nat := 0      -- link.left_feature_group
  rcls : Nat := 0      -- link.right_feature_group
  lal : Option (List Nat) := none   -- self_left_alias: `none`, or the uuids whose feature options contain one of its (key, value) pairs
  ral : Option (List Nat) := none   -- self_right_alias, likewise
  deriving Repr, Inhabited

structure Graph where
  anc : Nat → List Nat          -- parent_to_children_mapping[u] (all ancestors of u); [] when absent (defaultdict)
  ancKeys : List Nat            -- parent_to_children_mapping.keys()
  adj : Nat → List Nat          -- adjacency_list[u] (direct children of u)
  fw : Nat → Nat                -- nodes[u].feature.get_compute_framework()
  cls : Nat → Nat               -- nodes[u].feature_group_class
  sub : Nat → Nat → Bool        -- issubclass(c, d)

structure Trek where
  data : List (Key × List Nat)      -- link_trekker.data.items(): key ↦ children that need the link
  order : List (Nat × List Nat)     -- link_trekker.order.items(): link uuid ↦ link uuids that come later

inductive QEl where
  | link (k : Key)
  | fg (cls : Nat) (buckets : List (List Nat))
  deriving Repr, Inhabited

/-- one step of the execution plan with the fields the executor reads -/
structure PStep where
  kind : Kind := .fg
  outs : List Nat := []            -- get_uuids()
  req : List Nat := []             -- required_uuids
  uuid : Nat := 0                  -- JoinStep.uuid / TransformFrameworkStep.uuid (0 for FG steps: their uuid is never used)
  cls : Nat := 0                   -- FG: feature_group; TFS: to_feature_group
  fw : Nat := 0                    -- FG: compute_framework; Join: left_framework; TFS: to_framework
  cls2 : Nat := 0                  -- TFS: from_feature_group
  fw2 : Nat := 0                   -- Join: right_framework; TFS: from_framework
  link : Option Nat := none        -- Join: link.uuid; TFS: link_id
  jt : JT := .inner                -- Join: link.jointype
  lfu : List Nat := []             -- Join: left_framework_uuids
  rfu : List Nat := []             -- Join: right_framework_uuids
  rfu1 : Option Nat := none        -- TFS: right_framework_uuid
  cir : List Nat := []             -- FG: children_if_root
  tfsIds : List Nat := []          -- FG: tfs_ids
  anyUuid : Option Nat := none     -- FG: features.any_uuid
  upload : Bool := false           -- FG: need_to_upload
  deriving Repr, Inhabited, DecidableEq

/-- element of `pre_execution_plan` -/
inductive PreEl where
  | link (k : Key)
  | step (s : PStep)
  deriving Repr, Inhabited

def toSched (s : PStep) : Step := { outs := s.outs, req := s.req, kind := s.kind }

/-- projection to the orchestrator's view of a plan (`Sched.Plan`): what `compute` reads of a step -/
def toSchedPlan (p : List PStep) : Plan := p.map toSched

/-! ### `add_feature_group_step` -/

/-- `invert_link_trekker(link_trekker)[u]`: the keys that have `u` among their children -/
def childLinks (data : List (Key × List Nat)) (u : Nat) : List Key := (data.filter (fun e => decide (u ∈ e.2))).map (·.1)

/-- `retrieve_links_which_must_be_calculated_before(features, child_links)` -/
def retrieveLinks (data : List (Key × List Nat)) (feats : List Nat) : List Nat :=
  (feats.flatMap (fun f => (childLinks data f).map (·.link))).eraseDups

/-- `get_parent_children_mapping(parent_to_children_mapping)[v]`: the keys whose entry contains `v` (descendants of `v`) -/
def desc (g : Graph) (v : Nat) : List Nat := g.ancKeys.filter (fun k => decide (v ∈ g.anc k))

/-- the body of the level loop of `run_feature_group`: one FeatureGroupStep -/
def mkFg (g : Graph) (cls : Nat) (pre : List Nat) (L : List Nat) (h : Nat) : PStep :=
  { kind := .fg, outs := L, req := (L.flatMap g.anc ++ pre).eraseDups, cls := cls, fw := g.fw h,
    cir := (L.flatMap (desc g) ++ L).eraseDups, anyUuid := some h }

def fgStep (g : Graph) (o : Ord) (cls : Nat) (pre : List Nat) (L : List Nat) : Except String PStep :=
  match iterAt o 0 L with
  | [] => .error "StopIteration"                 -- next(iter(sub_features)) on an empty level
  | h :: _ => .ok (mkFg g cls pre L h)           -- h: first feature added to the FeatureSet (any_uuid), cf = its framework

def fgSteps (g : Graph) (o : Ord) (cls : Nat) (pre : List Nat) (bucket : List Nat) : Except String (List PStep) :=
  (splitLevels bucket g.anc).mapM (fgStep g o cls pre)

def addFgSteps (g : Graph) (t : Trek) (o : Ord) : List QEl → Except String (List PreEl)
  | [] => .ok []
  | .link k :: r => do
    let rest ← addFgSteps g t o r
    pure (.link k :: rest)
  | .fg c bs :: r => do
    let steps ← bs.mapM (fgSteps g o c (retrieveLinks t.data bs.flatten))
    let rest ← addFgSteps g t o r
    pure (steps.flatten.map .step ++ rest)

/-- `self.feature_set_collections` after `add_feature_group_step` -/
def fscOf : List PreEl → List (List Nat)
  | [] => []
  | .link _ :: r => fscOf r
  | .step s :: r => s.outs :: fscOf r

/-! ### `run_link` -/

/-- the children stored under a key of `link_trekker.data` -/
def childrenOf (data : List (Key × List Nat)) (k : Key) : List Nat :=
  ((data.filter (fun e => e.1 == k)).flatMap (·.2)).eraseDups

/-- `reduce_children_to_one_level`: every child that is a direct child (`adjacency_list`) of another child is dropped from a copy
of the set (`discard`: dropping it a second time is harmless) -/
def reduceChildren (adj : Nat → List Nat) (ch : List Nat) : List Nat :=
  ch.foldl (fun new c => (adj c).foldl (fun new x => if x ∈ ch then new.erase x else new) new) ch

def findGo (fsc : List (List Nat)) : List Nat → List Nat → List (Nat × List Nat) → List (Nat × List Nat)
  | [], _, acc => acc
  | p :: ps, used, acc =>
    if p ∈ used then findGo fsc ps used acc
    else
      let hits := fsc.filter (fun s => decide (p ∈ s))
      if hits.isEmpty then findGo fsc ps used acc
      else findGo fsc ps (used ++ hits.flatten) (acc ++ [(p, hits.flatten.eraseDups)])

/-- `find_feature_uuids(parents, feature_set_collections)`: parents grouped by the step that computes them -/
def findFeatureUuids (parents : List Nat) (fsc : List (List Nat)) : List (Nat × List Nat) := findGo fsc parents [] []

/-- the double loop of `case_link_fw_is_equal_to_children_fw`: (unique_solution_counter, (left_uuids, right_uuids)) -/
def pairLoop (g : Graph) (k : Key) (li : LinkInfo) (per : List (Nat × List Nat)) : Nat × Option (List Nat × List Nat) :=
  per.foldl (fun st e =>
    if k.left != g.fw e.1 then st
    else if !(g.sub (g.cls e.1) li.lcls) then st
    else per.foldl (fun st e' =>
      if e.1 == e'.1 then st
      else if k.right != g.fw e'.1 then st
      else if !(g.sub (g.cls e'.1) li.rcls) then st
      else match st.2 with
        | none => (st.1 + 1, some (e.2, e'.2))
        | some (l, r) => if seteq l e.2 && seteq r e'.2 then st else (st.1 + 1, st.2)) st) (0, none)

inductive VRes where
  | no | yes | pair (l r : List Nat)
  deriving Repr

def caseFwEq (g : Graph) (k : Key) (li : LinkInfo) (fsc : List (List Nat)) (c : Nat) : Except String VRes :=
  if li.jt == .right then .error "Right joins are not supported for equal or polymorphic feature groups"
  else
    let per := findFeatureUuids (g.anc c) fsc
    if per.isEmpty then .error "Feature set collection per uuid is None"
    else match pairLoop g k li per with
      | (1, some (l, r)) => .ok (.pair l r)
      | (1, none) => .error "This should not happen."
      | (0, _) => .ok .no
      | _ => .error "There are more than one solution for the join"

/-- `check_pointer(alias, link_fw, graph, uuid)` for the left (`left = true`) or right alias, which is known to be set -/
def checkPointer (li : LinkInfo) (left : Bool) (u : Nat) : Except String Bool :=
  match li.lal, li.ral with
  | some l, some r => .ok (if left then decide (u ∈ l) else decide (u ∈ r))
  | _, _ => .error "If one alias is set, the other should be set as well."

/-- the double loop of `case_link_equal_feature_groups`: every admissible (left, right) pair overwrites the solution and counts -/
def selfLoop (g : Graph) (k : Key) (li : LinkInfo) (per : List (Nat × List Nat)) :
    Except String (Nat × Option (List Nat × List Nat)) :=
  per.foldlM (fun st e =>
    if k.left != g.fw e.1 then .ok st
    else
      match (if li.lal.isSome then checkPointer li true e.1 else .ok true) with
      | .error err => .error err
      | .ok false => .ok st
      | .ok true =>
        per.foldlM (fun st e' =>
          if e.1 == e'.1 then .ok st
          else if k.right != g.fw e'.1 then .ok st
          else
            match (if li.ral.isSome then checkPointer li false e'.1 else .ok true) with
            | .error err => .error err
            | .ok false => .ok st
            | .ok true => .ok (st.1 + 1, some (e.2, e'.2))) st) (0, none)

/-- `case_link_equal_feature_groups`: a link between a feature group and itself -/
def caseEqualFg (g : Graph) (k : Key) (li : LinkInfo) (fsc : List (List Nat)) (c : Nat) : Except String VRes :=
  if li.jt == .right then .error "Right joins are not supported for equal or polymorphic feature groups"
  else if k.left != g.fw c then .ok .no
  else
    let per := findFeatureUuids (g.anc c) fsc
    if per.isEmpty then .error "Feature set collection per uuid is None"
    else match selfLoop g k li per with
      | .error e => .error e
      | .ok (cnt, lr) =>
        if li.jt == .append || li.jt == .union then
          match lr with
          | none => .error "This should not happen. Did you set an index for the append or union?"
          | some (l, r) => if cnt > 0 then .ok (.pair l r) else .ok .no
        else match cnt, lr with
          | 1, some (l, r) => .ok (.pair l r)
          | 1, none => .error "This should not happen."
          | 0, _ => .ok .no
          | _, _ => .error "There are more than one solution for the join"

/-- `is_valid_join_step(link_fw, children_fw, children_uuid, graph)` -/
def isValidJoinStep (g : Graph) (k : Key) (li : LinkInfo) (fsc : List (List Nat)) (c : Nat) : Except String VRes :=
  if li.lcls == li.rcls then caseEqualFg g k li fsc c
  else if k.left == g.fw c then caseFwEq g k li fsc c
  else .ok .yes

/-- the loop `for children_uuid in children_uuids` of `run_link`; `none` = `return None` -/
def validLoop (g : Graph) (k : Key) (li : LinkInfo) (fsc : List (List Nat)) :
    List Nat → List Nat × List Nat → Except String (Option (List Nat × List Nat))
  | [], lr => .ok (some lr)
  | c :: cs, lr =>
    match isValidJoinStep g k li fsc c with
    | .error e => .error e
    | .ok .no => .ok none
    | .ok .yes => validLoop g k li fsc cs lr
    | .ok (.pair l r) => validLoop g k li fsc cs (l, r)

/-- the children that need the link and the frameworks after the two switches at the head of `run_link` -/
def linkChildren (t : Trek) (li : LinkInfo) (k : Key) : Except String (Nat × Nat × List Nat) :=
  let ch0 := childrenOf t.data k
  if ch0.isEmpty then
    let ch1 := childrenOf t.data { k with left := k.right, right := k.left }
    if ch1.isEmpty then .error "has no matching uuids" else .ok (k.right, k.left, ch1)
  else if li.jt == .right then .ok (k.right, k.left, ch0) else .ok (k.left, k.right, ch0)

/-- required uuids of the join step: every ancestor of the reduced children plus the keys of `order` the link is a member of -/
def joinReq (g : Graph) (t : Trek) (link : Nat) (red : List Nat) : List Nat :=
  ((red.flatMap g.anc).eraseDups ++ (t.order.filter (fun e => decide (link ∈ e.2))).map (·.1)).eraseDups

/-- `run_link`; `n` = the uuid the JoinStep gets when one is constructed -/
def runLink (g : Graph) (t : Trek) (linfo : Nat → LinkInfo) (o : Ord) (fsc : List (List Nat)) (n : Nat) (k : Key) :
    Except String (Option PStep) :=
  let li := linfo k.link
  match linkChildren t li k with
  | .error e => .error e
  | .ok (lf, rf, ch) =>
    let red := reduceChildren g.adj ch
    let req0 := (red.flatMap g.anc).eraseDups
    match validLoop g k li fsc (iterAt o 2 red) (req0.filter (fun u => g.fw u == lf), req0.filter (fun u => g.fw u == rf)) with
    | .error e => .error e
    | .ok none => .ok none
    | .ok (some (l, r)) =>
      if li.jt == .append || li.jt == .union then .error "unsupported: append or union link"
      else .ok (some { kind := .join, uuid := n, outs := [n, k.link], req := joinReq g t k.link red, fw := lf, fw2 := rf,
                       link := some k.link, jt := li.jt, lfu := l, rfu := r })

/-! ### `add_joinstep` with `JoinStepCollection` -/

structure JState where
  n : Nat
  coll : List (PStep × List Nat)      -- joinstep_collection.collection (insertion order)
  plan : List PStep

/-- `similar_dependent_joins_uuids`: uuids of the earlier join steps that touch one of the two frameworks -/
def similarUuids (coll : List (PStep × List Nat)) (lf rf : Nat) : List Nat :=
  ((coll.filter (fun e => e.1.fw == lf || e.1.fw2 == lf || e.1.fw == rf || e.1.fw2 == rf)).flatMap (·.1.outs)).eraseDups

def addJoinsteps (g : Graph) (t : Trek) (linfo : Nat → LinkInfo) (o : Ord) (fsc : List (List Nat)) :
    List PreEl → JState → Except String JState
  | [], s => .ok s
  | .step st :: r, s => addJoinsteps g t linfo o fsc r { s with plan := s.plan ++ [st] }
  | .link k :: r, s =>
    match runLink g t linfo o fsc s.n k with
    | .error e => .error e
    | .ok none => addJoinsteps g t linfo o fsc r s
    | .ok (some js) =>
      addJoinsteps g t linfo o fsc r
        { n := s.n + 1, coll := s.coll ++ [(js, similarUuids s.coll js.fw js.fw2)], plan := s.plan ++ [js] }

def isAU (s : PStep) : Bool := s.kind == .join && (s.jt == .append || s.jt == .union)

/-- `handle_append_or_union_joinstep` -/
def handleAppendUnion (p : List PStep) : Except String (List PStep) := do
  let m ← p.foldlM (fun (m : List (Nat × Nat)) s =>
    if isAU s then
      if s.lfu.length > 1 then .error "This should not happen."
      else match s.lfu, s.link with
        | [u], some l => .ok (m ++ [(u, l)])
        | _, _ => .error "StopIteration"
    else .ok m) []
  p.mapM (fun s =>
    if isAU s then
      if s.rfu.length > 1 then .error "This should not happen."
      else match s.rfu with
        | [u] => .ok { s with req := (s.req ++ (m.filter (fun e => e.1 == u)).map (·.2)).eraseDups }
        | _ => .error "StopIteration"
    else .ok s)

/-! ### `add_tfs` -/

/-- what `TransformFrameworkStep.__eq__` / `__hash__` look at -/
structure TKey where
  fromFw : Nat
  toFw : Nat
  fromCls : Nat
  toCls : Nat
  deriving DecidableEq, Repr

def tkey (s : PStep) : TKey := { fromFw := s.fw2, toFw := s.fw, fromCls := s.cls2, toCls := s.cls }

def modAt (f : PStep → PStep) : Nat → List PStep → List PStep
  | _, [] => []
  | 0, s :: r => f s :: r
  | i + 1, s :: r => s :: modAt f i r

/-- the `execution_plan` objects are mutated in place while `new_execution_plan` is built: `cur` are the objects (same
positions as the input list), `ins[i]` the transform steps inserted before object `i` -/
structure TState where
  cur : List PStep
  ins : List (List PStep) := []
  tc : List TKey := []              -- self.tfs_collecion
  upl : List Nat := []              -- need_to_upload_collector
  n : Nat

/-- `fill_tfs_by_joinstep(ep)` -/
def tfsOfJoin (linfo : Nat → LinkInfo) (o : Ord) (ep : PStep) (n : Nat) : PStep :=
  let li := linfo (ep.link.getD 0)
  { kind := .tfs, uuid := n, outs := [n], req := ep.req, fw2 := ep.fw2, fw := ep.fw,
    cls2 := if ep.jt == .right then li.lcls else li.rcls, cls := if ep.jt == .right then li.rcls else li.lcls,
    link := ep.link, rfu1 := (iterAt o 3 ep.rfu).head? }

def collOf (jc : List (Nat × List Nat)) (u : Nat) : List Nat :=
  match jc.find? (fun e => e.1 == u) with
  | some e => e.2
  | none => []

/-- JoinStep with `left_framework != right_framework` -/
def tfsJoinCross (linfo : Nat → LinkInfo) (o : Ord) (jc : List (Nat × List Nat)) (i : Nat) (ep : PStep) (st : TState) : TState :=
  let new := tfsOfJoin linfo o ep st.n
  let isNew := decide (tkey new ∉ st.tc)
  let req1 := if isNew then ep.req ++ [st.n] else ep.req
  { cur := modAt (fun s => { s with req := req1 ++ collOf jc ep.uuid }) i st.cur,
    ins := st.ins ++ [if isNew then [new] else []],
    tc := if isNew then st.tc ++ [tkey new] else st.tc,
    upl := st.upl ++ ep.rfu, n := st.n + 1 }

/-- `for uuid in inner_ep.get_uuids()`: (left the loop through `break`, store_val) -/
def innerUuidLoop (ep : PStep) : List Nat → Option Nat → Bool × Option Nat
  | [], store => (false, store)
  | u :: us, store =>
    if u ∈ ep.rfu then (true, store)
    else innerUuidLoop ep us (if u ∈ ep.lfu then some u else store)

/-- `for inner_ep in execution_plan` of the same-framework branch; state = (objects, need_to_upload_collector, store_val) -/
def sameFwLoop (o : Ord) (ep : PStep) : List Nat → List PStep × List Nat × Option Nat → Except String (List PStep × List Nat × Option Nat)
  | [], s => .ok s
  | j :: js, (cur, upl, store) =>
    match cur[j]? with
    | none => sameFwLoop o ep js (cur, upl, store)
    | some inner =>
      if inner.kind != .fg then sameFwLoop o ep js (cur, upl, store)
      else
        let (hit, store') := innerUuidLoop ep (iterAt o 1 inner.outs) store
        let cur1 := if hit then modAt (fun s => { s with cir := s.cir ++ [ep.link.getD 0] }) j cur else cur
        let upl1 := if hit then upl ++ ep.rfu else upl
        match store' with
        | none => sameFwLoop o ep js (cur1, upl1, none)
        | some sv =>
          if ep.lfu.any (fun x => decide (x ∈ inner.req)) && ep.rfu.any (fun x => decide (x ∈ inner.req)) then
            if ep.jt == .append || ep.jt == .union then .error "unsupported: append or union link"
            else sameFwLoop o ep js (modAt (fun s => { s with tfsIds := [sv], anyUuid := some sv }) j cur1, upl1, some sv)
          else sameFwLoop o ep js (cur1, upl1, some sv)

structure FState where
  ep : PStep
  new : List PStep := []
  tc : List TKey
  upl : List Nat
  n : Nat

/-- `JoinStep.matched(other_framework, uuid)` is not None -/
def matched (js : PStep) (fw : Nat) (u : Nat) : Bool := decide (u ∈ js.req) && (fw == js.fw || fw == js.fw2)

/-- the TransformFrameworkStep the FeatureGroupStep branch makes for a direct parent `p` on another framework -/
def fgTfs (g : Graph) (ep : PStep) (n p : Nat) : PStep :=
  { kind := .tfs, uuid := n, outs := [n], req := [p], fw2 := g.fw p, fw := ep.fw, cls2 := g.cls p, cls := ep.cls }

/-- body of `for parent in parents` of the FeatureGroupStep branch.  NOTE `ep.required_uuids.union(match)` has no effect. -/
def fgTfsBody (g : Graph) (joins : List PStep) (pp : List Nat) (s : FState) (p : Nat) : FState :=
  if joins.any (fun js => matched js s.ep.fw p) then s
  else if p ∈ pp then s
  else if s.ep.fw != g.fw p then
    let new : PStep := fgTfs g s.ep s.n p
    let isNew := decide (tkey new ∉ s.tc)
    { ep := { s.ep with req := if isNew then s.ep.req ++ [s.n] else s.ep.req, tfsIds := s.ep.tfsIds ++ [s.n] },
      new := if isNew then s.new ++ [new] else s.new,
      tc := if isNew then s.tc ++ [tkey new] else s.tc,
      upl := s.upl ++ [p], n := s.n + 1 }
  else s

def fgTfsLoop (g : Graph) (joins : List PStep) (pp : List Nat) (parents : List Nat) (s : FState) : FState :=
  parents.foldl (fgTfsBody g joins pp) s

/-- the marking loop at the end of every iteration: objects `0..i` are in `new_execution_plan` -/
def markUpload (i : Nat) (upl : List Nat) (cur : List PStep) : List PStep :=
  cur.mapIdx (fun j s =>
    if j ≤ i && s.kind == .fg && (match s.anyUuid with | some a => decide (a ∈ upl) | none => false)
    then { s with upload := true } else s)

/-- one iteration of `for ep in execution_plan` of `add_tfs` -/
def tfsStep (g : Graph) (linfo : Nat → LinkInfo) (o : Ord) (jc : List (Nat × List Nat)) (st : TState) (i : Nat) :
    Except String TState :=
  match st.cur[i]? with
  | none => .ok st
  | some ep =>
    let r : Except String TState :=
      match ep.kind with
      | .join =>
        if ep.fw != ep.fw2 then .ok (tfsJoinCross linfo o jc i ep st)
        else
          match sameFwLoop o ep (List.range st.cur.length) (st.cur, st.upl, none) with
          | .error e => .error e
          | .ok (cur, upl, _) => .ok { st with cur := cur, upl := upl, ins := st.ins ++ [[]] }
      | .fg =>
        match ep.anyUuid with
        | none => .error "has no uuid"
        | some a =>
          let parents := g.anc a
          let f := fgTfsLoop g (st.cur.filter (fun s => s.kind == .join)) (parents.flatMap g.anc) parents
            { ep := ep, tc := st.tc, upl := st.upl, n := st.n }
          .ok { cur := modAt (fun _ => f.ep) i st.cur, ins := st.ins ++ [f.new], tc := f.tc, upl := f.upl, n := f.n }
      | .tfs => .error "is not a valid element"
    match r with
    | .error e => .error e
    | .ok st' => .ok { st' with cur := markUpload i st'.upl st'.cur }

def assemble (ins : List (List PStep)) (cur : List PStep) : List PStep :=
  (ins.zip cur).flatMap (fun e => e.1 ++ [e.2])

/-- `add_tfs(execution_plan, graph)`; `jc` = `joinstep_collection.collection` keyed by JoinStep uuid -/
def addTfs (g : Graph) (linfo : Nat → LinkInfo) (o : Ord) (jc : List (Nat × List Nat)) (p : List PStep) (n : Nat) :
    Except String (List PStep) :=
  match (List.range p.length).foldlM (tfsStep g linfo o jc) { cur := p, n := n } with
  | .error e => .error e
  | .ok st => .ok (assemble st.ins st.cur)

/-- the plan after `add_joinstep` (+ `handle_append_or_union_joinstep`) together with the JoinStepCollection and the supply -/
def planBeforeTfs (g : Graph) (t : Trek) (linfo : Nat → LinkInfo) (o : Ord) (n0 : Nat) (q : List QEl) :
    Except String (List PStep × List (Nat × List Nat) × Nat) :=
  match addFgSteps g t o q with
  | .error e => .error e
  | .ok pre =>
    match addJoinsteps g t linfo o (fscOf pre) pre { n := n0, coll := [], plan := [] } with
    | .error e => .error e
    | .ok js =>
      match handleAppendUnion js.plan with
      | .error e => .error e
      | .ok p2 => .ok (p2, js.coll.map (fun e => (e.1.uuid, e.2)), js.n)

/-- `ExecutionPlan(...).create_execution_plan(queue, graph, link_trekker)`; the result is `self.execution_plan` -/
def createPlan (g : Graph) (t : Trek) (linfo : Nat → LinkInfo) (o : Ord) (n0 : Nat) (q : List QEl) : Except String (List PStep) :=
  match planBeforeTfs g t linfo o n0 q with
  | .error e => .error e
  | .ok (p2, jc, n) => addTfs g linfo o jc p2 n

end PlanFull
