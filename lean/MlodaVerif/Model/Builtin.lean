/-! # Builtin — value semantics of the multi-framework built-in feature groups (C19), part 1: reducers, aggregation

Anchors: `mloda_plugins/feature_group/experimental/aggregated_feature_group/{pandas,pyarrow}.py`.

A column is a `List (Option α)` (`none` = null / NaN / None).  Numbers are exact `Rat`s.

What is a model of what:
* `Pd.*`  — the pandas calls *as the groups make them* (`Series.sum()`, `.min()`, `.mean()`, `.count()`, `.std()`,
  `.var()`, `.median()`; `rolling(window, min_periods=1).f()`): skipna, `sum` of nothing = 0, `ddof = 1`.
* `Pa.*`  — the pyarrow.compute calls as the groups make them (`pc.sum/min/max/mean/count/stddev/variance`,
  `pc.quantile(q=0.5)`): skip nulls, `min_count = 1` (nothing valid → null), `ddof = 0`, linear interpolation.
These library conventions are **assumptions**; they are validated only by the differential run of `harness/corr/c19.py`.
Square roots do not exist in `Rat`: `std` is represented by its square (the variance) plus the flag `Res.sqrt`.
-/

namespace Builtin

/-- the valid (non-null) entries of a column, in order -/
def valid {α : Type} : List (Option α) → List α
  | [] => []
  | none :: c => valid c
  | some a :: c => a :: valid c

def nullCount {α : Type} : List (Option α) → Nat
  | [] => 0
  | none :: c => nullCount c + 1
  | some _ :: c => nullCount c

def hasNull {α : Type} (c : List (Option α)) : Bool := c.any (·.isNone)

/-- stable insertion sort (structural, so closed instances reduce in the kernel) -/
def insertLe {α : Type} (le : α → α → Bool) (a : α) : List α → List α
  | [] => [a]
  | b :: bs => if le a b then a :: b :: bs else b :: insertLe le a bs

def isort {α : Type} (le : α → α → Bool) : List α → List α
  | [] => []
  | a :: as => insertLe le a (isort le as)

def rle (a b : Rat) : Bool := decide (a ≤ b)
def rmin (a b : Rat) : Rat := if a ≤ b then a else b
def rmax (a b : Rat) : Rat := if a ≤ b then b else a

def sumR : List Rat → Rat
  | [] => 0
  | a :: as => a + sumR as

def minR : List Rat → Option Rat
  | [] => none
  | a :: as => some (as.foldl rmin a)

def maxR : List Rat → Option Rat
  | [] => none
  | a :: as => some (as.foldl rmax a)

def meanR (l : List Rat) : Option Rat :=
  if l.isEmpty then none else some (sumR l / (l.length : Rat))

/-- sum of squared deviations from `m` -/
def ssd (m : Rat) : List Rat → Rat
  | [] => 0
  | a :: as => (a - m) * (a - m) + ssd m as

/-- variance with `ddof` delta degrees of freedom; null when fewer than `ddof + 1` observations -/
def varR (ddof : Nat) (l : List Rat) : Option Rat :=
  if l.length ≤ ddof then none
  else some (ssd (sumR l / (l.length : Rat)) l / ((l.length - ddof : Nat) : Rat))

/-- middle of the sorted values; mean of the two middle ones for an even count (pandas / `statistics.median`) -/
def medianR (l : List Rat) : Option Rat :=
  let s := isort rle l
  let n := s.length
  if n = 0 then none
  else if n % 2 = 1 then s[n / 2]?
  else match s[n / 2 - 1]?, s[n / 2]? with
    | some a, some b => some ((a + b) / 2)
    | _, _ => none

/-- `pc.quantile(q = 0.5, interpolation = "linear")`: position `(n-1)/2` in the sorted values, linearly interpolated -/
def quantileHalfR (l : List Rat) : Option Rat :=
  let s := isort rle l
  let n := s.length
  if n = 0 then none
  else
    let lo := (n - 1) / 2
    let hi := n / 2
    let frac : Rat := if n % 2 = 0 then 1 / 2 else 0
    match s[lo]?, s[hi]? with
    | some a, some b => some (a + (b - a) * frac)
    | _, _ => none

/-- a scalar result: `sqrt = true` means "the real result is the square root of `v`" (std) -/
structure Res where
  v : Option Rat
  sqrt : Bool := false
  deriving DecidableEq, Repr

/-! ## reducers per library -/

namespace Pd
/-- `Series.<op>()` with pandas defaults (skipna=True, ddof=1, sum of nothing = 0) -/
def series (op : String) : Option (List (Option Rat) → Res) :=
  match op with
  | "sum" => some fun c => ⟨some (sumR (valid c)), false⟩
  | "min" => some fun c => ⟨minR (valid c), false⟩
  | "max" => some fun c => ⟨maxR (valid c), false⟩
  | "avg" => some fun c => ⟨meanR (valid c), false⟩
  | "mean" => some fun c => ⟨meanR (valid c), false⟩
  | "count" => some fun c => ⟨some ((valid c).length : Rat), false⟩
  | "std" => some fun c => ⟨varR 1 (valid c), true⟩
  | "var" => some fun c => ⟨varR 1 (valid c), false⟩
  | "median" => some fun c => ⟨medianR (valid c), false⟩
  | _ => none

/-- one window of `rolling(window, min_periods=1).<op>()`: null unless at least one valid observation (count excepted);
`first` / `last` are the `rolling.apply(lambda x: x.iloc[0] / x.iloc[-1], raw=False)` of the time-window group: the
window's first / last *entry* (null or not), evaluated only when the window has a valid observation -/
def rolling (op : String) : Option (List (Option Rat) → Res) :=
  match op with
  | "sum" => some fun w => ⟨if (valid w).isEmpty then none else some (sumR (valid w)), false⟩
  | "min" => some fun w => ⟨minR (valid w), false⟩
  | "max" => some fun w => ⟨maxR (valid w), false⟩
  | "avg" => some fun w => ⟨meanR (valid w), false⟩
  | "mean" => some fun w => ⟨meanR (valid w), false⟩
  | "count" => some fun w => ⟨some ((valid w).length : Rat), false⟩
  | "std" => some fun w => ⟨varR 1 (valid w), true⟩
  | "var" => some fun w => ⟨varR 1 (valid w), false⟩
  | "median" => some fun w => ⟨medianR (valid w), false⟩
  | "first" => some fun w => ⟨if (valid w).isEmpty then none else w.head?.join, false⟩
  | "last" => some fun w => ⟨if (valid w).isEmpty then none else w.getLast?.join, false⟩
  | _ => none
end Pd

namespace Pa
/-- `pc.<fn>(column).as_py()` as called by the pyarrow groups (skip_nulls, min_count=1, ddof=0, quantile 0.5) -/
def reduce (op : String) : Option (List (Option Rat) → Res) :=
  match op with
  | "sum" => some fun c => ⟨if (valid c).isEmpty then none else some (sumR (valid c)), false⟩
  | "min" => some fun c => ⟨minR (valid c), false⟩
  | "max" => some fun c => ⟨maxR (valid c), false⟩
  | "avg" => some fun c => ⟨meanR (valid c), false⟩
  | "mean" => some fun c => ⟨meanR (valid c), false⟩
  | "count" => some fun c => ⟨some ((valid c).length : Rat), false⟩
  | "std" => some fun c => ⟨varR 0 (valid c), true⟩
  | "var" => some fun c => ⟨varR 0 (valid c), false⟩
  | "median" => some fun c => ⟨quantileHalfR (valid c), false⟩
  | _ => none

/-- window reducer of `PyArrowTimeWindowFeatureGroup`: as `reduce`, plus `first`/`last` = `window_values[0] / [-1]` -/
def window (op : String) : Option (List (Option Rat) → Res) :=
  match op with
  | "first" => some fun w => ⟨w.head?.join, false⟩
  | "last" => some fun w => ⟨w.getLast?.join, false⟩
  | _ => reduce op
end Pa

/-! ## aggregation group (single source column): the scalar is broadcast to every row -/

/-- `PandasAggregatedFeatureGroup`: `data[name] = data[col].<op>()` -/
def pandasAggr (op : String) (c : List (Option Rat)) : Option (List Res) :=
  (Pd.series op).map (fun f => List.replicate c.length (f c))

/-- `PyArrowAggregatedFeatureGroup`: `pa.array([pc.<fn>(col).as_py()] * num_rows)` -/
def arrowAggr (op : String) (c : List (Option Rat)) : Option (List Res) :=
  (Pa.reduce op).map (fun f => List.replicate c.length (f c))

end Builtin
