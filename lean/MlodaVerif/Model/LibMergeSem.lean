import MlodaVerif.Model.Rel
/-! # Named semantic models of the two library calls the merge engines make, and the engines on top of them

`pandas.merge(left, right, left_on=…, right_on=…, how=…)`, `pandas.concat`, `DataFrame.drop_duplicates`,
`pyarrow.Table.join(right, keys, right_keys, join_type)` and `pyarrow.concat_tables` are **assumptions**: what is written
here is what the libraries were observed to do (pandas 3.0.6, pyarrow 25) and it is differential-tested on every run
(harness/corr/c12.py, suites `pandas_sem`, `arrow_sem`). `PandasMerge.merge` / `ArrowMerge.merge` are the mloda engines
(pandas_merge_engine.py / pyarrow_merge_engine.py) written statement by statement over those assumptions. Tables of these
two frameworks carry a schema even when they are empty, so the schemas `ls` / `rs` are explicit arguments. -/
namespace Rel

/-- nested-loop join skeleton shared by the library models: `m` decides which pairs match, `comb` builds the row of a
matched pair, `padR` / `padL` the row of an unmatched left / right row -/
def joinGen (m : Row → Row → Bool) (comb : Row → Row → Row) (padR padL : Row → Row) (t : JoinType) (L R : Table) : Table :=
  let leftPart := L.flatMap (fun l =>
    let ms := R.filter (m l)
    if ms.isEmpty then [padR l] else ms.map (comb l))
  match t with
  | .inner => L.flatMap (fun l => (R.filter (m l)).map (comb l))
  | .left => leftPart
  | .right => R.flatMap (fun r =>
      let ms := L.filter (fun l => m l r)
      if ms.isEmpty then [padL r] else ms.map (fun l => comb l r))
  | .outer => leftPart ++ (R.filter (fun r => L.all (fun l => !m l r))).map padL
  | .append => L ++ R
  | .union => dedup (L ++ R)

end Rel

namespace PandasSem
open Rel

/-- pandas compares join keys with NaN/None equal to NaN/None -/
def matchesNullEq (lk rk : List Col) (l r : Row) : Bool := keyOf lk l == keyOf rk r

/-- column names present on both sides that are not coalesced keys get the suffixes `_x` / `_y` -/
def overlap (co ls rs : List Col) : List Col := ls.filter (fun c => decide (c ∈ rs ∧ c ∉ co))

def sfxCol (ov : List Col) (sfx : String) (c : Col) : Col := if c ∈ ov then c ++ sfx else c

def suffixed (ov : List Col) (sfx : String) (r : Row) : Row := r.map (fun e => (sfxCol ov sfx e.1, e.2))

/-- `pd.merge(L, R, left_on=lk, right_on=rk, how=…)` for how ∈ inner/left/right/outer -/
def merge (t : JoinType) (lk rk ls rs : List Col) (L R : Table) : Table :=
  let co := coalesced lk rk
  let ov := overlap co ls rs
  joinGen (matchesNullEq lk rk)
    (fun l r => suffixed ov "_x" l ++ suffixed ov "_y" (r.filter (fun e => decide (e.1 ∉ co))))
    (fun l => suffixed ov "_x" l ++ nulls ((rs.filter (fun c => decide (c ∉ co))).map (sfxCol ov "_y")))
    (fun r => nulls ((ls.filter (fun c => decide (c ∉ co))).map (sfxCol ov "_x")) ++ suffixed ov "_y" r)
    t L R

/-- `pd.concat([L, R], ignore_index=True)`: union of the columns, missing cells NaN -/
def padTo (cols : List Col) (r : Row) : Row := r ++ nulls (cols.filter (fun c => decide (c ∉ rcols r)))

def concat (ls rs : List Col) (L R : Table) : Table :=
  (L ++ R).map (padTo (ls ++ rs.filter (fun c => decide (c ∉ ls))))

end PandasSem

namespace PandasMerge
open Rel

def missingKey : String := "KeyError: key column not in table"

/-- `PandasMergeEngine.merge`: the four joins go to `pd.merge` with the mapped `how` (which raises `KeyError` when a key
column is not a column of its table), append is `pd.concat`, union is append followed by `drop_duplicates()` (NaN equal to
NaN) -/
def merge (t : JoinType) (lk rk ls rs : List Col) (L R : Table) : Except String Table :=
  match t with
  | .append => .ok (PandasSem.concat ls rs L R)
  | .union => .ok (dedup (PandasSem.concat ls rs L R))
  | t => if (∀ c ∈ lk, c ∈ ls) ∧ (∀ c ∈ rk, c ∈ rs) then .ok (PandasSem.merge t lk rk ls rs L R) else .error missingKey

end PandasMerge

namespace ArrowSem
open Rel

def dropCols (ks : List Col) (r : Row) : Row := r.filter (fun e => decide (e.1 ∉ ks))

/-- `L.join(R, keys=lk, right_keys=rk, join_type=…)`, `coalesce_keys=True`: null keys never match; "inner", "left outer",
"full outer" keep all left columns and drop the right key columns, "right outer" keeps all right columns and drops the
left key columns; in a full outer join the left key columns of a right-only row carry the right key values; equal
column names are NOT disambiguated -/
def tableJoin (t : JoinType) (lk rk ls rs : List Col) (L R : Table) : Table :=
  joinGen (matchesK lk rk)
    (fun l r => match t with
      | .right => dropCols lk l ++ r
      | _ => l ++ dropCols rk r)
    (fun l => l ++ nulls (rs.filter (fun c => decide (c ∉ rk))))
    (fun r => match t with
      | .right => nulls (ls.filter (fun c => decide (c ∉ lk))) ++ r
      | _ => lk.zip (keyOf rk r) ++ nulls (ls.filter (fun c => decide (c ∉ lk))) ++ dropCols rk r)
    t L R

end ArrowSem

namespace ArrowMerge
open Rel

def rightIndexName : Col := "mloda_right_index"

def missingKey : String := "ArrowInvalid: No match or multiple matches for key field reference"

/-- `PyArrowMergeEngine.join_logic` (a key column that is not a column of its table makes pyarrow raise) -/
def joinLogic (t : JoinType) (lk rk ls rs : List Col) (L R : Table) : Except String Table :=
  if ¬ ((∀ c ∈ lk, c ∈ ls) ∧ (∀ c ∈ rk, c ∈ rs)) then .error missingKey
  else if lk.length > 1 ∨ rk.length > 1 then
    .ok (ArrowSem.tableJoin t lk rk ls rs L R)
  else
    match lk, rk with
    | [a], [b] =>
      if a ≠ b then
        -- "PyArrow drops the index column in all cases": a copy of the right key is appended and joined on
        if rightIndexName ∈ rs then .error "Column name mloda_right_index already exists in right_data."
        else
          let R' := R.map (fun r => r ++ [(rightIndexName, cell r b)])
          .ok (ArrowSem.tableJoin t [a] [rightIndexName] ls (rs ++ [rightIndexName]) L R')
      else .ok (ArrowSem.tableJoin t [a] [b] ls rs L R)
    | _, _ => .error "IndexError"

/-- `PyArrowMergeEngine.merge` -/
def merge (t : JoinType) (lk rk ls rs : List Col) (L R : Table) : Except String Table :=
  match t with
  | .append => if ls = rs then .ok (L ++ R) else .error "Schemas of the tables do not match for append operation."
  | .union => .error "JoinType union are not yet implemented PyArrowMergeEngine"
  | t => joinLogic t lk rk ls rs L R

end ArrowMerge
