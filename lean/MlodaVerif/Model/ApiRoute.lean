/-! `ApiInputDataCollection.get_name_cls_by_matching_column_name`: the first registered key (dict insertion order) whose
column list contains the feature name; `none` = ValueError. -/
namespace ApiRoute

abbrev Registry := List (String × List String)

def route (reg : Registry) (col : String) : Option String :=
  (reg.find? (fun kv => kv.2.contains col)).map (·.1)

/-- `setup_key_class` / `register`: duplicate key names are rejected -/
def register (reg : Registry) (key : String) (cols : List String) : Option Registry :=
  if reg.any (fun kv => kv.1 == key) then none else some (reg ++ [(key, cols)])

/-- no column is listed under two different keys -/
def DisjointCols (reg : Registry) : Prop :=
  ∀ a ∈ reg, ∀ b ∈ reg, ∀ c, c ∈ a.2 → c ∈ b.2 → a = b

end ApiRoute
