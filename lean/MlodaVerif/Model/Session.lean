/-! C07 - model of session reuse.

Anchors in /repo (pinned):
* `mlodaAPI.run / stream_run / _batch_run / _setup_engine_runner / _enter_runner_context`  -> `step`
* `Engine.compute` (deep copy of the execution plan, new `ExecutionOrchestrator`)            -> `Cfg.copyPlan`, `Cfg.freshRunner`
* `ExecutionOrchestrator.__enter__` (`if api_data: set_api_data`), `compute`, `compute_stream` -> `enter`, `execSteps`
* `mlodaAPI.__init__` (`deepcopy(requested_features) if copy_features`), `_process_features`   -> `apiInit`
* `Engine.add_feature_link_to_links` (writes into the caller's `links` set)                    -> `addFeatureLinks`
* `GlobalFilter.identity_matched_filters / add_filter_to_collection`,
  `ExecutionPlan.add_single_filters_to_feature_set`                                           -> `prepareGF`

The three mechanisms the property names are switches of `Cfg`; `Cfg.asIs` is the code that exists.  The variants exist only
to state (and prove by witness) that each mechanism is needed. -/

namespace Session

abbrev Table := List Int

instance decEqExcept {ε α : Type} [DecidableEq ε] [DecidableEq α] : DecidableEq (Except ε α)
  | .ok a, .ok b => if h : a = b then isTrue (by rw [h]) else isFalse (by intro h'; cases h'; exact h rfl)
  | .error a, .error b => if h : a = b then isTrue (by rw [h]) else isFalse (by intro h'; cases h'; exact h rfl)
  | .ok _, .error _ => isFalse (by intro h; cases h)
  | .error _, .ok _ => isFalse (by intro h; cases h)

/-- run-time api data `{"K": {"v": v, "flag": flag}}`; `empty` is `{}` (falsy in `if api_data:`) -/
inductive ApiData where
  | empty
  | data (v : List Int) (flag : List Int)
  deriving DecidableEq, Repr

def ApiData.truthy : ApiData → Bool
  | .empty => false
  | .data _ _ => true

inductive Err where
  | apiMissing      -- `CfwManager.get_api_data_by_name`: ValueError("No api data set.")
  | flagRaised      -- the generated group raises on the flag carried in api_data
  | missingInput    -- a derived step whose source produced nothing
  | premature       -- result collected before the step ran: stale `step_is_done` (only reachable on an aliased plan)
  | noResults       -- `get_results`: ValueError("No results found")
  deriving DecidableEq, Repr

inductive Kind where
  | static (t : Table)               -- root group with constant data
  | apiRoot                          -- the api-data root step (ApiDataFeatureGroup): needs api data on the CfwManager
  | api (add : Int)                  -- consumes api columns v, flag: returns v + add; raises if some flag = 1
  | derived (src : Nat) (add : Int)  -- column of step `src` + add
  deriving DecidableEq, Repr

structure Step where
  id : Nat
  kind : Kind
  requested : Bool     -- the step's feature set carries `initial_requested_data`
  done : Bool          -- `step.step_is_done`, written by the run
  deriving DecidableEq, Repr

abbrev Plan := List Step

inductive Mode where
  | sync | threading
  deriving DecidableEq, Repr

/-- the per-run state: `CfwManager.api_data`, `DataLifecycleManager.result_data_collection`, compute-framework data -/
structure Orch where
  apiData : Option ApiData
  results : List (Nat × Table)
  env : List (Nat × Table)
  deriving DecidableEq, Repr

def Orch.fresh : Orch := { apiData := none, results := [], env := [] }

def stepValue (s : Step) (o : Orch) : Except Err Table :=
  match s.kind with
  | .static t => .ok t
  | .apiRoot =>
    match o.apiData with
    | some (.data v _) => .ok v
    | _ => .error .apiMissing
  | .api add =>
    match o.apiData with
    | some (.data v flag) => if flag.any (· == 1) then .error .flagRaised else .ok (v.map (· + add))
    | _ => .error .apiMissing
  | .derived src add =>
    match o.env.lookup src with
    | none => .error .missingInput
    | some t => .ok (t.map (· + add))

/-- The orchestrator loop over the (topologically ordered) plan.  `limit` = number of results after which a streaming
consumer stops pulling (`none` = run to the end).  Returns the plan with its `done` flags as left behind, the final
state and the error that aborted the run, if any. -/
def execSteps (mode : Mode) (limit : Option Nat) : List Step → Orch → List Step × Orch × Option Err
  | [], o => ([], o, none)
  | s :: ss, o =>
    if limit.any (fun k => o.results.length ≥ k) then (s :: ss, o, none)     -- generator abandoned
    else if s.done && mode == .threading then (s :: ss, o, some .premature)
    else match stepValue s o with
      | .error e => (s :: ss, o, some e)
      | .ok t =>
        let o' : Orch := { o with env := (s.id, t) :: o.env,
                                  results := if s.requested then o.results ++ [(s.id, t)] else o.results }
        let r := execSteps mode limit ss o'
        ({ s with done := true } :: r.1, r.2.1, r.2.2)

/-- switches for the three mechanisms named by the property -/
structure Cfg where
  copyPlan : Bool      -- `Engine.compute` deep-copies the plan
  freshRunner : Bool   -- a new orchestrator (result collection, CfwManager) per run
  keepStored : Bool    -- a run does not overwrite `self.api_data`
  deriving DecidableEq, Repr

def Cfg.asIs : Cfg := { copyPlan := true, freshRunner := true, keepStored := true }

structure Sess where
  plan : Plan
  stored : Option ApiData      -- `self.api_data` (argument of `prepare`)
  runner : Option Orch         -- `self.runner`
  deriving DecidableEq, Repr

/-- `mloda.prepare(...)` for a plan the planner produced -/
def prepare (plan : Plan) (stored : Option ApiData) : Sess := { plan := plan, stored := stored, runner := none }

inductive Consumer where
  | exhaust                -- `list(gen)`
  | closeAfter (k : Nat)   -- take k items, then `gen.close()`
  | raiseAfter (k : Nat)   -- take k items, then the consumer raises (`gen.throw`)
  deriving DecidableEq, Repr

def Consumer.limit : Consumer → Option Nat
  | .exhaust => none
  | .closeAfter k => some k
  | .raiseAfter k => some k

inductive Op where
  | run (d : Option ApiData) (mode : Mode)
  | stream (d : Option ApiData) (mode : Mode) (c : Consumer)
  deriving DecidableEq, Repr

inductive Outcome where
  | tables (ts : List (Nat × Table))                        -- return value of `run`
  | streamed (ts : List (Nat × Table)) (err : Option Err)   -- what the consumer received, error raised out of the generator
  | raised (e : Err)
  deriving DecidableEq, Repr

/-- `_api_data = api_data if api_data is not None else self.api_data` -/
def effective (d stored : Option ApiData) : Option ApiData :=
  match d with
  | some a => some a
  | none => stored

/-- `ExecutionOrchestrator.__enter__`: `if api_data: self.cfw_register.set_api_data(api_data)` -/
def enter (o : Orch) (d : Option ApiData) : Orch :=
  match d with
  | some a => if a.truthy then { o with apiData := some a } else o
  | none => o

def newRunner (cfg : Cfg) (s : Sess) : Orch := if cfg.freshRunner then Orch.fresh else s.runner.getD Orch.fresh

def Op.data : Op → Option ApiData
  | .run d _ => d
  | .stream d _ _ => d

/-- one call on the session -/
def step (cfg : Cfg) (s : Sess) (op : Op) : Sess × Outcome :=
  let dEff := effective op.data s.stored
  let o := enter (newRunner cfg s) dEff
  let s1 (plan' : Plan) : Sess :=
    { s with plan := if cfg.copyPlan then s.plan else plan', stored := if cfg.keepStored then s.stored else dEff }
  match op with
  | .run _ mode =>
    let r := execSteps mode none s.plan o
    match r.2.2 with
    | some e => (s1 r.1, .raised e)                       -- exception propagates before `self.runner = runner`
    | none =>
      if r.2.1.results.isEmpty then ({ s1 r.1 with runner := some r.2.1 }, .raised .noResults)
      else ({ s1 r.1 with runner := some r.2.1 }, .tables r.2.1.results)
  | .stream _ mode c =>
    let r := execSteps mode c.limit s.plan o
    let items := match c.limit with
      | some k => r.2.1.results.take k
      | none => r.2.1.results
    match r.2.2, c with
    | none, .exhaust => ({ s1 r.1 with runner := some r.2.1 }, .streamed items none)   -- `self.runner = runner` after the loop
    | e, _ => (s1 r.1, .streamed items e)

/-- a whole history on one session: the outcomes in order -/
def runHistory (cfg : Cfg) : Sess → List Op → List Outcome
  | _, [] => []
  | s, op :: ops => let r := step cfg s op; r.2 :: runHistory cfg r.1 ops

/-- the session object after a history -/
def runSess (cfg : Cfg) : Sess → List Op → Sess
  | s, [] => s
  | s, op :: ops => runSess cfg (step cfg s op).1 ops

/-- Specification: what a *fresh* session (`mloda.prepare` / `run_all` with equal arguments and this call's effective
api data) returns for the same call. -/
def runSpec (plan : Plan) (stored : Option ApiData) (op : Op) : Outcome :=
  let d := effective op.data stored
  (step Cfg.asIs (prepare plan d) (match op with | .run _ m => .run d m | .stream _ m c => .stream d m c)).2

/-- plans as the planner hands them over: nothing executed yet -/
def Plan.pristine (p : Plan) : Bool := p.all (fun s => !s.done)

/-! ## the caller's argument objects -/

/-- a `Feature` object as the caller can observe it -/
structure Feature where
  name : Nat
  opts : List (Nat × Nat)         -- options (key ↦ value)
  requested : Bool                -- `initial_requested_data`
  link : Option Nat               -- `feature.link`
  deriving DecidableEq, Repr

def apiKey : Nat := 0             -- the "ApiInputData" options key

/-- `_process_features` on one feature object: sets the flag, adds the api-input option when api data was given -/
def processFeature (hasApi : Bool) (f : Feature) : Feature :=
  { f with requested := true,
           opts := if hasApi && !(f.opts.any (·.1 == apiKey)) then f.opts ++ [(apiKey, 1)] else f.opts }

/-- `mlodaAPI.__init__`: returns (the caller's list as it is afterwards, the list the engine works on).
`_requested_features = deepcopy(requested_features) if copy_features else requested_features` -/
def apiInit (copyFeatures hasApi : Bool) (caller : List Feature) : List Feature × List Feature :=
  let worked := caller.map (processFeature hasApi)
  (if copyFeatures then caller else worked, worked)

/-- `Engine.add_feature_link_to_links` for every planned feature: `self.links.add(feature.link)` on the caller's set
(when the caller passed a set; `links=None` creates a private one) -/
def addFeatureLinks (links : Option (List Nat)) (feats : List Feature) : Option (List Nat) :=
  feats.foldl (fun ls f => match f.link, ls with
    | none, ls => ls
    | some l, none => some [l]
    | some l, some ls => some (if ls.contains l then ls else ls ++ [l])) links

/-! ## object identity: what `deepcopy(requested_features)` shares with the caller

Feature objects live in a heap (object id = position).  Option values are data, handles that cannot be deep-copied
(connections, locks, generators: `Options.__deepcopy__` keeps exactly that value by reference) or references to nested
Feature objects (`in_features`).  The engine writes into every object it can reach from the features it was handed
(flag, compute frameworks, merged child options, `child_options`). -/

inductive OVal where
  | scalar (n : Nat)
  | handle (h : Nat)            -- not deep-copyable: kept by reference, never written by the engine
  | feats (ids : List Nat)      -- nested Feature objects
  deriving DecidableEq, Repr

structure FObj where
  name : Nat
  opts : List (Nat × OVal)
  touched : Bool                -- the engine wrote into this object
  deriving DecidableEq, Repr

abbrev Heap := List FObj

def shiftVal (n : Nat) : OVal → OVal
  | .feats ids => .feats (ids.map (· + n))
  | v => v

/-- `Options.__deepcopy__` as coded: per key, deep copy the value, fall back to the same object for that key only.
The copy of object `i` of an `n`-object graph is object `i + n`. -/
def copyObj (n : Nat) (o : FObj) : FObj := { o with opts := o.opts.map (fun kv => (kv.1, shiftVal n kv.2)) }

def hasHandle (o : FObj) : Bool := o.opts.any (fun kv => match kv.2 with | .handle _ => true | _ => false)

/-- the variant in which one un-copyable value makes the whole options dict fall back to a shallow copy -/
def copyObjWhole (n : Nat) (o : FObj) : FObj := if hasHandle o then o else copyObj n o

/-- `deepcopy` of the caller's whole object graph: originals stay at `0 … n-1`, copies are appended -/
def deepcopyHeap (perKey : Bool) (h : Heap) : Heap := h ++ h.map (if perKey then copyObj h.length else copyObjWhole h.length)

def refsOf (h : Heap) (i : Nat) : List Nat :=
  match h[i]? with
  | some o => o.opts.flatMap (fun kv => match kv.2 with | .feats ids => ids | _ => [])
  | none => []

def touchAt : Nat → Heap → Heap
  | _, [] => []
  | 0, o :: os => { o with touched := true } :: os
  | i + 1, o :: os => o :: touchAt i os

/-- the engine's writes: everything reachable (within `fuel` levels) from the objects it was handed -/
def touch : Nat → List Nat → Heap → Heap
  | 0, _, h => h
  | fuel + 1, roots, h =>
    let h' := roots.foldl (fun h i => touchAt i h) h
    touch fuel (roots.flatMap (refsOf h')) h'

/-- one API call with `copy_features=True` on the caller's objects `h`, requesting the objects `roots`:
the caller's objects afterwards -/
def callerAfterCall (perKey : Bool) (fuel : Nat) (h : Heap) (roots : List Nat) : Heap :=
  (touch fuel (roots.map (· + h.length)) (deepcopyHeap perKey h)).take h.length

/-! ## a `GlobalFilter` object shared between calls -/

/-- what `SingleFilter.__eq__` compares once the filter feature has been enriched: name, compute framework and options
of the filter feature, filter type + parameter (one id) -/
structure SFilter where
  name : Nat
  fw : Nat
  opts : Nat
  spec : Nat
  deriving DecidableEq, Repr

/-- a filter as the user added it: feature name and (type, parameter) id -/
structure UFilter where
  name : Nat
  spec : Nat
  deriving DecidableEq, Repr

abbrev CollKey := Nat × Nat      -- (feature group, name of the *filtered* feature)

/-- `GlobalFilter.collection` is a dict `key ↦ set of SingleFilter`.  The model stores it as the list of (key, filter)
pairs in insertion order: the set at a key is `setAt`, the dict's key order is the order of first occurrence (`keys`). -/
abbrev Coll := List (CollKey × SFilter)

structure GF where
  filters : List UFilter       -- `GlobalFilter.filters` (never written by planning)
  collection : Coll            -- `GlobalFilter.collection` (written by every planning that is handed this object)
  deriving DecidableEq, Repr

/-- one call's request as far as filters are concerned: compute framework, options id, requested (group, name) pairs -/
structure Req where
  fw : Nat
  opts : Nat
  feats : List (Nat × Nat)
  deriving DecidableEq, Repr

/-- names each group answers for (`match_feature_group_criteria`) -/
abbrev Groups := List (List Nat)

def groupNames (w : Groups) (g : Nat) : List Nat := (w[g]?).getD []

/-- `identity_matched_filters`: deep copies of the user's filters that the group matches, enriched with the feature's
options and compute framework -/
def matched (w : Groups) (filters : List UFilter) (g : Nat) (fw opts : Nat) : List SFilter :=
  (filters.filter (fun u => (groupNames w g).contains u.name)).map (fun u => { name := u.name, fw := fw, opts := opts, spec := u.spec })

/-- `add_filter_to_collection`: create the key's set if needed, then `set.add` -/
def addToCollection (c : Coll) (kf : CollKey × SFilter) : Coll := if c.contains kf then c else c ++ [kf]

def setAt (c : Coll) (k : CollKey) : List SFilter := (c.filter (fun e => e.1 == k)).map (·.2)

def keys (c : Coll) : List CollKey := (c.map (·.1)).eraseDups

def sameSet (a b : List SFilter) : Bool := a.all b.contains && b.all a.contains

inductive GfErr where
  | differentFilters    -- ValueError("… has different filters for different features …")
  deriving DecidableEq, Repr

/-- `add_single_filters_to_feature_set` for the feature set of group `g` whose feature names are `names` -/
def relevantOver (c : Coll) (g : Nat) (names : List Nat) : List CollKey → List SFilter → Except GfErr (List SFilter)
  | [], rel => .ok rel
  | k :: ks, rel =>
    if k.1 == g && names.contains k.2 then
      if rel.isEmpty then relevantOver c g names ks (setAt c k)
      else if sameSet rel (setAt c k) then relevantOver c g names ks rel else .error .differentFilters
    else relevantOver c g names ks rel

def relevant (c : Coll) (g : Nat) (names : List Nat) : Except GfErr (List SFilter) := relevantOver c g names (keys c) []

/-- the `add_filter_to_collection` calls of one planning, in order -/
def adds (w : Groups) (filters : List UFilter) (r : Req) : Coll :=
  r.feats.flatMap (fun gn => (matched w filters gn.1 r.fw r.opts).map (fun f => ((gn.1, gn.2), f)))

def groupsOf (r : Req) : List Nat := (r.feats.map (·.1)).eraseDups

/-- names of the features in group `g`'s feature set: the requested ones and the matched filter features -/
def setNames (w : Groups) (filters : List UFilter) (r : Req) (g : Nat) : List Nat :=
  ((r.feats.filter (fun gn => gn.1 == g)).map (·.2)) ++ ((matched w filters g r.fw r.opts).map (·.name))

/-- per feature set, the filters that will be applied -/
def planFilters (w : Groups) (filters : List UFilter) (c : Coll) (r : Req) : List Nat → Except GfErr (List (Nat × List SFilter))
  | [] => .ok []
  | g :: gs =>
    match relevant c g (setNames w filters r g) with
    | .error e => .error e
    | .ok fs => match planFilters w filters c r gs with
      | .error e => .error e
      | .ok rest => .ok ((g, fs) :: rest)

/-- planning one request with the (caller-owned) GlobalFilter: the filter object afterwards, and the plan's filters -/
def prepareGF (w : Groups) (gf : GF) (r : Req) : GF × Except GfErr (List (Nat × List SFilter)) :=
  let c := (adds w gf.filters r).foldl addToCollection gf.collection
  ({ gf with collection := c }, planFilters w gf.filters c r (groupsOf r))

end Session
