import MlodaVerif.Model.Sched
import MlodaVerif.Model.OptGroup
/-! # The link-free planner core: `ExecutionPlan.run_feature_group`

For one feature-group class the planner (1) groups the features by similarity key (`OptGroup.groupBy`, C15), (2) splits each
group into dependency levels (`OptGroup.splitLevels`), and (3) makes one FeatureGroupStep per level whose required uuids are
`retrieve_nodes_which_must_be_calculated_before` = the union of `parent_to_children_mapping[f]` (all ancestors) over the
level's features (plus the link uuids, none here).  `buckets` are the groups of (1) in the order they are visited. -/
namespace PlanCore
open Sched OptGroup

def stepsOfBucket (anc : Nat → List Nat) (ids : List Nat) : List Step :=
  (splitLevels ids anc).map fun L => { outs := L, req := (L.flatMap anc).eraseDups, kind := .fg }

def planCore (anc : Nat → List Nat) (buckets : List (List Nat)) : Plan :=
  buckets.flatMap (stepsOfBucket anc)

end PlanCore
