/-! # Bookkeeping of workers and of uploaded datasets (C09)

* `WorkerManager`: `tasks` (every thread / process ever handed to `start`), `join_all` in the `finally` of `compute`.
* per compute-framework object: `children_if_root`, `already_calculated_children_tracker`, the dataset key it holds after
  an upload (`self.data` is then the key string), `add_already_calculated_children_and_drop_if_possible`.
* the run-level clean-up added by the `fix:` commit: when `compute` ends (return or raise) every key of the run's
  compute-framework objects is dropped from the flight store.
-/
namespace Store

/-! ### workers -/

structure WM where
  tasks : List Nat := []      -- `self.tasks`, in order of creation
  live  : List Nat := []      -- started and not yet ended

/-- `self.tasks.append(task); task.start()` - the task is registered *before* it is started -/
def spawn (w : WM) (t : Nat) (startRaises : Bool) : WM :=
  { tasks := w.tasks ++ [t], live := if startRaises then w.live else w.live ++ [t] }

/-- `join_all`: every task is terminated (processes) and joined inside its own try/except; a failing join sets a flag
and the loop goes on; the flag is raised after the loop.  `joinFails t` = terminate/join of t raises. -/
def joinAll (w : WM) (joinFails : Nat → Bool) : WM × Bool :=
  ({ w with live := w.live.filter (fun t => !(decide (t ∈ w.tasks)) || joinFails t) }, w.tasks.any joinFails)

inductive Outcome where
  | returned | raised
  deriving DecidableEq, Repr

/-- `compute`: the loop spawns workers and ends by returning or raising; `finally: self.join()` runs in both cases -/
def compute (spawns : List (Nat × Bool)) (loop : Outcome) (joinFails : Nat → Bool) : WM × Outcome :=
  let w := spawns.foldl (fun w ts => spawn w ts.1 ts.2) ({} : WM)
  let (w', failed) := joinAll w joinFails
  (w', if loop = .raised then .raised else if failed then .raised else .returned)

/-! ### datasets of one compute-framework object -/

structure Cfw where
  children  : List Nat              -- `children_if_root`
  tracker   : List Nat := []        -- `already_calculated_children_tracker`
  dataKey   : Option Nat := none    -- `some k`: `self.data` is the key of a dataset in the flight store
  objectIds : Nat := 0              -- `len(self.object_ids)`
  deriving Repr

inductive Drop where
  | dropped (key : Option Nat)      -- returned True; `drop_last_data` removed `key` (if the data was a key)
  | pending                         -- returned `children_if_root` (something was uploaded, not everything calculated)
  | no                              -- returned False
  deriving DecidableEq, Repr

def upload (c : Cfw) (k : Nat) : Cfw := { c with dataKey := some k, objectIds := c.objectIds + 1 }

/-- `add_already_calculated_children_and_drop_if_possible(children)` -/
def report (c : Cfw) (ch : List Nat) : Cfw × Drop :=
  let t := c.tracker ++ ch.filter (fun x => decide (x ∉ c.tracker))
  if c.children.all (fun x => decide (x ∈ t)) then ({ c with tracker := t, dataKey := none }, .dropped c.dataKey)
  else if c.objectIds > 0 then ({ c with tracker := t }, .pending)
  else ({ c with tracker := t }, .no)

def reports (c : Cfw) (rs : List (List Nat)) : Cfw := rs.foldl (fun c r => (report c r).1) c

/-! ### the flight store over a whole run -/

structure Run where
  keys  : List Nat := []     -- keys of this run's compute-framework objects (`executor.cfw_collection`)
  store : List Nat := []     -- content of the flight store

inductive SEv where
  | register (k : Nat)       -- a compute-framework object with uuid k is created
  | upload (k : Nat)         -- `upload_finished_data`: key = the object's own uuid
  | drop (k : Nat)           -- `drop_last_data` on the object holding key k
  deriving DecidableEq, Repr

def sstep (r : Run) : SEv → Run
  | .register k => { r with keys := if k ∈ r.keys then r.keys else r.keys ++ [k] }
  | .upload k => if k ∈ r.keys then { r with store := if k ∈ r.store then r.store else r.store ++ [k] } else r
  | .drop k => { r with store := r.store.filter (· ≠ k) }

def srun (r : Run) (evs : List SEv) : Run := evs.foldl sstep r

/-- `_drop_remaining_flight_data` in the `finally` of `compute` / `compute_stream` (the repaired behaviour) -/
def finalDrop (r : Run) : Run := { r with store := r.store.filter (fun k => decide (k ∉ r.keys)) }

end Store
