import MlodaVerif.Model.Options
/-! # `__eq__` / `__hash__` of the identity-carrying classes (C15), as coded

For every class `X` the model gives `X.eq : … → Except IdErr Bool` (Python `a == b`, which *raises* for some
argument pairs) and `X.hashVal : X → PyVal`, the value whose built-in hash `X.__hash__` returns
(`hash((a, b, c))` is a function of `hash(a), hash(b), hash(c)`, and `hash(options)` is `hash(_make_hashable(group))`,
so `hash(feature)` *is* `hash` of the tuple of the parts' hash values — `hashVal` is that tuple).
The built-in `hash` itself is an abstract function that respects `==` (see `Props/C15.lean`). -/

open PyVal (pyEq pyNe truthy hashable hashableL mh sortKV item)
open PyDict

inductive IdErr where
  | domainCompare   -- Domain.__eq__ with a non-Domain raises ValueError
  deriving DecidableEq, Repr

/-- `a and b` on possibly raising operands (short circuit) -/
def andE (a : Except IdErr Bool) (b : Unit → Except IdErr Bool) : Except IdErr Bool :=
  match a with
  | .ok true => b ()
  | other => other

/-- `Optional[Domain] == Optional[Domain]`: `Domain.__eq__` raises when the other side is `None` (also reflected) -/
def domainEq : Option String → Option String → Except IdErr Bool
  | none, none => .ok true
  | some a, some b => .ok (a == b)
  | _, _ => .error .domainCompare

def cfwVal : Option (List Nat) → PyVal
  | none => .none
  | some l => .frozenset (l.map .obj)

def optStrVal : Option String → PyVal
  | none => .none
  | some s => .str s

def optObjVal : Option Nat → PyVal
  | none => .none
  | some n => .obj n

/-- what `Feature.__eq__` / `__hash__` read -/
structure FeatureId where
  name : String
  options : Options
  domain : Option String
  cfw : Option (List Nat)     -- `compute_frameworks`: `None` or a set of framework classes
  dtype : Option Nat          -- `data_type`: `None` or a `DataType` member
  child : Option Options      -- `child_options`
  deriving Repr, Inhabited

namespace FeatureId

/-- the rewrite `Feature.__hash__` applies to a deep copy of `child_options` before hashing it: when
`child_options.get(in_features)` is truthy and is a `frozenset`, **every** `Feature` element in iteration order
overwrites `group[in_features]` with its name (last one wins); a single `Feature` value does the same. The value is
found in group *or context* (`Options.get`), the write always goes to `group`. -/
def rewriteGroup (k : String) : PyVal → PyDict → PyDict
  | .frozenset l, g => l.foldl (fun g x => match x with | .feat n _ => g.set k (.str n) | _ => g) g
  | .feat n _, g => g.set k (.str n)
  | _, g => g

def childRewrite (co : Options) : Options :=
  let k := Gen.OptionConsts.inFeaturesKey
  let v := co.get k
  if truthy v then { co with group := rewriteGroup k v co.group } else co

def childEq : Option Options → Option Options → Bool
  | none, none => true
  | some a, some b => a.eq b
  | _, _ => false

/-- `Feature.__eq__` (both sides Features) -/
def eq (a b : FeatureId) : Except IdErr Bool :=
  andE (.ok (a.name == b.name)) fun _ =>
  andE (.ok (a.options.eq b.options)) fun _ =>
  andE (.ok (pyEq (.dict a.options.context) (.dict b.options.context))) fun _ =>
  andE (domainEq a.domain b.domain) fun _ =>
  andE (.ok (pyEq (cfwVal a.cfw) (cfwVal b.cfw))) fun _ =>
  andE (.ok (a.dtype == b.dtype)) fun _ =>
  .ok (childEq a.child b.child)

def childVal : Option Options → PyVal
  | none => .none
  | some co => (childRewrite co).hashVal

/-- `(self.name, self.options, self.domain, compute_frameworks_hashable, self.data_type, child_options)` -/
def hashVal (a : FeatureId) : PyVal :=
  .tuple [.str a.name, a.options.hashVal, optStrVal a.domain, cfwVal a.cfw, optObjVal a.dtype, childVal a.child]

/-- the value whose hash is `base_similarity_properties()` = `hash(base_similarity_key())` -/
def baseVal (a : FeatureId) : PyVal := .tuple [a.options.hashVal, cfwVal a.cfw]

/-- the value whose hash is `has_similarity_properties()` = `hash(similarity_key())` -/
def simVal (a : FeatureId) : PyVal :=
  match a.dtype with
  | some t => .tuple [a.options.hashVal, cfwVal a.cfw, .obj t]
  | none => baseVal a

/-- `base_similarity_key()` = `(self.options, compute_frameworks_hashable)` as a value under `==`: tuple equality is
element-wise, `Options.__eq__` compares the group dictionaries -/
def baseKey (a : FeatureId) : PyVal := .tuple [.dict a.options.group, cfwVal a.cfw]

/-- `similarity_key()`: with a declared type the type joins the tuple -/
def simKey (a : FeatureId) : PyVal :=
  match a.dtype with
  | some t => .tuple [.dict a.options.group, cfwVal a.cfw, .obj t]
  | none => baseKey a

/-- the `Feature.__hash__` rewrite leaves these child options alone: `get(in_features)` is falsy, or neither a
`Feature` nor a frozenset holding one -/
def featFreeVal : PyVal → Bool
  | .feat _ _ => false
  | .frozenset l => l.all (fun x => match x with | .feat _ _ => false | _ => true)
  | _ => true

def featFree : Option Options → Bool
  | none => true
  | some co => featFreeVal (co.get Gen.OptionConsts.inFeaturesKey)

end FeatureId

/-- `Index`: `.index` is a tuple of column names (any hashable tuple); `__eq__` between Index objects compares it,
`__hash__` hashes it -/
structure IndexId where
  index : PyVal
  deriving Repr, Inhabited

namespace IndexId
def eq (a b : IndexId) : Bool := pyEq a.index b.index
def hashVal (a : IndexId) : PyVal := a.index
end IndexId

/-- `JoinSpec(feature_group, index)`: class identity and index -/
structure JoinSpecId where
  fg : Nat
  index : IndexId
  deriving Repr, Inhabited

namespace JoinSpecId
def eq (a b : JoinSpecId) : Bool := a.fg == b.fg && a.index.eq b.index
def hashVal (a : JoinSpecId) : PyVal := .tuple [.obj a.fg, a.index.hashVal]
end JoinSpecId

/-- `Link`: `__eq__` / `__hash__` read the join type, the two class *names* and the two indexes (aliases, uuid and
class identity are ignored by both) -/
structure LinkId where
  jointype : Nat
  leftName : String
  rightName : String
  leftIndex : IndexId
  rightIndex : IndexId
  deriving Repr, Inhabited

namespace LinkId
def eq (a b : LinkId) : Bool :=
  a.jointype == b.jointype && a.leftName == b.leftName && a.rightName == b.rightName
    && a.leftIndex.eq b.leftIndex && a.rightIndex.eq b.rightIndex
def hashVal (a : LinkId) : PyVal :=
  .tuple [.obj a.jointype, .str a.leftName, .str a.rightName, a.leftIndex.hashVal, a.rightIndex.hashVal]
end LinkId

/-- `FilterParameterImpl.from_dict(params)`: `_raw = tuple(sorted(params.items()))` — values are *not* made hashable;
frozen dataclass: `__eq__` compares `(_raw,)`, `__hash__` is `hash((_raw,))` (raises for unhashable values) -/
structure FilterParamId where
  raw : PyVal
  deriving Repr, Inhabited

namespace FilterParamId
def fromDict (d : PyDict) : FilterParamId := ⟨.tuple ((sortKV d).map item)⟩
def eq (a b : FilterParamId) : Bool := pyEq (.tuple [a.raw]) (.tuple [b.raw])
def hashVal (a : FilterParamId) : PyVal := .tuple [a.raw]
/-- `hash(p)` does not raise -/
def hashOk (a : FilterParamId) : Bool := hashable a.hashVal
end FilterParamId

/-- `SingleFilter`: `(filter_feature, filter_type, parameter)` -/
structure SingleFilterId where
  feature : FeatureId
  ftype : String
  param : FilterParamId
  deriving Repr, Inhabited

namespace SingleFilterId
def eq (a b : SingleFilterId) : Except IdErr Bool :=
  andE (a.feature.eq b.feature) fun _ =>
  andE (.ok (a.ftype == b.ftype)) fun _ =>
  .ok (a.param.eq b.param)
def hashVal (a : SingleFilterId) : PyVal := .tuple [a.feature.hashVal, .str a.ftype, a.param.hashVal]
end SingleFilterId

/-- `HashableDict` -/
structure HashableDictId where
  data : PyDict
  deriving Repr, Inhabited

namespace HashableDictId
def eq (a b : HashableDictId) : Bool := pyEq (.dict a.data) (.dict b.data)
def hashVal (a : HashableDictId) : PyVal := mh (.dict a.data)
end HashableDictId
