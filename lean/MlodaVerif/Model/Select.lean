/-! C03 - model of result-column selection.

Anchors in /repo (pinned):
* `ComputeFramework.identify_naming_convention`            -> `selectedSet`, `identify`
* `PyArrowTable/PandasDataFrame/PythonDictFramework.select_data_by_column_names` -> `selectCols`, `selectDictRows`
* `FeatureGroup.get_column_base_feature / set_feature_name` -> `baseName`, `setFeatureName`
* `mlodaAPI._process_features` (flag) + `Engine._process_feature / add_feature_to_collection /
  _add_filter_feature / _add_index_feature`                -> `processFeature`, `processRequest`
* `FeatureSet.get_initial_requested_features`, `DataLifecycleManager.add_to_result_data_collection` -> `stepTable`, `results`

Names are lists of Unicode code points (`List Nat`): Python compares and sorts `str` by code point, `"~"` is 126.
Python sets whose iteration order the code observes are lists in iteration order passed in by the caller. -/

namespace Select

abbrev Name := List Nat

/-- code point of `"~"` -/
def tilde : Nat := 126

/-- Python `a <= b` on `str` (lexicographic on code points) -/
def lexLe : Name → Name → Bool
  | [], _ => true
  | _ :: _, [] => false
  | a :: as, b :: bs => decide (a < b) || (a == b && lexLe as bs)

/-- `col.startswith(f"{q}~")` -/
def hasPre (q c : Name) : Bool := (q ++ [tilde]).isPrefixOf c

/-- the test of both loops of `identify_naming_convention`: `col == q or col.startswith(f"{q}~")` -/
def matchesQ (q c : Name) : Bool := c == q || hasPre q c

inductive ColOrder where
  | unordered      -- `ordering is None`
  | alphabetical
  | requestOrder
  deriving DecidableEq, Repr

instance decEqExcept {ε α : Type} [DecidableEq ε] [DecidableEq α] : DecidableEq (Except ε α)
  | .ok a, .ok b => if h : a = b then isTrue (by rw [h]) else isFalse (by intro h'; cases h'; exact h rfl)
  | .error a, .error b => if h : a = b then isTrue (by rw [h]) else isFalse (by intro h'; cases h'; exact h rfl)
  | .ok _, .error _ => isFalse (by intro h; cases h)
  | .error _, .ok _ => isFalse (by intro h; cases h)

inductive Err where
  | invalidOrdering   -- ValueError("Invalid ordering value …") / ValueError("column_ordering must be …")
  | noColumns         -- ValueError("No columns found that match feature names …")
  | emptyData         -- PythonDictFramework: ValueError("Data cannot be empty")
  | noGroup           -- prepare: no / several feature groups for a feature name
  | duplicate         -- `Features.__init__`: the same feature (string) twice in one request
  | fuel              -- model artefact: recursion budget exhausted (never returned for well-founded graphs)
  deriving DecidableEq, Repr

/-- the guard at the top of `identify_naming_convention` (and of `mlodaAPI.__init__`) -/
def parseOrder : Option String → Except Err ColOrder
  | none => .ok .unordered
  | some "alphabetical" => .ok .alphabetical
  | some "request_order" => .ok .requestOrder
  | some _ => .error .invalidOrdering

/-- `_selected_feature_names` after the double loop.  It is a Python `set`; the model lists it in the order of `cols`
(its real iteration order is only observable with `ordering=None`, where results are compared as sets). -/
def selectedSet (req cols : List Name) : List Name :=
  cols.filter (fun c => req.any (fun q => matchesQ q c))

/-- insertion into a sorted list -/
def insertName (a : Name) : List Name → List Name
  | [] => [a]
  | b :: bs => if lexLe a b then a :: b :: bs else b :: insertName a bs

/-- `sorted(…)` / `list.sort()` on strings.  Python's sort returns *the* sorted permutation (unique for the distinct
strings of a set); the model computes it by insertion sort (structural recursion, so closed instances reduce). -/
def sortNames (l : List Name) : List Name := l.foldr insertName []

/-- the block appended for one feature in the `request_order` branch -/
def block (sel : List Name) (q : Name) : List Name := sortNames (sel.filter (matchesQ q))

/-- `identify_naming_convention(selected_feature_names, column_names, ordering)`;
`req` = `list(selected_feature_names)` (iteration order of the set of `FeatureName`), `cols` = `list(column_names)`. -/
def identify (req cols : List Name) (o : ColOrder) : Except Err (List Name) :=
  let sel := selectedSet req cols
  if sel.isEmpty then .error .noColumns
  else match o with
    | .unordered => .ok sel
    | .alphabetical => .ok (sortNames sel)
    | .requestOrder => .ok (req.flatMap (block sel))

inductive Fw where
  | pyarrow | pandas | pythonDict
  deriving DecidableEq, Repr

/-- column names of the table returned by `select_data_by_column_names` for data whose column set is `cols`.
`pa.Table.select(list)` and `df[list]` keep the list as is (duplicates included); the python-dict comprehension
`{k: … for k in sel if k in record}` keeps the first occurrence of each key. -/
def selectCols (fw : Fw) (req cols : List Name) (o : ColOrder) : Except Err (List Name) :=
  match fw with
  | .pyarrow | .pandas => identify req cols o
  | .pythonDict => (identify req cols o).map List.eraseDups

/-- union of the rows' keys in first-occurrence order (`column_names.update(row.keys())`) -/
def unionKeys (rows : List (List Name)) : List Name := (rows.flatten).eraseDups

/-- `PythonDictFramework.select_data_by_column_names` on ragged rows (each row = its key list): key list of every
returned row. `colsOrder` is the iteration order of the `column_names` set built by the function. -/
def selectDictRows (rows : List (List Name)) (req : List Name) (o : ColOrder) : Except Err (List (List Name)) :=
  if rows.isEmpty then .error .emptyData
  else (identify req (unionKeys rows) o).map (fun sel => rows.map (fun r => (sel.filter (fun k => r.contains k)).eraseDups))

/-- the functions as called, ordering argument still a Python value: the guard is the first statement of
`identify_naming_convention`, i.e. it runs *after* the python-dict framework's empty-data check -/
def identifyRaw (req cols : List Name) (o : Option String) : Except Err (List Name) :=
  match parseOrder o with
  | .error e => .error e
  | .ok o => identify req cols o

def selectColsRaw (fw : Fw) (req cols : List Name) (o : Option String) : Except Err (List Name) :=
  match parseOrder o with
  | .error e => .error e
  | .ok o => selectCols fw req cols o

def selectDictRowsRaw (rows : List (List Name)) (req : List Name) (o : Option String) : Except Err (List (List Name)) :=
  if rows.isEmpty then .error .emptyData
  else match parseOrder o with
    | .error e => .error e
    | .ok o => selectDictRows rows req o

/-! ## sub-column normalisation -/

/-- `column_name.split("~")[0]` -/
def baseName (n : Name) : Name := n.takeWhile (fun ch => ch != tilde)

/-- `FeatureGroup.set_feature_name` (default implementation) -/
def setFeatureName (supported : List Name) (n : Name) : Name :=
  let b := baseName n
  if b != n && supported.contains b then b else n

/-! ## which features carry `initial_requested_data` -/

/-- what `Feature.__eq__` can distinguish in the modelled scenario (no options, no data types, no domain, one compute
framework): the (normalised) name and whether `child_options` is set (dependencies created by `Features(…, child_options=…)`
have it, request / filter / index features do not). `requested` = `initial_requested_data`, not part of equality. -/
structure Feat where
  name : Name
  child : Bool
  requested : Bool
  deriving DecidableEq, Repr

/-- one entry of `Engine.feature_group_collection`: (feature group id, feature) -/
abbrev Entry := Nat × Feat

def sameFeat (a b : Entry) : Bool := a.1 == b.1 && a.2.name == b.2.name && a.2.child == b.2.child

/-- `add_feature_to_collection`: `if feature not in feature_collection: add` (returns the new collection and `added`) -/
def addEntry (coll : List Entry) (e : Entry) : List Entry × Bool :=
  if coll.any (sameFeat e) then (coll, false) else (coll ++ [e], true)

structure GroupSpec where
  criteria : List Name                  -- base names on which `match_feature_group_criteria` answers True
  supported : List Name                 -- `feature_names_supported()` (what `set_feature_name` consults)
  parents : List (Name × List Name)     -- base name of a derived feature ↦ names returned by `input_features` (in `list(set)` order)
  index : List Name                     -- first column of every index of the group that a link of the request refers to ([] without links)
  deriving Repr

structure World where
  groups : List GroupSpec
  filters : List Name                   -- names of the global filter's features (in `GlobalFilter.filters` order)
  deriving Repr

/-- `IdentifyFeatureGroupClass` reduced to the modelled scenario: the unique group whose `feature_names_supported`
criteria accept the base name (`match_feature_group_criteria`); none / several = ValueError at prepare time. -/
def owner (w : World) (n : Name) : Except Err Nat :=
  match (List.range w.groups.length).filter (fun i => match w.groups[i]? with
      | some g => g.criteria.contains (baseName n) | none => false) with
  | [i] => .ok i
  | _ => .error .noGroup

def parentsOf (g : GroupSpec) (n : Name) : List Name :=
  match g.parents.find? (fun p => p.1 == baseName n) with
  | some p => p.2
  | none => []

/-- the auxiliary (non-requested, non-child) features `_add_filter_feature` and `_add_index_feature` add when any
feature of group `g` is processed -/
def auxNames (w : World) (g : GroupSpec) : List Name :=
  ((w.filters.filter (fun f => g.criteria.contains (baseName f))).map (setFeatureName g.supported)) ++
  (g.index.map (setFeatureName g.supported))

def addAll (coll : List Entry) (es : List Entry) : List Entry := es.foldl (fun c e => (addEntry c e).1) coll

/-- `Engine._process_feature` (with the recursion of `_handle_input_features_recursion`); `fuel` bounds the depth. -/
def processFeature (w : World) : Nat → List Entry → Feat → Except Err (List Entry)
  | 0, _, _ => .error .fuel
  | fuel + 1, coll, f =>
    match owner w f.name with
    | .error e => .error e
    | .ok gid =>
      match w.groups[gid]? with
      | none => .error .noGroup
      | some g =>
        let f' : Feat := { f with name := setFeatureName g.supported f.name }
        let (coll1, added) := addEntry coll (gid, f')
        let rec' : Except Err (List Entry) :=
          if added then
            (parentsOf g f'.name).foldlM (fun c p => processFeature w fuel c { name := p, child := true, requested := false }) coll1
          else .ok coll1
        match rec' with
        | .error e => .error e
        | .ok coll2 =>
          .ok (addAll coll2 ((auxNames w g).map (fun n => (gid, { name := n, child := false, requested := false }))))

/-- `mlodaAPI._process_features` (flag every request feature) followed by `Engine.setup_features_recursion` -/
def processRequest (w : World) (fuel : Nat) (req : List Name) : Except Err (List Entry) :=
  req.foldlM (fun c q => processFeature w fuel c { name := q, child := false, requested := true }) []

/-- `mlodaAPI.__init__`: `Features(requested)` rejects a request naming the same feature twice, then plans it -/
def prepareRequest (w : World) (fuel : Nat) (req : List Name) : Except Err (List Entry) :=
  if req.eraseDups.length != req.length then .error .duplicate else processRequest w fuel req

/-- `FeatureSet.get_initial_requested_features` of group `gid` (as a duplicate-free list; the real object is a set) -/
def flaggedOf (coll : List Entry) (gid : Nat) : List Name :=
  ((coll.filter (fun e => e.1 == gid && e.2.requested)).map (fun e => e.2.name)).eraseDups

/-! ## splitting a feature group's features into feature sets (`ExecutionPlan.group_features_by_compute_framework_and_options`)

Every feature set becomes its own `FeatureGroupStep` with its own result table, so "each requested feature appears in
exactly one returned table" needs every feature to land in exactly one feature set. -/

/-- a planned feature as the grouping sees it: options (an id; the compute framework is folded into it) and declared type -/
structure TFeat where
  name : Name
  opt : Nat
  dtype : Option Nat
  deriving DecidableEq, Repr

/-- one entry of `hash_collector`: key `(options, data type or none)` ↦ features -/
abbrev Bucket := (Nat × Option Nat) × List TFeat

/-- first pass, `hash_collector[feature.similarity_key()].add(feature)` (dict in insertion order) -/
def insertBucket : List Bucket → (Nat × Option Nat) → TFeat → List Bucket
  | [], k, f => [(k, [f])]
  | b :: bs, k, f => if b.1 == k then (b.1, b.2 ++ [f]) :: bs else b :: insertBucket bs k f

/-- second pass for one feature without declared type: join the FIRST bucket with equal options (`break`), else open a
bucket under the base key -/
def joinFirst : List Bucket → TFeat → List Bucket
  | [], f => [((f.opt, none), [f])]
  | b :: bs, f => if b.1.1 == f.opt then (b.1, b.2 ++ [f]) :: bs else b :: joinFirst bs f

/-- the variant without the `break`: join EVERY bucket with equal options -/
def joinAll (bs : List Bucket) (f : TFeat) : List Bucket :=
  if bs.any (fun b => b.1.1 == f.opt) then bs.map (fun b => if b.1.1 == f.opt then (b.1, b.2 ++ [f]) else b)
  else bs ++ [((f.opt, none), [f])]

/-- `fs` = the feature set in iteration order -/
def groupByType (fs : List TFeat) : List Bucket :=
  let typed := fs.filter (fun f => f.dtype.isSome)
  let untyped := fs.filter (fun f => !f.dtype.isSome)
  untyped.foldl joinFirst (typed.foldl (fun bs f => insertBucket bs (f.opt, f.dtype) f) [])

def groupByTypeAll (fs : List TFeat) : List Bucket :=
  let typed := fs.filter (fun f => f.dtype.isSome)
  let untyped := fs.filter (fun f => !f.dtype.isSome)
  untyped.foldl joinAll (typed.foldl (fun bs f => insertBucket bs (f.opt, f.dtype) f) [])

/-! ## per-step selection (`DataLifecycleManager.add_to_result_data_collection`) -/

structure Step where
  flagged : List Name    -- `list(features.get_initial_requested_features())`, iteration order
  cols : List Name       -- column names of the compute framework's data when the step has finished
  deriving Repr

/-- `none` = the step contributes no table (`if not initial_requested_features: return`) -/
def stepTable (fw : Fw) (o : ColOrder) (s : Step) : Except Err (Option (List Name)) :=
  if s.flagged.isEmpty then .ok none else (selectCols fw s.flagged s.cols o).map some

/-- column names of the tables of `get_results()` for the steps in completion order -/
def results (fw : Fw) (o : ColOrder) : List Step → Except Err (List (List Name))
  | [] => .ok []
  | s :: ss =>
    match stepTable fw o s with
    | .error e => .error e
    | .ok t =>
      match results fw o ss with
      | .error e => .error e
      | .ok ts => .ok (match t with | some t => t :: ts | none => ts)

end Select
