import MlodaVerif.Model.Links
/-! C10 - model of "feature → one admissible feature group and compute framework".

Anchors (pinned /repo):
* `mloda/core/api/prepare/setup_compute_framework.py`     (`SetupComputeFramework`)
* `mloda/core/prepare/accessible_plugins.py`              (`PreFilterPlugins`)
* `.../components/plugin_option/plugin_collector.py`      (`PluginCollector.applicable_feature_group_class`)
* `mloda/core/prepare/identify_feature_group.py`          (`_filter_loop`, `filter_subclasses`, `validate`, `get`)
* `mloda/core/core/engine.py`                             (`set_compute_framework`), `Feature.get_compute_framework`
* `mloda/core/abstract_plugins/feature_group.py`          (`compute_framework_definition`, `get_domain`, `index_columns`)
* `mloda/core/api/plugin_docs.py`                         (`resolve_feature`, `_filter_subclasses`)

A class universe is a list of `FG` records *in the iteration order of the Python set / dict the code walks* (class hashes
are addresses, so any order can occur); compute frameworks are `Nat` ids, framework sets are lists whose order is the
set's iteration order.  `crit` is the value of `match_feature_group_criteria` for the feature at hand. -/

namespace Resolve
open Links (Index)

abbrev Cls := Nat
abbrev Cfw := Nat

/-- one feature-group class as seen by the resolver for one feature -/
structure FG where
  id : Cls
  /-- `match_feature_group_criteria(feature.name, feature.options, data_access_collection)` -/
  crit : Bool
  /-- `get_domain().name` -/
  domain : String
  /-- `compute_framework_rule()`: `none` = `True` (no restriction), `some s` = the returned set -/
  rule : Option (List Cfw)
  /-- `index_columns()` -/
  indexCols : Option (List Index)
  deriving DecidableEq, Repr

structure World where
  /-- single inheritance among the feature-group classes (`none` = direct subclass of `FeatureGroup`) -/
  parent : Cls → Option Cls
  /-- `get_all_subclasses(ComputeFramework)` -/
  allCfw : List Cfw
  /-- `cfw.is_available()` -/
  available : Cfw → Bool

structure Collector where
  disabled : List Cls
  enabled : List Cls
  deriving Repr

/-- the resolver-relevant part of a `Feature` -/
structure Feature where
  /-- `feature.domain` (`None` when neither `domain=` nor `options["domain"]` is set / is empty) -/
  domain : Option String
  /-- `feature.compute_frameworks = {cf}` when the user named one, else `None` -/
  cfw : Option Cfw
  deriving DecidableEq, Repr

inductive Err where
  | noApiFramework          -- SetupComputeFramework: "No given compute frameworks … found"
  | featureFrameworkNotOffered  -- SetupComputeFramework: "Feature … has compute frameworks … not in …"
  | noAccessibleGroups      -- PreFilterPlugins: "No accessible feature groups found."
  | noGroup                 -- validate: "No feature groups found for feature name"
  | multipleGroups          -- validate: "Multiple feature groups found"
  | featureFrameworkUnsupported -- Engine.set_compute_framework: "does not support compute framework"
  deriving DecidableEq, Repr

instance instDecEqExcept {ε α : Type} [DecidableEq ε] [DecidableEq α] : DecidableEq (Except ε α) := fun a b =>
  match a, b with
  | .ok x, .ok y => if h : x = y then isTrue (by rw [h]) else isFalse (fun e => by injection e; contradiction)
  | .error x, .error y => if h : x = y then isTrue (by rw [h]) else isFalse (fun e => by injection e; contradiction)
  | .ok _, .error _ => isFalse (fun e => by cases e)
  | .error _, .ok _ => isFalse (fun e => by cases e)

/-! ## `issubclass` on feature groups (same MRO derivation as C18) -/

def World.isSub (W : World) (c p : Cls) : Bool := (Links.mroAux W.parent c c).contains p

/-! ## framework sets -/

def subsetL (a b : List Cfw) : Bool := a.all (fun c => b.contains c)
/-- Python set equality of two framework sets -/
def setEq (a b : List Cfw) : Bool := subsetL a b && subsetL b a

/-! ## `SetupComputeFramework` -/

/-- `api`: `none` = `None`; entries are framework ids, ids outside `allCfw` stand for unknown names / foreign classes.
`requested`: the feature-level framework of each requested feature.  An empty list/set is falsy → no restriction. -/
def setupComputeFramework (W : World) (api : Option (List Cfw)) (requested : List (Option Cfw)) :
    Except Err (List Cfw) :=
  let avail : Except Err (List Cfw) :=
    match api with
    | none => .ok W.allCfw
    | some [] => .ok W.allCfw
    | some l =>
      let r := W.allCfw.filter (fun c => l.contains c)
      if r.isEmpty then .error .noApiFramework else .ok r
  match avail with
  | .error e => .error e
  | .ok a =>
    if requested.any (fun r => match r with | some c => !a.contains c | none => false)
    then .error .featureFrameworkNotOffered else .ok a

/-! ## `PluginCollector`, `PreFilterPlugins` -/

def applicable : Option Collector → Cls → Bool
  | none, _ => true
  | some pc, c =>
    if pc.disabled.contains c then false
    else if pc.enabled.isEmpty then true
    else pc.enabled.contains c

/-- `compute_framework_definition()` -/
def definition (W : World) (fg : FG) : List Cfw :=
  match fg.rule with
  | none => W.allCfw
  | some s => s

/-- `_set_compute_frameworks`: the engine's frameworks ∩ available subclasses -/
def usableCfws (W : World) (cfws : List Cfw) : List Cfw :=
  cfws.filter (fun c => W.allCfw.contains c && W.available c)

/-- one entry of `accessible_plugins` -/
def accessibleOne (W : World) (cfws : List Cfw) (fg : FG) : List Cfw :=
  (definition W fg).filter (fun c => (usableCfws W cfws).contains c)

/-- `PreFilterPlugins(...).get_accessible_plugins()`; `fgs` = all loaded FeatureGroup subclasses in set order -/
def accessiblePlugins (W : World) (pc : Option Collector) (fgs : List FG) (cfws : List Cfw) :
    Except Err (List (FG × List Cfw)) :=
  let acc := fgs.filter (fun fg => applicable pc fg.id)
  if acc.isEmpty then .error .noAccessibleGroups
  else .ok (acc.map (fun fg => (fg, accessibleOne W cfws fg)))

/-! ## `IdentifyFeatureGroupClass` -/

def domainOk (f : Feature) (fg : FG) : Bool :=
  match f.domain with
  | none => true
  | some d => fg.domain == d

def frameworkOk (f : Feature) (cfws : List Cfw) : Bool :=
  match f.cfw with
  | none => true
  | some c => cfws.contains c

/-- `_filter_feature_group_by_links`: links are the (left index, right index) pairs of the link set -/
def linksOk (fg : FG) (links : Option (List (Index × Index))) : Bool :=
  match fg.indexCols, links with
  | none, _ => true
  | some _, none => true
  | some cols, some ls =>
    ls.any (fun l => Links.supportsIndexOf (some cols) l.1 == some true || Links.supportsIndexOf (some cols) l.2 == some true)

/-- the body of the `_filter_loop` for one `(feature_group, compute_frameworks)` item -/
def keep (f : Feature) (links : Option (List (Index × Index))) (p : FG × List Cfw) : Bool :=
  p.1.crit && domainOk f p.1 && frameworkOk f p.2 && linksOk p.1 links && !p.2.isEmpty

def filterLoop (f : Feature) (links : Option (List (Index × Index))) (acc : List (FG × List Cfw)) :
    List (FG × List Cfw) := acc.filter (keep f links)

/-- `o` is popped: some other identified class with an *equal* framework set is a subclass of it -/
def popped (W : World) (ident : List (FG × List Cfw)) (o : FG × List Cfw) : Bool :=
  ident.any (fun i => setEq i.2 o.2 && i.1.id != o.1.id && W.isSub i.1.id o.1.id)

/-- `filter_subclasses` -/
def filterSubclasses (W : World) (ident : List (FG × List Cfw)) : List (FG × List Cfw) :=
  ident.filter (fun o => !popped W ident o)

/-- `validate` + `get` -/
def validate : List (FG × List Cfw) → Except Err (FG × List Cfw)
  | [] => .error .noGroup
  | [p] => .ok p
  | _ :: _ :: _ => .error .multipleGroups

def identify (W : World) (f : Feature) (links : Option (List (Index × Index))) (acc : List (FG × List Cfw)) :
    Except Err (FG × List Cfw) :=
  validate (filterSubclasses W (filterLoop f links acc))

/-- `Engine.set_compute_framework`: a feature-level framework stays, otherwise the group's accessible set is taken -/
def setComputeFramework (f : Feature) (cfws : List Cfw) : Except Err (List Cfw) :=
  match f.cfw with
  | some c => if cfws.contains c then .ok [c] else .error .featureFrameworkUnsupported
  | none => .ok cfws

/-- `Feature.get_compute_framework()`: `next(iter(set))` - the head of the set in *its* iteration order -/
def getComputeFramework (iterOrder : List Cfw) : Option Cfw := iterOrder.head?

/-- the engine's path for one requested feature: accessible plugins → identify → framework set of the feature -/
def resolve (W : World) (pc : Option Collector) (fgs : List FG) (cfws : List Cfw) (f : Feature)
    (links : Option (List (Index × Index))) : Except Err (FG × List Cfw) :=
  match accessiblePlugins W pc fgs cfws with
  | .error e => .error e
  | .ok acc =>
    match identify W f links acc with
    | .error e => .error e
    | .ok (fg, fws) =>
      match setComputeFramework f fws with
      | .error e => .error e
      | .ok s => .ok (fg, s)

/-! ## `plugin_docs.resolve_feature` (the steward API's own resolver) -/

/-- `_filter_subclasses` of plugin_docs: a class is dropped when any other candidate is a subclass of it -/
def docFilterSubclasses (W : World) (cands : List FG) : List FG :=
  cands.filter (fun o => !cands.any (fun i => i.id != o.id && W.isSub i.id o.id))

inductive DocOutcome where
  | none | one (c : Cls) | multiple (cs : List Cls)
  deriving DecidableEq, Repr

def resolveFeatureDoc (W : World) (fgs : List FG) : DocOutcome :=
  let cands := fgs.filter (·.crit)
  if cands.isEmpty then .none
  else match docFilterSubclasses W cands with
    | [c] => .one c.id
    | l => .multiple (l.map (·.id))

/-- universe of the negation witnesses: two frameworks 0,1 (both loaded and available); class 1 derives from class 0 -/
def witnessWorld : World := { parent := fun c => if c = 1 then some 0 else none, allCfw := [0, 1], available := fun _ => true }

/-! ## The property's own wording (`Spec`) -/

namespace Spec

/-- frameworks admissible for the feature on this group: API argument ∩ group rule ∩ feature setting ∩ availability -/
def admissibleCfws (W : World) (cfws : List Cfw) (f : Feature) (fg : FG) : List Cfw :=
  (definition W fg).filter (fun c => cfws.contains c && W.allCfw.contains c && W.available c &&
    (match f.cfw with | none => true | some r => r == c))

/-- the group is admissible for the feature: name/options, domain, an allowed framework, collector (and, where links are
given, index support) -/
def admissible (W : World) (pc : Option Collector) (cfws : List Cfw) (f : Feature)
    (links : Option (List (Index × Index))) (fg : FG) : Bool :=
  applicable pc fg.id && fg.crit && domainOk f fg && !(admissibleCfws W cfws f fg).isEmpty && linksOk fg links

end Spec

end Resolve
