import MlodaVerif.Model.Exec
import MlodaVerif.Model.Store
import MlodaVerif.Model.CfwReg
/-! # What a step reads and writes, statement by statement (C06, extension `steps`)

`Exec` (C01/C02/C06) treats a step as two events on its compute-framework object: a snapshot of `cfw.data` at `begin`
and a write-back at `finish`.  This file models the code that implements that protocol, at the granularity of the
individual reads and writes of `cfw.data` / `from_cfw.data` (Python file : lines of /repo at the time of writing):

* `FeatureGroupStep.execute` / `run_calculate_feature` (`mloda/core/core/step/feature_group_step.py` 41-70) and
  `ComputeFramework.run_calculation` (`mloda/core/abstract_plugins/compute_framework.py` 168-207):
  `Op.apiWrite` 173-174 (`if data is not None: self.data = data`), `Op.valIn` 176 / 244-257 (`run_validate_input_features`),
  `Op.read` 180 / 350-357 (`run_calculate_feature`: `self.data` is evaluated and handed to `calculate_feature`),
  `Op.call` (the group's `calculate_feature` - a parameter - followed by `run_final_filter` 181 / 209-221 on its result),
  185-190 the `isinstance` test: `Op.write` 190 (`self.data = data`) or 188 `self.data = self.transform(data, names)` whose
  reads are `Op.trCheck` / `Op.trMut` / `Op.trRead` (`PandasDataFrame.transform` 82, 85, 86:
  `feature_name in self.data.columns`, `self.data[feature_name] = data`, `return self.data`) resp. `Op.trMut`
  (`PyArrowTable.transform` 69 `self.data.append_column(..)`), `Op.setCols` 192 (`set_column_names`),
  `Op.valOut` 194 / 259-276 + `validate_expected_framework` 297-313 (read only).
* `TransformFrameworkStep.execute` (`transform_frame_work_step.py` 57-80): `Op.tGet` 69 (`from_cfw.get_data()`),
  `Op.tCols` 70 (`from_cfw.get_column_names()`), `Op.tConv` 72 (`transform`: the table's content is read here),
  `Op.tSet` 74 (`cfw.set_data(data)`), `Op.setCols` 75.
* `JoinStep.execute` (`join_step.py` 51-70): `Op.jGet` 62 / 87 (`from_cfw.get_data()`), `Op.jRead` 40-42 (right-hand side
  of `cfw.data = merge(cfw.data, from_cfw_data, ..)`: `cfw.data` is read and the merge computed), `Op.jWrite` (the
  assignment of the same statement), `Op.setCols` 43.
* the orchestrator's own accesses after a feature-group step is done (`run.py` 227-233): `Op.collect`
  (`DataLifecycleManager.get_result_data` 110-131: `cfw.data` is read, the requested columns are selected) and `Op.report`
  (`_drop_data_if_possible` 237-253, in-process branch: `add_already_calculated_children_and_drop_if_possible` =
  `Store.report`; `drop_last_data` sets `cfw.data = None`).
* MULTIPROCESSING: the worker's command loop (`multiprocessing_worker.py` 66-162) with the count-based upload test
  (`compute_framework.py` 202) - section "worker processes" below.

**Objects and identity.** `cfw.data` holds a *reference*.  An in-place group (`data[c] = ..; return data`) and the pandas
Series path (`self.data[name] = series`) change the object every holder of the reference sees; a new-table group builds a new
object.  `Obj.cells` is the list of table objects a compute-framework object has ever held (or that were mutated through
it), `Val.ref k` the k-th of them; a table that a step has built but not yet stored anywhere lives in the step's registers
(`Local.res`).  A transform step between two frameworks of the same data type hands the very same object on in the real code
(`return data`); the model copies it (observable only with a user-defined second framework on a mutable type - none ships
with mloda; recorded as an assumption of the harness).

**Threads.** A step is an agent with a program (`prog`); a schedule is a list of step ids, each entry lets that step execute
its next `Op` (`mstep`).  SYNC = every step's entries are adjacent; THREADING = any interleaving the orchestrator allows;
nothing is atomic beyond a single `Op`.  Consecutive reads of `self.data` inside one read-only function (the validators,
`set_column_names`) are one `Op`.

Tables are `Exec`'s association lists column ↦ value (first entry wins), `Exec.lookup`. -/

namespace StepExec
open Exec (lookup)

abbrev Table (V : Type) := List (Nat × V)

/-- behaviour class of the compute-framework object: which `transform` / `set_column_names` it has -/
inductive Fw where
  | pandas | pyarrow | pydict
  deriving DecidableEq, Repr, Inhabited

/-- what a `data` attribute (or the worker's `data` variable) holds -/
inductive Val where
  | none                -- `None`
  | ref (k : Nat)       -- the k-th table object of this compute-framework object
  | key                 -- MULTIPROCESSING: the `str` object id returned by `upload_finished_data`
  deriving DecidableEq, Repr, Inhabited

inductive Err where
  | noneData        -- a table operation met `None` (AttributeError / TypeError)
  | calcRaised      -- `calculate_feature` raised (also the KeyError → "missing Links" ValueError of `run_calculate_feature`)
  | dupColumn       -- pandas `transform`: "Feature … already exists in the dataframe"
  | notOneFeature   -- "Only one feature can be added at a time"
  | badType         -- `transform`: "Data <type> is not supported by …" (a bare column on PythonDict, a key string, …)
  | validator       -- `validate_input_features` / `validate_output_features` returned something other than None / True
  | apiNotNone      -- `get_api_input_data`: "Data is not None, but api_input_data is not False"
  | selectEmpty     -- `identify_naming_convention`: "No columns found that match feature names …"
  | notImplemented  -- `get_result_data`: data is None and there is no location
  | notFound        -- MULTIPROCESSING: download of a key that is not in the flight store
  | noConversion    -- "No transformation path found" / a transformer raised
  | mergeRaised     -- the merge engine raised
  deriving DecidableEq, Repr, Inhabited

/-- how the group's `calculate_feature` hands its result back -/
inductive Style where
  | fresh     -- builds and returns a new table (the table it was handed plus its columns)
  | inplace   -- adds its columns to the object it was handed and returns that object
  | column    -- returns only the new column (pd.Series / pa.Array); `ComputeFramework.transform` adds it
  deriving DecidableEq, Repr, Inhabited

inductive Op where
  | apiWrite | valIn | read | call | trCheck | trMut | trRead | trFail | write | setCols | valOut
  | collect | report
  | tGet | tCols | tConv | tSet
  | jGet | jRead | jWrite
  deriving DecidableEq, Repr, Inhabited

/-- one compute-framework object -/
structure Obj (V : Type) where
  fw        : Fw := .pyarrow
  cells     : List (Table V) := []      -- the table objects it has held
  data      : Val := .none              -- `self.data`
  colNames  : List Nat := []            -- `self.column_names`
  children  : List Nat := []            -- `children_if_root`
  tracker   : List Nat := []            -- `already_calculated_children_tracker`
  objectIds : Nat := 0                  -- `len(self.object_ids)`

/-- a step: the static part (which objects, which behaviour) and the parameter functions -/
structure Desc (V : Type) where
  kind      : Sched.Kind := .fg
  obj       : Nat                          -- the object handed in as `cfw` (the only one the step writes)
  src       : Nat                          -- `from_cfw` (transform / join steps; = obj for feature-group steps)
  style     : Style := .fresh
  outs      : List Nat := []               -- `features.get_all_names()` = the columns the group adds
  fn        : Option (Table V) → Option (Table V) := fun _ => some []   -- the NEW columns; `none` = it raises
  api       : Option (Table V) := none     -- api input data handed in through the `data` argument
  valIn     : Table V → Bool := fun _ => true
  valOut    : Table V → Bool := fun _ => true
  equalFw   : Bool := false                -- transform step: both sides have the same `expected_data_framework()`
  cv        : Table V → Option (Table V) := some          -- the transformer chain (`none` = no path / it raises)
  merge     : Table V → Table V → Option (Table V) := fun l r => some (l ++ r)
  requested : List Nat := []               -- names of the initially requested features of the FeatureSet
  reports   : Bool := false                -- the orchestrator reports the step's features to the object afterwards
  feats     : List Nat := []               -- uuids of the step's features (what is reported)

/-- registers of a running step -/
structure Local (V : Type) where
  pc     : Nat := 0
  err    : Option Err := none
  x      : Val := .none                    -- the reference read for `calculate_feature` / from `from_cfw.get_data()`
  y      : Val := .none                    -- the reference read by `return self.data` / the left data of a join
  res    : Option (Table V) := none        -- a table built by the step and not yet stored in an object
  fcols  : List Nat := []                  -- `from_cfw.get_column_names()`
  result : Option (Table V) := none        -- what the orchestrator collected for the step

structure MSt (V : Type) where
  objs : List (Obj V) := []
  locs : List (Local V) := []

variable {V : Type}

def tableAt (o : Obj V) : Val → Option (Table V)
  | .ref k => o.cells[k]?
  | _ => none

def colsOf (t : Table V) : List Nat := t.map (·.1)

/-- `self.data = <a new table object>` -/
def storeNew (o : Obj V) (t : Table V) : Obj V := { o with cells := o.cells ++ [t], data := .ref o.cells.length }

/-- `set_column_names` (pandas / pyarrow: `set(self.data.columns)`; PythonDict: the union of the rows' keys - rows are
assumed non-empty, see the harness assumptions) -/
def setCols (o : Obj V) : Except Err (Obj V) :=
  match tableAt o o.data with
  | some t => .ok { o with colNames := colsOf t }
  | none => .error (if o.data = .key then .badType else .noneData)

/-- the program of a step; the path after `calculate_feature` follows the object's class (it is `self.transform`) -/
def prog (fw : Fw) (d : Desc V) : List Op :=
  match d.kind with
  | .fg =>
    (if d.api.isSome then [Op.apiWrite] else []) ++ [.valIn, .read, .call] ++
    (match d.style, fw with
     | .column, .pandas => [.trCheck, .trMut, .trRead, .write]
     | .column, .pyarrow => [.trMut, .write]
     | .column, .pydict => [.trFail]
     | _, _ => [.write]) ++ [.setCols, .valOut] ++
    (if d.requested.isEmpty then [] else [.collect]) ++ (if d.reports then [.report] else [])
  | .tfs => [.tGet, .tCols, .tConv, .tSet, .setCols]
  | .join => [.jGet, .jRead, .jWrite, .setCols]

/-- one `Op` of step `d` with registers `l` on its object `o` (`s` = the object it only reads) -/
def exec (d : Desc V) (op : Op) (l : Local V) (o s : Obj V) : Except Err (Local V × Obj V) :=
  match op with
  | .apiWrite =>
    match d.api with
    | some t => .ok (l, storeNew o t)
    | none => .ok (l, o)
  | .valIn =>
    match o.data with
    | .none => .ok (l, o)
    | v => match tableAt o v with
      | some t => if d.valIn t then .ok (l, o) else .error .validator
      | none => .ok (l, o)                     -- a key string: the default `validate_input_features` accepts anything
  | .read => .ok ({ l with x := o.data }, o)
  | .call =>
    match d.fn (tableAt o l.x) with
    | none => .error .calcRaised
    | some new =>
      match d.style with
      | .fresh => .ok ({ l with res := some (new ++ (tableAt o l.x).getD []) }, o)
      | .column => .ok ({ l with res := some new }, o)
      | .inplace =>
        match l.x with
        | .ref k =>
          match o.cells[k]? with
          | some t => .ok ({ l with res := none }, { o with cells := o.cells.set k (new ++ t) })
          | none => .error .noneData
        | _ => .error .noneData
  | .trCheck =>
    -- pandas: `len(feature_names) == 1`, then `feature_name in self.data.columns`
    match d.outs with
    | [c] =>
      match tableAt o o.data with
      | some t => if c ∈ colsOf t then .error .dupColumn else .ok (l, o)
      | none => .error .noneData
    | _ => .error .notOneFeature
  | .trMut =>
    match o.fw with
    | .pandas =>
      -- `self.data[feature_name] = data`
      match o.data, l.res with
      | .ref k, some new =>
        match o.cells[k]? with
        | some t => .ok (l, { o with cells := o.cells.set k (new ++ t) })
        | none => .error .noneData
      | _, _ => .error .noneData
    | _ =>
      -- pyarrow: `len(feature_names) == 1`, `self.data.append_column(name, data)` builds a new table
      match d.outs with
      | [_] =>
        match tableAt o o.data, l.res with
        | some t, some new => .ok ({ l with res := some (new ++ t) }, o)
        | _, _ => .error .noneData
      | _ => .error .notOneFeature
  | .trRead => .ok ({ l with y := o.data }, o)
  | .trFail => .error .badType
  | .write =>
    match d.style, o.fw with
    | .inplace, _ => .ok (l, { o with data := l.x })
    | .column, .pandas => .ok (l, { o with data := l.y })
    | _, _ =>
      match l.res with
      | some t => .ok ({ l with res := none }, storeNew o t)
      | none => .error .noneData
  | .setCols => (setCols o).map (fun o' => (l, o'))
  | .valOut =>
    match o.data with
    | .none => .ok (l, o)
    | v => match tableAt o v with
      | some t => if d.valOut t then .ok (l, o) else .error .validator
      | none => .ok (l, o)
  | .collect =>
    -- `get_result_data`: the requested columns that exist are selected (no column at all: ValueError)
    match o.data with
    | .none => .error .notImplemented
    | v => match tableAt o v with
      | none => .error .badType
      | some t =>
        let sel := d.requested.filter (fun c => decide (c ∈ colsOf t))
        if sel.isEmpty then .error .selectEmpty
        else .ok ({ l with result := some (sel.filterMap (fun c => (lookup t c).map (fun v => (c, v)))) }, o)
  | .report =>
    let r := Store.report { children := o.children, tracker := o.tracker, objectIds := o.objectIds } d.feats
    match r.2 with
    | .dropped _ => .ok (l, { o with tracker := r.1.tracker, data := .none })
    | _ => .ok (l, { o with tracker := r.1.tracker })
  | .tGet => .ok ({ l with x := s.data }, o)
  | .tCols => .ok ({ l with fcols := s.colNames }, o)
  | .tConv =>
    if d.equalFw then .ok ({ l with res := tableAt s l.x }, o)
    else match tableAt s l.x with
      | none => .error .noneData
      | some t => match d.cv t with
        | none => .error .noConversion
        | some t' => .ok ({ l with res := some t' }, o)
  | .tSet =>
    match l.res with
    | some t => .ok ({ l with res := none }, storeNew o t)
    | none => .ok (l, { o with data := .none })
  | .jGet => .ok ({ l with x := s.data }, o)
  | .jRead =>
    match tableAt o o.data, tableAt s l.x with
    | some tl, some tr => match d.merge tl tr with
      | some t => .ok ({ l with y := o.data, res := some t }, o)
      | none => .error .mergeRaised
    | _, _ => .error .noneData
  | .jWrite =>
    match l.res with
    | some t => .ok ({ l with res := none }, storeNew o t)
    | none => .error .noneData

/-- what the next `Op` of a step does, as a function of the three things it reads: its registers, its object, the object it
only reads -/
inductive Eff (V : Type) where
  | skip                              -- the step has ended or has failed earlier
  | fail (l : Local V)                -- the `Op` raises: the step stops, the object is as it was
  | ok (l : Local V) (o : Obj V)

def effect (d : Desc V) (l : Local V) (o s : Obj V) : Eff V :=
  if l.err.isSome then .skip else
  match (prog o.fw d)[l.pc]? with
  | none => .skip
  | some op =>
    match exec d op l o s with
    | .error e => .fail { l with err := some e }
    | .ok (l', o') => .ok { l' with pc := l.pc + 1 } o'

/-- step `i` executes its next `Op` (nothing happens when it has ended, has failed, or does not exist) -/
def mstep (ds : List (Desc V)) (σ : MSt V) (i : Nat) : MSt V :=
  match ds[i]?, σ.locs[i]? with
  | some d, some l =>
    match σ.objs[d.obj]?, σ.objs[d.src]? with
    | some o, some s =>
      match effect d l o s with
      | .skip => σ
      | .fail l' => { σ with locs := σ.locs.set i l' }
      | .ok l' o' => { objs := σ.objs.set d.obj o', locs := σ.locs.set i l' }
    | _, _ => σ
  | _, _ => σ

def mrun (ds : List (Desc V)) (σ : MSt V) (sched : List Nat) : MSt V := sched.foldl (mstep ds) σ

/-- the number of `Op`s of step i -/
def progLen (ds : List (Desc V)) (σ : MSt V) (i : Nat) : Nat :=
  match ds[i]? with
  | some d => match σ.objs[d.obj]? with
    | some o => (prog o.fw d).length
    | none => 0
  | none => 0

/-- SYNC: the steps of `order` one after the other, each back to back -/
def syncSched (ds : List (Desc V)) (σ : MSt V) (order : List Nat) : List Nat :=
  order.flatMap (fun i => List.replicate (progLen ds σ i) i)

def init (objs : List (Obj V)) (n : Nat) : MSt V := { objs := objs, locs := List.replicate n {} }

/-- the table a compute-framework object currently holds -/
def dataOf (σ : MSt V) (o : Nat) : Option (Table V) :=
  match σ.objs[o]? with
  | some ob => tableAt ob ob.data
  | none => none

def ended (ds : List (Desc V)) (σ : MSt V) (i : Nat) : Bool :=
  match σ.locs[i]? with
  | some l => l.err.isNone && decide (progLen ds σ i ≤ l.pc)
  | none => false

/-! ### which steps may interfere -/

/-- two steps share an object when one of them writes an object the other reads or writes -/
def shares (ds : List (Desc V)) (i j : Nat) : Bool :=
  match ds[i]?, ds[j]? with
  | some a, some b => decide (a.obj = b.obj) || decide (a.obj = b.src) || decide (a.src = b.obj)
  | _, _ => false

/-- the schedule restricted to two steps -/
def proj (l : List Nat) (i j : Nat) : List Nat := l.filter (fun k => decide (k = i) || decide (k = j))

/-- i and j do not overlap in the schedule: all entries of one precede all entries of the other -/
def apart (l : List Nat) (i j : Nat) : Bool :=
  let p := proj l i j
  decide (p = p.filter (· = i) ++ p.filter (· = j)) || decide (p = p.filter (· = j) ++ p.filter (· = i))

/-- no two steps of `steps` that share an object overlap -/
def noSharedOverlap (ds : List (Desc V)) (steps : List Nat) (l : List Nat) : Bool :=
  steps.all fun i => steps.all fun j => decide (i = j) || !shares ds i j || apart l i j

/-- every entry of one step before every entry of the other -/
def allBefore (l : List Nat) (i j : Nat) : Bool := decide (proj l i j = (proj l i j).filter (· = i) ++ (proj l i j).filter (· = j))

/-! ### the upload decision of `run_calculation` (MULTIPROCESSING) -/

/-- `len(self.children_if_root) > len(self.already_calculated_children_tracker) + len(features.features)`:
true = "more steps of this object will follow, keep the data in the worker"; false = upload now -/
def keepCount (children tracker feats : List Nat) : Bool := decide (children.length > tracker.length + feats.length)

/-- the subset test the drop protocol uses (`Store.report` after the step's features are reported): every child of the
object is calculated -/
def allCalculated (children tracker feats : List Nat) : Bool :=
  children.all (fun c => decide (c ∈ tracker) || decide (c ∈ feats))


/-! ### worker processes (MULTIPROCESSING)

One worker process per compute-framework object with a FIFO command queue (`multi_execute_step`, `worker`).  A worker owns a
private copy of its object (pickled when the process is created) and the loop variable `data`; the processes share only the
flight store (one dataset per object, key = the object's uuid) and the manager (`uuid_flyway_datasets`).  Nothing interleaves
inside a process, so a command is one atomic action: `_execute_command` + `_handle_command_result`
(`multiprocessing_worker.py` 66-115) for a step, `_handle_data_dropping` 47-63 for a set of feature uuids.  The orchestrator
reads results back through the store (`get_result_data`: its own copy of the object has `data = None`). -/

/-- everything that exists once per compute-framework object in a MULTIPROCESSING run -/
structure Slot (V : Type) where
  obj     : Obj V := {}                     -- the worker's copy of the object
  dataV   : Val := .none                    -- the loop variable `data` of `worker`
  stored  : Option (Table V) := none        -- the dataset in the flight store under the object's uuid
  flyway  : List Nat := []                  -- `cfw_register.uuid_flyway_datasets[uuid]`
  stopped : Bool := false                   -- the worker left its loop (STOP after the last drop, or an error)
  err     : Option Err := none

structure MDesc (V : Type) extends Desc V where
  needUpload   : Bool := false              -- `FeatureGroupStep.need_to_upload`
  stepChildren : List Nat := []             -- `FeatureGroupStep.children_if_root`
  cvMp         : Table V → Option (Table V) := some   -- transform step on the downloaded (Arrow) table

inductive Cmd where
  | step (i : Nat)        -- the worker of the step's object executes the step
  | collect (i : Nat)     -- the orchestrator's `add_to_result_data_collection` for a done feature-group step
  | drop (i : Nat)        -- the worker executes the drop command `_drop_data_if_possible` put after step i
  deriving DecidableEq, Repr

/-- `upload_finished_data`: `self.data` must be a table (the flight client needs `table.schema`) -/
def upload (w : Slot V) : Except Err (Slot V) :=
  match tableAt w.obj w.obj.data with
  | some t => .ok { w with obj := { w.obj with objectIds := w.obj.objectIds + 1 }, stored := some t }
  | none => .error .badType

def runOps (d : Desc V) (ops : List Op) (l : Local V) (o s : Obj V) : Except Err (Local V × Obj V) :=
  ops.foldlM (fun (acc : Local V × Obj V) op => exec d op acc.1 acc.2 s) (l, o)

/-- a feature-group step as a worker command -/
def mpFG (d : MDesc V) (w : Slot V) : Except Err (Slot V) := do
  -- `get_api_input_data`: "Data is not None, but api_input_data is not False"
  if d.api.isSome && w.dataV != .none then throw .apiNotNone
  -- `run_calculation`: `if data is not None: self.data = data` (api data, or what the previous command returned)
  let ob0 : Obj V := if d.api.isNone && w.dataV != .none then { w.obj with data := w.dataV } else w.obj
  let ops := prog ob0.fw { d.toDesc with requested := [], reports := false }
  let (_, ob1) ← runOps d.toDesc ops {} ob0 ob0
  let w1 : Slot V := { w with obj := ob1 }
  -- the count test: keep the data in the worker, or upload it and keep only the key
  let (w2, ret) ←
    if keepCount ob1.children ob1.tracker d.feats then pure (w1, ob1.data)
    else do
      let w' ← upload w1
      pure ({ w' with obj := { w'.obj with data := .key } }, Val.key)
  -- `FeatureGroupStep.execute`: `if self.need_to_upload: cfw.upload_finished_data(..); add_uuid_flyway_datasets(..)`
  let w3 ← if d.needUpload then (upload w2).map (fun w' => { w' with flyway := d.stepChildren }) else pure w2
  -- `_handle_command_result`: a requested result that is still a table is uploaded
  let w4 ← if ret != .key && !d.requested.isEmpty then upload w3 else pure w3
  pure { w4 with dataV := ret }

/-- a transform step as a worker command; `src` = the slot of the producer object (its dataset is downloaded) -/
def mpTFS (d : MDesc V) (w s : Slot V) : Except Err (Slot V) := do
  let t ← match s.stored with
    | some t => pure t
    | none => throw .notFound
  let t' ← if d.equalFw then pure t else match d.cvMp t with
    | some t' => pure t'
    | none => throw .noConversion
  let ob1 := storeNew w.obj t'
  let ob2 ← setCols ob1
  let w' ← upload { w with obj := ob2 }
  pure { w' with dataV := ob2.data }

/-- a join step as a worker command -/
def mpJoin (d : MDesc V) (w s : Slot V) : Except Err (Slot V) := do
  let tr ← match s.stored with
    | some t => pure t
    | none => throw .notFound
  let tl ← match tableAt w.obj w.obj.data with
    | some t => pure t
    | none => throw .noneData
  let t ← match d.merge tl tr with
    | some t => pure t
    | none => throw .mergeRaised
  let ob2 ← setCols (storeNew w.obj t)
  let w' ← if w.flyway.isEmpty then pure { w with obj := ob2 } else upload { w with obj := ob2 }
  pure { w' with dataV := .none }

structure MPSt (V : Type) where
  slots   : List (Slot V) := []
  results : List (Option (Except Err (Table V))) := []     -- per step: what the orchestrator collected

def mpStepCmd (d : MDesc V) (w s : Slot V) : Except Err (Slot V) :=
  match d.kind with
  | .fg => mpFG d w
  | .tfs => mpTFS d w s
  | .join => mpJoin d w s

/-- `get_result_data` of the orchestrator process: its copy of the object holds no data, the dataset is downloaded -/
def mpCollect (d : MDesc V) (w : Slot V) : Except Err (Table V) :=
  match w.stored with
  | none => .error .notFound
  | some t =>
    let sel := d.requested.filter (fun c => decide (c ∈ colsOf t))
    if sel.isEmpty then .error .selectEmpty
    else .ok (sel.filterMap (fun c => (lookup t c).map (fun v => (c, v))))

/-- `_handle_data_dropping`: the tracker grows; when every child is reported the dataset is dropped and the worker stops -/
def mpDrop (d : MDesc V) (w : Slot V) : Slot V :=
  let r := Store.report { children := w.obj.children, tracker := w.obj.tracker, objectIds := w.obj.objectIds } d.feats
  match r.2 with
  | .dropped _ =>
    { w with obj := { w.obj with tracker := r.1.tracker, data := .none },
             stored := if w.obj.data = .key then none else w.stored, stopped := true }
  | _ => { w with obj := { w.obj with tracker := r.1.tracker } }

def mpCmd (ds : List (MDesc V)) (σ : MPSt V) : Cmd → MPSt V
  | .step i =>
    match ds[i]? with
    | none => σ
    | some d =>
      match σ.slots[d.obj]?, σ.slots[d.src]? with
      | some w, some s =>
        if w.stopped then σ else
        match mpStepCmd d w s with
        | .ok w' => { σ with slots := σ.slots.set d.obj w' }
        | .error e => { σ with slots := σ.slots.set d.obj { w with err := some e, stopped := true } }
      | _, _ => σ
  | .collect i =>
    match ds[i]? with
    | none => σ
    | some d =>
      match σ.slots[d.obj]? with
      | some w => { σ with results := σ.results.set i (some (mpCollect d w)) }
      | none => σ
  | .drop i =>
    match ds[i]? with
    | none => σ
    | some d =>
      match σ.slots[d.obj]? with
      | some w => if w.stopped then σ else { σ with slots := σ.slots.set d.obj (mpDrop d w) }
      | none => σ

def mpRun (ds : List (MDesc V)) (σ : MPSt V) (cmds : List Cmd) : MPSt V := cmds.foldl (mpCmd ds) σ

/-! ### the statement-level run of an `Exec` plan (link-free plan on one shared object)

Every step of the plan is a new-table feature-group step on object 0 whose `calculate_feature` computes the step's
columns with `cfg.compute` from the table it is handed (`None` reads as the empty table, as for the root).  A worker
`begin` event runs the step's statements up to and including the read of `self.data` for `calculate_feature`
(`valIn`, `read`), the `finish` event runs the rest (`call`, `write`, `setCols`, `valOut`). -/

def fgOfCfg (cfg : Exec.Cfg V) (st : Sched.Step) : Desc V :=
  { kind := .fg, obj := 0, src := 0, style := .fresh, outs := st.outs,
    fn := fun t => some (st.outs.map (fun c => (c, cfg.compute c ((cfg.parents c).map (lookup (t.getD [])))))) }

def descsOf (cfg : Exec.Cfg V) (p : Sched.Plan) : List (Desc V) := p.map (fgOfCfg cfg)

structure XSt (V : Type) where
  s : Sched.St := {}
  m : MSt V

def mrunN (ds : List (Desc V)) (σ : MSt V) (i n : Nat) : MSt V := mrun ds σ (List.replicate n i)

def xstep (cfg : Exec.Cfg V) (atomic : Bool) (p : Sched.Plan) (x : XSt V) : Sched.Ev → XSt V
  | .begin i =>
    if atomic && Exec.anyOpen x.s then x
    else
      let s' := Sched.stepEv p x.s (.begin i)
      if i ∈ s'.begun ∧ i ∉ x.s.begun then { s := s', m := mrunN (descsOf cfg p) x.m i 2 } else { x with s := s' }
  | .finish i =>
    let s' := Sched.stepEv p x.s (.finish i)
    if i ∈ s'.done ∧ i ∉ x.s.done then { s := s', m := mrunN (descsOf cfg p) x.m i 4 } else { x with s := s' }
  | ev => { x with s := Sched.stepEv p x.s ev }

def xrun (cfg : Exec.Cfg V) (atomic : Bool) (p : Sched.Plan) (x : XSt V) (evs : List Sched.Ev) : XSt V :=
  evs.foldl (xstep cfg atomic p) x

def xinit (fw : Fw) (p : Sched.Plan) : XSt V := { s := {}, m := init [{ fw := fw }] p.length }

/-- the table the shared object holds (`None` = the empty table) -/
def absStore (σ : MSt V) : Table V := (dataOf σ 0).getD []

/-! ### all interleavings of two programs -/

def interleaveGo (x : Nat) (xs : List Nat) (rest : List Nat → List (List Nat)) : List Nat → List (List Nat)
  | [] => [x :: xs]
  | y :: ys => (rest (y :: ys)).map (x :: ·) ++ (interleaveGo x xs rest ys).map (y :: ·)

/-- all shuffles of two lists (each keeps its own order) -/
def interleave : List Nat → List Nat → List (List Nat)
  | [], ys => [ys]
  | x :: xs, ys => interleaveGo x xs (interleave xs) ys

/-- position (0-based) of the k-th (1-based) entry of step i in the schedule -/
def posOf (l : List Nat) (i k : Nat) : Nat :=
  match l, k with
  | [], _ => 0
  | _, 0 => 0
  | x :: xs, k + 1 => if x = i then (if k = 0 then 0 else 1 + posOf xs i k) else 1 + posOf xs i (k + 1)

end StepExec
