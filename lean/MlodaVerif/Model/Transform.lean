import MlodaVerif.Gen.Transformers
/-! # Model of mloda's framework transformers (C14)

Anchors: `framework_transformer/cfw_transformer.py` (`ComputeFrameworkTransformer.add / initilize_transformer /
get_transformation_chain`), `framework_transformer/base_transformer.py` (`identify_orientation`, `transform`),
`core/step/transform_frame_work_step.py` (`TransformFrameworkStep.transform / get_data / execute`),
`compute_framework.py` (`transform` = `apply_compute_framework_transformer`, `upload_table`,
`convert_flyserver_data_back`).

Conventions
* `F` is the type of *data-framework types* (`pd.DataFrame`, `pa.Table`, `list`, ...); everything is generic in it.
* `transformer_map` is a Python dict; the code looks keys up and, in `TransformFrameworkStep.transform`, *iterates*
  `items()`.  It is a `List ((F × F) × Tr F)` in dict order.  (The dict order follows the iteration order of a *set* of
  classes - `get_all_subclasses` - and so varies between processes; the theorems do not depend on it.)
* What a transformer does to a table (`transform_fw_to_other_fw`, `transform_other_fw_to_fw`) is library code
  (pandas / pyarrow): it is the parameter `sem`.  A value is a table tagged with its run-time type (`Data`);
  a hop applied to a value of the wrong run-time type raises (`illTyped`) - that is how the installed hops behave
  (`pa.Table.from_pandas(<pa.Table>)`, `to_pylist` on a list, ... all raise) and the harness checks it.
* Exceptions are `Except Err`; a hop may also return `None` (`ok none`), which the code passes on unchecked except in
  `apply_compute_framework_transformer`.
-/
namespace Transform

/-! ## abstract tables and the tolerance relation -/

inductive Cell where
  | null | nan
  | int (i : Int)
  | flt (q : Rat)           -- finite non-zero-signed float, exact value
  | negZero | posInf | negInf
  | str (s : String)
  | bool (b : Bool)
  deriving DecidableEq, Repr

structure Col where
  name : String
  cells : List Cell
  deriving DecidableEq, Repr

abbrev Table := List Col

def Cell.nullish : Cell → Bool
  | .null | .nan => true
  | _ => false

def Cell.intOrNullish : Cell → Bool
  | .int _ => true
  | c => c.nullish

/-- null ≡ NaN always; an integer is identified with its exact float value only when `widen` -/
def normCell (widen : Bool) : Cell → Cell
  | .nan => .null
  | .int i => if widen then .flt (i : Rat) else .int i
  | c => c

/-- a column is a *nullable integer column* when all its cells are integers or null/NaN and at least one is null/NaN:
only such a column may be represented by its float widening -/
def Col.nullableInt (c : Col) : Bool := c.cells.all Cell.intOrNullish && c.cells.any Cell.nullish

def normCol (c : Col) : Col := ⟨c.name, c.cells.map (normCell c.nullableInt)⟩
def normTable (t : Table) : Table := t.map normCol

/-- the tolerance relation `≈` of the property: same column names in the same order, same number and order of rows,
every value equal, except null/NaN and the float widening of nullable integer columns.  It is the kernel of a
normal-form function, hence decidable and an equivalence. -/
def Approx (a b : Table) : Prop := normTable a = normTable b
instance (a b : Table) : Decidable (Approx a b) := inferInstanceAs (Decidable (normTable a = normTable b))
infix:50 " ≈ₜ " => Approx

/-! ## registry -/

structure Tr (F : Type) where
  name : String
  fw : F          -- `framework()`
  other : F       -- `other_framework()`
  deriving DecidableEq, Repr

abbrev Registry (F : Type) := List ((F × F) × Tr F)

inductive Err where
  | conflict        -- add: pair already registered with a different implementation
  | sameFramework   -- identify_orientation: framework == other_framework
  | unsupported     -- identify_orientation: both types belong to the transformer but in no valid orientation /
                    -- convert_flyserver_data_back: no transformer
  | noOrientation   -- transform: orientation is None
  | noPath          -- TransformFrameworkStep.transform: no transformation chain (KeyError)
  | unboundTarget   -- TransformFrameworkStep.transform: `target_fw` never assigned (UnboundLocalError)
  | illTyped        -- a hop received a value that is not of its source type
  | hop (msg : String)   -- the library conversion itself raised
  deriving DecidableEq, Repr

variable {F : Type} [DecidableEq F]

def lookup (reg : Registry F) (k : F × F) : Option (Tr F) := (reg.find? (fun e => e.1 == k)).map (·.2)

/-- `d[k] = v` -/
def dictSet (reg : Registry F) (k : F × F) (v : Tr F) : Registry F :=
  if reg.any (fun e => e.1 == k) then reg.map (fun e => if e.1 == k then (k, v) else e) else reg ++ [(k, v)]

/-- `ComputeFrameworkTransformer.add`; `importsOk` = `transformer.check_imports()`.  Returns the new map and the
boolean the method returns. -/
def add (reg : Registry F) (t : Tr F) (importsOk : Bool) : Except Err (Registry F × Bool) :=
  if !importsOk then .ok (reg, false) else
  match lookup reg (t.fw, t.other) with
  | some t' => if t = t' then .ok (reg, true) else .error .conflict
  | none => .ok (dictSet (dictSet reg (t.fw, t.other) t) (t.other, t.fw) t, true)

/-- `initilize_transformer`: add every discovered subclass, in the (arbitrary) order of the set -/
def initRegistry : List (Tr F × Bool) → Registry F → Except Err (Registry F)
  | [], reg => .ok reg
  | (t, imp) :: ts, reg =>
    match add reg t imp with
    | .error e => .error e
    | .ok (reg', _) => initRegistry ts reg'

/-- `get_transformation_chain`; `pa = none` models "pyarrow not importable" -/
def getTransformationChain (reg : Registry F) (pa : Option F) (fromT toT : F) : Option (List (Tr F)) :=
  match lookup reg (fromT, toT) with
  | some t => some [t]
  | none =>
    match pa with
    | none => none
    | some p =>
      match lookup reg (fromT, p), lookup reg (p, toT) with
      | some a, some b => some [a, b]
      | _, _ => none

inductive Orient where
  | left    -- framework() -> other_framework(): `transform_fw_to_other_fw`
  | right   -- other_framework() -> framework(): `transform_other_fw_to_fw`
  deriving DecidableEq, Repr

def Tr.src (t : Tr F) : Orient → F
  | .left => t.fw
  | .right => t.other
def Tr.dst (t : Tr F) : Orient → F
  | .left => t.other
  | .right => t.fw

/-- `BaseTransformer.identify_orientation` -/
def identifyOrientation (t : Tr F) (f o : F) : Except Err (Option Orient) :=
  if f = o then .error .sameFramework else
  if (f = t.fw ∨ f = t.other) ∧ (o = t.fw ∨ o = t.other) then
    if f = t.fw ∧ o = t.other then .ok (some .left)
    else if f = t.other ∧ o = t.fw then .ok (some .right)
    else .error .unsupported
  else .ok none

structure Data (F : Type) where
  ty : F
  tbl : Table
  deriving DecidableEq, Repr

/-- library semantics of a hop: error message, `None`, or the converted table -/
abbrev Sem (F : Type) := Tr F → Orient → Table → Except String (Option Table)

/-- outcome of the library call, tagged with the hop's target type -/
def wrapHop (ty : F) : Except String (Option Table) → Except Err (Option (Data F))
  | .error m => .error (.hop m)
  | .ok none => .ok none
  | .ok (some tb) => .ok (some ⟨ty, tb⟩)

def applyHop (sem : Sem F) (t : Tr F) (dir : Orient) (d : Option (Data F)) : Except Err (Option (Data F)) :=
  match d with
  | none => .error .illTyped
  | some d => if d.ty ≠ t.src dir then .error .illTyped else wrapHop (t.dst dir) (sem t dir d.tbl)

/-- `BaseTransformer.transform(framework, other_framework, data, conn)` -/
def transformCall (sem : Sem F) (t : Tr F) (f o : F) (d : Option (Data F)) : Except Err (Option (Data F)) :=
  match identifyOrientation t f o with
  | .error e => .error e
  | .ok none => .error .noOrientation
  | .ok (some dir) => applyHop sem t dir d

/-- the inner `for (src, dst), trans in transformer_map.items(): if trans == transformer_cls and src == current_fw` -/
def findIntermediate (reg : Registry F) (t : Tr F) (cur : F) : Option F :=
  (reg.find? (fun e => e.2 == t && e.1.1 == cur)).map (·.1.2)

/-- the application loop of `TransformFrameworkStep.transform`; `stale` is the value `target_fw` still holds from the
previous iteration (unbound at the first) -/
def tfsLoop (reg : Registry F) (sem : Sem F) (toT : F) :
    List (Tr F) → F → Option F → Option (Data F) → Except Err (Option (Data F))
  | [], _, _, d => .ok d
  | t :: rest, cur, stale, d =>
    match rest with
    | [] => transformCall sem t cur toT d
    | _ :: _ =>
      let target := match findIntermediate reg t cur with
        | some dst => some dst
        | none => stale
      match target with
      | none => .error .unboundTarget
      | some tg =>
        match transformCall sem t cur tg d with
        | .error e => .error e
        | .ok d' => tfsLoop reg sem toT rest tg (some tg) d'

/-- `TransformFrameworkStep.transform` with `_from_fw`, `_to_fw` the expected data types of the two frameworks -/
def tfsTransform (reg : Registry F) (pa : Option F) (sem : Sem F) (fromT toT : F) (d : Option (Data F)) :
    Except Err (Option (Data F)) :=
  if fromT = toT then .ok d else
  match getTransformationChain reg pa fromT toT with
  | none => .error .noPath
  | some chain => tfsLoop reg sem toT chain fromT none d

/-- `ComputeFramework.transform` = `apply_compute_framework_transformer` (+ "if the result is None keep the data") -/
def cfwTransform (reg : Registry F) (sem : Sem F) (expected : F) (d : Data F) : Except Err (Data F) :=
  match lookup reg (d.ty, expected) with
  | none => .ok d
  | some t =>
    match transformCall sem t d.ty expected (some d) with
    | .error e => .error e
    | .ok none => .ok d
    | .ok (some d') => .ok d'

/-- `upload_table`: what is handed to `FlightServer.upload_table` -/
def uploadTable (reg : Registry F) (sem : Sem F) (pa : F) (d : Data F) : Except Err (Option (Data F)) :=
  if d.ty = pa then .ok (some d) else
  match lookup reg (d.ty, pa) with
  | some t => transformCall sem t d.ty pa (some d)
  | none => .ok (some d)

/-- `convert_flyserver_data_back` of a compute framework whose `expected_data_framework()` is `expected` -/
def convertBack (reg : Registry F) (sem : Sem F) (pa expected : F) (d : Data F) : Except Err (Option (Data F)) :=
  if d.ty ≠ pa then .ok (some d) else
  if d.ty = expected then .ok (some d) else
  match lookup reg (d.ty, expected) with
  | some t => transformCall sem t d.ty expected (some d)
  | none => .error .unsupported

/-- upload by a framework, download + `convert_flyserver_data_back` by (another object of) the same framework; the
flight store itself is assumed to return the uploaded Arrow table unchanged -/
def flightRoundTrip (reg : Registry F) (sem : Sem F) (pa expected : F) (d : Data F) : Except Err (Option (Data F)) :=
  match uploadTable reg sem pa d with
  | .error e => .error e
  | .ok none => .ok none
  | .ok (some u) => convertBack reg sem pa expected u

/-- `TransformFrameworkStep.execute` when a flight location is set (MULTIPROCESSING): `get_data` downloads what the
producer's framework uploaded and hands it to `transform` *without* `convert_flyserver_data_back` -/
def tfsExecuteFlight (reg : Registry F) (sem : Sem F) (pa fromT toT : F) (d : Data F) : Except Err (Option (Data F)) :=
  match uploadTable reg sem pa d with
  | .error e => .error e
  | .ok u => tfsTransform reg (some pa) sem fromT toT u

/-- the outcome is the exception `e` -/
def failsWith {α : Type} (r : Except Err α) (e : Err) : Bool :=
  match r with
  | .error e' => e' == e
  | .ok _ => false

/-! ## the registration invariant -/

/-- every entry's transformer connects exactly the two (distinct) types of its key -/
def Connects (t : Tr F) (a b : F) : Prop := a ≠ b ∧ ((t.fw = a ∧ t.other = b) ∨ (t.fw = b ∧ t.other = a))

def RegInv (reg : Registry F) : Prop := ∀ e ∈ reg, Connects e.2 e.1.1 e.1.2

instance (t : Tr F) (a b : F) : Decidable (Connects t a b) := by unfold Connects; exact inferInstance
instance (reg : Registry F) : Decidable (RegInv reg) := by unfold RegInv; exact inferInstance

end Transform

/-! ## the installed registry (from `Gen/Transformers`, regenerated from /repo on every run) -/
namespace Transform.Installed
open Transform

def tr? (name : String) : Option (Tr Gen.Fw) :=
  (Gen.transformers.find? (fun x => x.1 == name)).map (fun x => ⟨x.1, x.2.1, x.2.2⟩)

/-- the registered transformer classes -/
def trs : List (Tr Gen.Fw) := Gen.transformers.map (fun x => ⟨x.1, x.2.1, x.2.2⟩)

/-- `ComputeFrameworkTransformer().transformer_map` (sorted by key names) -/
def reg : Registry Gen.Fw := Gen.transformerMap.filterMap (fun e => (tr? e.2).map (fun t => (e.1, t)))

/-- expected data types of the available compute frameworks -/
def fws : List Gen.Fw := Gen.computeFrameworks.map (·.2)

/-- identity hops: the best possible library (used for witnesses about the glue logic) -/
def idSem : Sem Gen.Fw := fun _ _ tb => .ok (some tb)

end Transform.Installed
