/-! # Run-time library for Python functions translated by `harness/pytrans.py`

`Gen/*.lean` files written by the translator are Lean `do`-blocks in the `Except PyExc` monad that follow the Python source
statement by statement.  This file fixes what the Python primitives mean.  A Python `set` of uuids is a duplicate-free
`List Nat` used through membership; the definitions below are the ones the hand-written models (`Sched`, `Store`) use for
the same operations, so that a generated function and its hand-written counterpart can be proved equal.
-/
namespace PyRt

inductive PyExc where
  | stopIteration
  | valueError (msg : String)
  | keyError
  | exception (msg : String)
  /-- a translated `while` loop was still running after `fuel` executions of its body (see harness/pytrans.py): the real
  call has not returned yet; the same outcome at every fuel means that it never returns -/
  | fuel
  /-- `None.<attr>` -/
  | attributeError
  /-- RecursionError: a translated self-recursive function was entered with no Python frame left (`fuel = 0`, see harness/pytrans.py);
  the same outcome at every fuel means that the real call never returns normally -/
  | recursion
  /-- RuntimeError, e.g. "dictionary changed size during iteration" -/
  | runtimeError (msg : String)
  /-- TypeError (unhashable element, iteration over / `in` on a value that is not iterable, subscript of None) -/
  | typeError (msg : String)
  deriving DecidableEq, Repr

abbrev PSet := List Nat

/-- `x in s` -/
def PSet.has (s : PSet) (x : Nat) : Bool := decide (x ∈ s)

/-- `s.update(t)` / `s |= t`: elements already present keep their place, new ones are appended -/
def PSet.update (s t : PSet) : PSet := s ++ t.filter (· ∉ s)

/-- `s.add(x)` -/
def PSet.add (s : PSet) (x : Nat) : PSet := if x ∈ s then s else s ++ [x]

/-- `s.difference_update(t)` / `s -= t` -/
def PSet.differenceUpdate (s t : PSet) : PSet := s.filter (· ∉ t)

/-- `s.issubset(t)` -/
def PSet.issubset (s t : PSet) : Bool := s.all (· ∈ t)

/-- `s.intersection(t)` -/
def PSet.intersection (s t : PSet) : PSet := s.filter (· ∈ t)

/-- truthiness of a container -/
def PSet.truthy (s : PSet) : Bool := !s.isEmpty

/-- `s == t` on sets -/
def PSet.eq (s t : PSet) : Bool := s.all (· ∈ t) && t.all (· ∈ s)

/-- `next(iter(s))` -/
def PSet.nextIter (s : PSet) : Except PyExc Nat :=
  match s with
  | [] => .error .stopIteration
  | u :: _ => .ok u

/-- `all(p(x) for x in s)` -/
def pyAll (s : PSet) (p : Nat → Bool) : Bool := s.all p

/-- `any(p(x) for x in s)` -/
def pyAny (s : PSet) (p : Nat → Bool) : Bool := s.any p

/-- the view of a plan step the orchestrator's loop uses -/
structure PStep where
  /-- `step.get_uuids()` in iteration order -/
  uuids : PSet
  /-- `step.required_uuids` -/
  required : PSet
  /-- `isinstance(step, FeatureGroupStep)` -/
  isFG : Bool := true
  deriving Repr

/-- a value that is `True`, `False` or a (frozen)set, as returned by
`ComputeFramework.add_already_calculated_children_and_drop_if_possible` -/
inductive BoolOrSet where
  | bool (b : Bool)
  | set (s : PSet)
  deriving DecidableEq, Repr

end PyRt
