import MlodaVerif.Model.PyRt
/-! # Run-time library, part 2: insertion-ordered dicts with uuid / string-id keys, `Optional` values

Used by the translation of `CfwManager` (`Gen/CfwManagerGen.lean`).  A Python `dict` is the association list of its items in
insertion order (the order `for k, v in d.items()` observes); keys are `Nat` ids (uuids, or strings as ids - id 0 is the
empty string).  -/
namespace PyRt

/-- `Dict[K, V]` with `K` a uuid or a string id -/
abbrev NDict (V : Type) := List (Nat × V)

/-- `d.get(k)` -/
def NDict.get? {V : Type} : NDict V → Nat → Option V
  | [], _ => none
  | (k', v') :: t, k => if k' == k then some v' else NDict.get? t k

/-- `d[k] = v`: an existing key keeps its position, a new key goes to the end -/
def NDict.set {V : Type} : NDict V → Nat → V → NDict V
  | [], k, v => [(k, v)]
  | (k', v') :: t, k, v => if k' == k then (k, v) :: t else (k', v') :: NDict.set t k v

/-- `k in d` -/
def NDict.has {V : Type} (d : NDict V) (k : Nat) : Bool := (NDict.get? d k).isSome

/-- `d[k]` -/
def NDict.getItem {V : Type} (d : NDict V) (k : Nat) : Except PyExc V :=
  match NDict.get? d k with
  | some v => .ok v
  | none => .error .keyError

/-- receiver of a method call on an `Optional` value: `None.get(...)` raises AttributeError -/
def Opt.deref {α : Type} : Option α → Except PyExc α
  | some a => .ok a
  | none => .error .attributeError

/-- truthiness of a `str` given as an id: id 0 is the empty string -/
def strTruthy (s : Nat) : Bool := s != 0

end PyRt
