import MlodaVerif.Gen.Hooks
/-! # Model of mloda's function extenders (C20)

Anchors: `mloda/core/abstract_plugins/function_extender.py` (`Extender`, `_CompositeExtender`),
`ComputeFramework.get_function_extender / run_calculate_feature / run_validate_input_features /
run_validate_output_features / run_calculation`, `ComputeFrameworkExecutor.init_compute_framework`,
`CfwManager.get_function_extender`.

The model reproduces the code that exists, statement by statement:

* `self.function_extender` is a Python `set`; the code iterates it, so it is a `List Ext` *in iteration order*.
* `sorted(..., key=lambda e: e.priority)` is a stable sort (`sortPrio`, insertion sort).  The code sorts twice
  (once in `get_function_extender`, once in `_CompositeExtender.__init__`); so does the model.
* `_CompositeExtender.__call__` builds `wrapper_1 (wrapper_2 (… func))`; each `wrapper` is
  `try: return ext(inner, …)  except Exception: logging.error(…); return inner(…)`.  `runChain` is exactly that
  recursion; it returns the event trace, the number of calls of the wrapped function made so far and the outcome
  (`none` = an exception propagated out).
* The wrapped function may be stateful and may raise: it is a function of the global call counter,
  `w k = some v` (the k-th call returns v) or `none` (the k-th call raises).
* An extender's own `__call__` is one of three behaviours: `pass` (log enter, call through, log exit, return the
  result), `raiseBefore` (log enter, raise), `raiseAfter` (log enter, call through, raise).
-/
namespace Extender
open Gen

inductive Beh where
  | pass | raiseBefore | raiseAfter
  deriving DecidableEq, Repr, Inhabited

structure Ext where
  id : Nat
  priority : Int
  wraps : List Hook
  beh : Beh
  deriving DecidableEq, Repr, Inhabited

inductive Ev where
  | enter (e : Ext)     -- the extender's `__call__` started
  | exit (e : Ext)      -- the extender's `__call__` returned normally
  | logged (e : Ext)    -- `logging.error` in the composite's `wrapper` for this extender
  | call                -- the wrapped feature-group function was called
  deriving DecidableEq, Repr

/-- trace, call counter afterwards, outcome (`none` = an `Exception` propagated) -/
structure Res (α : Type) where
  trace : List Ev
  calls : Nat
  out : Option α
  deriving DecidableEq, Repr

/-- the wrapped function: outcome of the k-th call (0-based, counted over the whole run) -/
abbrev Wrapped (α : Type) := Nat → Option α

def callWrapped {α} (w : Wrapped α) (n : Nat) : Res α := ⟨[.call], n + 1, w n⟩

/-- `ext.__call__(inner, *a, **kw)` for the three modelled behaviours -/
def extCall {α} (e : Ext) (inner : Nat → Res α) (n : Nat) : Res α :=
  match e.beh with
  | .pass =>
    let r := inner n
    match r.out with
    | some v => ⟨.enter e :: r.trace ++ [.exit e], r.calls, some v⟩
    | none => ⟨.enter e :: r.trace, r.calls, none⟩
  | .raiseBefore => ⟨[.enter e], n, none⟩
  | .raiseAfter =>
    let r := inner n
    ⟨.enter e :: r.trace, r.calls, none⟩

/-- `make_wrapper(ext, inner_func)`: try the extender; on any `Exception` (its own or one coming from inside)
log and call `inner_func` directly -/
def wrapper {α} (e : Ext) (inner : Nat → Res α) (n : Nat) : Res α :=
  let r := extCall e inner n
  match r.out with
  | some _ => r
  | none =>
    let r2 := inner r.calls
    ⟨r.trace ++ .logged e :: r2.trace, r2.calls, r2.out⟩

/-- `_CompositeExtender.__call__` on `self.extenders = es` -/
def runChain {α} (w : Wrapped α) : List Ext → Nat → Res α
  | [] => callWrapped w
  | e :: es => wrapper e (runChain w es)

/-- stable insertion: before the first element whose priority is not smaller -/
def insertPrio (a : Ext) : List Ext → List Ext
  | [] => [a]
  | b :: l => if a.priority ≤ b.priority then a :: b :: l else b :: insertPrio a l

/-- `sorted(l, key=lambda e: e.priority)` (stable) -/
def sortPrio : List Ext → List Ext
  | [] => []
  | a :: l => insertPrio a (sortPrio l)

/-- `_CompositeExtender(extenders, hook)(func, …)` -/
def compositeCall {α} (w : Wrapped α) (exts : List Ext) (n : Nat) : Res α := runChain w (sortPrio exts) n

inductive Selected where
  | none
  | bare (e : Ext)
  | composite (sorted : List Ext)
  deriving DecidableEq, Repr

def matching (exts : List Ext) (h : Hook) : List Ext := exts.filter (fun e => e.wraps.contains h)

/-- `ComputeFramework.get_function_extender`; `exts` in the iteration order of the set -/
def getFunctionExtender (exts : List Ext) (h : Hook) : Selected :=
  match matching exts h with
  | [] => .none
  | [e] => .bare e
  | m => .composite (sortPrio (sortPrio m))

/-- `run_calculate_feature` / `run_validate_*_features`: the body after `get_function_extender` -/
def runSelected {α} (w : Wrapped α) (s : Selected) (n : Nat) : Res α :=
  match s with
  | .none => callWrapped w n
  | .bare e => extCall e (callWrapped w) n        -- no try/except around a single extender
  | .composite l => runChain w l n

def runHook {α} (w : Wrapped α) (exts : List Ext) (h : Hook) (n : Nat) : Res α :=
  runSelected w (getFunctionExtender exts h) n

def entries : List Ev → List Ext
  | [] => []
  | .enter e :: t => e :: entries t
  | _ :: t => entries t

def countCalls : List Ev → Nat
  | [] => 0
  | .call :: t => countCalls t + 1
  | _ :: t => countCalls t

/-! ### `run_calculation`: validate input (only if the framework already holds data), calculate, validate output
(only if it holds data afterwards).  An exception aborts the step.  Each wrapped function has its own counter. -/

structure StepRes where
  segs : List (Hook × List Ev)
  ok : Bool
  deriving DecidableEq, Repr

def runCalculation (exts : List Ext) (dataBefore dataAfter : Bool) (wIn wCalc wOut : Wrapped Unit) : StepRes :=
  let a : StepRes :=
    if dataBefore then
      let r := runHook wIn exts .VALIDATE_INPUT_FEATURE 0
      ⟨[(.VALIDATE_INPUT_FEATURE, r.trace)], r.out.isSome⟩
    else ⟨[], true⟩
  if !a.ok then a else
  let r := runHook wCalc exts .FEATURE_GROUP_CALCULATE_FEATURE 0
  let b : StepRes := ⟨a.segs ++ [(.FEATURE_GROUP_CALCULATE_FEATURE, r.trace)], r.out.isSome⟩
  if !b.ok then b else
  if dataAfter then
    let r := runHook wOut exts .VALIDATE_OUTPUT_FEATURE 0
    ⟨b.segs ++ [(.VALIDATE_OUTPUT_FEATURE, r.trace)], r.out.isSome⟩
  else b

/-! ### propagation of the run's extender set to the compute-framework objects
`ComputeFrameworkExecutor.init_compute_framework` is the only place a cfw object is created; it reads
`cfw_register.get_function_extender()` (set once in `CfwManager.__init__`). -/

structure Cfw where
  uuid : Nat
  exts : List Ext
  deriving Repr

structure Exec where
  registerExts : List Ext
  collection : List Cfw
  deriving Repr

def Exec.start (exts : List Ext) : Exec := ⟨exts, []⟩
def Exec.initComputeFramework (x : Exec) (uuid : Nat) : Exec :=
  { x with collection := ⟨uuid, x.registerExts⟩ :: x.collection }
def Exec.run (x : Exec) (uuids : List Nat) : Exec := uuids.foldl Exec.initComputeFramework x

end Extender
