import MlodaVerif.Model.PyRtRef
/-! # Run-time library, part 6: `defaultdict(set)` primitives on VALUE sets (translator targets in execution_plan.py)

Used by `Gen/PlanGen.lean` (harness/extractors/pytrans_plan.py).  Core Lean only. -/
namespace PyRt

/-- `d[k].update(s)` on a `defaultdict(set)` keyed by uuids: the (possibly new) entry gets the grown set -/
def DDict.updateAt (d : NDict (List Nat)) (k : Nat) (s : PSet) : NDict (List Nat) := NDict.set d k (PSet.update (DDict.get d k) s)

/-- the READ `d[k]` of a `defaultdict` with arbitrary keys whose values are VALUES (sets of ids / of records): the value, and
the dict afterwards (a missing key is inserted with the default) -/
def KDict.readD {K V : Type} [DecidableEq K] (d : KDict K V) (k : K) (dflt : V) : V × KDict K V :=
  match KDict.get? d k with
  | some v => (v, d)
  | none => (dflt, d ++ [(k, dflt)])

end PyRt
