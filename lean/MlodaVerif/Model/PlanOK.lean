import MlodaVerif.Model.Sched
/-! Executable structural checks on an exported plan, and acceptance of an observed worker-event trace. -/
namespace Sched

def outsOf (p : Plan) (i : Nat) : List Nat := match p[i]? with | some st => st.outs | none => []

/-- `checkRank p ranks`: every required uuid is produced by a step with a strictly smaller rank -/
def checkRank (p : Plan) (ranks : List Nat) : Bool :=
  (List.range p.length).all fun i =>
    match p[i]? with
    | none => true
    | some st => st.req.all fun u =>
        (List.range p.length).any fun j => decide (u ∈ outsOf p j) && decide (ranks.getD j 0 < ranks.getD i 0)

def producer? (p : Plan) (u : Nat) : Option Nat := (List.range p.length).find? (fun j => decide (u ∈ outsOf p j))

/-- one relaxation round of longest-path ranks -/
def relax (p : Plan) (ranks : List Nat) : List Nat :=
  (List.range p.length).map fun i =>
    match p[i]? with
    | none => 0
    | some st => (st.req.map fun u => match producer? p u with
                    | some j => ranks.getD j 0 + 1
                    | none => 0).foldl max 0

def iter {α : Type} (f : α → α) : Nat → α → α
  | 0, a => a
  | n + 1, a => iter f n (f a)

/-- untrusted rank computation (a witness; only `checkRank` is relied upon) -/
def computeRanks (p : Plan) : List Nat := iter (relax p) (p.length + 1) (List.replicate p.length 0)

def planOK (p : Plan) : Bool := nonemptyOutsB p && disjointOutsB p && checkRank p (computeRanks p)

/-- `parentsCovered`: every direct parent of every produced feature is among the step's required uuids;
`parents` is an association list feature uuid ↦ direct parents -/
def parentsOf (parents : List (Nat × List Nat)) (f : Nat) : List Nat :=
  match parents.find? (fun q => q.1 == f) with | some q => q.2 | none => []

def parentsCoveredB (p : Plan) (parents : List (Nat × List Nat)) : Bool :=
  p.all fun st => st.outs.all fun f => (parentsOf parents f).all fun a => decide (a ∈ st.req)

/-! ### trace acceptance: observed worker events must be a behaviour of the model -/

inductive Obs where
  | begin (i : Nat) | finish (i : Nat) | fail (i : Nat)
  deriving DecidableEq, Repr

def Obs.toEv : Obs → Ev
  | .begin i => .begin i | .finish i => .finish i | .fail i => .fail i

/-- scans that collect every completed step (collecting only enlarges `finished`, so doing it greedily before each
observed begin loses no behaviour) -/
def collectScans (p : Plan) (s : St) : List Ev :=
  ((List.range p.length).filter fun i => decide (i ∈ s.done) && decide (i ∉ s.collected)).map Ev.scan

/-- the main-loop events to insert before an observed worker event so that it is enabled; `none` = not a behaviour -/
def explain (p : Plan) (s : St) (o : Obs) : Option (List Ev) :=
  match o with
  | .begin i =>
    let pre := collectScans p s
    let s1 := run p s pre
    let pre2 := if i ∈ s1.started then pre else pre ++ [Ev.scan i]
    let s2 := run p s pre2
    if i ∈ s2.started ∧ i ∉ s2.begun ∧ i ∉ s2.failed then some (pre2 ++ [Ev.begin i]) else none
  | .finish i =>
    if i ∈ s.begun ∧ i ∉ s.done ∧ i ∉ s.failed then some [Ev.finish i] else none
  | .fail i =>
    let pre := collectScans p s
    let s1 := run p s pre
    let pre2 := if i ∈ s1.started then pre else pre ++ [Ev.scan i]
    let s2 := run p s pre2
    if i ∈ s2.started ∧ i ∉ s2.done ∧ i ∉ s2.failed then some (pre2 ++ [Ev.fail i]) else none

def acceptsGo (p : Plan) : St → List Obs → Option (List Ev)
  | _, [] => some []
  | s, o :: os =>
    match explain p s o with
    | none => none
    | some evs =>
      match acceptsGo p (run p s evs) os with
      | none => none
      | some rest => some (evs ++ rest)

/-- the full event list explaining an observed trace followed by the final collection pass and loop head -/
def accepts (p : Plan) (obs : List Obs) : Option (List Ev) :=
  match acceptsGo p init obs with
  | none => none
  | some evs =>
    let s := run p init evs
    some (evs ++ collectScans p s ++ [Ev.loopHead])

def isWorkerEv : Ev → Bool
  | .begin _ | .finish _ | .fail _ => true
  | _ => false

end Sched

namespace Sched

/-! ### the SYNC executor as a function: every started step is executed inline, in plan order -/

def syncPass (p : Plan) (fails : List Nat) (s : St) : St :=
  (List.range p.length).foldl (fun s i =>
    let s1 := stepEv p s (.scan i)
    if i ∈ s1.started ∧ i ∉ s.started then
      let s2 := stepEv p s1 (.begin i)
      if i ∈ fails then stepEv p s2 (.fail i) else stepEv p s2 (.finish i)
    else s1) s

def syncRun (p : Plan) (fails : List Nat) : Nat → St → St
  | 0, s => s
  | n + 1, s =>
    let s1 := stepEv p s .loopHead
    if halted s1 then s1 else syncRun p fails n (syncPass p fails s1)

end Sched
