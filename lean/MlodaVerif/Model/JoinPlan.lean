import MlodaVerif.Model.Rel
import MlodaVerif.Model.PyDictMerge
import MlodaVerif.Model.LibMergeSem
/-! # From a `Link` and the resolved frameworks to the actual `merge(...)` call (requests with exactly ONE link)

The decision logic of

* `ResolveLinks.create_link_trekker_key` – the trekker `(link, lf, rf)`: `lf` / `rf` are the compute frameworks of the
  link's left / right feature group,
* `ResolveComputeFrameworks.resolve_trekked_links` + `trekker_right_left_adjuster` / `LinkTrekker.invert_link` – which
  framework the consumer gets and whether the trekker is inverted,
* `ExecutionPlan.run_link` (RIGHT swap, "no children under this key ⇒ inverted" swap, `is_valid_join_step` →
  `case_link_fw_is_equal_to_children_fw`), `create_joinstep_in_case_of_append_or_union`,
* `ExecutionPlan.add_tfs` / `fill_tfs_by_joinstep` (the right framework's data are converted to the left framework),
* `ComputeFrameworkExecutor.prepare_execute_step` / `prepare_tfs_and_joinstep` (which cfw is the target, which is "from"),
* `JoinStep._merge_data`: `cfw.data = engine.merge(cfw.data, from_cfw_data, link.jointype, link.left_index, link.right_index)`,

written for two source groups (the link's left and right feature group, each on one framework) and one consumer.
Conversion between frameworks is the identity on tables (that is C14's business). Frameworks are opaque ids. -/
namespace JoinPlan
open Rel

abbrev Fw := Nat

/-- the link's left / right feature group -/
inductive Side where
  | left | right
  deriving DecidableEq, Repr

def Side.other : Side → Side
  | .left => .right
  | .right => .left

structure Req where
  t : JoinType
  /-- `link.left_index.index` / `link.right_index.index` -/
  lidx : List Col
  ridx : List Col
  /-- compute framework of the link's left / right feature group -/
  lf : Fw
  rf : Fw
  /-- `feature.compute_frameworks` of the consumer when `ResolveComputeFrameworks.links` looks at it -/
  cfws : List Fw
  deriving Repr

inductive Err where
  /-- `ValueError("No new compute frameworks have been found.")` -/
  | noFramework
  /-- `Exception("Right joins are not supported for equal or polymorphic feature groups …")` -/
  | rightSameFw
  deriving DecidableEq, Repr

/-- `resolve_trekked_links` for the single trekker: the consumer's new framework, and whether the trekker was appended to
`to_invert_trekker_collection` (then `trekker_right_left_adjuster` re-keys it as `(link, rf, lf)`). Note the RIGHT branch:
`elif left_cfw in compute_frameworks: new_cfws.add(right_cfw)` gives the consumer a framework it did not allow. -/
def resolveTrekked (r : Req) : Except Err (Fw × Bool) :=
  if r.t = .right then
    if r.rf ∈ r.cfws then .ok (r.rf, false)
    else if r.lf ∈ r.cfws then .ok (r.rf, true)
    else .error .noFramework
  else
    if r.lf ∈ r.cfws then .ok (r.lf, false)
    else if r.rf ∈ r.cfws then .ok (r.rf, true)
    else .error .noFramework

/-- `run_link`: `(left_framework, right_framework)` of the `JoinStep`. The queue still carries the key `(link, lf, rf)`;
RIGHT swaps the two; if no child is registered under that key any more (the trekker was inverted) the two are set to
`(link_fw[2], link_fw[1])`. -/
def runLinkFrameworks (r : Req) (inverted : Bool) : Fw × Fw :=
  let p : Fw × Fw := if r.t = .right then (r.rf, r.lf) else (r.lf, r.rf)
  if inverted then (r.rf, r.lf) else p

/-- what the consumer's step finds in the cfw it is given -/
inductive Reads where
  | merged
  /-- the table of one source only: the merge ran on a cfw the consumer never looks at -/
  | only (s : Side)
  deriving DecidableEq, Repr

structure Plan where
  /-- framework the consumer is executed on -/
  consumerFw : Fw
  /-- `JoinStep.left_framework`: its merge engine runs, on the cfw that holds `first`'s table -/
  execFw : Fw
  /-- whose table is `cfw.data`, the FIRST argument of `merge` -/
  first : Side
  /-- a `TransformFrameworkStep` converts `first.other`'s table to `execFw` beforehand -/
  transforms : Bool
  reads : Reads
  deriving Repr

def plan (r : Req) : Except Err Plan :=
  match resolveTrekked r with
  | .error e => .error e
  | .ok (cfw, inverted) =>
    if r.t = .append ∨ r.t = .union then
      -- create_joinstep_in_case_of_append_or_union: JoinStep(link, link_fw[1], link_fw[2], {left feature}, {right feature});
      -- the consumer's FeatureGroupStep looks its cfw up by (its own framework, a parent feature)
      .ok { consumerFw := cfw, execFw := r.lf, first := .left, transforms := r.lf ≠ r.rf,
            reads := if cfw = r.lf then .merged else .only .right }
    else
      let (leftFw, rightFw) := runLinkFrameworks r inverted
      if r.lf = cfw then
        -- is_valid_join_step → case_link_fw_is_equal_to_children_fw
        if r.t = .right then .error .rightSameFw
        else .ok { consumerFw := cfw, execFw := leftFw, first := .left, transforms := leftFw ≠ rightFw, reads := .merged }
      else
        -- left_framework_uuids = the parents whose framework is `left_framework`
        .ok { consumerFw := cfw, execFw := leftFw, first := if r.lf = leftFw then .left else .right,
              transforms := leftFw ≠ rightFw, reads := .merged }

/-- a framework's merge engine as a function of (join type, left index, right index, schemas, tables) -/
abbrev EngineMerge := JoinType → List Col → List Col → List Col → List Col → Table → Table → Except String Table

/-- the three engines of C12 behind the framework ids used by the harness: 0 = PyArrowTable, 1 = PandasDataFrame,
2 = PythonDictFramework (outer join: canonical iteration order of the key set; the result is order independent up to
row order, `C12.pydict_outer_order_irrelevant`) -/
def engineOf (fw : Fw) : EngineMerge := fun t lk rk ls rs L R =>
  match fw with
  | 0 => ArrowMerge.merge t lk rk ls rs L R
  | 1 => PandasMerge.merge t lk rk ls rs L R
  | _ => .ok (PyDictMerge.merge t lk rk L R (PyDictMerge.allKeys lk rk L R))

def pick {α : Type} (s : Side) (l r : α) : α := match s with | .left => l | .right => r

/-- `PythonDictFramework.set_column_names` raises `ValueError("Data is empty …")` for an empty list; it runs after every
step that stores a table in a PythonDict cfw (a source's calculation, a TransformFrameworkStep, a JoinStep) -/
def pyFw : Fw := 2

def emptyErr : String := "Data is empty or not in expected format. Cannot set column names."

/-- the table the consumer's `calculate_feature` receives: `JoinStep._merge_data` calls
`merge(cfw.data, from_cfw_data, link.jointype, link.left_index, link.right_index)` – join type and both indexes are passed
as the link has them, whichever source `cfw.data` is. The merge runs (and may fail) even when the consumer then reads a
cfw that does not hold its result. -/
def consumerTable (engine : Fw → EngineMerge) (r : Req) (p : Plan) (sl sr : List Col) (TL TR : Table) : Except String Table :=
  let T1 := pick p.first TL TR
  let T2 := pick p.first.other TL TR
  if (r.lf = pyFw ∧ TL.isEmpty) ∨ (r.rf = pyFw ∧ TR.isEmpty) then .error emptyErr
  else if p.transforms ∧ p.execFw = pyFw ∧ T2.isEmpty then .error emptyErr
  else
    match engine p.execFw r.t r.lidx r.ridx (pick p.first sl sr) (pick p.first.other sl sr) T1 T2 with
    | .error e => .error e
    | .ok m =>
      if p.execFw = pyFw ∧ m.isEmpty then .error emptyErr
      else match p.reads with
        | .merged => .ok m
        | .only s => .ok (pick s TL TR)

/-- decidable: the merge receives the link's left table as its left argument -/
def SidesPreserved (r : Req) : Prop := r.lf = r.rf ∨ (r.t ≠ .right ∧ r.lf ∈ r.cfws)

instance (r : Req) : Decidable (SidesPreserved r) := by unfold SidesPreserved; infer_instance

/-- what C05 needs from C12: under `Pre` the engine returns the relational operator -/
def MergeMeetsSpec (merge : EngineMerge)
    (Pre : JoinType → List Col → List Col → List Col → List Col → Table → Table → Prop) : Prop :=
  ∀ t lk rk ls rs L R, Pre t lk rk ls rs L R →
    ∃ out, merge t lk rk ls rs L R = .ok out ∧ TableEq out (joinSpec t lk rk ls rs L R)

/-- an engine that IS the relational operator (used to isolate the planner in the negation witnesses) -/
def specEngine : Fw → EngineMerge := fun _ t lk rk ls rs L R => .ok (joinSpec t lk rk ls rs L R)

end JoinPlan
