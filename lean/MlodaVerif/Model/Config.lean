import MlodaVerif.Model.Chain
/-! # C16 - model of the JSON feature configuration (`mloda/core/api/feature_config`)

`parse_json` (after `json.loads`, i.e. on a Python value `PV` built from null/bool/int/float/str/list/dict),
`FeatureConfig(**item)` + `__post_init__`, `load_features_from_config` and `process_nested_features`, statement by
statement, with Python's truthiness (`item.options and …`, `item.context_options or {}`, `if item.in_features:`) and the
exception classes that the unvalidated dataclass fields produce further down (`frozenset(5)` → TypeError,
`None.items()` → AttributeError, `Options(group=[…])` → AttributeError, a key in both group and context → ValueError).
`schemaValid` is the published `feature_config_schema()` (plus "array of strings or such objects"), hand-written. -/
open Gen.Chain

namespace Config
open Chain

structure FeatureConfig where
  name : PV
  options : PV
  inFeatures : PV
  groupOptions : PV
  contextOptions : PV
  columnIndex : PV
  deriving Repr, Inhabited

inductive Item where
  | str (s : Str)
  | cfg (c : FeatureConfig)
  deriving Repr, Inhabited

def kName : Str := "name".toList
def kOptions : Str := "options".toList
def kInFeatures : Str := "in_features".toList
def kGroupOptions : Str := "group_options".toList
def kContextOptions : Str := "context_options".toList
def kColumnIndex : Str := "column_index".toList

def allowedKeys : List Str := [kName, kOptions, kInFeatures, kGroupOptions, kContextOptions, kColumnIndex]

/-- `FeatureConfig(**item)` followed by `__post_init__` -/
def mkConfig (kvs : List (Str × PV)) : Except Err FeatureConfig :=
  if kvs.any (fun kv => !allowedKeys.contains kv.1) then .error (.type "unexpected-keyword")
  else match lookup kName kvs with
    | none => .error (.type "missing-name")
    | some n =>
      let c : FeatureConfig :=
        { name := n, options := (lookup kOptions kvs).getD (.dict []), inFeatures := (lookup kInFeatures kvs).getD .none,
          groupOptions := (lookup kGroupOptions kvs).getD .none, contextOptions := (lookup kContextOptions kvs).getD .none,
          columnIndex := (lookup kColumnIndex kvs).getD .none }
      if c.options.truthy && (c.groupOptions.truthy || c.contextOptions.truthy) then .error (.value "options-and-group-context")
      else .ok c

def parseItem : PV → Except Err Item
  | .str s => .ok (.str s)
  | .dict kvs => (mkConfig kvs).map .cfg
  | _ => .error (.value "invalid-item")

/-- `parse_json` on the value `json.loads` returned -/
def parseJson : PV → Except Err (List Item)
  | .list items => items.mapM parseItem
  | _ => .error (.value "not-an-array")

/-- `frozenset(x)` -/
def frozensetOf : PV → Except Err PV
  | .str s => .ok (.fset (dedupe (s.map fun c => PV.str [c])))
  | .list l => if l.all PV.hashable then .ok (.fset (dedupe l)) else .error (.type "unhashable-element")
  | .dict kvs => .ok (.fset (kvs.map fun kv => PV.str kv.1))
  | _ => .error (.type "not-iterable")

def setKey (k : Str) (v : PV) : List (Str × PV) → List (Str × PV)
  | [] => [(k, v)]
  | (k', v') :: r => if k == k' then (k, v) :: r else (k', v') :: setKey k v r

/-- one `(key, value)` of `process_nested_features`; the fuel bounds the nesting depth -/
def processVal : Nat → Str → PV → Except Err PV
  | 0, _, _ => .error (.unmodelled "fuel")
  | f + 1, k, .dict d =>
    if k == kInFeatures then do
      let featureName := (lookup kName d).getD .none
      if !featureName.truthy then throw (Err.value "nested-in-features-without-name")
      let nested ← match (lookup kOptions d).getD (.dict []) with
        | .dict nd => nd.mapM (fun kv => (processVal f kv.1 kv.2).map (fun v => (kv.1, v)))
        | _ => throw (Err.attr "items")
      let inF := (lookup kInFeatures d).getD .none
      let nested ←
        if inF.truthy then
          match inF with
          | .list l => pure (setKey kInFeatures (if l.length > 1 then .list l else l.headD .none) nested)
          | .dict _ => do let r ← processVal f kInFeatures inF; pure (setKey kInFeatures r nested)
          | v => pure (setKey kInFeatures v nested)
        else pure nested
      return .feat featureName nested []
    else (d.mapM (fun kv => (processVal f kv.1 kv.2).map (fun v => (kv.1, v)))).map PV.dict
  | _ + 1, _, v => .ok v

/-- `process_nested_features(options)` -/
def processOptions (fuel : Nat) : PV → Except Err (List (Str × PV))
  | .dict d => d.mapM (fun kv => (processVal fuel kv.1 kv.2).map (fun v => (kv.1, v)))
  | _ => .error (.attr "items")

def hasDuplicateKey (g c : List (Str × PV)) : Bool := g.any fun kv => (lookup kv.1 c).isSome

/-- `Feature(name=…, options=Options(group=g, context=c))` -/
def mkFeature (name : PV) (g c : PV) : Except Err PV :=
  match g, c with
  | .dict g', .dict c' => if hasDuplicateKey g' c' then .error (.value "key-in-group-and-context") else .ok (.feat name g' c')
  | _, _ => .error (.attr "keys")

def loadItem (fuel : Nat) : Item → Except Err PV
  | .str s => .ok (.str s)
  | .cfg c => do
    let name ←
      if c.columnIndex.isNone then pure c.name
      else match pyStr c.name, pyStr c.columnIndex with
        | some a, some b => pure (PV.str (withColumnIndex a b))
        | _, _ => throw (Err.unmodelled "format")
    if !c.groupOptions.isNone || !c.contextOptions.isNone then
      let ctx0 := if c.contextOptions.truthy then c.contextOptions else .dict []
      let ctx ←
        if c.inFeatures.truthy then do
          let fs ← frozensetOf c.inFeatures
          match ctx0 with
          | .dict kvs => pure (PV.dict (setKey kInFeatures fs kvs))
          | _ => throw (Err.type "context-item-assignment")
        else pure ctx0
      let grp := if c.groupOptions.truthy then c.groupOptions else .dict []
      mkFeature name grp ctx
    else if c.inFeatures.truthy then do
      let processed ← processOptions fuel c.options
      let fs ← frozensetOf c.inFeatures
      mkFeature name (.dict processed) (.dict [(kInFeatures, fs)])
    else do
      let processed ← processOptions fuel c.options
      return .feat name processed []

mutual
def pvSize : PV → Nat
  | .list l | .tuple l | .set l | .fset l => 1 + sizeL l
  | .dict kvs => 1 + sizeKV kvs
  | .feat n g c => 1 + pvSize n + sizeKV g + sizeKV c
  | _ => 1
def sizeL : List PV → Nat
  | [] => 0
  | x :: xs => pvSize x + sizeL xs
def sizeKV : List (Str × PV) → Nat
  | [] => 0
  | (_, v) :: xs => pvSize v + sizeKV xs
end

/-- `load_features_from_config(config_str)` after `json.loads`; items are strings or `PV.feat` -/
def loadFeaturesFuel (fuel : Nat) (data : PV) : Except Err (List PV) := do
  let items ← parseJson data
  items.mapM (loadItem fuel)

def loadFeatures (data : PV) : Except Err (List PV) := loadFeaturesFuel (pvSize data + 1) data

/-! ### the published schema (`feature_config_schema()` for objects; an array of strings or such objects) -/

def isStr : PV → Bool | .str _ => true | _ => false
def isDict : PV → Bool | .dict _ => true | _ => false
def isInt : PV → Bool | .int _ => true | _ => false

def fieldOk (kvs : List (Str × PV)) (k : Str) (p : PV → Bool) : Bool :=
  match lookup k kvs with | none => true | some v => p v

def itemSchemaValid : PV → Bool
  | .str _ => true
  | .dict kvs =>
    kvs.all (fun kv => allowedKeys.contains kv.1) && (lookup kName kvs).isSome &&
    fieldOk kvs kName isStr && fieldOk kvs kOptions isDict &&
    fieldOk kvs kInFeatures (fun v => match v with | .list l => l.all isStr | _ => false) &&
    fieldOk kvs kGroupOptions isDict && fieldOk kvs kContextOptions isDict && fieldOk kvs kColumnIndex isInt
  | _ => false

def schemaValid : PV → Bool
  | .list l => l.all itemSchemaValid
  | _ => false

/-- the part of the schema that `parse_json` / the dataclass constructor really enforce -/
def itemShapeChecked : PV → Bool
  | .str _ => true
  | .dict kvs => kvs.all (fun kv => allowedKeys.contains kv.1) && (lookup kName kvs).isSome
  | _ => false

end Config
