import MlodaVerif.Gen.BuiltinVocab
/-! # Builtin, part 4: text cleaning on Pandas / PythonDict, ASCII operations

Anchors: `mloda_plugins/feature_group/experimental/text_cleaning/{pandas,python_dict}.py`.

Strings are `List Char`; only ASCII text is modelled (the harness sends only ASCII to the model; unicode text is still
run on the real frameworks and compared across them).
* PythonDict (`dict*`): from mloda's code: `None → ""`, `str.lower()` (+ NFKD accent stripping = identity on ASCII),
  `str.translate` deleting `string.punctuation`, `re.sub(r"[^a-zA-Z0-9\s]", "")`, `re.sub(r"\s+", " ").strip()`,
  URL / e-mail removal (`https?://\S+|www\.\S+`, then `\S+@\S+\.\S+`), stop words (identity without nltk).
  Python's `re` `\s` on ASCII text = space, \t \n \v \f \r and 0x1c–0x1f (`isSpacePy`).
* Pandas (`pandas*`): the same pipeline through `Series.str.*`; with pandas 3 the column is an Arrow-backed `str`
  Series whose regex engine is RE2: `\s` = space, \t \n \f \r only (`isSpaceRe2`) — **assumed library convention**; nulls
  stay null through `.str.*` and make the two `Series.apply`-based operations raise.
Both `strip()`s remove Python/Unicode white space (`isSpacePy` on ASCII).
All library conventions are validated only by the differential run of `harness/corr/c19.py`. -/

namespace Builtin.Text

abbrev Str := List Char

def isSpaceRe2 (c : Char) : Bool := c == ' ' || c == '\t' || c == '\n' || c == '\x0c' || c == '\r'
/-- ASCII characters that Python's `\s` / `str.isspace` accept but RE2's `\s` does not: \v and 0x1c–0x1f -/
def oddSpace (c : Char) : Bool := c.toNat == 0x0b || (0x1c ≤ c.toNat && c.toNat ≤ 0x1f)
def isSpacePy (c : Char) : Bool := isSpaceRe2 c || oddSpace c

def isPunct (c : Char) : Bool := Gen.BuiltinVocab.punctuation.toList.contains c

def lower (s : Str) : Str := s.map Char.toLower
def removePunct (s : Str) : Str := s.filter (fun c => !isPunct c)
/-- `[^a-zA-Z0-9\s]` removed -/
def removeSpecial (sp : Char → Bool) (s : Str) : Str := s.filter (fun c => c.isAlphanum || sp c)

/-- `\s+ → " "` : `inWs` = the previous character was white space (already replaced) -/
def collapse (sp : Char → Bool) : Str → Bool → Str
  | [], _ => []
  | c :: cs, inWs =>
    if sp c then (if inWs then collapse sp cs true else ' ' :: collapse sp cs true)
    else c :: collapse sp cs false

def strip (s : Str) : Str := ((s.dropWhile isSpacePy).reverse.dropWhile isSpacePy).reverse

def normalizeWs (sp : Char → Bool) (s : Str) : Str := strip (collapse sp s false)

/-! URL / e-mail removal: `\S+` is greedy and nothing follows it, so a match always runs to the end of the white-space
delimited token; the models work token by token. -/

/-- split into maximal runs: (isWhitespaceRun, chars) -/
def runs (sp : Char → Bool) : Str → List (Bool × Str)
  | [] => []
  | c :: cs =>
    match runs sp cs with
    | (b, r) :: rest => if b == sp c then (b, c :: r) :: rest else (sp c, [c]) :: (b, r) :: rest
    | [] => [(sp c, [c])]

def startsWith (p s : Str) : Bool := p.isPrefixOf s

/-- cut a non-space token at the first position where `https?://\S+` or `www\.\S+` matches -/
def cutUrl : Str → Str
  | [] => []
  | c :: cs =>
    let t := c :: cs
    let hit (p : Str) : Bool := startsWith p t && p.length < t.length
    if hit "http://".toList || hit "https://".toList || hit "www.".toList then [] else c :: cutUrl cs

/-- does `\S+@\S+\.\S+` match somewhere in the token (then the leftmost match starts at its first character and runs to
its end): an `@` at index ≥ 1, then at least one character, then a `.` that is not the last character -/
def hasEmail (t : Str) : Bool :=
  let afterAt (r : Str) : Bool := (r.drop 1).dropLast.contains '.'   -- r = text after the '@'
  let rec go : Str → Bool
    | [] => false
    | c :: cs => (c == '@' && afterAt cs) || go cs
  go (t.drop 1)

def removeUrls (sp : Char → Bool) (s : Str) : Str :=
  let step1 := (runs sp s).map (fun (b, r) => if b then (b, r) else (b, cutUrl r))
  -- the first pass may leave empty tokens; white space on both sides of an emptied token is NOT merged by the regex,
  -- but for the second regex two adjacent white-space runs are one separator, which does not change which
  -- non-space tokens exist
  let step2 := step1.map (fun (b, r) => if b then r else if hasEmail r then [] else r)
  step2.flatten

inductive Op where
  | normalize | removeStopwords | removePunctuation | removeSpecialChars | normalizeWhitespace | removeUrls
  deriving DecidableEq, Repr

def Op.ofString? : String → Option Op
  | "normalize" => some .normalize
  | "remove_stopwords" => some .removeStopwords
  | "remove_punctuation" => some .removePunctuation
  | "remove_special_chars" => some .removeSpecialChars
  | "normalize_whitespace" => some .normalizeWhitespace
  | "remove_urls" => some .removeUrls
  | _ => none

/-- one operation on one (non-null) ASCII string, parameterised by the regex engine's `\s`.  `remove_stopwords` is the
identity (nltk is not importable, `Gen.BuiltinVocab.nltkAvailable = false`; with nltk the operation is not modelled). -/
def applyOp (sp : Char → Bool) : Op → Str → Str
  | .normalize, s => lower s
  | .removeStopwords, s => s
  | .removePunctuation, s => removePunct s
  | .removeSpecialChars, s => removeSpecial sp s
  | .normalizeWhitespace, s => normalizeWs sp s
  | .removeUrls, s => removeUrls (fun c => sp c) s

/-- `PythonDictTextCleaningFeatureGroup`: None becomes "" first, then the operations in order -/
def dictClean (ops : List Op) (c : List (Option Str)) : List (Option Str) :=
  c.map (fun x => some (ops.foldl (fun s op => applyOp isSpacePy op s) (x.getD [])))

/-- the two pandas operations implemented with `Series.apply(python function)` fail on a null entry -/
def Op.raisesOnNull : Op → Bool
  | .normalize => true
  | .removePunctuation => true
  | _ => false

/-- `PandasTextCleaningFeatureGroup`: `astype(str)` keeps nulls; `.str.*` operations propagate them -/
def pandasClean (ops : List Op) (c : List (Option Str)) : Except String (List (Option Str)) :=
  if c.any (·.isNone) && ops.any Op.raisesOnNull then .error "TypeError/AttributeError on a null entry"
  else .ok (c.map (fun x => x.map (fun s => ops.foldl (fun s op => applyOp isSpaceRe2 op s) s)))

end Builtin.Text
