/-! # Model of `mloda/core/prepare/graph/graph.py` (class `Graph`) and `build_graph.py` (class `BuildGraph`)

The dependency graph of a request: `add_node` / `add_edge` fill `nodes` and `adjacency_list`; `iterate_nodes_and_edges`
computes `roots` and the DFS `queue`; `set_direct_parents_for_each_child`, `set_all_parents_for_each_child` and
`set_root_parents_by_direct_` (called in this order by `ResolveLinks.resolve_links`) compute `parents_by_direct_`,
`parent_to_children_mapping` (despite its name: child ↦ set of ALL ancestors; this is the `anc` of `PlanCore`) and
`child_with_root`.

Conventions
* uuids are `Nat`s.  A Python `dict` / `defaultdict` is an insertion-ordered association list `Dict`; a Python `set` value is
  a duplicate-free list (`sadd` = `set.add`, `sunion` = `set.union`); only membership of set values is compared with the real
  code, the key order of every dict is compared as a list.
* `defaultdict` READ access `d[k]` inserts `k ↦ []` when `k` is missing (`dtouch`).  This never changes a later lookup
  (`dget` of a missing key is `[]` too - lemma `dget_dtouch`), therefore the recursive functions read through the lookup
  function of the dict as it was on entry and only RECORD the keys they touch, in order; the touched keys are appended to the
  dict afterwards.  The key insertion is observable: `set_direct_parents_for_each_child` iterates `adjacency_list.items()`
  while its recursion reads `adjacency_list[child]`; a child that is not yet a key makes the dict grow and the `for` statement
  raises `RuntimeError: dictionary changed size during iteration` at its next step (`Err.dictChanged`).
* The three recursions (`dfs`, `get_direct_parents_for_each_child`, `get_all_parents_for_each_child`) take `fuel` = the
  number of nested Python frames that are still available; running out of it is the outcome `Err.recursion`
  (`RecursionError` in the real code).  `dfs` is protected by `visited` and needs at most |nodes|+1 frames on every graph; the
  other two follow every path and never return on a cycle.
-/
namespace Graph

/-- insertion-ordered dict `uuid ↦ list / set of uuids` -/
abbrev Dict := List (Nat × List Nat)

/-- `d.get(k, [])`: lookup without insertion -/
def dget : Dict → Nat → List Nat
  | [], _ => []
  | (k', v) :: d, k => if k' = k then v else dget d k

def dkeys (d : Dict) : List Nat := d.map (·.1)

/-- `d[k] = v`: overwrite in place, or append a new key at the end -/
def dset : Dict → Nat → List Nat → Dict
  | [], k, v => [(k, v)]
  | (k', v') :: d, k, v => if k' = k then (k, v) :: d else (k', v') :: dset d k v

/-- read access `d[k]` of a `defaultdict`: the key is inserted with an empty value when missing -/
def dtouch (d : Dict) (k : Nat) : Dict := dset d k (dget d k)

/-- `s.add(x)` -/
def sadd (s : List Nat) (x : Nat) : List Nat := if x ∈ s then s else s ++ [x]

/-- `a.union(b)` -/
def sunion (a b : List Nat) : List Nat := b.foldl sadd a

/-- `d[k].add(x)` on a `defaultdict(set)` -/
def dadd (d : Dict) (k x : Nat) : Dict := dset d k (sadd (dget d k) x)

/-- `d[k].append(x)` on a `defaultdict(list)` -/
def dappend (d : Dict) (k x : Nat) : Dict := dset d k (dget d k ++ [x])

inductive Err where
  | recursion     -- RecursionError: maximum recursion depth exceeded
  | dictChanged   -- RuntimeError: dictionary changed size during iteration
  deriving DecidableEq, Repr

/-- the fields of a `Graph` object (node / edge properties are not part of the model) -/
structure G where
  nodes   : List Nat := []          -- keys of `self.nodes` in insertion order
  edges   : List (Nat × Nat) := [] -- keys of `self.edges` in insertion order
  adj     : Dict := []              -- `self.adjacency_list` (values are lists: duplicates are kept)
  roots   : List Nat := []
  queue   : List Nat := []
  visited : List Nat := []          -- `self.visited`, most recently visited first
  pbd     : Dict := []              -- `self.parents_by_direct_`
  p2c     : Dict := []              -- `self.parent_to_children_mapping`
  cwr     : Dict := []              -- `self.child_with_root`
  deriving Repr, DecidableEq

/-- `add_node`: `self.nodes[node] = node_properties` -/
def addNode (g : G) (n : Nat) : G := { g with nodes := sadd g.nodes n }

/-- `add_edge`: `self.edges[(parent, child)] = …; self.adjacency_list[parent].append(child)` -/
def addEdge (g : G) (p c : Nat) : G :=
  { g with edges := if (p, c) ∈ g.edges then g.edges else g.edges ++ [(p, c)], adj := dappend g.adj p c }

/-! ### `create_in_degree` and `iterate_nodes_and_edges` -/

/-- `in_degree[child] += 1` on a `defaultdict(int)` -/
def incr : List (Nat × Nat) → Nat → List (Nat × Nat)
  | [], k => [(k, 1)]
  | (k', n) :: d, k => if k' = k then (k', n + 1) :: d else (k', n) :: incr d k

def iget : List (Nat × Nat) → Nat → Nat
  | [], _ => 0
  | (k', n) :: d, k => if k' = k then n else iget d k

/-- `create_in_degree`: `for parent, children in adjacency_list.items(): for child in children: in_degree[child] += 1` -/
def createInDegree (adj : Dict) : List (Nat × Nat) :=
  adj.foldl (fun deg e => e.2.foldl incr deg) []

/-- state of the DFS: `self.visited` (most recent first) and `self.queue` -/
structure DS where
  vis   : List Nat
  queue : List Nat
  deriving Repr, DecidableEq

/-- `dfs(node)`:
```
if node in self.visited: return
self.visited.add(node)
for child in self.adjacency_list[node]:
    if child not in self.visited: self.queue.append(child)
    self.dfs(child)
```
`ch` = lookup function of `adjacency_list`; the read `adjacency_list[node]` happens exactly when `node` enters `visited`, so the
keys inserted by the defaultdict are the visited nodes in visiting order (see `iterate`). -/
def dfs (ch : Nat → List Nat) : Nat → Nat → DS → Option DS
  | 0, _, _ => none
  | fuel + 1, node, s =>
    if node ∈ s.vis then some s
    else (ch node).foldlM
      (fun s child => dfs ch fuel child { vis := s.vis, queue := if child ∈ s.vis then s.queue else s.queue ++ [child] })
      { s with vis := node :: s.vis }

/-- the keys `ks` are read (in this order) on a defaultdict -/
def touchAll (d : Dict) (ks : List Nat) : Dict := ks.foldl dtouch d

/-- `iterate_nodes_and_edges` (called by `ResolveGraph.create_initial_queue`) -/
def iterate (fuel : Nat) (g : G) : Except Err G :=
  let deg := createInDegree g.adj
  let roots := g.nodes.filter (fun n => iget deg n == 0)
  match roots.foldlM (fun s r => dfs (dget g.adj) fuel r s) { vis := [], queue := roots } with
  | none => .error .recursion
  | some s => .ok { g with roots := roots, queue := s.queue, visited := s.vis, adj := touchAll g.adj s.vis.reverse }

/-! ### `set_direct_parents_for_each_child` -/

/-- state of the direct-parent recursion: `parents_by_direct_` and the keys of `adjacency_list` that were read (most recent first) -/
structure PS where
  pbd : Dict
  tch : List Nat
  deriving Repr, DecidableEq

/-- `get_direct_parents_for_each_child(parent, children)`:
```
for child in children:
    self.parents_by_direct_[child].add(parent)
    self.get_direct_parents_for_each_child(child, self.adjacency_list[child])
```
(it walks EVERY path below `parent`; no visited set) -/
def directGo (ch : Nat → List Nat) : Nat → Nat → List Nat → PS → Option PS
  | 0, _, _, _ => none
  | fuel + 1, parent, children, s =>
    children.foldlM
      (fun s child => directGo ch fuel child (ch child) { pbd := dadd s.pbd child parent, tch := child :: s.tch })
      s

/-- `set_direct_parents_for_each_child`: `for parent, children in self.adjacency_list.items(): self.get_direct_…(parent, children)`.
The loop runs over the live dict: when the body has inserted a key, the next step of the `for` raises. -/
def setDirectLoop (fuel : Nat) (adj : Dict) : List (Nat × List Nat) → Dict → Except Err Dict
  | [], pbd => .ok pbd
  | (parent, children) :: rest, pbd =>
    match directGo (dget adj) fuel parent children { pbd := pbd, tch := [] } with
    | none => .error .recursion
    | some s =>
      if (touchAll adj s.tch.reverse).length ≠ adj.length then .error .dictChanged
      else setDirectLoop fuel adj rest s.pbd

def setDirect (fuel : Nat) (g : G) : Except Err G :=
  match setDirectLoop fuel g.adj g.adj g.pbd with
  | .error e => .error e
  | .ok pbd => .ok { g with pbd := pbd }

/-! ### `set_all_parents_for_each_child` -/

/-- `get_all_parents_for_each_child(child, parents)` (the `child` argument is never used by the code):
```
if not parents: return parents
result_set = set()
for parent in parents:
    result_set = result_set.union(self.get_all_parents_for_each_child(child, self.parents_by_direct_[parent]))
return parents.union(result_set)
```
`pb` = lookup function of `parents_by_direct_`.  The keys read (`parents_by_direct_[parent]`) are exactly the elements of the
returned set (each iterated `parent` is returned, and each returned uuid was iterated), see `setAll`. -/
def allGo (pb : Nat → List Nat) : Nat → List Nat → Option (List Nat)
  | 0, _ => none
  | fuel + 1, parents =>
    if parents.isEmpty then some parents
    else match parents.foldlM (fun acc p => (allGo pb fuel (pb p)).map (sunion acc)) [] with
      | none => none
      | some rs => some (sunion parents rs)

/-- `set_all_parents_for_each_child`:
```
for child, parents in self.parents_by_direct_.copy().items():
    result_set = self.get_all_parents_for_each_child(child, parents)
    self.parent_to_children_mapping[child] = result_set.union(parents)
```
second component: the uuids whose `parents_by_direct_` entry was read (inserted as empty sets when missing: the roots) -/
def setAllLoop (fuel : Nat) (pb : Nat → List Nat) : List (Nat × List Nat) → Dict × List Nat → Option (Dict × List Nat)
  | [], acc => some acc
  | (child, parents) :: rest, acc =>
    match allGo pb fuel parents with
    | none => none
    | some r => setAllLoop fuel pb rest (dset acc.1 child (sunion r parents), sunion acc.2 r)

def setAll (fuel : Nat) (g : G) : Except Err G :=
  match setAllLoop fuel (dget g.pbd) g.pbd (g.p2c, []) with
  | none => .error .recursion
  | some (p2c, touched) => .ok { g with p2c := p2c, pbd := touchAll g.pbd touched }

/-! ### `set_root_parents_by_direct_` -/

/-- ```
for child, parents in self.parent_to_children_mapping.items():
    for parent in parents:
        if parent in self.roots: self.child_with_root[child].add(parent)
``` -/
def setRootsLoop (roots : List Nat) : List (Nat × List Nat) → Dict → Dict
  | [], cwr => cwr
  | (child, parents) :: rest, cwr =>
    setRootsLoop roots rest (parents.foldl (fun cwr p => if p ∈ roots then dadd cwr child p else cwr) cwr)

def setRoots (g : G) : G := { g with cwr := setRootsLoop g.roots g.p2c g.cwr }

/-! ### building and preparing -/

inductive Op where
  | node (n : Nat)
  | edge (p c : Nat)
  deriving DecidableEq, Repr

def applyOp (g : G) : Op → G
  | .node n => addNode g n
  | .edge p c => addEdge g p c

def build (ops : List Op) : G := ops.foldl applyOp {}

/-- `BuildGraph.build_graph_from_feature_links`; `flp` = `feature_link_parents.items()` with every parent set in its iteration order:
```
for child, parents in self.feature_link_parents.items():
    self.graph.add_node(child, …)
    for parent in parents:
        self.graph.add_node(parent, …)
        self.graph.add_edge(parent, child, …)
``` -/
def flpOps (flp : List (Nat × List Nat)) : List Op :=
  flp.flatMap fun e => Op.node e.1 :: e.2.flatMap fun p => [Op.node p, Op.edge p e.1]

def buildGraph (flp : List (Nat × List Nat)) : G := build (flpOps flp)

/-- what the engine does with the graph before planning: `ResolveGraph.create_initial_queue` and the three calls of
`ResolveLinks.resolve_links` -/
def prepare (fuel : Nat) (g : G) : Except Err G :=
  match iterate fuel g with
  | .error e => .error e
  | .ok g1 =>
    match setDirect fuel g1 with
    | .error e => .error e
    | .ok g2 =>
      match setAll fuel g2 with
      | .error e => .error e
      | .ok g3 => .ok (setRoots g3)

/-- `ResolveGraph.get_nodes_with_same_feature_group_class`: `for node in graph.queue: collection[class_of node].add(feature)` -/
def nodesPerGroup (cls : Nat → Nat) (queue : List Nat) : Dict :=
  queue.foldl (fun d n => dadd d (cls n) n) []

/-- `ExecutionPlan.retrieve_nodes_which_must_be_calculated_before`: union of `parent_to_children_mapping[f]` over the features -/
def requiredBefore (p2c : Dict) (features : List Nat) : List Nat :=
  features.foldl (fun acc f => sunion acc (dget p2c f)) []

/-- the ancestor function handed to the planner (`graph.parent_to_children_mapping[f]`) -/
def allParents (g : G) (f : Nat) : List Nat := dget g.p2c f

def directParents (g : G) (f : Nat) : List Nat := dget g.pbd f

def children (g : G) (p : Nat) : List Nat := dget g.adj p

/-- a number of frames that is enough for every recursion on a graph all of whose edge endpoints were added as nodes -/
def fuelBound (g : G) : Nat := g.nodes.length + 1

end Graph
