import MlodaVerif.Model.Exec
import MlodaVerif.Model.PlanOK
/-! Expression language of the generated feature groups (the same ASTs `harness/fgfactory.py` evaluates), the column
function it induces for `Exec`, and the SYNC executor's event list. Values are integer column vectors with nulls. -/
namespace Eval
open Sched Exec

inductive Expr where
  | col (c : Nat)
  | const (v : Int)
  | add (a b : Expr)
  | sub (a b : Expr)
  | mul (a b : Expr)
  deriving Repr, Inhabited

abbrev Column := List (Option Int)

def bin (f : Int → Int → Int) : Option Int → Option Int → Option Int
  | some a, some b => some (f a b)
  | _, _ => none

/-- value of an expression in one row; `env c` is the value of column c in that row (`none` = null or missing) -/
def evalRow (env : Nat → Option Int) : Expr → Option Int
  | .col c => env c
  | .const v => some v
  | .add a b => bin (· + ·) (evalRow env a) (evalRow env b)
  | .sub a b => bin (· - ·) (evalRow env a) (evalRow env b)
  | .mul a b => bin (· * ·) (evalRow env a) (evalRow env b)

structure Def where
  uuid : Nat
  parents : List Nat
  expr : Option Expr          -- none: a root column
  rootVals : Column := []
  deriving Repr

def findDef (defs : List Def) (c : Nat) : Option Def := defs.find? (fun d => d.uuid == c)

def nrows (defs : List Def) : Nat := (defs.map (fun d => d.rootVals.length)).foldl max 0

/-- the column function for `Exec`: a derived column is computed row-wise from its parents' column vectors (in the
order of `parents`); a missing parent is a column of nulls -/
def cfgOf (defs : List Def) : Cfg Column :=
  { parents := fun c => match findDef defs c with | some d => d.parents | none => []
    compute := fun c vs =>
      match findDef defs c with
      | none => []
      | some d =>
        match d.expr with
        | none => d.rootVals
        | some e =>
          (List.range (nrows defs)).map fun r =>
            evalRow (fun a =>
              match d.parents.idxOf? a with
              | some k => ((vs.getD k none).getD []).getD r none
              | none => none) e }

/-- events of the SYNC executor: loop head, then one pass visiting every step; a step that gets started is executed
inline (begin, finish) -/
def syncPassEvs (p : Plan) (s : St) : List Ev × St :=
  (List.range p.length).foldl (fun (acc : List Ev × St) i =>
    let s1 := stepEv p acc.2 (.scan i)
    if i ∈ s1.started ∧ i ∉ acc.2.started then
      (acc.1 ++ [.scan i, .begin i, .finish i], stepEv p (stepEv p s1 (.begin i)) (.finish i))
    else (acc.1 ++ [.scan i], s1)) ([], s)

def syncEvs (p : Plan) : Nat → St → List Ev
  | 0, _ => []
  | n + 1, s =>
    let s1 := stepEv p s .loopHead
    if halted s1 then [.loopHead] else
      let (evs, s2) := syncPassEvs p s1
      Ev.loopHead :: evs ++ syncEvs p n s2

end Eval
