/-! # Link ordering inside the planner (C04, extension `C04_links`)

Statement-by-statement model of

* `mloda/core/prepare/resolve_links.py`: `LinkTrekker.update` (23-24), `invert_link` (26-47), `get_position` (49-54),
  `insert_at_position` (56-59), `get_ordered_data` (61-76), `drop_dependency_in_case_of_circular_dependencies` (78-117),
  `order_ordered_ids_by_relation` (119-167), `order_links_by_frameworks` (169-192), `create_data_ordered` (194-207),
  `ResolveLinks.add_links_to_queue` (216-236);
* `mloda/core/prepare/resolve_compute_frameworks.py`: `links` (16-35), `order_queue_by_trekker_order` (37-87),
  `access_link_by_child_uuid` (89-95), `trekker_right_left_adjuster` (97-108), `resolve_trekked_links` (110-141).

Conventions.  Link uuids, feature uuids and compute-framework classes are `Nat`s.  A link is identified by ONE number
that stands both for the `Link` object as a dict key (`Link.__eq__` / `__hash__`, by content) and for `link.uuid`:
the links of a request come out of one `set`, so two different uuids never belong to equal links.  A Python `dict` /
`OrderedDict` / `defaultdict` is an association list in insertion order with pairwise different keys (re-assigning an
existing key keeps its place).  A Python `set` of uuids is a duplicate-free `List Nat` that is only used through
membership / `len` / `add` / `remove`; the two places where the code ITERATES a set and the order is observable
(`next(iter(features))` in `links`, `for dep_link in dependent_links` in `order_queue_by_trekker_order`) take the
iteration order as an explicit argument.  Exceptions are `Except String`, the string being `"<Type>: <message>"`.

Aliasing.  `create_data_ordered` stores THE SAME set object under `data[k]` and `data_ordered[k]`
(the comment in `invert_link` relies on it), `invert_link` creates separate objects for a new key.  A `data_ordered`
entry therefore carries a flag `alias`: `true` = one object with `data[k]` (every mutation of one side is mirrored),
`false` = an object of its own.
-/
namespace LinkOrder

/-! ### Python containers -/

section Dict
variable {κ : Type} [DecidableEq κ] {α : Type}

/-- `d.keys()` -/
def dkeys (d : List (κ × α)) : List κ := d.map (·.1)

/-- `d.get(k)` -/
def dget : List (κ × α) → κ → Option α
  | [], _ => none
  | e :: r, k => if e.1 = k then some e.2 else dget r k

/-- in-place change of the value stored under `k` (nothing happens when the key is missing) -/
def dmodify (d : List (κ × α)) (k : κ) (f : α → α) : List (κ × α) :=
  d.map (fun e => if e.1 = k then (e.1, f e.2) else e)

/-- `d[k] = v`: an existing key keeps its position, a new key goes to the end -/
def dset (d : List (κ × α)) (k : κ) (v : α) : List (κ × α) :=
  if k ∈ dkeys d then dmodify d k (fun _ => v) else d ++ [(k, v)]

/-- `del d[k]` (the caller checks presence where Python would raise) -/
def ddel (d : List (κ × α)) (k : κ) : List (κ × α) := d.filter (fun e => e.1 ≠ k)

/-- `OrderedDict.move_to_end(k)` -/
def moveToEnd (d : List (κ × α)) (k : κ) : List (κ × α) := d.filter (fun e => e.1 ≠ k) ++ d.filter (fun e => e.1 = k)

end Dict

/-- `s.add(x)` -/
def sadd (s : List Nat) (x : Nat) : List Nat := if x ∈ s then s else s ++ [x]

/-- `s.remove(x)` for `x ∈ s` (the caller checks presence where Python would raise `KeyError`) -/
def srem (s : List Nat) (x : Nat) : List Nat := s.filter (· ≠ x)

/-! ### trekker keys and state -/

/-- `LinkFrameworkTrekker = (Link, left framework, right framework)` -/
structure Key where
  link : Nat
  left : Nat
  right : Nat
  deriving DecidableEq, Repr

/-- `LinkTrekker.order`: link uuid ↦ set of link uuids.  `l ∈ order[k]` is read by every consumer as
"link `l` has to wait for link `k`". -/
abbrev Order := List (Nat × List Nat)

/-- value of a `data_ordered` entry: (is the set object the one stored in `data` under the same key?, the set) -/
abbrev OVal := Bool × List Nat

structure Trekker where
  data : List (Key × List Nat) := []
  dataOrdered : List (Key × OVal) := []
  order : Order := []
  deriving Repr

/-- `data_ordered.items()` as the consumers see it -/
def orderedView (t : Trekker) : List (Key × List Nat) := t.dataOrdered.map (fun e => (e.1, e.2.2))

/-- `self.data[k].add(u)` on the `defaultdict(set)`; mirrored into an aliased `data_ordered[k]` -/
def dataAdd (t : Trekker) (k : Key) (u : Nat) : Trekker :=
  if k ∈ dkeys t.data then
    { t with data := dmodify t.data k (sadd · u),
             dataOrdered := dmodify t.dataOrdered k (fun v => if v.1 then (v.1, sadd v.2 u) else v) }
  else
    -- a fresh set object is created by the default factory; a `data_ordered[k]` that exists is another object
    { t with data := t.data ++ [(k, [u])], dataOrdered := dmodify t.dataOrdered k (fun v => (false, v.2)) }

/-- `LinkTrekker.update(key, value)` -/
def update (t : Trekker) (k : Key) (u : Nat) : Trekker := dataAdd t k u

/-- `self.data_ordered[k].add(u)` for an existing key; mirrored into `data[k]` when it is the same object -/
def ordAdd (t : Trekker) (k : Key) (u : Nat) : Trekker :=
  match dget t.dataOrdered k with
  | some (true, _) => { t with dataOrdered := dmodify t.dataOrdered k (fun v => (v.1, sadd v.2 u)),
                               data := dmodify t.data k (sadd · u) }
  | _ => { t with dataOrdered := dmodify t.dataOrdered k (fun v => (v.1, sadd v.2 u)) }

/-- `get_position`: index of the key in `data_ordered` -/
def getPosition : List (Key × OVal) → Key → Option Nat
  | [], _ => none
  | e :: r, k => if e.1 = k then some 0 else (getPosition r k).map (· + 1)

/-- `insert_at_position` (only reached for a key that is not in `data_ordered`): `list.insert` -/
def insertAt (d : List (Key × OVal)) (pos : Nat) (e : Key × OVal) : List (Key × OVal) := d.take pos ++ [e] ++ d.drop pos

/-- `invert_link(link, left_cfw, right_cfw, uuid)` -/
def invertLink (t : Trekker) (old : Key) (u : Nat) : Except String Trekker :=
  let new : Key := { link := old.link, left := old.right, right := old.left }
  -- if data is not there, we plug it behind the existing link
  let t1? : Except String Trekker :=
    if new ∉ dkeys t.dataOrdered then
      match getPosition t.dataOrdered old with
      | none => .error "ValueError: Link not found in data ordered!"
      | some p => .ok { t with dataOrdered := insertAt t.dataOrdered (p + 1) (new, (false, [u])) }
    else .ok (ordAdd t new u)
  match t1? with
  | .error e => .error e
  | .ok t1 =>
    -- adjust self.data
    let t2 := dataAdd t1 new u
    -- drop the old link: self.data[old].remove(uuid)  (a missing key is created empty by the defaultdict, then KeyError)
    match dget t2.data old with
    | none => .error "KeyError"
    | some s =>
      if u ∉ s then .error "KeyError" else
      let t3 : Trekker := { t2 with data := dmodify t2.data old (srem · u),
                                    dataOrdered := dmodify t2.dataOrdered old (fun v => if v.1 then (v.1, srem v.2 u) else v) }
      if (srem s u).length = 0 then
        if old ∉ dkeys t3.dataOrdered then .error "KeyError"
        else .ok { t3 with data := ddel t3.data old, dataOrdered := ddel t3.dataOrdered old }
      else .ok t3

/-! ### `order_links_by_frameworks` -/

/-- `self.order[k] = {x}` for a new key, `self.order[k].add(x)` otherwise -/
def oadd (o : Order) (k x : Nat) : Order :=
  if k ∈ dkeys o then dmodify o k (sadd · x) else o ++ [(k, [x])]

/-- body of the double loop for one pair (`trekker`, `other_trekker`) -/
def relStep (o : Order) (tk ok : Key) : Order :=
  if tk.link = ok.link then o
  else if tk.right = ok.left ∧ ok.left = tk.left then o      -- `right == other_left == left`
  else if tk.right = ok.left then oadd o ok.link tk.link
  else o

/-- the double loop over `self.data.items()` (only the keys are used) -/
def orderRaw (keys : List Key) (o : Order) : Order :=
  keys.foldl (fun o tk => keys.foldl (fun o ok => relStep o tk ok) o) o

/-- `dependant_features` of the LAST key of `data` whose link has the given uuid (the search loop has no `break`) -/
def lastDeps : List (Key × List Nat) → Nat → Option (List Nat)
  | [], _ => none
  | e :: r, lid => match lastDeps r lid with
    | some s => some s
    | none => if e.1.link = lid then some e.2 else none

/-- `x in self.order[k]` for a key of the dict -/
def memb (o : Order) (k x : Nat) : Bool :=
  match dget o k with
  | some v => decide (x ∈ v)
  | none => false

/-- `adjust_order(data, k_out, k_in)`; `found_in = (k_in, …)` reads the variable of the enclosing loop, which is the
value passed as `k_int`.  The link with at least as many dependants loses its entry. -/
def adjustOrder (data : List (Key × List Nat)) (o : Order) (kOut kIn : Nat) : Except String Order :=
  match lastDeps data kOut, lastDeps data kIn with
  | some fo, some fi =>
    let drop := if fo.length ≥ fi.length then kOut else kIn
    let keep := if fo.length ≥ fi.length then kIn else kOut
    .ok (dmodify o keep (srem · drop))
  | _, _ => .error "ValueError: Link not found in data!"

def dropInner (data : List (Key × List Nat)) (kOut : Nat) : List Nat → Order → Except String Order
  | [], o => .ok o
  | kIn :: r, o =>
    if kOut = kIn then dropInner data kOut r o
    else if memb o kIn kOut && memb o kOut kIn then
      match adjustOrder data o kOut kIn with
      | .error e => .error e
      | .ok o' => dropInner data kOut r o'
    else dropInner data kOut r o

def dropOuter (data : List (Key × List Nat)) (ks : List Nat) : List Nat → Order → Except String Order
  | [], o => .ok o
  | kOut :: r, o =>
    match dropInner data kOut ks o with
    | .error e => .error e
    | .ok o' => dropOuter data ks r o'

/-- `drop_dependency_in_case_of_circular_dependencies`: the key set of `order` is fixed, the sets change in place -/
def dropCircular (data : List (Key × List Nat)) (o : Order) : Except String Order :=
  dropOuter data (dkeys o) (dkeys o) o

/-- `order_links_by_frameworks` -/
def orderLinksByFrameworks (t : Trekker) : Except String Trekker :=
  match dropCircular t.data (orderRaw (dkeys t.data) t.order) with
  | .error e => .error e
  | .ok o => .ok { t with order := o }

/-! ### `order_ordered_ids_by_relation` -/

/-- the inner loop: last position `i_pos > o_pos` whose set contains `o_uuid` -/
def latestFrom (oId : Nat) : List (Nat × List Nat) → Nat → Option Nat → Option Nat
  | [], _, acc => acc
  | e :: r, i, acc => latestFrom oId r (i + 1) (if oId ∈ e.2 then some i else acc)

def latestPos (o : Order) (oPos oId : Nat) : Option Nat := latestFrom oId (o.drop (oPos + 1)) (oPos + 1) none

abbrev PosMarker := List (Nat × (Nat × List Nat))

/-- the collision handling: `for i in range(latest, len(pos_marker)): if i not in pos_marker: latest = i + latest; break` -/
def bumpPos (pm : PosMarker) (latest : Nat) : Nat :=
  if latest ∈ dkeys pm then
    match (List.range' latest (pm.length - latest)).find? (fun i => decide (i ∉ dkeys pm)) with
    | some i => i + latest
    | none => latest
  else latest

def reorderLoop (o : Order) : List (Nat × List Nat) → Nat → Order × PosMarker → Order × PosMarker
  | [], _, st => st
  | e :: r, pos, (no, pm) =>
    match latestPos o pos e.1 with
    | none => reorderLoop o r (pos + 1) (dset no e.1 e.2, pm)
    | some lp => reorderLoop o r (pos + 1) (no, dset pm (bumpPos pm lp) e)

/-- the final loop `for i in range(max_latest_pos + 1)` -/
def flushMarkers (pm : PosMarker) (no : Order) : Order :=
  (List.range ((dkeys pm).foldl max 0 + 1)).foldl
    (fun no i => match dget pm i with
      | some e => moveToEnd (dset no e.1 e.2) e.1
      | none => no) no

/-- `order_ordered_ids_by_relation`: `self.order` is only replaced when something was remembered in `pos_marker` -/
def reorder (o : Order) : Order :=
  let st := reorderLoop o o 0 ([], [])
  if st.2.length = 0 then o else flushMarkers st.2 st.1

/-! ### `create_data_ordered`, `get_ordered_data` -/

/-- first loop: by priority of `order`; second loop: the rest.  `self.data_ordered[k] = v` stores the object of `data`. -/
def fillByOrder (data : List (Key × List Nat)) (o : Order) (dord : List (Key × OVal)) : List (Key × OVal) :=
  o.foldl (fun dord oe => data.foldl (fun dord e => if e.1.link = oe.1 then dset dord e.1 (true, e.2) else dord) dord) dord

def fillRest (data : List (Key × List Nat)) (dord : List (Key × OVal)) : List (Key × OVal) :=
  data.foldl (fun dord e => if e.1 ∈ dkeys dord then dord else dset dord e.1 (true, e.2)) dord

def createDataOrdered (t : Trekker) : Except String Trekker :=
  let d := fillRest t.data (fillByOrder t.data t.order t.dataOrdered)
  -- ResolveLinkValidator.validate_data_consistency
  if t.data.length ≠ d.length then .error "ValueError: Data and data_ordered have different lengths"
  else .ok { t with dataOrdered := d }

def getOrderedData (t : Trekker) : Except String Trekker :=
  match orderLinksByFrameworks t with
  | .error e => .error e
  | .ok t1 => createDataOrdered { t1 with order := reorder t1.order }

/-! ### `ResolveLinks.add_links_to_queue` -/

inductive QItem where
  | uuid (u : Nat)
  | link (k : Key)
  deriving DecidableEq, Repr

/-- inner loop over `ordered.items()` for one queue uuid; state = (`queue_with_link`, `already_joined`).
`for link_id in link_uuids: if uuid == link_id` fires at most once per set, i.e. it is a membership test. -/
def addLinksFor (u : Nat) : List (Key × List Nat) → List QItem × List Key → List QItem × List Key
  | [], st => st
  | e :: r, (out, joined) =>
    if e.1 ∈ joined then addLinksFor u r (out, joined)
    else if u ∈ e.2 then addLinksFor u r (out ++ [.link e.1], joined ++ [e.1])
    else addLinksFor u r (out, joined)

def addLinksLoop (ordered : List (Key × List Nat)) : List Nat → List QItem × List Key → List QItem × List Key
  | [], st => st
  | u :: r, st =>
    let st' := addLinksFor u ordered st
    addLinksLoop ordered r (st'.1 ++ [.uuid u], st'.2)

/-- the loop of `add_links_to_queue` on `ordered = get_ordered_data()` -/
def addLinks (ordered : List (Key × List Nat)) (queue : List Nat) : List QItem := (addLinksLoop ordered queue ([], [])).1

/-- `add_links_to_queue` as a whole -/
def addLinksToQueue (t : Trekker) (queue : List Nat) : Except String (List QItem × Trekker) :=
  match getOrderedData t with
  | .error e => .error e
  | .ok t' => .ok (addLinks (orderedView t') queue, t')

/-! ### `order_queue_by_trekker_order` -/

/-- planned-queue element as far as this function looks at it: a feature-group entry `(fg class, features)` or a link
entry `(Link, left, right)` -/
inductive PEl where
  | fg (id : Nat)
  | link (k : Key)
  deriving DecidableEq, Repr

def PEl.isLink : PEl → Bool
  | .fg _ => false
  | .link _ => true

/-- the loops `for k, v in orders.items(): if uuid in v: if k not in link_already_added: … break`:
first key of `orders` (dict order) the link still has to wait for -/
def firstMissing (orders : Order) (added : List Nat) (u : Nat) : Option Nat :=
  match orders with
  | [] => none
  | e :: r => if u ∈ e.2 ∧ e.1 ∉ added then some e.1 else firstMissing r added u

/-- iteration order of the set `issue_collector[k]`: `ord` (what the real set yields) when it is an enumeration of the
set without repetition, the insertion order otherwise.  Every permutation of the set is obtained by some `ord`. -/
def iterSet (ord : List Key) (s : List Key) : List Key :=
  if ord.Nodup ∧ (∀ x ∈ ord, x ∈ s) ∧ (∀ x ∈ s, x ∈ ord) then ord else s

structure OQ where
  out : List PEl := []
  added : List Nat := []                 -- `link_already_added`
  issues : List (Nat × List Key) := []   -- `issue_collector` (defaultdict(set)); the sets in insertion order
  deriving Repr

/-- `issue_collector[k].add(p)` -/
def issueAdd (is : List (Nat × List Key)) (k : Nat) (p : Key) : List (Nat × List Key) :=
  if k ∈ dkeys is then dmodify is k (fun s => if p ∈ s then s else s ++ [p]) else is ++ [(k, [p])]

/-- the loop over the dependent links filed under the link that was just appended -/
def readd (orders : Order) : List Key → List PEl × List Nat → List PEl × List Nat
  | [], st => st
  | d :: r, (out, added) =>
    match firstMissing orders added d.link with
    | some _ => readd orders r (out, added)
    | none => readd orders r (out ++ [.link d], sadd added d.link)

/-- one element of the planned queue; `ords k` = iteration order of `issue_collector[k]` -/
def oqStep (orders : Order) (ords : Nat → List Key) (st : OQ) : PEl → OQ
  | .fg i => { st with out := st.out ++ [.fg i] }
  | .link key =>
    match firstMissing orders st.added key.link with
    | some k => { st with issues := issueAdd st.issues k key }        -- too early: filed under ONE key, `continue`
    | none =>
      let added := sadd st.added key.link
      let out := st.out ++ [.link key]
      -- `for k, dependent_links in issue_collector.items(): if p[0].uuid == k` (the keys of a dict are unique)
      match dget st.issues key.link with
      | none => { st with out := out, added := added }
      | some deps =>
        let r := readd orders (iterSet (ords key.link) deps) (out, added)
        { st with out := r.1, added := r.2 }

/-- `order_queue_by_trekker_order(planned_queue, link_trekker)` with `orders = link_trekker.order` -/
def orderQueue (orders : Order) (ords : Nat → List Key) (queue : List PEl) : List PEl :=
  (queue.foldl (oqStep orders ords) {}).out

/-! ### `resolve_trekked_links`, `access_link_by_child_uuid`, `trekker_right_left_adjuster`, `links` -/

inductive JT where
  | right      -- JoinType.RIGHT
  | other      -- any other member of JoinType
  | invalid    -- not a JoinType
  deriving DecidableEq, Repr

/-- `access_link_by_child_uuid` -/
def accessLinks (t : Trekker) (child : Nat) : List Key :=
  ((orderedView t).filter (fun e => decide (child ∈ e.2))).map (·.1)

/-- `resolve_trekked_links`; state = (`new_cfws`, `self.to_invert_trekker_collection`) -/
def resolveLoop (jt : Nat → JT) (cfws : List Nat) : List Key → List Nat × List Key → Except String (List Nat × List Key)
  | [], st => .ok st
  | k :: r, (new, inv) =>
    match jt k.link with
    | .right =>
      if k.right ∈ cfws then resolveLoop jt cfws r (sadd new k.right, inv)
      else if k.left ∈ cfws then resolveLoop jt cfws r (sadd new k.right, inv ++ [k])
      else resolveLoop jt cfws r (new, inv)
    | .other =>
      if k.left ∈ cfws ∧ k.right ∈ cfws then resolveLoop jt cfws r (sadd new k.left, inv)
      else if k.left ∈ cfws then resolveLoop jt cfws r (sadd new k.left, inv)
      else if k.right ∈ cfws then resolveLoop jt cfws r (sadd new k.right, inv ++ [k])
      else resolveLoop jt cfws r (new, inv)
    | .invalid => .error "ValueError: This jointype is not implemented"

def resolveTrekked (jt : Nat → JT) (trekked : List Key) (cfws : List Nat) (inv : List Key) : Except String (List Nat × List Key) :=
  match resolveLoop jt cfws trekked ([], inv) with
  | .error e => .error e
  | .ok (new, inv') => if new.length = 0 then .error "ValueError: No new compute frameworks have been found." else .ok (new, inv')

/-- the innermost loop of `trekker_right_left_adjuster` over the snapshot `deepcopy(uuids)` -/
def invertAll (old : Key) (feat : List Nat) : List Nat → Trekker → Except String Trekker
  | [], t => .ok t
  | u :: r, t =>
    if u ∈ feat then
      match invertLink t old u with
      | .error e => .error e
      | .ok t' => invertAll old feat r t'
    else invertAll old feat r t

/-- `trekker_right_left_adjuster`: per collected key a snapshot of `data_ordered` is searched for the key -/
def adjuster (feat : List Nat) : List Key → Trekker → Except String Trekker
  | [], t => .ok t
  | k :: r, t =>
    match dget t.dataOrdered k with
    | none => adjuster feat r t
    | some v =>
      match invertAll k feat v.2 t with
      | .error e => .error e
      | .ok t' => adjuster feat r t'

/-- planned-queue element with what `links` reads: the features of the entry in the iteration order of the set, each
with its uuid and `compute_frameworks` -/
inductive LEl where
  | fg (id : Nat) (feats : List (Nat × List Nat))
  | link (k : Key)
  deriving Repr

def LEl.toPEl : LEl → PEl
  | .fg i _ => .fg i
  | .link k => .link k

/-- the first loop of `links` -/
def linksLoop (jt : Nat → JT) : List LEl → Trekker × List LEl → Except String (Trekker × List LEl)
  | [], st => .ok st
  | .link k :: r, (t, out) => linksLoop jt r (t, out ++ [.link k])
  | .fg i feats :: r, (t, out) =>
    match feats with
    | [] => .error "StopIteration"                       -- `next(iter(p[1]))` on an empty set
    | f :: _ =>
      let trekked := accessLinks t f.1
      if trekked.length = 0 then linksLoop jt r (t, out ++ [.fg i feats])
      else
        match resolveTrekked jt trekked f.2 [] with
        | .error e => .error e
        | .ok (new, inv) =>
          let feats' := feats.map (fun g => (g.1, new))
          -- `if not self.to_invert_trekker_collection: return`
          match adjuster (feats.map (·.1)) inv t with
          | .error e => .error e
          | .ok t' => linksLoop jt r (t', out ++ [.fg i feats'])

/-- `ResolveComputeFrameworks.links(planned_queue, link_trekker)` -/
def links (jt : Nat → JT) (ords : Nat → List Key) (queue : List LEl) (t : Trekker) : Except String (List LEl × Trekker) :=
  match linksLoop jt queue (t, []) with
  | .error e => .error e
  | .ok (t1, q1) =>
    match orderLinksByFrameworks t1 with
    | .error e => .error e
    | .ok t2 =>
      -- the output elements are the input objects; positions are decided on the (fg id | key) view
      let ordered := orderQueue t2.order ords (q1.map LEl.toPEl)
      let pick (p : PEl) : Option LEl := q1.find? (fun e => decide (e.toPEl = p))
      .ok (ordered.filterMap pick, t2)

end LinkOrder
