import MlodaVerif.Gen.FilterDispatch
/-! # Model of mloda's global-filter application (property C11)

Anchors: `mloda/core/filter/filter_engine.py` (`apply_single_filters`, `do_filter`), `filter_parameter.py`,
`python_dict_filter_engine.py` (modelled statement by statement), `pyarrow_filter_engine.py` and
`pandas_filter_engine.py` (mloda's own statements are modelled; the pyarrow / pandas calls they make are the *named,
assumed* semantic functions in `ArrowSem` / `PandasSem`, differential-tested by `harness/corr/c11.py`).

Conventions
* cell values are `int | rat | str | null`; generated floats are dyadic rationals, so `Rat` is exact.
* a row is a Python `dict`, `row.get(c)` returns `None` for a missing key - that is `Row.get`.
* Python exceptions are `Except Err`; `Err.notModelled` marks inputs outside the modelled fragment (regex syntax beyond
  literals / `.` / leading `^`; pandas `astype(str)` of floats) - the harness never compares such cases.
* `max_exclusive` is tested with `is True` in all three engines; the flag is a `Bool` that is true exactly for the Python
  singleton `True` (the driver maps every other JSON value to `false`, as `is True` does).
-/
namespace Filter
open Gen

inductive Val where
  | int (i : Int)
  | rat (q : Rat)
  | str (s : String)
  | null
  deriving DecidableEq, Repr, Inhabited

inductive Err where
  | valueError      -- raised by mloda's parameter checks
  | typeError       -- raised by Python / pyarrow / pandas on operands of the wrong type
  | notImplemented  -- `do_custom_filter`
  | keyError        -- pandas column lookup with a `FeatureName` object (pre-fix variant only)
  | notModelled     -- outside the modelled fragment
  deriving DecidableEq, Repr, Inhabited

/-! ## Python comparison semantics on values -/

/-- what Python's `==`, `<`, `<=` and `hash` look at: `1 == 1.0`, strings compare by code point, `None` is only equal to
`None` and is not orderable. -/
inductive Key where
  | num (q : Rat)
  | str (s : String)
  | null
  deriving DecidableEq, Repr, Inhabited

inductive Cls where
  | num | str | null
  deriving DecidableEq, Repr, Inhabited

def Val.key : Val → Key
  | .int i => .num (i : Rat)
  | .rat q => .num q
  | .str s => .str s
  | .null => .null

def Key.cls : Key → Cls
  | .num _ => .num
  | .str _ => .str
  | .null => .null

def Val.cls (v : Val) : Cls := v.key.cls

/-- `a <= b`; `none` = Python raises `TypeError: '<=' not supported between instances of …` -/
def Key.le? : Key → Key → Option Bool
  | .num a, .num b => some (decide (a ≤ b))
  | .str a, .str b => some (decide (a ≤ b))
  | _, _ => none

/-- `a < b`; `none` = `TypeError` -/
def Key.lt? : Key → Key → Option Bool
  | .num a, .num b => some (decide (a < b))
  | .str a, .str b => some (decide (a < b))
  | _, _ => none

/-- `a == b` on the modelled values (never raises) -/
def pyEq (a b : Val) : Bool := a.key == b.key

/-- total readings used by the specification: "comparable and ≤" -/
def leB (a b : Val) : Bool := Key.le? a.key b.key == some true
def ltB (a b : Val) : Bool := Key.lt? a.key b.key == some true

/-- the two operands can be ordered by Python -/
def comparable (a b : Val) : Bool := (Key.le? a.key b.key).isSome

/-! ## `str(x)` (used by the regex filter of the PythonDict engine) -/

def digitChar (n : Nat) : Char := Char.ofNat (48 + n)

def fracDigits : Nat → Nat → Nat → List Char
  | 0, _, _ => []
  | fuel + 1, r, d => if r = 0 then [] else digitChar (r * 10 / d) :: fracDigits fuel (r * 10 % d) d

/-- `repr(float)` for a dyadic rational of small magnitude with a short expansion (assumption: for such values the
shortest round-trip representation is the exact decimal expansion and no exponent is used). -/
def pyStrRat (q : Rat) : String :=
  let n := q.num.natAbs
  let r := n % q.den
  (if q.num < 0 then "-" else "") ++ toString (n / q.den) ++ "." ++
    (if r = 0 then "0" else String.ofList (fracDigits 40 r q.den))

def pyStr : Val → String
  | .int i => toString i
  | .rat q => pyStrRat q
  | .str s => s
  | .null => "None"

/-! ## The modelled regular-expression fragment

`^`? followed by atoms, each a literal character (no metacharacter) or `.` (any character except newline). Nothing
else of `re` / RE2 is modelled; a pattern outside the fragment makes every model answer `notModelled`. -/

inductive Atom where
  | lit (c : Char)
  | any
  deriving DecidableEq, Repr

structure Pattern where
  anchored : Bool
  atoms : List Atom
  deriving DecidableEq, Repr

def metaChars : List Char := ['\\', '^', '$', '*', '+', '?', '{', '}', '[', ']', '(', ')', '|']

def parseAtoms : List Char → Option (List Atom)
  | [] => some []
  | c :: cs =>
    if c = '.' then (parseAtoms cs).map (Atom.any :: ·)
    else if metaChars.contains c then none
    else (parseAtoms cs).map (Atom.lit c :: ·)

def parsePattern (s : String) : Option Pattern :=
  match s.toList with
  | '^' :: cs => (parseAtoms cs).map (fun a => ⟨true, a⟩)
  | cs => (parseAtoms cs).map (fun a => ⟨false, a⟩)

def Atom.accepts : Atom → Char → Bool
  | .lit c, x => c == x
  | .any, x => x != '\n'

/-- the atoms match a prefix of the text -/
def matchPrefix : List Atom → List Char → Bool
  | [], _ => true
  | _ :: _, [] => false
  | a :: as, c :: cs => a.accepts c && matchPrefix as cs

/-- the atoms match somewhere in the text -/
def matchAnywhere (as : List Atom) : List Char → Bool
  | [] => matchPrefix as []
  | c :: cs => matchPrefix as (c :: cs) || matchAnywhere as cs

/-- `re.match(p, s)` / pandas `Series.str.match`: anchored at the start whether or not the pattern says `^` -/
def Pattern.matchStart (p : Pattern) (s : String) : Bool := matchPrefix p.atoms s.toList

/-- `pc.match_substring_regex` (RE2 partial match): a search, unless the pattern itself starts with `^` -/
def Pattern.search (p : Pattern) (s : String) : Bool :=
  if p.anchored then matchPrefix p.atoms s.toList else matchAnywhere p.atoms s.toList

/-! ## Filters as stored by mloda (`SingleFilter` + `FilterParameterImpl`) -/

inductive ValuesParam where
  | none                    -- no `values` key (or `None`)
  | list (l : List Val)     -- a `list` (unhashable: see `GlobalFilterModel.addFilter`)
  | tuple (l : List Val)    -- a `tuple`
  | scalar (v : Val)        -- any other object
  deriving DecidableEq, Repr, Inhabited

/-- `SingleFilter`: column, `filter_type` string and the five accessors of `FilterParameterImpl`
(`Val.null` = key missing or `None`: `_get` cannot tell them apart). -/
structure RawFilter where
  col : String
  ftype : String
  value : Val := .null
  values : ValuesParam := .none
  min : Val := .null
  max : Val := .null
  maxExclusive : Bool := false
  deriving DecidableEq, Repr, Inhabited

/-! ## Specification: what a filter means (written from the property text) -/

inductive Filter where
  | range (lo hi : Val) (excl : Bool)   -- lower bound inclusive, upper bound exclusive iff flagged
  | min (v : Val)                       -- value ≥ v
  | max (v : Val) (excl : Bool)         -- value ≤ v, or value < v in the `max` + `max_exclusive` style
  | equal (v : Val)
  | regex (p : Pattern)                 -- the text of the value starts with a match of the pattern
  | isin (vs : List Val)                -- categorical inclusion
  deriving DecidableEq, Repr

/-- a value satisfies a filter. Nulls and values that cannot be ordered against the bound satisfy no ordering filter;
a null is "included" only if `None` is one of the listed categories. -/
def sat : Filter → Val → Bool
  | .range lo hi excl, x => leB lo x && (if excl then ltB x hi else leB x hi)
  | .min v, x => leB v x
  | .max v excl, x => if excl then ltB x v else leB x v
  | .equal v, x => pyEq x v
  | .regex p, x => x != .null && p.matchStart (pyStr x)
  | .isin vs, x => vs.any (pyEq x)

/-- the bounds a value is ordered against -/
def Filter.bounds : Filter → List Val
  | .range lo hi _ => [lo, hi]
  | .min v => [v]
  | .max v _ => [v]
  | _ => []

/-- guard of the order filters: the cell is null (skipped by the engines) or orderable against every bound -/
def Filter.comparableWith (f : Filter) (x : Val) : Bool :=
  x == .null || f.bounds.all (fun b => comparable b x)

/-- reading of the parameter dictionary, both `max` styles included (`{"value": v}` inclusive; `{"max": m,
"max_exclusive": b}`), with the errors the engines raise for unusable parameters -/
def RawFilter.parse (f : RawFilter) : Except Err Filter :=
  match filterDispatch f.ftype with
  | .do_range_filter =>
    if f.min = .null ∨ f.max = .null then .error .valueError else .ok (.range f.min f.max f.maxExclusive)
  | .do_min_filter => if f.value = .null then .error .valueError else .ok (.min f.value)
  | .do_max_filter =>
    if f.max ≠ .null then
      (if f.min ≠ .null then .error .valueError else .ok (.max f.max f.maxExclusive))
    else if f.value ≠ .null then .ok (.max f.value false)
    else .error .valueError
  | .do_equal_filter => if f.value = .null then .error .valueError else .ok (.equal f.value)
  | .do_regex_filter =>
    match f.value with
    | .null => .error .valueError
    | .str s => match parsePattern s with
      | some p => .ok (.regex p)
      | none => .error .notModelled
    | _ => .error .typeError
  | .do_categorical_inclusion_filter =>
    match f.values with
    | .none => .error .valueError
    | .list l => .ok (.isin l)
    | .tuple l => .ok (.isin l)
    | .scalar v => .ok (.isin [v])
  | .do_custom_filter => .error .notImplemented

/-! ## Rows -/

abbrev Row := List (String × Val)

/-- `row.get(c)`: `None` when the key is missing -/
def Row.get (r : Row) (c : String) : Val :=
  match r.lookup c with
  | some v => v
  | none => .null

/-- a list comprehension `[row for row in data if cond(row)]` whose condition may raise: rows are visited in order, the
first exception aborts the whole comprehension -/
def filterE {α : Type} (p : α → Except Err Bool) : List α → Except Err (List α)
  | [] => .ok []
  | a :: as =>
    match p a with
    | .error e => .error e
    | .ok b =>
      match filterE p as with
      | .error e => .error e
      | .ok rest => .ok (if b then a :: rest else rest)

/-! ## `PythonDictFilterEngine`, statement by statement -/
namespace PyDict

def ofCmp : Option Bool → Except Err Bool
  | some b => .ok b
  | none => .error .typeError

/-- `row.get(c) is not None and lo <= row.get(c) < hi` (or `<= hi`): `and` short-circuits on a null, the chained
comparison evaluates its second half only when the first is true -/
def rangeCell (lo hi : Val) (excl : Bool) (x : Val) : Except Err Bool :=
  if x = .null then .ok false else
  match Key.le? lo.key x.key with
  | none => .error .typeError
  | some false => .ok false
  | some true => ofCmp (if excl then Key.lt? x.key hi.key else Key.le? x.key hi.key)

def doRange (f : RawFilter) (rows : List Row) : Except Err (List Row) :=
  if f.min = .null ∨ f.max = .null then .error .valueError else
  if f.maxExclusive then filterE (fun r => rangeCell f.min f.max true (r.get f.col)) rows
  else filterE (fun r => rangeCell f.min f.max false (r.get f.col)) rows

/-- `row.get(c) is not None and row.get(c) >= value` -/
def minCell (v x : Val) : Except Err Bool :=
  if x = .null then .ok false else ofCmp (Key.le? v.key x.key)

def doMin (f : RawFilter) (rows : List Row) : Except Err (List Row) :=
  if f.value = .null then .error .valueError else filterE (fun r => minCell f.value (r.get f.col)) rows

/-- `row.get(c) is not None and row.get(c) < m` (or `<= m`) -/
def maxCell (m : Val) (excl : Bool) (x : Val) : Except Err Bool :=
  if x = .null then .ok false else ofCmp (if excl then Key.lt? x.key m.key else Key.le? x.key m.key)

def doMax (f : RawFilter) (rows : List Row) : Except Err (List Row) :=
  let hasMax := f.max ≠ .null
  let hasValue := f.value ≠ .null
  if hasMax then
    if f.min ≠ .null then .error .valueError
    else if f.max = .null then .error .valueError   -- unreachable second check, kept as in the code
    else if f.maxExclusive then filterE (fun r => maxCell f.max true (r.get f.col)) rows
    else filterE (fun r => maxCell f.max false (r.get f.col)) rows
  else if hasValue then
    if f.value = .null then .error .valueError
    else filterE (fun r => maxCell f.value false (r.get f.col)) rows
  else .error .valueError

/-- `row.get(c) == value` -/
def doEqual (f : RawFilter) (rows : List Row) : Except Err (List Row) :=
  if f.value = .null then .error .valueError else .ok (rows.filter (fun r => pyEq (r.get f.col) f.value))

/-- `re.compile(value)` then `row.get(c) is not None and compiled.match(str(row.get(c)))` -/
def doRegex (f : RawFilter) (rows : List Row) : Except Err (List Row) :=
  match f.value with
  | .null => .error .valueError
  | .str s =>
    match parsePattern s with
    | none => .error .notModelled
    | some p => .ok (rows.filter (fun r => r.get f.col != .null && p.matchStart (pyStr (r.get f.col))))
  | _ => .error .typeError     -- `re.compile` of a non-string

/-- `allowed_set = set(values) if isinstance(values, (list, tuple)) else {values}`; `row.get(c) in allowed_set` -/
def doIsin (f : RawFilter) (rows : List Row) : Except Err (List Row) :=
  match f.values with
  | .none => .error .valueError
  | .list l => .ok (rows.filter (fun r => l.any (pyEq (r.get f.col))))
  | .tuple l => .ok (rows.filter (fun r => l.any (pyEq (r.get f.col))))
  | .scalar v => .ok (rows.filter (fun r => [v].any (pyEq (r.get f.col))))

/-- `BaseFilterEngine.do_filter` with the dispatch table regenerated from the code (`Gen.filterDispatch`).
`filter_type is None` is unreachable: `SingleFilter` rejects falsy filter types. -/
def doFilter (f : RawFilter) (rows : List Row) : Except Err (List Row) :=
  match filterDispatch f.ftype with
  | .do_range_filter => doRange f rows
  | .do_min_filter => doMin f rows
  | .do_max_filter => doMax f rows
  | .do_equal_filter => doEqual f rows
  | .do_regex_filter => doRegex f rows
  | .do_categorical_inclusion_filter => doIsin f rows
  | .do_custom_filter => .error .notImplemented

end PyDict

/-! ## Typed columns of the two library engines -/

/-- what the Arrow / pandas column can hold (int64 / float64 columns are both `num`: values are compared exactly) -/
inductive ColClass where
  | num | str
  deriving DecidableEq, Repr, Inhabited

def ColClass.cls : ColClass → Cls
  | .num => .num
  | .str => .str

/-- every cell of the column is null or of the column's class (otherwise the table could not have been built) -/
def homog (ct : ColClass) (col : String) (rows : List Row) : Bool :=
  rows.all (fun r => r.get col == .null || (r.get col).cls == ct.cls)

/-! ## `ArrowSem`: ASSUMED semantics of the pyarrow calls made by `PyArrowFilterEngine`

* `pc.greater_equal / less / less_equal / equal (column, scalar)`: a column of one class against a scalar of the other
  class has no kernel (an error that does not depend on the rows); otherwise an element-wise three-valued result, null
  for a null cell.
* `pc.and_`: null if either side is null.
* `Table.filter(mask)`: keeps the rows whose mask is true (null and false are dropped).
* `pc.match_substring_regex`: only for string columns; RE2 *search*; null for null.
* `pa.array(values)` infers a type (`null` for an empty / all-`None` list, error for mixed numbers and strings),
  `pc.is_in(column, value_set)` rejects a value set whose type does not fit the column (a `null`-typed set fits a numeric
  column but not a string column; a string set against a numeric column is cast by parsing the strings - not
  modelled); a null cell is "in" iff the set contains a null. -/
namespace ArrowSem

def and3 : Option Bool → Option Bool → Option Bool
  | some a, some b => some (a && b)
  | _, _ => none

def keep (m : Option Bool) : Bool := m == some true

def typeCheck (ct : ColClass) (s : Val) : Except Err Unit :=
  if s.cls = ct.cls then .ok () else .error .typeError

def cmp (op : Val → Val → Bool) (x s : Val) : Option Bool := if x = .null then none else some (op x s)

def geC (x s : Val) : Option Bool := cmp (fun x s => leB s x) x s
def leC (x s : Val) : Option Bool := cmp (fun x s => leB x s) x s
def ltC (x s : Val) : Option Bool := cmp (fun x s => ltB x s) x s
def eqC (x s : Val) : Option Bool := cmp (fun x s => pyEq x s) x s

def doRange (f : RawFilter) (ct : ColClass) (rows : List Row) : Except Err (List Row) :=
  if f.min = .null ∨ f.max = .null then .error .valueError else
  match typeCheck ct f.min, typeCheck ct f.max with
  | .ok _, .ok _ =>
    if f.maxExclusive then .ok (rows.filter (fun r => keep (and3 (geC (r.get f.col) f.min) (ltC (r.get f.col) f.max))))
    else .ok (rows.filter (fun r => keep (and3 (geC (r.get f.col) f.min) (leC (r.get f.col) f.max))))
  | _, _ => .error .typeError

def doMin (f : RawFilter) (ct : ColClass) (rows : List Row) : Except Err (List Row) :=
  if f.value = .null then .error .valueError else
  match typeCheck ct f.value with
  | .ok _ => .ok (rows.filter (fun r => keep (geC (r.get f.col) f.value)))
  | .error e => .error e

def doMax (f : RawFilter) (ct : ColClass) (rows : List Row) : Except Err (List Row) :=
  if f.max ≠ .null then
    if f.min ≠ .null then .error .valueError
    else match typeCheck ct f.max with
      | .error e => .error e
      | .ok _ =>
        if f.maxExclusive then .ok (rows.filter (fun r => keep (ltC (r.get f.col) f.max)))
        else .ok (rows.filter (fun r => keep (leC (r.get f.col) f.max)))
  else if f.value ≠ .null then
    match typeCheck ct f.value with
    | .error e => .error e
    | .ok _ => .ok (rows.filter (fun r => keep (leC (r.get f.col) f.value)))
  else .error .valueError

def doEqual (f : RawFilter) (ct : ColClass) (rows : List Row) : Except Err (List Row) :=
  if f.value = .null then .error .valueError else
  match typeCheck ct f.value with
  | .ok _ => .ok (rows.filter (fun r => keep (eqC (r.get f.col) f.value)))
  | .error e => .error e

def doRegex (f : RawFilter) (ct : ColClass) (rows : List Row) : Except Err (List Row) :=
  match f.value with
  | .null => .error .valueError
  | .str s =>
    if ct ≠ .str then .error .typeError else
    match parsePattern s with
    | none => .error .notModelled
    | some p => .ok (rows.filter (fun r =>
        keep (if r.get f.col = .null then none else some (p.search (pyStr (r.get f.col))))))
  | _ => .error .typeError

/-- type `pa.array(values)` infers: `none` = conversion error (numbers mixed with strings) -/
def inferSet (l : List Val) : Option Cls :=
  let nn := l.filter (· != .null)
  if nn.isEmpty then some .null
  else if nn.all (fun v => v.cls == .num) then some .num
  else if nn.all (fun v => v.cls == .str) then some .str
  else none

def isinList (l : List Val) (f : RawFilter) (ct : ColClass) (rows : List Row) : Except Err (List Row) :=
  match inferSet l with
  | none => .error .typeError
  | some t =>
    if t = ct.cls ∨ (t = .null ∧ ct = .num) then .ok (rows.filter (fun r => l.any (pyEq (r.get f.col))))
    else if t = .str ∧ ct = .num then .error .notModelled   -- pyarrow tries to parse the strings as numbers ("2.5" matches 2.5)
    else .error .typeError

def doIsin (f : RawFilter) (ct : ColClass) (rows : List Row) : Except Err (List Row) :=
  match f.values with
  | .none => .error .valueError
  | .list l => isinList l f ct rows
  | .tuple l => isinList l f ct rows
  | .scalar (.str s) => isinList (s.toList.map (fun c => Val.str (String.singleton c))) f ct rows  -- `pa.array("ab")` iterates
  | .scalar _ => .error .typeError

def doFilter (f : RawFilter) (ct : ColClass) (rows : List Row) : Except Err (List Row) :=
  if !homog ct f.col rows then .error .notModelled else
  match filterDispatch f.ftype with
  | .do_range_filter => doRange f ct rows
  | .do_min_filter => doMin f ct rows
  | .do_max_filter => doMax f ct rows
  | .do_equal_filter => doEqual f ct rows
  | .do_regex_filter => doRegex f ct rows
  | .do_categorical_inclusion_filter => doIsin f ct rows
  | .do_custom_filter => .error .notImplemented

end ArrowSem

/-! ## `PandasSem`: ASSUMED semantics of the pandas calls made by `PandasFilterEngine`

* the frame is indexed with `data[str(filter_feature.name)]` (since commit 15de8bc), so the column is found whatever the
  dtype of the column index. `legacyKey = true` is the explicitly named PRE-FIX variant kept for the regression
  statements only (`data[filter_feature.name]` with the `FeatureName` object raised `KeyError` on the `str`-dtype column
  index that pandas 3 creates by default); the code that exists is `legacyKey = false` (`PandasSem.run`).
* `Series >= scalar` etc.: a column of one class against a scalar of the other raises `TypeError` (for a numeric column
  independent of the rows; a `str` column only when it has a non-missing cell); a missing cell compares false.
  `Series == scalar` never raises.
* `Series.isin(list)`: no type check; a missing cell of a *string* column is "in" iff `None` is listed, a missing cell
  of a numeric column (NaN) never is. A non-list argument raises `TypeError`.
* `astype(str).str.match(p)` on a string column: `re.match`, false for a missing cell; on numeric columns the text
  produced by `astype(str)` is not modelled. -/
namespace PandasSem

/-- some cell of the column is not missing -/
def anyValue (col : String) (rows : List Row) : Bool := rows.any (fun r => r.get col != .null)

/-- `Series <op> scalar` of the other class raises `TypeError`; the (pyarrow-backed) `str` dtype only notices when it
has at least one non-missing cell to compare -/
def typeCheck (ct : ColClass) (hasValue : Bool) (s : Val) : Except Err Unit :=
  if s.cls = ct.cls then .ok ()
  else if ct = .str ∧ hasValue = false then .ok ()
  else .error .typeError

def doRange (f : RawFilter) (legacyKey : Bool) (ct : ColClass) (rows : List Row) : Except Err (List Row) :=
  if f.min = .null ∨ f.max = .null then .error .valueError else
  if legacyKey then .error .keyError else
  match typeCheck ct (anyValue f.col rows) f.min, typeCheck ct (anyValue f.col rows) f.max with
  | .ok _, .ok _ =>
    if f.maxExclusive then .ok (rows.filter (fun r => leB f.min (r.get f.col) && ltB (r.get f.col) f.max))
    else .ok (rows.filter (fun r => leB f.min (r.get f.col) && leB (r.get f.col) f.max))
  | _, _ => .error .typeError

def doMin (f : RawFilter) (legacyKey : Bool) (ct : ColClass) (rows : List Row) : Except Err (List Row) :=
  if f.value = .null then .error .valueError else
  if legacyKey then .error .keyError else
  match typeCheck ct (anyValue f.col rows) f.value with
  | .ok _ => .ok (rows.filter (fun r => leB f.value (r.get f.col)))
  | .error e => .error e

def doMax (f : RawFilter) (legacyKey : Bool) (ct : ColClass) (rows : List Row) : Except Err (List Row) :=
  if f.max ≠ .null then
    if f.min ≠ .null then .error .valueError
    else if legacyKey then .error .keyError
    else match typeCheck ct (anyValue f.col rows) f.max with
      | .error e => .error e
      | .ok _ =>
        if f.maxExclusive then .ok (rows.filter (fun r => ltB (r.get f.col) f.max))
        else .ok (rows.filter (fun r => leB (r.get f.col) f.max))
  else if f.value ≠ .null then
    if legacyKey then .error .keyError else
    match typeCheck ct (anyValue f.col rows) f.value with
    | .error e => .error e
    | .ok _ => .ok (rows.filter (fun r => leB (r.get f.col) f.value))
  else .error .valueError

def doEqual (f : RawFilter) (legacyKey : Bool) (_ct : ColClass) (rows : List Row) : Except Err (List Row) :=
  if f.value = .null then .error .valueError else
  if legacyKey then .error .keyError else
  .ok (rows.filter (fun r => pyEq (r.get f.col) f.value))

def doRegex (f : RawFilter) (legacyKey : Bool) (ct : ColClass) (rows : List Row) : Except Err (List Row) :=
  if f.value = .null then .error .valueError else
  if legacyKey then .error .keyError else
  match f.value with
  | .str s =>
    if ct ≠ .str then .error .notModelled else
    match parsePattern s with
    | none => .error .notModelled
    | some p => .ok (rows.filter (fun r => r.get f.col != .null && p.matchStart (pyStr (r.get f.col))))
  | _ => .error .typeError

def isinCell (ct : ColClass) (l : List Val) (x : Val) : Bool :=
  if x = .null then (ct == .str && l.any (· == .null)) else l.any (pyEq x)

def doIsin (f : RawFilter) (legacyKey : Bool) (ct : ColClass) (rows : List Row) : Except Err (List Row) :=
  match f.values with
  | .none => .error .valueError
  | .list l => if legacyKey then .error .keyError else .ok (rows.filter (fun r => isinCell ct l (r.get f.col)))
  | .tuple l => if legacyKey then .error .keyError else .ok (rows.filter (fun r => isinCell ct l (r.get f.col)))
  | .scalar _ => if legacyKey then .error .keyError else .error .typeError

def doFilter (f : RawFilter) (legacyKey : Bool) (ct : ColClass) (rows : List Row) : Except Err (List Row) :=
  if !homog ct f.col rows then .error .notModelled else
  match filterDispatch f.ftype with
  | .do_range_filter => doRange f legacyKey ct rows
  | .do_min_filter => doMin f legacyKey ct rows
  | .do_max_filter => doMax f legacyKey ct rows
  | .do_equal_filter => doEqual f legacyKey ct rows
  | .do_regex_filter => doRegex f legacyKey ct rows
  | .do_categorical_inclusion_filter => doIsin f legacyKey ct rows
  | .do_custom_filter => .error .notImplemented

/-- the pandas engine as it exists now: the column is looked up by its name string -/
def run (f : RawFilter) (ct : ColClass) (rows : List Row) : Except Err (List Row) := doFilter f false ct rows

end PandasSem

/-! ## `BaseFilterEngine.apply_single_filters` and the matching of filters to a feature group -/

abbrev Engine := RawFilter → List Row → Except Err (List Row)

/-- the loop `for single_filter in features.filters: if name not in features.get_all_names(): continue;
data = do_filter(data, single_filter)` over the set's iteration order `fs` -/
def applySeq (eng : Engine) (exposed : List String) : List RawFilter → List Row → Except Err (List Row)
  | [], rows => .ok rows
  | f :: fs, rows =>
    if exposed.contains f.col then
      match eng f rows with
      | .error e => .error e
      | .ok rows' => applySeq eng exposed fs rows'
    else applySeq eng exposed fs rows

/-- `apply_single_filters`: `features.filters is None` returns the data untouched -/
def applyAll (eng : Engine) (exposed : List String) (filters : Option (List RawFilter)) (rows : List Row) :
    Except Err (List Row) :=
  match filters with
  | none => .ok rows
  | some fs => applySeq eng exposed fs rows

/-- `GlobalFilter.identity_matched_filters` reduced to its name criterion (`match_feature_group_criteria` of a group that
supports the names `supported`; domain and compute-framework criteria are not modelled) -/
def groupFilters (supported : List String) (gf : List RawFilter) : List RawFilter :=
  gf.filter (fun f => supported.contains f.col)

/-- `Engine._add_filter_feature` adds the filter column of every matched filter to the group's feature set, so
`features.get_all_names()` is the requested names plus those columns -/
def groupExposed (requested supported : List String) (gf : List RawFilter) : List String :=
  requested ++ (groupFilters supported gf).map (·.col)

/-- what one feature group returns under a global filter `gf` (iteration order given): `run_final_filter` on the
rows produced by `calculate_feature` -/
def runGroup (eng : Engine) (requested supported : List String) (gf : List RawFilter) (rows : List Row) :
    Except Err (List Row) :=
  applyAll eng (groupExposed requested supported gf) (some (groupFilters supported gf)) rows

/-- `GlobalFilter.add_filter`: `self.filters` is a `set`, `SingleFilter.__hash__` hashes the parameter tuple - a `list`
among the parameter values makes that raise `TypeError: unhashable type: 'list'`. Equal filters collapse (set). -/
def addFilter (gf : List RawFilter) (f : RawFilter) : Except Err (List RawFilter) :=
  match f.values with
  | .list _ => .error .typeError
  | _ => .ok (if gf.contains f then gf else gf ++ [f])

def addFilters : List RawFilter → List RawFilter → Except Err (List RawFilter)
  | gf, [] => .ok gf
  | gf, f :: fs =>
    match addFilter gf f with
    | .error e => .error e
    | .ok gf' => addFilters gf' fs

/-- `PythonDictFramework.set_column_names`, called by `run_calculation` right after the final filter: a list with no row
is rejected (`ValueError: Data is empty or not in expected format`). The other two frameworks have empty tables. -/
def pyDictFinish (rows : List Row) : Except Err (List Row) :=
  if rows.isEmpty then .error .valueError else .ok rows

/-- `run_all(..., global_filter=gf)` seen from one feature group: build the global filter, `runGroup`, then the
framework's own post-processing `finish` (`pyDictFinish` on PythonDict, `Except.ok` elsewhere) -/
def runGroupApi (eng : Engine) (finish : List Row → Except Err (List Row)) (requested supported : List String)
    (added : List RawFilter) (rows : List Row) : Except Err (List Row) :=
  match addFilters [] added with
  | .error e => .error e
  | .ok gf =>
    match runGroup eng requested supported gf rows with
    | .error e => .error e
    | .ok out => finish out

/-- the specification of a raw filter on a cell: parse, then `sat`; an unusable filter is satisfied by nothing -/
def satRaw (f : RawFilter) (x : Val) : Bool :=
  match f.parse with
  | .ok g => sat g x
  | .error _ => false

end Filter
