/-! C18 - model of link validation and link matching.

Anchors (pinned /repo):
* `mloda/core/abstract_plugins/components/link.py`            (`Link.matches_exact/_polymorphic`, `__eq__`, `__hash__`)
* `.../components/validators/link_validator.py`               (`LinkValidator.validate_links` and its four loops)
* `mloda/core/prepare/resolve_links.py`                       (`_find_matching_links`, `_inheritance_distance`,
                                                               `_select_most_specific_links`)
* `mloda/core/prepare/validators/resolve_link_validator.py`   (`validate_no_conflicting_join_types`)
* `.../components/index/index.py`                             (`Index.is_a_part_of_`)
* `mloda/core/abstract_plugins/feature_group.py`              (`supports_index`, inherited `index_columns`)

Classes are `Nat` identities.  A hierarchy is a *parent map* (single inheritance, `none` = the class derives from
`FeatureGroup` directly or is `FeatureGroup`); the MRO is derived from it.  `Link.__eq__` compares class *names*, the
validator compares class *objects*, so both are modelled.  Python sets are lists in iteration order. -/

namespace Links

abbrev Cls := Nat
abbrev Index := List String

/-- `JoinType` members plus `invalid` = any object that is not a `JoinType` (rejected by `validate_join_type`). -/
inductive JoinType where
  | inner | left | right | outer | append | union | invalid
  deriving DecidableEq, Repr

def JoinType.stacking : JoinType → Bool
  | .append | .union => true
  | _ => false

/-- a `Link` object; `uid` is the object identity (its `uuid`), not part of `__eq__`. -/
structure Link where
  jt : JoinType
  left : Cls
  right : Cls
  li : Index
  ri : Index
  uid : Nat
  deriving DecidableEq, Repr

/-- a universe of classes -/
structure Hier where
  /-- `parent c = some p` for `class c(p)`; bases are created before subclasses, so `p < c` in every real universe -/
  parent : Cls → Option Cls
  /-- `cls.__name__` (`get_class_name`) -/
  name : Cls → String
  /-- own definition of `index_columns`: `none` = not overridden in this class, `some r` = overridden, returns `r` -/
  indexDecl : Cls → Option (Option (List Index))

/-- bases precede subclasses -/
def Hier.WF (H : Hier) : Prop := ∀ c p, H.parent c = some p → p < c

/-! ## MRO, `issubclass`, `_inheritance_distance` -/

def mroAux (parent : Cls → Option Cls) : Nat → Cls → List Cls
  | 0, c => [c]
  | n + 1, c =>
    match parent c with
    | none => [c]
    | some p => c :: mroAux parent n p

/-- `c.__mro__` restricted to the universe (the common tail `FeatureGroup?, ABC, object` is never a link side) -/
def Hier.mro (H : Hier) (c : Cls) : List Cls := mroAux H.parent c c

/-- `issubclass(c, p)` -/
def Hier.isSub (H : Hier) (c p : Cls) : Bool := (H.mro c).contains p

/-- `ResolveLinks._inheritance_distance(child, parent)`: `mro.index(parent)`, 9999 on `ValueError` -/
def Hier.dist (H : Hier) (c p : Cls) : Nat :=
  match (H.mro c).idxOf? p with
  | some i => i
  | none => 9999

/-- reflexive-transitive closure of the parent map (what "is an ancestor of or equal to" means) -/
inductive Anc (parent : Cls → Option Cls) : Cls → Cls → Prop where
  | refl (c : Cls) : Anc parent c c
  | step {c p a : Cls} : parent c = some p → Anc parent p a → Anc parent c a

/-! ## `Link` methods -/

/-- `Link.__eq__` (and the key of `__hash__`): join type, class **names**, both indexes -/
def linkEq (H : Hier) (a b : Link) : Bool :=
  a.jt == b.jt && H.name a.left == H.name b.left && H.name a.right == H.name b.right && a.li == b.li && a.ri == b.ri

/-- building a Python `set` from links in insertion order keeps the first of each `__eq__` class -/
def mkSet (H : Hier) : List Link → List Link
  | [] => []
  | l :: ls => l :: (mkSet H ls).filter (fun m => !linkEq H l m)

def matchesExact (l : Link) (x y : Cls) : Bool := l.left == x && l.right == y

def matchesPoly (H : Hier) (l : Link) (x y : Cls) : Bool := H.isSub x l.left && H.isSub y l.right

/-! ## `LinkValidator` -/

inductive VOutcome where
  | ok
  | badJoinType (l : Nat)
  | double (i j : Nat)
  | conflict (i j : Nat)
  | rightJoin (i j : Nat)
  deriving DecidableEq, Repr

/-- the error class only (which of the checks fired) -/
def VOutcome.kind : VOutcome → Nat
  | .ok => 0 | .badJoinType _ => 1 | .double _ _ => 2 | .conflict _ _ => 3 | .rightJoin _ _ => 4

/-- body of the double loop of `validate_no_double_joins` -/
def doubleBad (H : Hier) (i j : Link) : Bool :=
  !linkEq H i j && (i.left == j.right && i.right == j.left && !i.jt.stacking)

/-- body of the double loop of `validate_no_conflicting_join_types` -/
def conflictBad (H : Hier) (i j : Link) : Bool :=
  !linkEq H i j && (i.left == j.left && i.right == j.right && i.jt != j.jt)

/-- body of the double loop of `validate_right_join_constraints` -/
def rightBad (H : Hier) (i j : Link) : Bool :=
  i.jt == .right && !linkEq H i j && (i.left == j.left || i.left == j.right)

/-- `for i in links: for j in links: if p i j: raise` - the first pair in iteration order -/
def firstPair (p : Link → Link → Bool) (ls : List Link) : Option (Link × Link) :=
  ls.findSome? (fun i => (ls.find? (fun j => p i j)).map (fun j => (i, j)))

/-- `LinkValidator.validate_links(links)` for `links` not `None`, iterated in the set's order -/
def validateLinks (H : Hier) (ls : List Link) : VOutcome :=
  match ls.find? (fun l => l.jt == .invalid) with
  | some l => .badJoinType l.uid
  | none =>
    match firstPair (doubleBad H) ls with
    | some (i, j) => .double i.uid j.uid
    | none =>
      match firstPair (conflictBad H) ls with
      | some (i, j) => .conflict i.uid j.uid
      | none =>
        match firstPair (rightBad H) ls with
        | some (i, j) => .rightJoin i.uid j.uid
        | none => .ok

/-- `validate_links(None)` returns immediately -/
def validateLinksOpt (H : Hier) : Option (List Link) → VOutcome
  | none => .ok
  | some ls => validateLinks H ls

/-- `Engine.__init__` validates the `links=` argument only; links attached to input features are added to
`Engine.links` afterwards (`add_feature_link_to_links`) and are never passed to `LinkValidator`.  Result: the links
the planner works with (before set de-duplication), or the validator's error. -/
def engineLinks (H : Hier) (api : Option (List Link)) (viaFeatures : List Link) : Except VOutcome (List Link) :=
  match validateLinksOpt H api with
  | .ok => .ok (api.getD [] ++ viaFeatures)
  | e => .error e

/-- `ResolveLinkValidator.validate_no_conflicting_join_types` over the keys of `link_trekker.data` (dict order):
`seen` is the `seen_pairs` dict as an association list -/
def resolveConflictLoop : List ((Cls × Cls) × JoinType) → List Link → Bool
  | _, [] => false
  | seen, l :: ls =>
    match seen.find? (fun e => e.1 == (l.left, l.right)) with
    | some e => if e.2 != l.jt then true else resolveConflictLoop seen ls
    | none => resolveConflictLoop (seen ++ [((l.left, l.right), l.jt)]) ls

/-- `true` = the `Exception("Conflicting join types …")` is raised -/
def resolveConflict (used : List Link) : Bool := resolveConflictLoop [] used

/-! ## `ResolveLinks._find_matching_links` -/

def minOf : List Nat → Option Nat
  | [] => none
  | a :: as =>
    match minOf as with
    | none => some a
    | some m => some (min a m)

/-- the per-link branch of `_select_most_specific_links`: `some d` = appended to `link_distances` with distance `d` -/
def score (H : Hier) (x y : Cls) (l : Link) : Option Nat :=
  let dl := H.dist x l.left
  let dr := H.dist y l.right
  if l.left == l.right then
    if x == y && dl == dr then some dl else none
  else if dl == dr then some dl
  else
    let related := H.isSub l.left l.right || H.isSub l.right l.left
    if !related && (dl == 0 || dr == 0) then some (max dl dr) else none

def selectMostSpecific (H : Hier) (links : List Link) (x y : Cls) : List Link :=
  let ld := links.filterMap (fun l => (score H x y l).map (fun d => (l, d)))
  match minOf (ld.map (·.2)) with
  | none => []
  | some m => (ld.filter (fun p => p.2 == m)).map (·.1)

def findMatchingLinks (H : Hier) (links : List Link) (x y : Cls) : List Link :=
  let exact := links.filter (fun l => matchesExact l x y)
  if !exact.isEmpty then exact
  else
    let poly := links.filter (fun l => matchesPoly H l x y)
    if poly.isEmpty then [] else selectMostSpecific H poly x y

def findMatchingLinksOpt (H : Hier) : Option (List Link) → Cls → Cls → List Link
  | none, _, _ => []
  | some ls, x, y => findMatchingLinks H ls x y

/-! ## `Index.is_a_part_of_`, `FeatureGroup.supports_index`, inherited `index_columns` -/

/-- the `for cnt, part in enumerate(other.index)` loop; `self[cnt]?` cannot be `none` after the guard (no IndexError) -/
def isPartOfLoop {α : Type} [DecidableEq α] (self : List α) : Nat → List α → Bool
  | _, [] => true
  | cnt, part :: rest =>
    if (cnt : Int) > (self.length : Int) - 1 then true
    else
      match self[cnt]? with
      | none => false
      | some s => if part != s then false else isPartOfLoop self (cnt + 1) rest

def isPartOf {α : Type} [DecidableEq α] (self other : List α) : Bool :=
  if self.length > other.length then false else isPartOfLoop self 0 other

/-- `cls.index_columns()` through the MRO; `FeatureGroup.index_columns` returns `None` -/
def Hier.indexColumns (H : Hier) (c : Cls) : Option (List Index) :=
  match (H.mro c).findSome? H.indexDecl with
  | some r => r
  | none => none

/-- `supports_index`: `none` = Python `None` -/
def supportsIndexOf {α : Type} [DecidableEq α] (cols : Option (List (List α))) (i : List α) : Option Bool :=
  match cols with
  | none => none
  | some sup => some (sup.any (fun s => isPartOf i s))

def Hier.supportsIndex (H : Hier) (c : Cls) (i : Index) : Option Bool := supportsIndexOf (H.indexColumns c) i

/-! ## The property's own wording (`Spec`) -/

namespace Spec

/-- two links are different joins (anything but the object identity differs) -/
def differ (i j : Link) : Bool :=
  i.jt != j.jt || i.left != j.left || i.right != j.right || i.li != j.li || i.ri != j.ri

def samePair (i j : Link) : Bool :=
  (i.left == j.left && i.right == j.right) || (i.left == j.right && i.right == j.left)

/-- "two different joins between the same pair" (APPEND/UNION in both directions is the documented exemption) -/
def twoJoins (i j : Link) : Bool := differ i j && samePair i j && !(i.jt.stacking && j.jt.stacking)

/-- "different join types for one ordered pair" -/
def typeConflict (i j : Link) : Bool := i.left == j.left && i.right == j.right && i.jt != j.jt

/-- "right joins sharing a left group" -/
def rightShare (i j : Link) : Bool := differ i j && i.jt == .right && j.jt == .right && i.left == j.left

def contradictory (ls : List Link) : Bool :=
  ls.any (fun i => ls.any (fun j => twoJoins i j || typeConflict i j || rightShare i j))

/-- what the validator's third message additionally documents: a right join whose left group occurs in another link -/
def rightLeftReuse (ls : List Link) : Bool :=
  ls.any (fun i => ls.any (fun j => differ i j && i.jt == .right && (i.left == j.left || i.left == j.right)))

/-- a link is applicable polymorphically: both sides ancestors at equal distance; same concrete class for self links -/
def admissible (H : Hier) (x y : Cls) (l : Link) : Bool :=
  H.isSub x l.left && H.isSub y l.right && H.dist x l.left == H.dist y l.right && (l.left != l.right || x == y)

/-- exact-class links if any, else the closest admissible ones -/
def findLinks (H : Hier) (links : List Link) (x y : Cls) : List Link :=
  let exact := links.filter (fun l => l.left == x && l.right == y)
  if !exact.isEmpty then exact
  else
    let c := links.filter (admissible H x y)
    c.filter (fun l => c.all (fun m => H.dist x l.left ≤ H.dist x m.left))

end Spec

/-- a tiny universe used by the negation witnesses: classes 0,1,2 are direct subclasses of `FeatureGroup`, 3 derives from 0 -/
def witnessHier : Hier :=
  { parent := fun c => if c = 3 then some 0 else none,
    name := fun c => if c = 0 then "A" else if c = 1 then "B" else if c = 2 then "C" else "A1",
    indexDecl := fun _ => none }

/-- the input class on which code and documented rule differ: the asymmetric "one side exact, other polymorphic" rule -/
def asymmetricAdmitted (H : Hier) (x y : Cls) (l : Link) : Bool :=
  matchesPoly H l x y && l.left != l.right && H.dist x l.left != H.dist y l.right &&
    !(H.isSub l.left l.right || H.isSub l.right l.left) && (H.dist x l.left == 0 || H.dist y l.right == 0)

end Links
