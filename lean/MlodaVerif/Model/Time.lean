/-! # Model of `GlobalFilter._check_and_convert_time_info` (property C11, time filters)

```
if time_with_tz.tzinfo is None: raise ValueError
return time_with_tz.astimezone(timezone.utc).isoformat()
```

An aware datetime is what the code observes of it: its naive wall-clock reading, its microsecond and the value of
`utcoffset()` (computed by the `tzinfo` object - zone database, DST rules and PEP 495 `fold` are *inputs* here, the
harness reads the offset off the real object). `astimezone(utc)` is `(wall - offset)` re-labelled UTC, raising
`OverflowError` outside years 1..9999; `isoformat()` prints `YYYY-MM-DDTHH:MM:SS[.ffffff]+00:00`.

The calendar arithmetic is CPython's `_ord2ymd` (Lib/_pydatetime.py), modelled statement by statement.
ASSUMED: `datetime.astimezone` / `isoformat` behave like this model (differential-tested by `harness/corr/c11.py` on
aware datetimes in arbitrary `zoneinfo` zones including folds and gaps); utc offsets are whole seconds. -/
namespace Time

structure Aware where
  /-- wall-clock reading in seconds since 0001-01-01T00:00:00 (proleptic Gregorian, no zone) -/
  wall : Int
  micros : Nat
  /-- `utcoffset()` in seconds -/
  offset : Int
  deriving DecidableEq, Repr

/-- the instant denoted: UTC seconds since 0001-01-01T00:00:00 and the microsecond -/
def Aware.instant (a : Aware) : Int × Nat := (a.wall - a.offset, a.micros)

/-- `date(9999,12,31).toordinal()` days -/
def maxDays : Nat := 3652059
def maxSecs : Nat := maxDays * 86400

def daysBeforeMonthTbl : Nat → Nat
  | 1 => 0 | 2 => 31 | 3 => 59 | 4 => 90 | 5 => 120 | 6 => 151
  | 7 => 181 | 8 => 212 | 9 => 243 | 10 => 273 | 11 => 304 | 12 => 334
  | _ => 0

def daysInMonthTbl : Nat → Nat
  | 1 => 31 | 2 => 28 | 3 => 31 | 4 => 30 | 5 => 31 | 6 => 30
  | 7 => 31 | 8 => 31 | 9 => 30 | 10 => 31 | 11 => 30 | 12 => 31
  | _ => 0

/-- second half of `_ord2ymd`: day of year `n` (0-based) to (month, day) by estimate and correction -/
def monthDay (leap : Bool) (n : Nat) : Nat × Nat :=
  let month := (n + 50) / 32
  let preceding := daysBeforeMonthTbl month + (if month > 2 ∧ leap then 1 else 0)
  if preceding > n then
    let month' := month - 1
    let preceding' := preceding - (daysInMonthTbl month' + (if month' = 2 ∧ leap then 1 else 0))
    (month', n - preceding' + 1)
  else (month, n - preceding + 1)

/-- `_ord2ymd(n0 + 1)`: 0-based day number to (year, month, day) -/
def ord2ymd (n0 : Nat) : Nat × Nat × Nat :=
  let n400 := n0 / 146097
  let r400 := n0 % 146097
  let n100 := r400 / 36524
  let r100 := r400 % 36524
  let n4 := r100 / 1461
  let r4 := r100 % 1461
  let n1 := r4 / 365
  let r1 := r4 % 365
  let year := n400 * 400 + 1 + n100 * 100 + n4 * 4 + n1
  if n1 = 4 ∨ n100 = 4 then (year - 1, 12, 31)
  else
    let leap : Bool := n1 = 3 ∧ (n4 ≠ 24 ∨ n100 = 3)
    let md := monthDay leap r1
    (year, md.1, md.2)

def digitChar (n : Nat) : Char := Char.ofNat (48 + n)
def pad2 (n : Nat) : List Char := [digitChar (n / 10 % 10), digitChar (n % 10)]
def pad4 (n : Nat) : List Char := [digitChar (n / 1000 % 10), digitChar (n / 100 % 10), digitChar (n / 10 % 10), digitChar (n % 10)]
def pad6 (n : Nat) : List Char :=
  [digitChar (n / 100000 % 10), digitChar (n / 10000 % 10), digitChar (n / 1000 % 10),
   digitChar (n / 100 % 10), digitChar (n / 10 % 10), digitChar (n % 10)]

/-- the fractional part printed by `isoformat`: nothing when the microsecond is 0 -/
def fracChars (us : Nat) : List Char := if us = 0 then [] else '.' :: pad6 us

def utcSuffix : List Char := ['+', '0', '0', ':', '0', '0']

def isoChars (y m d hh mm ss us : Nat) : List Char :=
  pad4 y ++ ('-' :: (pad2 m ++ ('-' :: (pad2 d ++ ('T' :: (pad2 hh ++ (':' :: (pad2 mm ++ (':' :: (pad2 ss ++
    (fracChars us ++ utcSuffix)))))))))))

/-- the characters produced for UTC second `s` (0 ≤ s < maxSecs) and microsecond `us` -/
def isoOfInstant (s us : Nat) : List Char :=
  let ymd := ord2ymd (s / 86400)
  let sod := s % 86400
  isoChars ymd.1 ymd.2.1 ymd.2.2 (sod / 3600) (sod % 3600 / 60) (sod % 60) us

/-- `dt.astimezone(timezone.utc).isoformat()`; `none` = `OverflowError` (UTC date outside years 1..9999) -/
def toUtcIso (a : Aware) : Option String :=
  let s := a.wall - a.offset
  if 0 ≤ s ∧ s < (maxSecs : Int) then some (String.ofList (isoOfInstant s.toNat a.micros)) else none

/-! ### the inverse direction (`_ymd2ord`), used to state and prove that the calendar step loses nothing -/

def isLeap (y : Nat) : Bool := y % 4 = 0 ∧ (y % 100 ≠ 0 ∨ y % 400 = 0)

def daysBeforeYear (y : Nat) : Nat := (y - 1) * 365 + (y - 1) / 4 - (y - 1) / 100 + (y - 1) / 400

/-- `_ymd2ord(y, m, d) - 1` -/
def ymd2ord0 (y m d : Nat) : Nat :=
  daysBeforeYear y + (daysBeforeMonthTbl m + (if m > 2 ∧ isLeap y then 1 else 0)) + (d - 1)

end Time
