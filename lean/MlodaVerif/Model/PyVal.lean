/-! # Python values as far as mloda's option dictionaries need them (C15)

`PyVal` models the values that occur in `Options.group` / `Options.context`, in filter parameters and in index
tuples: `None`, `bool`, `int`, `float` (dyadic rationals `m / 2^e`; NaN/inf are outside the model), `str`,
opaque objects compared by identity (`obj`: classes, enum members), `Feature` objects used as option values
(`feat name rest`: `rest` identifies everything of the feature except its name), `tuple`, `list`, `set`,
`frozenset` and `dict` with **string keys** (`DefaultOptionKeys` is a `str`-mixin enum: its members are `==` to,
hash like and sort like their string values, so they are the same keys).

Sets and dicts are lists *in iteration order*; well-formedness (`wf`: no two `==` elements in a set, no two equal
keys in a dict, set elements hashable) is a separate predicate, true of every value a Python program can build.

`pyEq` is Python's `==` on these values (numeric tower `True == 1 == 1.0`, `list != tuple`, `set == frozenset`,
dict equality independent of insertion order).  `mh` is `hashable_dict._make_hashable`, statement by statement.
All definitions are structurally recursive on the first argument (they reduce in the kernel).
-/

inductive PyVal where
  | none
  | bool (b : Bool)
  | int (i : Int)
  | float (m : Int) (e : Nat)
  | str (s : String)
  | obj (n : Nat)
  | feat (name : String) (rest : Nat)
  | tuple (l : List PyVal)
  | list (l : List PyVal)
  | set (l : List PyVal)
  | frozenset (l : List PyVal)
  | dict (d : List (String × PyVal))
  deriving Repr, Inhabited

abbrev PyDict := List (String × PyVal)

namespace PyVal

/-- numeric value of `bool | int | float` as `(m, e)` meaning `m / 2^e` -/
def numOf : PyVal → Option (Int × Nat)
  | .bool b => some (if b then 1 else 0, 0)
  | .int i => some (i, 0)
  | .float m e => some (m, e)
  | _ => Option.none

/-- `m₁/2^e₁ = m₂/2^e₂` by cross multiplication -/
def numEq (a b : Int × Nat) : Bool := a.1 * (2 : Int) ^ b.2 == b.1 * (2 : Int) ^ a.2

mutual
/-- Python `v == w` -/
def pyEq : PyVal → PyVal → Bool
  | .none, w => match w with | .none => true | _ => false
  | .bool b, w => match numOf w with | some q => numEq (if b then 1 else 0, 0) q | Option.none => false
  | .int i, w => match numOf w with | some q => numEq (i, 0) q | Option.none => false
  | .float m e, w => match numOf w with | some q => numEq (m, e) q | Option.none => false
  | .str s, w => match w with | .str t => s == t | _ => false
  | .obj n, w => match w with | .obj k => n == k | _ => false
  | .feat n c, w => match w with | .feat n' c' => n == n' && c == c' | _ => false
  | .tuple a, w => match w with | .tuple b => eqList a b | _ => false
  | .list a, w => match w with | .list b => eqList a b | _ => false
  | .set a, w => match w with
      | .set b => a.length == b.length && allMem a b
      | .frozenset b => a.length == b.length && allMem a b
      | _ => false
  | .frozenset a, w => match w with
      | .set b => a.length == b.length && allMem a b
      | .frozenset b => a.length == b.length && allMem a b
      | _ => false
  | .dict a, w => match w with | .dict b => a.length == b.length && allLookup a b | _ => false
termination_by structural x => x
/-- sequence equality: same length, pointwise `==` -/
def eqList : List PyVal → List PyVal → Bool
  | [], b => b.isEmpty
  | x :: xs, b => match b with | y :: ys => pyEq x y && eqList xs ys | [] => false
termination_by structural x => x
/-- every element of the first list is `==` to some element of the second (`set.__eq__` after the length test) -/
def allMem : List PyVal → List PyVal → Bool
  | [], _ => true
  | x :: xs, b => b.any (pyEq x) && allMem xs b
termination_by structural x => x
/-- every key of the first dict is a key of the second with an `==` value (`dict.__eq__` after the length test) -/
def allLookup : List (String × PyVal) → List (String × PyVal) → Bool
  | [], _ => true
  | kv :: t, b => (match b.lookup kv.1 with | some v' => pyEqSnd kv v' | Option.none => false) && allLookup t b
termination_by structural x => x
def pyEqSnd : String × PyVal → PyVal → Bool
  | (_, v), w => pyEq v w
termination_by structural x => x
end

/-- Python `v != w` for these types -/
def pyNe (v w : PyVal) : Bool := !pyEq v w

/-- Python truthiness (`if v:`) -/
def truthy : PyVal → Bool
  | .none => false
  | .bool b => b
  | .int i => i != 0
  | .float m _ => m != 0
  | .str s => s != ""
  | .obj _ => true
  | .feat _ _ => true
  | .tuple l => !l.isEmpty
  | .list l => !l.isEmpty
  | .set l => !l.isEmpty
  | .frozenset l => !l.isEmpty
  | .dict d => !d.isEmpty

mutual
/-- `hash(v)` does not raise `TypeError: unhashable` -/
def hashable : PyVal → Bool
  | .tuple l => hashableL l
  | .frozenset l => hashableL l
  | .list _ => false
  | .set _ => false
  | .dict _ => false
  | _ => true
termination_by structural x => x
def hashableL : List PyVal → Bool
  | [] => true
  | x :: xs => hashable x && hashableL xs
termination_by structural x => x
end

/-- insertion of an item into a list of items sorted by key (Python's `sorted` on `(key, value)` tuples with
pairwise distinct string keys compares keys only) -/
def insertKV (kv : String × PyVal) : PyDict → PyDict
  | [] => [kv]
  | h :: t => if kv.1 < h.1 then kv :: h :: t else h :: insertKV kv t

def sortKV (d : PyDict) : PyDict := d.foldr insertKV []

/-- an item `(k, v)` as the Python tuple it is -/
def item (kv : String × PyVal) : PyVal := .tuple [.str kv.1, kv.2]

mutual
/-- `_make_hashable(value)` -/
def mh : PyVal → PyVal
  | .dict d => .tuple ((sortKV (mhKV d)).map item)
  | .list l => .tuple (mhL l)
  | .tuple l => .tuple (mhL l)
  | .set l => .frozenset (mhL l)
  | .none => .none
  | .bool b => .bool b
  | .int i => .int i
  | .float m e => .float m e
  | .str s => .str s
  | .obj n => .obj n
  | .feat n c => .feat n c
  | .frozenset l => .frozenset l
termination_by structural x => x
def mhL : List PyVal → List PyVal
  | [] => []
  | x :: xs => mh x :: mhL xs
termination_by structural x => x
def mhKV : List (String × PyVal) → List (String × PyVal)
  | [] => []
  | kv :: t => mhP kv :: mhKV t
termination_by structural x => x
def mhP : String × PyVal → String × PyVal
  | (k, v) => (k, mh v)
termination_by structural x => x
end

/-- no two `==` elements (a Python set never holds two) -/
def distinctEq : List PyVal → Bool
  | [] => true
  | x :: xs => !(xs.any (pyEq x)) && distinctEq xs

def keysOf (d : PyDict) : List String := d.map (·.1)

def nodupKeys : List String → Bool
  | [] => true
  | k :: ks => !(ks.contains k) && nodupKeys ks

mutual
/-- the value can be built by a Python program: set elements hashable and pairwise `!=`, dict keys distinct -/
def wf : PyVal → Bool
  | .tuple l => wfL l
  | .list l => wfL l
  | .set l => wfL l && hashableL l && distinctEq l
  | .frozenset l => wfL l && hashableL l && distinctEq l
  | .dict d => wfKV d && nodupKeys (keysOf d)
  | _ => true
termination_by structural x => x
def wfL : List PyVal → Bool
  | [] => true
  | x :: xs => wf x && wfL xs
termination_by structural x => x
def wfKV : List (String × PyVal) → Bool
  | [] => true
  | kv :: t => wfP kv && wfKV t
termination_by structural x => x
def wfP : String × PyVal → Bool
  | (_, v) => wf v
termination_by structural x => x
end

end PyVal

/-! ## Python `dict` operations on insertion-ordered association lists -/
namespace PyDict
open PyVal

def keys (d : PyDict) : List String := d.map (·.1)
def has (d : PyDict) (k : String) : Bool := (keys d).contains k
def get? (d : PyDict) (k : String) : Option PyVal := d.lookup k

/-- `d[k] = v`: an existing key keeps its position -/
def set (d : PyDict) (k : String) (v : PyVal) : PyDict :=
  match d with
  | [] => [(k, v)]
  | (k', v') :: t => if k' == k then (k', v) :: t else (k', v') :: set t k v

/-- `del d[k]` (no-op when absent; the code guards with `in`) -/
def del (d : PyDict) (k : String) : PyDict := d.filter (fun kv => !(kv.1 == k))

/-- `d.update(e)` -/
def update (d e : PyDict) : PyDict := e.foldl (fun acc kv => set acc kv.1 kv.2) d

end PyDict
