import MlodaVerif.Model.OptIdent
/-! # `ExecutionPlan.group_features_by_compute_framework_and_options` and `_split_features_by_dependency_levels` (C15)

The grouping dictionary is keyed by the hash **value** (`Dict[int, Set[Feature]]`), exactly as coded; the key type
`K` is any type with decidable equality (`int` in the code), the key functions are parameters:
`sim f = f.has_similarity_properties()`, `base f = f.base_similarity_properties()`.  The dict is an association list
in insertion order; each group is the list of its members in insertion order; `pick g` is `next(iter(group))`
(some member of the group — which one is decided by CPython's set layout, so it is a parameter). -/

namespace OptGroup

variable {α : Type} {K : Type} [DecidableEq K]

/-- `hash_collector[k].add(x)` on a `defaultdict(set)` -/
def addTo (coll : List (K × List α)) (k : K) (x : α) : List (K × List α) :=
  match coll with
  | [] => [(k, [x])]
  | (k', g) :: t => if k' = k then (k', g ++ [x]) :: t else (k', g) :: addTo t k x

/-- first pass: features with a declared type, keyed by `has_similarity_properties()` -/
def pass1 (sim : α → K) (typed : List α) (coll : List (K × List α)) : List (K × List α) :=
  typed.foldl (fun c f => addTo c (sim f) f) coll

/-- the `for existing_hash, group in hash_collector.items()` scan: key of the first group whose picked member has
the wanted base hash -/
def findGroup (base : α → K) (pick : List α → Option α) (coll : List (K × List α)) (b : K) : Option K :=
  match coll with
  | [] => none
  | (k, g) :: t =>
    match pick g with
    | some a => if base a = b then some k else findGroup base pick t b
    | none => findGroup base pick t b

/-- one iteration of the second pass for an undeclared-type feature -/
def place (base : α → K) (pick : List α → Option α) (coll : List (K × List α)) (f : α) : List (K × List α) :=
  match findGroup base pick coll (base f) with
  | some k => addTo coll k f
  | none => addTo coll (base f) f

def pass2 (base : α → K) (pick : List α → Option α) (untyped : List α) (coll : List (K × List α)) :
    List (K × List α) :=
  untyped.foldl (place base pick) coll

/-- `group_features_by_compute_framework_and_options(features)`; `fs` = the set in its iteration order -/
def groupBy (isTyped : α → Bool) (sim base : α → K) (pick : List α → Option α) (fs : List α) :
    List (K × List α) :=
  pass2 base pick (fs.filter (fun f => !isTyped f)) (pass1 sim (fs.filter isTyped) [])

/-- two features share a group of the result -/
def SameGroup (res : List (K × List α)) (f g : α) : Prop := ∃ e ∈ res, f ∈ e.2 ∧ g ∈ e.2

/-! ## dependency levels inside one group -/

/-- the `while remaining:` loop; `fuel` bounds the number of rounds (`remaining.length` suffices: every round
places at least one uuid) -/
def levelLoop (intra : Nat → List Nat) : Nat → List Nat → List Nat → List (List Nat)
  | 0, _, _ => []
  | fuel + 1, remaining, placed =>
    if remaining.isEmpty then []
    else
      let ready0 := remaining.filter (fun u => (intra u).all (fun d => placed.contains d))
      let ready := if ready0.isEmpty then remaining else ready0
      ready :: levelLoop intra fuel (remaining.filter (fun u => !(ready.contains u))) (placed ++ ready)

/-- `_split_features_by_dependency_levels(features, parent_to_children_mapping)`; `deps u` = the mapping's entry of
`u` (everything `u` needs), `ids` = uuids of the group's features -/
def splitLevels (ids : List Nat) (deps : Nat → List Nat) : List (List Nat) :=
  let intra := fun u => (deps u).filter (fun d => ids.contains d)
  if ids.all (fun u => (intra u).isEmpty) then [ids]
  else levelLoop intra ids.length ids []

end OptGroup
