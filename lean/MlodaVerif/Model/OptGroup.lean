import MlodaVerif.Model.OptIdent
/-! # `ExecutionPlan.group_features_by_compute_framework_and_options` and `_split_features_by_dependency_levels` (C15)

Since commit dc1e740 the grouping dictionary is keyed by the key **value** (`Feature.similarity_key()` =
`(options, frozenset(frameworks)[, data_type])`), not by its hash: a `dict` lookup finds the stored key that is `==` to
the looked-up one (`Options.__eq__`, i.e. group dictionaries compared with Python `==`); equal keys hash equal
(`C15.options_eq_hash_coherent`), so the hash only narrows the search.  The model: the dict is an association list in
insertion order, `keq stored looked_up` is the key comparison (a parameter; `pyEq` on the key tuples in the
instantiation), lookup = first entry whose stored key is `keq` to the looked-up key.  Each group is the list of its
members in insertion order; `pick g` is `next(iter(group))` (some member — which one is CPython's set layout, so it is
a parameter). -/

namespace OptGroup

variable {α : Type} {K : Type}

/-- `hash_collector[k].add(x)` on a `defaultdict(set)` keyed by key values -/
def addTo (keq : K → K → Bool) (coll : List (K × List α)) (k : K) (x : α) : List (K × List α) :=
  match coll with
  | [] => [(k, [x])]
  | (k', g) :: t => if keq k' k then (k', g ++ [x]) :: t else (k', g) :: addTo keq t k x

/-- first pass: features with a declared type, keyed by `similarity_key()` -/
def pass1 (keq : K → K → Bool) (sim : α → K) (typed : List α) (coll : List (K × List α)) : List (K × List α) :=
  typed.foldl (fun c f => addTo keq c (sim f) f) coll

/-- the `for existing_hash, group in hash_collector.items()` scan: stored key of the first group whose picked member
has a base key `==` to the wanted one (`any_feature.base_similarity_key() == base_hash`) -/
def findGroup (keq : K → K → Bool) (base : α → K) (pick : List α → Option α) (coll : List (K × List α)) (b : K) :
    Option K :=
  match coll with
  | [] => none
  | (k, g) :: t =>
    match pick g with
    | some a => if keq (base a) b then some k else findGroup keq base pick t b
    | none => findGroup keq base pick t b

/-- one iteration of the second pass for an undeclared-type feature -/
def place (keq : K → K → Bool) (base : α → K) (pick : List α → Option α) (coll : List (K × List α)) (f : α) :
    List (K × List α) :=
  match findGroup keq base pick coll (base f) with
  | some k => addTo keq coll k f
  | none => addTo keq coll (base f) f

def pass2 (keq : K → K → Bool) (base : α → K) (pick : List α → Option α) (untyped : List α)
    (coll : List (K × List α)) : List (K × List α) :=
  untyped.foldl (place keq base pick) coll

/-- `group_features_by_compute_framework_and_options(features)`; `fs` = the set in its iteration order -/
def groupBy (keq : K → K → Bool) (isTyped : α → Bool) (sim base : α → K) (pick : List α → Option α) (fs : List α) :
    List (K × List α) :=
  pass2 keq base pick (fs.filter (fun f => !isTyped f)) (pass1 keq sim (fs.filter isTyped) [])

/-- two features share a group of the result -/
def SameGroup (res : List (K × List α)) (f g : α) : Prop := ∃ e ∈ res, f ∈ e.2 ∧ g ∈ e.2

/-! ## dependency levels inside one group -/

/-- the `while remaining:` loop; `fuel` bounds the number of rounds (`remaining.length` suffices: every round
places at least one uuid) -/
def levelLoop (intra : Nat → List Nat) : Nat → List Nat → List Nat → List (List Nat)
  | 0, _, _ => []
  | fuel + 1, remaining, placed =>
    if remaining.isEmpty then []
    else
      let ready0 := remaining.filter (fun u => (intra u).all (fun d => placed.contains d))
      let ready := if ready0.isEmpty then remaining else ready0
      ready :: levelLoop intra fuel (remaining.filter (fun u => !(ready.contains u))) (placed ++ ready)

/-- `_split_features_by_dependency_levels(features, parent_to_children_mapping)`; `deps u` = the mapping's entry of
`u` (everything `u` needs), `ids` = uuids of the group's features -/
def splitLevels (ids : List Nat) (deps : Nat → List Nat) : List (List Nat) :=
  let intra := fun u => (deps u).filter (fun d => ids.contains d)
  if ids.all (fun u => (intra u).isEmpty) then [ids]
  else levelLoop intra ids.length ids []

end OptGroup
