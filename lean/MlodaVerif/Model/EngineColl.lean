import MlodaVerif.Model.Graph
/-! # Model of the Engine's feature collection (C03 extension `engine`)

Anchors in /repo (pinned tree):
* `mloda/core/core/engine.py`: `Engine.setup_features_recursion`, `_process_feature`, `_set_feature_name`,
  `set_compute_framework`, `set_data_type`, `add_feature_to_collection`, `_update_feature_link_parents`,
  `add_feature_link_to_links`, `_handle_input_features_recursion`, `_add_filter_feature`, `_add_index_feature`,
  `_process_index_feature`, `_create_and_add_index_feature`          -> `prepare`, `addFeature`, `expand`, `proc`, `addFilters`, `addIndexes`, `run`
* `mloda/core/abstract_plugins/components/feature_collection.py`: `Features.__init__`, `build_feature_collection`,
  `merge_options`, `check_duplicate_feature`                          -> `mergeOpts`, `mkInput`, `buildFeatures`, `mkInputs`, `mkRequest`
* `mloda/core/abstract_plugins/components/feature.py`: `Feature.__eq__` (what it reads = `Key`; it raises when exactly one
  side has a domain) / `__hash__`                                     -> `Key`, `feqE`
* `mloda/core/abstract_plugins/components/index/add_index_feature.py`: `create_index_feature` -> `indexFeat`
* `mloda/core/filter/global_filter.py`: `identity_matched_filters`, `unify_options`, `criteria`, `domain`,
  `compute_framework`, `add_filter_to_collection`                     -> `unify`, `filterDomain`, `filterCfw`, `matchFilter`, `matchedFilters`, `gfcAdd`
* `mloda/core/prepare/graph/build_graph.py` is `Graph.buildGraph` (Model/Graph.lean) applied to `St.flp`.

Conventions
* uuids are `Nat`s handed out by the counter `St.next` (the real code draws `uuid4()` at `Feature(...)` construction); names are
  lists of code points; an `Options` object is the pair (`grp`, `ctx`) of dictionaries with `Nat` keys and `Nat` values kept in the
  canonical key-sorted form (`oset`), so that structural equality is Python `dict` equality.
* `feature_group_collection : Dict[group, Set[Feature]]` is the list `St.coll` of (group id, feature) in insertion order; membership
  `feature not in feature_collection` is hash-then-`==`, i.e. "no entry of that group with the same `Key`" (the hash covers every
  field `==` reads except the context, so `==` is only evaluated on entries whose other fields already agree and never raises there).
* Python sets whose iteration order the code observes: `list(input_features)` is the list returned by `World.inputs`;
  `global_filter.filters` is `World.filters`; the order in which `next(f.uuid for f in feature_collection if feature == f)` walks a group's
  set and the order of the local set `matched_filters` are given by the oracles `World.scanOrd` / `World.matchOrd` (k-th call ↦ permutation of
  positions; `none` = insertion order).  `self.links` is iterated too, but every index feature created for one index is `==` to the first one, so
  its order is not observable.
* The recursion `_process_feature → _handle_input_features_recursion → setup_features_recursion` takes `fuel`; running out of it is the
  outcome `Err.fuel` (`RecursionError` in the real code).
* What resolution (`IdentifyFeatureGroupClass`, C10), `set_feature_name`, `return_data_type_rule`, `input_features`, `index_columns`,
  `match_feature_group_criteria` answer is a parameter (`World`); they read the `Key` of a feature only. -/
namespace EngineColl
open Graph (Dict dget dset sadd)

abbrev Name := List Nat
/-- a `dict` with `Nat` keys and values, canonical form: strictly increasing keys -/
abbrev Opts := List (Nat × Nat)

/-- `d.get(k)` -/
def oget : Opts → Nat → Option Nat
  | [], _ => none
  | (k', v) :: o, k => if k' = k then some v else oget o k

/-- `k in d` -/
def ohas (o : Opts) (k : Nat) : Bool := (oget o k).isSome

/-- `d[k] = v` (keeps the canonical form) -/
def oset : Opts → Nat → Nat → Opts
  | [], k, v => [(k, v)]
  | (k', v') :: o, k, v =>
    if k < k' then (k, v) :: (k', v') :: o
    else if k = k' then (k, v) :: o
    else (k', v') :: oset o k v

/-- `d.update(other)` -/
def oupdate (o other : Opts) : Opts := other.foldl (fun o kv => oset o kv.1 kv.2) o

/-- `Link` as `__eq__` sees it between generated classes: join type, the two classes and the two indexes -/
structure Link where
  jt : Nat
  lg : Nat
  li : List Name
  rg : Nat
  ri : List Name
  deriving DecidableEq, Repr

/-- everything `Feature.__eq__` reads: name, `options.group`, `options.context`, domain, `compute_frameworks` (`None` or a set, as a
sorted list), `data_type`, `child_options` (`None` or its group dictionary - `Options.__eq__` compares the group only) -/
structure Key where
  name : Name
  grp : Opts
  ctx : Opts
  dom : Option Nat
  cfw : Option (List Nat)
  dtype : Option Nat
  child : Option Opts
  deriving DecidableEq, Repr

/-- a `Feature` object: its `Key`, `initial_requested_data`, `uuid`, `link` (the last three are ignored by `==` / `hash`) -/
structure Feat where
  key : Key
  req : Bool
  uuid : Nat
  link : Option Link
  deriving DecidableEq, Repr

inductive Err where
  | fuel              -- RecursionError
  | noGroup           -- "No feature groups found for feature name"
  | multiGroup        -- "Multiple feature groups found for feature"
  | multiCfw          -- "Feature should only have one compute framework when set by user"
  | cfwUnsupported    -- `set_compute_framework`: "Feature … does not support compute framework"
  | typeMismatch      -- `set_data_type`: "has a data type mismatch with feature group"
  | mergeConflict     -- `merge_options`: "Duplicate key … found with conflicting values"
  | groupCtxConflict  -- `update_with_protected_keys`: "Cannot update group: keys already exist in context"
  | duplicate         -- `check_duplicate_feature`: "Duplicate feature setup"
  | domainCompare     -- `Domain.__eq__`: "Cannot compare Domain with <class 'NoneType'>" raised by `check_duplicate_feature` (`Features(...)`)
  | domainScan        -- the same ValueError, raised while `add_feature_to_collection` walks a group's set looking for the `==` entry
  | domainFilter      -- the same ValueError, raised by `GlobalFilter.domain` (`filter.filter_feature.domain == feature_domain` with `None`)
  | emptyIndex        -- `index.index[0]` on an empty tuple (IndexError)
  | oracle            -- model artefact: an iteration-order oracle is not a permutation of the positions
  deriving DecidableEq, Repr

/-- a filter of `GlobalFilter.filters`: the filter feature and an id of (filter type, parameter) -/
structure Filt where
  key : Key
  tp : Nat
  deriving DecidableEq, Repr

structure World where
  /-- `IdentifyFeatureGroupClass(feature, accessible_plugins, self.links, …).get()`: the group and its accessible compute frameworks -/
  resolve : Option (List Link) → Key → Except Err (Nat × List Nat)
  /-- `feature_group.set_feature_name(feature.options, feature.name)` -/
  setName : Nat → Key → Name
  /-- `feature_group_class.return_data_type_rule(feature)` -/
  typeRule : Nat → Key → Option Nat
  /-- `list(feature_group.input_features(options, feature_name))`; `none` = `NotImplementedError` / `None` (root) -/
  inputs : Nat → Key → Option (List Feat)
  /-- `index_columns()` -/
  indexCols : Nat → Option (List (List Name))
  /-- `get_domain()` (`defaultDom` = "default_domain") -/
  groupDom : Nat → Nat
  /-- `match_feature_group_criteria(filter_feature.name, filter_feature.options, …)` of a group -/
  criteria : Nat → Key → Bool
  /-- `next(iter(s))` on a set of compute-framework classes -/
  pick : List Nat → Nat
  /-- `global_filter.filters` in iteration order; `none` = no global filter -/
  filters : Option (List Filt)
  scanOrd : Nat → Option (List Nat)
  matchOrd : Nat → Option (List Nat)

def defaultDom : Nat := 0

/-- the Engine's fields the collection phase writes -/
structure St where
  coll : List (Nat × Feat) := []            -- `feature_group_collection`, flattened, insertion order
  flp : Dict := []                          -- `feature_link_parents`
  links : Option (List Link) := none        -- `self.links`
  gfc : List ((Nat × Name) × List (Key × Nat)) := []   -- `global_filter.collection`: (group, feature name) ↦ set of (filter feature, type/parameter id)
  next : Nat := 0                           -- uuid counter
  nscan : Nat := 0
  nmatch : Nat := 0
  deriving Repr, DecidableEq

/-! ## `Feature.__eq__` -/

/-- `a == b` for two features; raises when name, group options and context agree and exactly one side has a domain -/
def feqE (a b : Key) : Except Err Bool :=
  if a.name = b.name ∧ a.grp = b.grp ∧ a.ctx = b.ctx then
    match a.dom, b.dom with
    | none, none => .ok (decide (a.cfw = b.cfw ∧ a.dtype = b.dtype ∧ a.child = b.child))
    | some x, some y => .ok (decide (x = y ∧ a.cfw = b.cfw ∧ a.dtype = b.dtype ∧ a.child = b.child))
    | _, _ => .error .domainCompare
  else .ok false

/-- `feature in feature_collection` (set of one group: hash, then `==`) -/
def inColl (coll : List (Nat × Feat)) (g : Nat) (k : Key) : Bool := coll.any (fun e => e.1 == g && e.2.key == k)

/-! ## `Features(...)` -/

/-- `Features.merge_options(feature_options, child_options)` for options without protected keys and without
`propagate_context_keys`: conflict scan over `child.items() × feature.items()`, then `update_with_protected_keys`; result = the
feature's new group dictionary (its context is unchanged) -/
def mergeOpts (fg fc cg cc : Opts) : Except Err Opts :=
  if (cg ++ cc).any (fun kc => (fg ++ fc).any (fun kp => kc.1 == kp.1 && kc.2 != kp.2)) then .error .mergeConflict
  else if cg.any (fun kc => ohas fc kc.1) then .error .groupCtxConflict
  else .ok (oupdate fg cg)

/-- one iteration of `build_feature_collection` with `child_uuid` set, up to `merge_options`: domain inheritance, `child_options`,
merged options; `uuid` = the uuid the `Feature(...)` call of the group drew -/
def mkInput (p : Key) (t : Feat) (uuid : Nat) : Except Err Feat :=
  match mergeOpts t.key.grp t.key.ctx p.grp p.ctx with
  | .error e => .error e
  | .ok g' =>
    .ok { t with uuid := uuid,
                 key := { t.key with grp := g', dom := (match t.key.dom with | some d => some d | none => p.dom), child := some p.grp } }

/-- `check_duplicate_feature`: `feature in self.collection` on a list = `==` against the earlier features in order -/
def dupCheck (f : Key) : List Feat → Except Err Unit
  | [] => .ok ()
  | x :: xs =>
    match feqE f x.key with
    | .error e => .error e
    | .ok true => .error .duplicate
    | .ok false => dupCheck f xs

/-- the loop of `build_feature_collection` over already converted features -/
def buildFeatures (p : Key) : List Feat → Nat → List Feat → Except Err (List Feat)
  | [], _, acc => .ok acc
  | t :: ts, n, acc =>
    match mkInput p t n with
    | .error e => .error e
    | .ok f =>
      match dupCheck f.key acc with
      | .error e => .error e
      | .ok () => buildFeatures p ts (n + 1) (acc ++ [f])

/-- `Features(list(input_features), child_options=options, child_uuid=uuid, parent_domain=…)`; uuids `next, next+1, …` -/
def mkInputs (p : Key) (ts : List Feat) (next : Nat) : Except Err (List Feat) := buildFeatures p ts next []

/-- the loop of `Features(requested)` (no child): only the duplicate check -/
def requestLoop : List Feat → List Feat → Except Err (List Feat)
  | [], acc => .ok acc
  | f :: fs, acc =>
    match dupCheck f.key acc with
    | .error e => .error e
    | .ok () => requestLoop fs (acc ++ [f])

/-- `Features(requested_features)` -/
def mkRequest (fs : List Feat) : Except Err (List Feat) := requestLoop fs []

/-! ## `_process_feature`: the part before `add_feature_to_collection` -/

/-- `truthy(compute_frameworks)`: not `None` and not empty -/
def cfwSet : Option (List Nat) → Bool
  | some (_ :: _) => true
  | _ => false

/-- `feature.get_compute_framework()` = `next(iter(self.compute_frameworks))` -/
def getCfw (w : World) : Option (List Nat) → Nat
  | some l => w.pick l
  | none => w.pick []

/-- `set_compute_framework` -/
def setCfw (w : World) (k : Key) (cfws : List Nat) : Except Err Key :=
  if cfwSet k.cfw then
    if (getCfw w k.cfw) ∈ cfws then .ok k else .error .cfwUnsupported
  else .ok { k with cfw := some cfws }

/-- `set_data_type` -/
def setDtype (w : World) (g : Nat) (k : Key) : Except Err Key :=
  match k.dtype, w.typeRule g k with
  | some a, some b => if a = b then .ok k else .error .typeMismatch
  | none, some b => .ok { k with dtype := some b }
  | _, none => .ok k

/-- identify the group, `_set_feature_name`, `_set_compute_framework_and_data_type` -/
def prepareK (w : World) (links : Option (List Link)) (k : Key) : Except Err (Nat × Key) :=
  match w.resolve links k with
  | .error e => .error e
  | .ok (g, cfws) =>
    match setCfw w { k with name := w.setName g k } cfws with
    | .error e => .error e
    | .ok k2 =>
      match setDtype w g k2 with
      | .error e => .error e
      | .ok k3 => .ok (g, k3)

def prepare (w : World) (links : Option (List Link)) (f : Feat) : Except Err (Nat × Feat) :=
  match prepareK w links f.key with
  | .error e => .error e
  | .ok (g, k) => .ok (g, { f with key := k })

/-! ## `add_feature_to_collection` -/

/-- `add_feature_link_to_links` -/
def addLink (links : Option (List Link)) : Option Link → Option (List Link)
  | none => links
  | some l =>
    match links with
    | none => some [l]
    | some ls => if l ∈ ls then some ls else some (ls ++ [l])

/-- positions `0..n-1` in the order of the oracle; `none` = the oracle is not a permutation of the positions (as many entries as
positions and every position occurs) -/
def applyOrd {α : Type} (ord : Option (List Nat)) (l : List α) : Option (List α) :=
  match ord with
  | none => some l
  | some p => if p.length = l.length ∧ (List.range l.length).all (fun i => p.contains i) then some (p.filterMap (fun i => l[i]?)) else none

/-- `next((f.uuid for f in feature_collection if feature == f), None)` over the entries in the given order -/
def scan (k : Key) : List (Nat × Feat) → Except Err (Option Nat)
  | [] => .ok none
  | e :: es =>
    match feqE k e.2.key with
    | .error _ => .error .domainScan
    | .ok true => .ok (some e.2.uuid)
    | .ok false => scan k es

/-- `_update_feature_link_parents` on the set `feature_link_parents[child_uuid]` -/
def updParents (s : List Nat) (orig wanted : Nat) (isIdx : Bool) : List Nat :=
  if isIdx then sadd s wanted else sadd (s.erase orig) wanted

/-- `add_feature_to_collection(feature_group_class, feature, child_uuid, if_index_feature)`: new state and `added` -/
def addFeature (w : World) (st : St) (g : Nat) (f : Feat) (cu : Option Nat) (isIdx : Bool) : Except Err (St × Bool) :=
  if inColl st.coll g f.key then
    match cu with
    | none => .ok (st, false)
    | some c =>
      match applyOrd (w.scanOrd st.nscan) (st.coll.filter (fun e => e.1 == g)) with
      | none => .error .oracle
      | some es =>
        match scan f.key es with
        | .error e => .error e
        | .ok none => .ok ({ st with nscan := st.nscan + 1 }, false)
        | .ok (some wanted) =>
          .ok ({ st with nscan := st.nscan + 1, flp := dset st.flp c (updParents (dget st.flp c) f.uuid wanted isIdx) }, false)
  else
    .ok ({ st with links := addLink st.links f.link, flp := dset st.flp f.uuid [], coll := st.coll ++ [(g, f)] }, true)

/-! ## global filter -/

/-- the part of `unify_options` for one of the two dictionaries of the feature: every item of `src` whose key is neither in the dictionary
being filled (`acc`) nor in the filter's other dictionary is added -/
def fillIn (other src acc : Opts) : Opts :=
  src.foldl (fun a kv => if ohas a kv.1 || ohas other kv.1 then a else oset a kv.1 kv.2) acc

/-- `GlobalFilter.unify_options(feat_options, filter_options)`: (new group, new context) of the filter feature; `feat_options.items()` lists the
group items first (they go to the filter's group via `set`), then the context items (`add_to_context`) -/
def unify (fg fc : Opts) (flg flc : Opts) : Opts × Opts :=
  let g1 := fillIn flc fg flg
  let c1 := fillIn g1 fc flc
  (g1, c1)

/-- `GlobalFilter.domain(filter, feat.domain, feature_group)`: matched? and the filter feature's domain afterwards -/
def filterDomain (fdom featDom : Option Nat) (groupDom : Nat) : Except Err (Bool × Option Nat) :=
  let fog : Option Nat := match featDom with
    | some d => some d
    | none => if groupDom ≠ defaultDom then some groupDom else none
  match fdom with
  | none => (match fog with | none => .ok (true, none) | some d => .ok (true, some d))
  | some fd =>
    match featDom with
    | none => if groupDom = fd then .ok (true, some fd) else .error .domainFilter
    | some d => .ok (decide (fd = d), some fd)

/-- `GlobalFilter.compute_framework(filter, feat)` -/
def filterCfw (w : World) (fcfw featCfw : Option (List Nat)) : Bool × Option (List Nat) :=
  if cfwSet fcfw then (decide (getCfw w fcfw = getCfw w featCfw), fcfw) else (true, featCfw)

/-- one iteration of the loop of `identity_matched_filters`: the deep copy after `unify_options`, `criteria`, `domain`, `compute_framework` -/
def matchFilter (w : World) (g : Nat) (f : Key) (flt : Filt) : Except Err (Option Filt) :=
  let (g1, c1) := unify f.grp f.ctx flt.key.grp flt.key.ctx
  let k1 : Key := { flt.key with grp := g1, ctx := c1 }
  if w.criteria g k1 = false then .ok none
  else
    match filterDomain k1.dom f.dom (w.groupDom g) with
    | .error e => .error e
    | .ok (false, _) => .ok none
    | .ok (true, d) =>
      match filterCfw w k1.cfw f.cfw with
      | (false, _) => .ok none
      | (true, c) => .ok (some { flt with key := { k1 with dom := d, cfw := c } })

/-- `identity_matched_filters`: the set `matched_filters` in first-insertion order (`SingleFilter.__eq__` = feature, type, parameter) -/
def matchedFilters (w : World) (g : Nat) (f : Key) : List Filt → List Filt → Except Err (List Filt)
  | [], acc => .ok acc
  | flt :: rest, acc =>
    match matchFilter w g f flt with
    | .error e => .error e
    | .ok none => matchedFilters w g f rest acc
    | .ok (some m) => matchedFilters w g f rest (if m ∈ acc then acc else acc ++ [m])

/-- `global_filter.add_filter_to_collection(feature_group, filtered_feature_name, single_filter)` -/
def gfcAdd : List ((Nat × Name) × List (Key × Nat)) → (Nat × Name) → (Key × Nat) → List ((Nat × Name) × List (Key × Nat))
  | [], k, v => [(k, [v])]
  | (k', vs) :: d, k, v => if k' = k then (k', if v ∈ vs then vs else vs ++ [v]) :: d else (k', vs) :: gfcAdd d k v

/-- the body of the loop of `_add_filter_feature` for one matched filter -/
def addFilterOne (w : World) (g : Nat) (f : Feat) (cu : Option Nat) (st : St) (m : Filt) : Except Err St :=
  let ff : Feat := { key := { m.key with name := w.setName g m.key }, req := false, uuid := st.next, link := none }
  let st1 : St := { st with next := st.next + 1, gfc := gfcAdd st.gfc (g, f.key.name) (ff.key, m.tp) }
  match addFeature w st1 g ff cu false with
  | .error e => .error e
  | .ok (st2, _) => .ok st2

/-- `_add_filter_feature` -/
def addFilters (w : World) (st : St) (g : Nat) (f : Feat) (cu : Option Nat) : Except Err St :=
  match w.filters with
  | none => .ok st
  | some fl =>
    match matchedFilters w g f.key fl [] with
    | .error e => .error e
    | .ok ms =>
      match applyOrd (w.matchOrd st.nmatch) ms with
      | none => .error .oracle
      | some ms' => ms'.foldlM (addFilterOne w g f cu) { st with nmatch := st.nmatch + 1 }

/-! ## index features -/

/-- `create_index_feature(index, feature_group, feature)` -/
def indexFeat (w : World) (g : Nat) (f : Feat) (ix : List Name) (uuid : Nat) : Except Err Feat :=
  match ix with
  | [] => .error .emptyIndex
  | n :: _ =>
    let k0 : Key := { name := n, grp := f.key.grp, ctx := f.key.ctx, dom := f.key.dom, cfw := some [getCfw w f.key.cfw], dtype := none, child := none }
    .ok { key := { k0 with name := w.setName g k0 }, req := false, uuid := uuid, link := none }

/-- `_create_and_add_index_feature` -/
def addIndexOne (w : World) (g : Nat) (f : Feat) (cu : Option Nat) (ix : List Name) (st : St) : Except Err St :=
  match indexFeat w g f ix st.next with
  | .error e => .error e
  | .ok xf =>
    match addFeature w { st with next := st.next + 1 } g xf cu true with
    | .error e => .error e
    | .ok (st2, _) => .ok st2

/-- the body of the loop of `_process_index_feature` for one link -/
def addIndexLink (w : World) (g : Nat) (f : Feat) (cu : Option Nat) (ix : List Name) (st : St) (l : Link) : Except Err St :=
  match (if l.lg = g ∧ l.li = ix then addIndexOne w g f cu ix st else .ok st) with
  | .error e => .error e
  | .ok st1 => if l.rg = g ∧ l.ri = ix then addIndexOne w g f cu ix st1 else .ok st1

/-- `_add_index_feature` (behind `if feature_group.index_columns():`) -/
def addIndexes (w : World) (st : St) (g : Nat) (f : Feat) (cu : Option Nat) : Except Err St :=
  match w.indexCols g with
  | none => .ok st
  | some ixs =>
    match st.links with
    | none => .ok st
    | some ls => ixs.foldlM (fun s ix => ls.foldlM (addIndexLink w g f cu ix) s) st

/-! ## the recursion -/

/-- the body of `Engine._process_feature(feature, features)` with `features.child_uuid = cu`; `rec` = the recursive call
(`setup_features_recursion` on the `Features` object built by `_handle_input_features_recursion` calls `_process_feature` again) -/
def procStep (w : World) (rec : St → Option Nat → Feat → Except Err St) (st : St) (cu : Option Nat) (f : Feat) : Except Err St :=
  match prepare w st.links f with
  | .error e => .error e
  | .ok (g, f3) =>
    match addFeature w st g f3 cu false with
    | .error e => .error e
    | .ok (st1, added) =>
      let rec' : Except Err St :=
        if added then
          match w.inputs g f3.key with
          | none => .ok st1
          | some [] => .ok st1
          | some (t :: ts) =>
            match mkInputs f3.key (t :: ts) st1.next with
            | .error e => .error e
            | .ok fs =>
              fs.foldlM (fun s x => rec s (some f3.uuid) x)
                { st1 with flp := dset st1.flp f3.uuid (fs.map (·.uuid)), next := st1.next + (t :: ts).length }
        else .ok st1
      match rec' with
      | .error e => .error e
      | .ok st2 =>
        match addFilters w st2 g f3 cu with
        | .error e => .error e
        | .ok st3 => addIndexes w st3 g f3 cu

/-- `Engine._process_feature` with a bound on the depth of the recursion -/
def proc (w : World) : Nat → St → Option Nat → Feat → Except Err St
  | 0, _, _, _ => .error .fuel
  | fuel + 1, st, cu, f => procStep w (proc w fuel) st cu f

/-- `Engine.setup_features_recursion(features)` for the requested features (`features.child_uuid is None`) -/
def procAll (w : World) (fuel : Nat) (st : St) (fs : List Feat) : Except Err St :=
  fs.foldlM (fun s x => proc w fuel s none x) st

/-- uuid counter above every requested uuid -/
def nextAbove (fs : List Feat) : Nat := fs.foldl (fun n f => max n (f.uuid + 1)) 0

/-- `Features(requested)` followed by `Engine.__init__` up to (and including) `setup_features_recursion` -/
def run (w : World) (fuel : Nat) (links : Option (List Link)) (req : List Feat) : Except Err St :=
  match mkRequest req with
  | .error e => .error e
  | .ok fs => procAll w fuel { links := links, next := nextAbove fs } fs

/-- what `create_setup_execution_plan` hands to the planner: the graph built by `BuildGraph` from `feature_link_parents` -/
def graphOf (st : St) : Graph.G := Graph.buildGraph st.flp

end EngineColl
