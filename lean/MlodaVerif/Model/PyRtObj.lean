import MlodaVerif.Model.PyRtDict
/-! # Run-time library, part 3: heap objects, queues, the flight store (translator extension for the data-lifecycle code)

Used by `Gen/LifecycleGen.lean` (harness/extractors/pytrans_life.py) and `Gen/GraphGen.lean`.  Core Lean only.

* `PData` - what `ComputeFramework.data` is, as far as the lifecycle code looks at it: None, a `str` (the key of a dataset in the
  flight store, which is always `str(<a uuid>)` - the key and the uuid are the same `Nat`), or an in-memory table.
* the flight store is the duplicate-free list of its keys (`FlightServer.drop_tables`).
* `multiprocessing.Queue` objects are *handles* (`Nat`) into a heap `QHeap` of FIFO contents; the heap is a "world variable"
  that every generated function which touches a queue takes and returns.  A handle without an entry is an empty queue.
  What another process puts into a queue while the translated function runs is an explicit arrival schedule.  -/
namespace PyRt

/-! ### further dict primitives -/

/-- `del d[k]` (KeyError when `k` is not a key) -/
def NDict.delItem {V : Type} : NDict V → Nat → Except PyExc (NDict V)
  | [], _ => .error .keyError
  | (k', v') :: t, k => if k' == k then .ok t else (NDict.delItem t k).map ((k', v') :: ·)

/-- iterating a dict / `d.keys()` -/
def NDict.keys {V : Type} (d : NDict V) : List Nat := d.map (·.1)

/-- `d.values()` -/
def NDict.values {V : Type} (d : NDict V) : List V := d.map (·.2)

/-- truthiness of a dict -/
def NDict.truthy {V : Type} (d : NDict V) : Bool := !d.isEmpty

/-- `d.popitem()`: removes and returns the item inserted LAST (KeyError on an empty dict) -/
def NDict.popitem {V : Type} (d : NDict V) : Except PyExc ((Nat × V) × NDict V) :=
  match d.getLast? with
  | none => .error .keyError
  | some p => .ok (p, d.dropLast)

/-- `set(iterable)` / a set comprehension: the elements in first-occurrence order -/
def PSet.ofList (l : List Nat) : PSet := l.foldl PSet.add []

/-- `a.union(b)`: a new set, the elements of `a` first -/
def PSet.union (a b : PSet) : PSet := b.foldl PSet.add a

/-! ### `defaultdict`: a READ `d[k]` of a missing key inserts it with the default value -/

/-- the value `d[k]` evaluates to (`defaultdict(list)` / `defaultdict(set)`: the empty container for a missing key) -/
def DDict.get (d : NDict (List Nat)) (k : Nat) : List Nat := (NDict.get? d k).getD []

/-- the read `d[k]`: the value, and the dict afterwards (an existing key keeps its place, a missing one is appended) -/
def DDict.read (d : NDict (List Nat)) (k : Nat) : List Nat × NDict (List Nat) := (DDict.get d k, NDict.set d k (DDict.get d k))

/-- `d[k].append(x)` on a `defaultdict(list)` -/
def DDict.appendAt (d : NDict (List Nat)) (k x : Nat) : NDict (List Nat) := NDict.set d k (DDict.get d k ++ [x])

/-- `d[k].add(x)` on a `defaultdict(set)` -/
def DDict.addAt (d : NDict (List Nat)) (k x : Nat) : NDict (List Nat) := NDict.set d k (PSet.add (DDict.get d k) x)

/-- `defaultdict(int)` -/
def IDict.get (d : NDict Nat) (k : Nat) : Nat := (NDict.get? d k).getD 0

def IDict.read (d : NDict Nat) (k : Nat) : Nat × NDict Nat := (IDict.get d k, NDict.set d k (IDict.get d k))

/-- `d[k] += n` -/
def IDict.incr (d : NDict Nat) (k n : Nat) : NDict Nat := NDict.set d k (IDict.get d k + n)

/-- a dict whose keys are not ids (pairs of uuids): association list in insertion order -/
abbrev ADict (K V : Type) := List (K × V)

/-- `d[k] = v` -/
def ADict.set {K V : Type} [DecidableEq K] : ADict K V → K → V → ADict K V
  | [], k, v => [(k, v)]
  | (k', v') :: t, k, v => if k' = k then (k, v) :: t else (k', v') :: ADict.set t k v

/-! ### `ComputeFramework.data` -/

inductive PData where
  | none
  | key (k : Nat)
  | table
  deriving DecidableEq, Repr

/-- `data is None` -/
def PData.isNone : PData → Bool
  | .none => true
  | _ => false

/-- `isinstance(data, str)` -/
def PData.isStr : PData → Bool
  | .key _ => true
  | _ => false

/-- `{data}` as a set of flight-store keys: only a `str` is one (a table is unhashable, None is no key) -/
def PData.keySet : PData → Except PyExc PSet
  | .key k => .ok [k]
  | .none => .error (.exception "{None} is not a set of keys")
  | .table => .error (.exception "unhashable type")

/-- `isinstance(x, frozenset)` for the result of the tracker (`children_if_root` is returned as it is) -/
def BoolOrSet.isSet : BoolOrSet → Bool
  | .set _ => true
  | .bool _ => false

/-- `x is True` -/
def BoolOrSet.isTrue : BoolOrSet → Bool
  | .bool true => true
  | _ => false

/-- `set(x)` (TypeError for a bool) -/
def BoolOrSet.toSet : BoolOrSet → Except PyExc PSet
  | .set s => .ok s
  | .bool _ => .error (.exception "'bool' object is not iterable")

/-! ### the flight store -/

/-- `FlightServer.drop_tables(location, keys)`; a client cannot be made without a location -/
def FlightStore.dropTables (store : PSet) (location : Option Nat) (keys : PSet) : Except PyExc PSet :=
  if Option.any strTruthy location then .ok (store.filter (fun k => decide (k ∉ keys)))
  else .error (.exception "FlightClient without a location")

/-! ### queues -/

/-- what the lifecycle code puts into / takes out of its queues -/
inductive QMsg where
  | stop                      -- the string "STOP"
  | str (u : Nat)             -- `str(<uuid>)`: a step result
  | set (s : PSet)            -- a set of feature uuids: a drop command
  | dropComplete (u : Nat)    -- the tuple `("DROP_COMPLETE", <uuid>)`
  | obj (id : Nat)            -- any other object (a step command)
  deriving DecidableEq, Repr

abbrev QHeap := NDict (List QMsg)

/-- the content of a queue, oldest first -/
def QHeap.content (h : QHeap) (q : Nat) : List QMsg := (NDict.get? h q).getD []

/-- `q.put(m)` / `q.put(m, block=False)` (the queues are unbounded) -/
def QHeap.put (h : QHeap) (q : Nat) (m : QMsg) : QHeap := NDict.set h q (QHeap.content h q ++ [m])

/-- `q.get(block=False)`: `none` stands for `queue.Empty` -/
def QHeap.getNowait (h : QHeap) (q : Nat) : Option QMsg × QHeap :=
  match QHeap.content h q with
  | [] => (none, h)
  | m :: t => (some m, NDict.set h q t)

/-- `q.get(block=False)` on a queue another process writes to: the head of the schedule is what arrived since the last look -/
def QHeap.getArr (h : QHeap) (sched : List (List QMsg)) (q : Nat) : Option QMsg × QHeap × List (List QMsg) :=
  match QHeap.content h q ++ sched.headD [] with
  | [] => (none, NDict.set h q [], sched.tail)
  | m :: t => (some m, NDict.set h q t, sched.tail)

/-- `isinstance(m, tuple)` -/
def QMsg.isTuple : QMsg → Bool
  | .dropComplete _ => true
  | _ => false

/-- `isinstance(m, tuple) and len(m) == 2 and m[0] == "DROP_COMPLETE" and m[1] == u` -/
def QMsg.isDropComplete (m : QMsg) (u : Nat) : Bool := m == .dropComplete u

/-- `m == "STOP"` -/
def QMsg.isStop (m : QMsg) : Bool := m == .stop

/-- `isinstance(m, set)` -/
def QMsg.isSet : QMsg → Bool
  | .set _ => true
  | _ => false

/-- a message used as a set (after `isinstance(m, set)`) -/
def QMsg.asSet : QMsg → Except PyExc PSet
  | .set s => .ok s
  | _ => .error (.exception "not a set")

/-- `UUID(m)`: only a `str` that renders a uuid is accepted -/
def QMsg.toUuid : QMsg → Except PyExc Nat
  | .str u => .ok u
  | .stop => .error (.valueError "badly formed hexadecimal UUID string")
  | _ => .error .attributeError

end PyRt
