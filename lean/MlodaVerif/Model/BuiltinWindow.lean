import MlodaVerif.Model.Builtin
/-! # Builtin, part 3: time windows on Pandas / PyArrow

Anchors: `mloda_plugins/feature_group/experimental/time_window/{pandas,pyarrow}.py`.

Both implementations ignore the time unit and use a fixed-size window of `window_size` *rows* after sorting by the
reference-time column (`rolling(window=window_size, min_periods=1)`; `range(max(0, i - window_size + 1), i + 1)`).
* Pandas: `data.set_index(time).sort_index()[col].rolling(...).f().values` is assigned back to `data[name]`
  **positionally**, i.e. the results stay in time-sorted order (modelled as is).
* PyArrow: `pc.sort_indices(time)`, Python loop over the sorted values, then the results are moved back to the original
  row positions (`results[sorted_indices.index(i)]`).
Sorting is modelled as a stable sort on the time values (assumption; the harness generates distinct times). Times are `Int`s
(the harness sends the rank-preserving offsets). Per-window reducers: `Pd.rolling`, `Pa.window` (library conventions,
assumed; see `Model/Builtin.lean`). -/

namespace Builtin

/-- row indices in (stable) ascending order of time -/
def sortIdx (times : List Int) : List Nat :=
  (isort (fun (a b : Int × Nat) => decide (a.1 ≤ b.1)) (times.zip (List.range times.length))).map (·.2)

def takeIdx (c : List (Option Rat)) (idx : List Nat) : List (Option Rat) := idx.map (fun i => (c[i]?).join)

/-- the entries at sorted positions `max 0 (i - w + 1) .. i` -/
def windowAt (s : List (Option Rat)) (w i : Nat) : List (Option Rat) := (s.take (i + 1)).drop (i + 1 - w)

/-- all window results, in time-sorted order -/
def windowsSorted (f : List (Option Rat) → Res) (w : Nat) (s : List (Option Rat)) : List Res :=
  (List.range s.length).map (fun i => f (windowAt s w i))

/-- `PandasTimeWindowFeatureGroup._perform_window_operation` (single source column): results in sorted order -/
def pandasWindow (op : String) (w : Nat) (times : List Int) (c : List (Option Rat)) : Option (List Res) :=
  (Pd.rolling op).map (fun f => windowsSorted f w (takeIdx c (sortIdx times)))

/-- `results[sorted_indices.index(i)] for i in range(len(results))` -/
def unsort (idx : List Nat) (results : List Res) : List Res :=
  (List.range results.length).filterMap (fun i => results[idx.idxOf i]?)

/-- `PyArrowTimeWindowFeatureGroup._perform_window_operation` (single source column): results in original row order -/
def arrowWindow (op : String) (w : Nat) (times : List Int) (c : List (Option Rat)) : Option (List Res) :=
  (Pa.window op).map (fun f => unsort (sortIdx times) (windowsSorted f w (takeIdx c (sortIdx times))))

end Builtin
