import MlodaVerif.Model.Builtin
/-! # Builtin, part 2: missing-value imputation on Pandas / PyArrow / PythonDict

Anchors: `mloda_plugins/feature_group/experimental/data_quality/missing_value/{pandas,pyarrow,python_dict}.py`.

* `dictImpute`, `dictGrouped` are modelled from mloda's own Python (loops, `statistics.mean/median`,
  `Counter.most_common(1)` = first-seen maximal count).
* `arrowImpute`, `arrowGrouped` follow mloda's PyArrow code statement by statement (its Python loops for ffill / bfill /
  grouped rows) with the library calls it makes as **assumed conventions**: `pc.mean`, `pc.quantile(0.5)` (linear),
  `pc.value_counts` lists distinct values *including null* in first-seen order, `pc.fill_null(col, v)` casts `v` to the
  column type (a fractional fill value on an integer column is truncated towards zero; filling with null is a no-op).
* `pandasImpute`, `pandasGrouped` model the pandas calls the group makes (`fillna`, `mean`, `median`, `mode().iloc[0]` =
  *smallest* most frequent value, `ffill`, `bfill`, `groupby(...).transform`) — **assumed conventions**, stated as
  positional specifications (`pdFfill`: entry i is the last valid entry at or before i).
The assumptions are validated only by the differential run of `harness/corr/c19.py`.
Group keys are passed as one `Nat` per row (the harness numbers the key tuples by first occurrence); null keys are
not modelled. -/

namespace Builtin

instance instDecEqExcept {ε β : Type} [DecidableEq ε] [DecidableEq β] : DecidableEq (Except ε β)
  | .ok a, .ok b => if h : a = b then isTrue (by rw [h]) else isFalse (by intro e; cases e; exact h rfl)
  | .error a, .error b => if h : a = b then isTrue (by rw [h]) else isFalse (by intro e; cases e; exact h rfl)
  | .ok _, .error _ => isFalse (by intro e; cases e)
  | .error _, .ok _ => isFalse (by intro e; cases e)

inductive Method where
  | mean | median | mode | constant | ffill | bfill
  deriving DecidableEq, Repr

def Method.ofString? : String → Option Method
  | "mean" => some .mean
  | "median" => some .median
  | "mode" => some .mode
  | "constant" => some .constant
  | "ffill" => some .ffill
  | "bfill" => some .bfill
  | _ => none

/-- what the value type must provide: order (pandas mode tie-break), the numeric statistics, integer truncation -/
structure Ops (α : Type) where
  le : α → α → Bool
  mean : List α → Option α
  median : List α → Option α
  /-- `pc.quantile(q=0.5)` -/
  quant : List α → Option α
  /-- cast of a fill value to an integer column (pyarrow) -/
  trunc : α → α
  /-- `statistics.mean` / `statistics.median` accept the values (numbers); on strings they raise TypeError -/
  numeric : Bool

def truncR (r : Rat) : Rat := ((Int.tdiv r.num r.den : Int) : Rat)

def ratOps : Ops Rat := { le := rle, mean := meanR, median := medianR, quant := quantileHalfR, trunc := truncR, numeric := true }
/-- strings: mean / median are never requested on them by the harness (pandas and pyarrow raise) -/
def strOps : Ops String :=
  { le := fun a b => decide (a ≤ b), mean := fun _ => none, median := fun _ => none, quant := fun _ => none, trunc := id, numeric := false }

variable {α : Type}

/-- replace nulls by `v` (`v = none`: nothing happens) — `fillna(v)` / `pc.fill_null(col, v)` / the list comprehension -/
def fillWith (v : Option α) : List (Option α) → List (Option α)
  | [] => []
  | some a :: c => some a :: fillWith v c
  | none :: c => v :: fillWith v c

/-! ### forward / backward fill -/

/-- the Python loop of `_impute_ffill` / `_perform_fill_direction("forward")`, `last` = `last_valid` -/
def ffillLoop (last : Option α) : List (Option α) → List (Option α)
  | [] => []
  | some a :: c => some a :: ffillLoop (some a) c
  | none :: c => last :: ffillLoop last c

/-- the backward loop (`for i in range(len-1, -1, -1)`): returns the filled list and the final `next_valid` -/
def bfillLoop : List (Option α) → List (Option α) × Option α
  | [] => ([], none)
  | some a :: c => (some a :: (bfillLoop c).1, some a)
  | none :: c => ((bfillLoop c).2 :: (bfillLoop c).1, (bfillLoop c).2)

/-- the last valid entry of a list -/
def lastValid : List (Option α) → Option α
  | [] => none
  | x :: l => (lastValid l).or x

/-- the first valid entry of a list -/
def firstValid : List (Option α) → Option α
  | [] => none
  | x :: l => x.or (firstValid l)

/-- pandas `Series.ffill()`: entry i becomes the last valid entry among positions 0..i -/
def pdFfill (c : List (Option α)) : List (Option α) :=
  (List.range c.length).map (fun i => lastValid (c.take (i + 1)))

/-- pandas `Series.bfill()`: entry i becomes the first valid entry among positions i.. -/
def pdBfill (c : List (Option α)) : List (Option α) :=
  (List.range c.length).map (fun i => firstValid (c.drop i))

/-! ### modes -/

def isMaxCount {β : Type} [DecidableEq β] (l : List β) (x : β) : Bool := l.all (fun y => decide (l.count y ≤ l.count x))

/-- all occurrences of the most frequent values, in order -/
def modes {β : Type} [DecidableEq β] (l : List β) : List β := l.filter (isMaxCount l)

/-- first-seen most frequent value: `Counter(l).most_common(1)[0][0]`; first maximal row of `pc.value_counts` -/
def firstSeenMode {β : Type} [DecidableEq β] (l : List β) : Option β := l.find? (isMaxCount l)

def leastOf {β : Type} (le : β → β → Bool) : List β → Option β
  | [] => none
  | a :: as => some (as.foldl (fun m x => if le x m then x else m) a)

/-- smallest most frequent value: pandas `Series.mode().iloc[0]` (mode() returns the modes sorted) -/
def smallestMode {β : Type} [DecidableEq β] (le : β → β → Bool) (l : List β) : Option β := leastOf le (modes l)

/-! ### single column, no grouping -/

variable [DecidableEq α]

/-- `PandasMissingValueFeatureGroup._perform_imputation`, one source column, no group_by -/
def pandasImpute (o : Ops α) (m : Method) (const : Option α) (c : List (Option α)) : List (Option α) :=
  if !hasNull c then c else
  match m with
  | .mean => fillWith (o.mean (valid c)) c
  | .median => fillWith (o.median (valid c)) c
  | .mode => fillWith (smallestMode o.le (valid c)) c
  | .constant => fillWith const c
  | .ffill => pdFfill c
  | .bfill => pdBfill c

/-- `PyArrowMissingValueFeatureGroup._perform_imputation`; `isInt`: the source column has an integer Arrow type -/
def arrowImpute (o : Ops α) (isInt : Bool) (m : Method) (const : Option α) (c : List (Option α)) : List (Option α) :=
  if nullCount c = 0 then c else
  let cast := fun (v : Option α) => if isInt then v.map o.trunc else v
  match m with
  | .mean => fillWith (cast (o.mean (valid c))) c
  | .median => fillWith (cast (o.quant (valid c))) c
  | .mode =>
    -- value_counts over the column *with* its nulls; first row with the maximal count; its value may be null
    match firstSeenMode c with
    | some mv => fillWith mv c
    | none => c
  | .constant => fillWith (cast const) c
  | .ffill => ffillLoop none c
  | .bfill => (bfillLoop c).1

/-- `PythonDictMissingValueFeatureGroup._perform_imputation` -/
def dictImpute (o : Ops α) (m : Method) (const : Option α) (c : List (Option α)) : List (Option α) :=
  if !hasNull c then c else
  match m with
  | .mean => if (valid c).isEmpty then c else fillWith (o.mean (valid c)) c
  | .median => if (valid c).isEmpty then c else fillWith (o.median (valid c)) c
  | .mode => if (valid c).isEmpty then c else fillWith (firstSeenMode (valid c)) c
  | .constant => fillWith const c
  | .ffill => ffillLoop none c
  | .bfill => (bfillLoop c).1

/-- the guard of the shared base class: constant imputation without a constant raises -/
def constantGuard (m : Method) (const : Option α) : Except String Unit :=
  if m = .constant ∧ const.isNone then .error "Constant value must be provided" else .ok ()

/-! ### grouped variants -/

/-- the entries of `c` whose key is `k`, in row order -/
def groupCol : List Nat → List (Option α) → Nat → List (Option α)
  | k' :: ks, x :: xs, k => if k' = k then x :: groupCol ks xs k else groupCol ks xs k
  | _, _, _ => []

/-- position of row `i` inside its group -/
def localPos (keys : List Nat) (i k : Nat) : Nat := ((keys.take i).filter (· == k)).length

/-- apply a column transformer inside every group and scatter the results back to the rows -/
def perGroup (keys : List Nat) (c : List (Option α)) (f : List (Option α) → List (Option α)) : List (Option α) :=
  (List.range c.length).map (fun i =>
    match keys[i]? with
    | some k => ((f (groupCol keys c k))[localPos keys i k]?).join
    | none => none)

/-- `PandasMissingValueFeatureGroup._perform_grouped_imputation` (after the shared "no nulls → unchanged" exit) -/
def pandasGrouped (o : Ops α) (m : Method) (const : Option α) (keys : List Nat) (c : List (Option α)) : List (Option α) :=
  if !hasNull c then c else
  match m with
  | .constant => fillWith const c
  | .mean => fillWith (o.mean (valid c)) (perGroup keys c (fun g => fillWith (o.mean (valid g)) g))
  | .median => fillWith (o.median (valid c)) (perGroup keys c (fun g => fillWith (o.median (valid g)) g))
  | .mode => perGroup keys c (fun g => fillWith (smallestMode o.le (valid g)) g)   -- no fall-back to the overall mode
  | .ffill => perGroup keys c pdFfill
  | .bfill => perGroup keys c pdBfill

/-- `PythonDictMissingValueFeatureGroup._perform_grouped_imputation`.  The code computes `statistics.mean` and
`statistics.median` of all non-null values *before* looking at the method ("overall statistics for fallback"), so on a
non-numeric column with at least one value every method except `constant` raises TypeError (modelled as is). -/
def dictGrouped (o : Ops α) (m : Method) (const : Option α) (keys : List Nat) (c : List (Option α)) :
    Except String (List (Option α)) :=
  if !hasNull c then .ok c else
  if m = .constant then .ok (fillWith const c) else
  if !o.numeric && !(valid c).isEmpty then .error "TypeError: statistics.mean of non-numeric values" else
  .ok <| match m with
  | .constant => fillWith const c
  | .mean => perGroup keys c (fun g => fillWith (if (valid g).isEmpty then o.mean (valid c) else o.mean (valid g)) g)
  | .median => perGroup keys c (fun g => fillWith (if (valid g).isEmpty then o.median (valid c) else o.median (valid g)) g)
  | .mode => perGroup keys c (fun g => fillWith (if (valid g).isEmpty then firstSeenMode (valid c) else firstSeenMode (valid g)) g)
  | .ffill => perGroup keys c (ffillLoop none)
  | .bfill => perGroup keys c (fun g => (bfillLoop g).1)

/-- group-local indices of the valid entries (`pc.indices_nonzero(pc.is_valid(group_data))`) -/
def validIdx (g : List (Option α)) : List Nat := (List.range g.length).filter (fun j => (g[j]?).join.isSome)

/-- one row of the loop in `PyArrowMissingValueFeatureGroup._perform_grouped_imputation`.  As in the code, the group-local
indices of `group_data` are compared with the *global* row index `i` (ffill: `idx < i`, bfill: `idx > i`). -/
def arrowGroupedRow (o : Ops α) (m : Method) (keys : List Nat) (c : List (Option α)) (overall : Option α) (i : Nat) : Option α :=
  match c[i]? with
  | none => none
  | some (some a) => some a
  | some none =>
    match keys[i]? with
    | none => none
    | some k =>
      let g := groupCol keys c k
      let gv : Option α := match m with
        | .mean => o.mean (valid g)
        | .median => o.quant (valid g)
        | .mode => (firstSeenMode g).join
        | .ffill => (((validIdx g).filter (fun j => decide (j < i))).getLast?).bind (fun j => (g[j]?).join)
        | .bfill => (((validIdx g).filter (fun j => decide (j > i))).head?).bind (fun j => (g[j]?).join)
        | .constant => none
      gv.or overall

/-- the constant branch is `pc.fill_null` on the column (cast of the constant to an integer column type); the other
branches build a Python list that `pa.array` re-types, so nothing is truncated there -/
def arrowGrouped (o : Ops α) (isInt : Bool) (m : Method) (const : Option α) (keys : List Nat) (c : List (Option α)) : List (Option α) :=
  if nullCount c = 0 then c else
  match m with
  | .constant => fillWith (if isInt then const.map o.trunc else const) c
  | _ =>
    let overall : Option α := match m with
      | .mean => o.mean (valid c)
      | .median => o.quant (valid c)
      | .mode => (firstSeenMode c).join
      | _ => none
    (List.range c.length).map (arrowGroupedRow o m keys c overall)

end Builtin
