import MlodaVerif.Model.PyRtDict
import MlodaVerif.Model.PyVal
/-! # Run-time library, part 4: `PyVal`-valued containers and exceptions that carry the state at the raise

Used by `Gen/OptionsGen.lean` (harness/extractors/pytrans_options.py).  Core Lean only.

* `withSt` / `dropSt`: a translated function of a module with `exc_state` returns `Except (PyExc × State) …` - the second
  component of an error is the function's mutable state (self, mutated parameters) AT THE RAISE.  A run-time primitive (which has
  no state of its own) is lifted with `withSt <current state>`.
* `StrSet`: a Python `set` / `frozenset` of `str` as the duplicate-free list of its elements.
* `PySet`: a Python `set` of arbitrary hashable values (`List PyVal`, pairwise `!=`): `add` / `update` raise TypeError for an
  unhashable element / a value that cannot be iterated.
* `PyVal.iter`: what `for x in v` yields for an option value. -/
namespace PyRt

/-- the state at the raise: a primitive without state of its own fails in the state its caller is in -/
def withSt {σ α : Type} (s : σ) (x : Except PyExc α) : Except (PyExc × σ) α :=
  match x with
  | .ok a => .ok a
  | .error e => .error (e, s)

/-- an exception leaves a scope that owns none of the state it carries -/
def dropSt {σ α : Type} (x : Except (PyExc × σ) α) : Except PyExc α :=
  match x with
  | .ok a => .ok a
  | .error e => .error e.1

/-- `x in None` / `for y in None`: TypeError -/
def Opt.derefIn {α : Type} : Option α → Except PyExc α
  | some a => .ok a
  | none => .error (.typeError "argument of type 'NoneType' is not iterable")

abbrev StrSet := List String

/-- `a & b` -/
def StrSet.inter (a b : StrSet) : StrSet := a.filter (fun k => b.contains k)

/-- `a - b` -/
def StrSet.diff (a b : StrSet) : StrSet := a.filter (fun k => !(b.contains k))

abbrev PySet := List PyVal

/-- `s.add(x)`: TypeError for an unhashable `x`; an element `==` to `x` keeps its place -/
def PySet.add (s : PySet) (x : PyVal) : Except PyExc PySet :=
  if !(PyVal.hashable x) then .error (.typeError "unhashable type")
  else .ok (if s.any (fun y => PyVal.pyEq x y) then s else s ++ [x])

/-- `str in s` for a set of arbitrary hashable values -/
def PySet.hasStr (s : PySet) (k : String) : Bool := s.any (fun y => PyVal.pyEq (.str k) y)

end PyRt

/-- what `for x in v` yields: the characters of a `str`, the keys of a dict, the elements of a tuple / list / set / frozenset;
TypeError for anything else -/
def PyVal.iter : PyVal → Except PyRt.PyExc (List PyVal)
  | .str s => .ok (s.toList.map (fun c => .str (String.singleton c)))
  | .dict d => .ok (d.map (fun kv => .str kv.1))
  | .tuple l => .ok l
  | .list l => .ok l
  | .set l => .ok l
  | .frozenset l => .ok l
  | _ => .error (.typeError "object is not iterable")

namespace PyRt

/-- `s.update(v)`: every element `v` yields is added (TypeError: `v` not iterable / an unhashable element) -/
def PySet.update (s : PySet) (v : PyVal) : Except PyExc PySet :=
  match PyVal.iter v with
  | .error e => .error e
  | .ok xs => xs.foldlM PySet.add s

end PyRt

/-- `d[k]` -/
def PyDict.getItemE (d : PyDict) (k : String) : Except PyRt.PyExc PyVal :=
  match d.get? k with
  | some v => .ok v
  | none => .error .keyError

/-- `del d[k]` (KeyError when `k` is not a key) -/
def PyDict.delItem (d : PyDict) (k : String) : Except PyRt.PyExc PyDict :=
  if PyDict.has d k then .ok (PyDict.del d k) else .error .keyError

/-- `v in d` for a hashable value `v` (the elements of a set are hashable): only a `str` can equal a key -/
def PyDict.hasVal (d : PyDict) : PyVal → Bool
  | .str k => PyDict.has d k
  | _ => false

/-- `del d[v]` -/
def PyDict.delVal (d : PyDict) : PyVal → Except PyRt.PyExc PyDict
  | .str k => PyDict.delItem d k
  | _ => .error .keyError
