import MlodaVerif.Gen.ChainConsts
/-! # C16 - model of mloda's feature-chain grammar

Anchors: `FeatureChainParser` (`parse_feature_name`, `_validate_options_against_property_mapping`,
`match_configuration_feature_chain_parser`), `FeatureChainParserMixin` (`input_features`, `_validate_in_feature_count`,
`match_feature_group_criteria`), `Options.get / get_in_features`, the `input_features` overrides of the time-window and
geo-distance groups, the per-group parameter extraction (`_extract_aggregation_type`, `get_imputation_method`,
`parse_time_window_prefix`, `get_distance_type`, …) and the `~` helpers of `FeatureGroup`.

Names are `List Char`.  The suffix patterns (`PREFIX_PATTERN`) come from `Gen.Chain` as token lists; `matchPattern`
is the backtracking semantics of `re.match(".*__<toks>$", name)` (greedy, right-most `__` first, longest word first).
Python exceptions are `Except Err`; `ValueError` / `TypeError` / `AttributeError` are kept apart because
`match_feature_group_criteria` swallows only `ValueError`.

Assumed about the alphabet (stated in the harness): printable ASCII without newline (`.` and `$` subtleties of `re`),
`\w` = ASCII letters, digits, `_`; `\d` = ASCII digits. -/
open Gen.Chain

namespace Chain

abbrev Str := List Char

inductive Err where
  | value (tag : String)      -- ValueError
  | type (tag : String)       -- TypeError
  | attr (tag : String)       -- AttributeError
  | unmodelled (tag : String) -- outside the modelled fragment (the harness skips the comparison)
  deriving DecidableEq, Repr, Inhabited

/-! ## 1. Python string primitives -/

def isWordChar (c : Char) : Bool := c.isAlphanum || c == '_'

/-- the `__` written literally inside every `PREFIX_PATTERN` (`.*__…`), independent of `CHAIN_SEPARATOR` -/
def sep2 : Str := ['_', '_']

/-- `s.rsplit(sep, 1)` : `some (before, after)` of the right-most occurrence, `none` when `sep` does not occur -/
def rsplitOnce (sep : Str) : Str → Option (Str × Str)
  | [] => none
  | c :: cs =>
    match rsplitOnce sep cs with
    | some (a, b) => some (c :: a, b)
    | none => if sep.isPrefixOf (c :: cs) then some ([], (c :: cs).drop sep.length) else none

/-- `s.split(c)` for a one-character separator -/
def splitOn (sep : Char) : Str → List Str
  | [] => [[]]
  | c :: cs =>
    if c == sep then [] :: splitOn sep cs
    else match splitOn sep cs with
      | [] => [[c]]
      | p :: ps => (c :: p) :: ps

/-- `s.split(c, 1)` when it has two parts -/
def splitOnce (sep : Char) : Str → Option (Str × Str)
  | [] => none
  | c :: cs =>
    if c == sep then some ([], cs)
    else match splitOnce sep cs with
      | some (a, b) => some (c :: a, b)
      | none => none

/-- `p in s` -/
def hasInfix (p : Str) : Str → Bool
  | [] => p.isEmpty
  | c :: cs => p.isPrefixOf (c :: cs) || hasInfix p cs

/-- `s.strip(chars)` -/
def stripChars (cs : List Char) (s : Str) : Str :=
  ((s.dropWhile (cs.contains ·)).reverse.dropWhile (cs.contains ·)).reverse

def pyWhitespace : List Char := [' ', '\t', '\n', '\r', Char.ofNat 11, Char.ofNat 12]

/-- `s.replace(old, "")` (`old` non-empty), left to right, non-overlapping; fuel = length of `s` -/
def removeAllAux (old : Str) : Nat → Str → Str
  | 0, s => s
  | _, [] => []
  | f + 1, c :: cs =>
    if old.isPrefixOf (c :: cs) && !old.isEmpty then removeAllAux old f ((c :: cs).drop old.length)
    else c :: removeAllAux old f cs
def removeAll (old s : Str) : Str := removeAllAux old s.length s

def strLe : Str → Str → Bool
  | [], _ => true
  | _ :: _, [] => false
  | a :: as, b :: bs => a.toNat < b.toNat || (a == b && strLe as bs)

def isAllDigits (s : Str) : Bool := !s.isEmpty && s.all Char.isDigit

/-! ## 2. Suffix patterns: `re.match(r".*__<toks>$", name)` -/

abbrev Caps := List (Option Str)

/-- greedy quantifier with backtracking: try to give the token `k, k-1, …, 1` characters -/
def tryLens (f : Str → Option Caps) (cap : Bool) (s : Str) : Nat → Option Caps
  | 0 => none
  | k + 1 =>
    match f (s.drop (k + 1)) with
    | some caps => some (if cap then some (s.take (k + 1)) :: caps else caps)
    | none => tryLens f cap s k

/-- alternation `(a|b|c)`: first alternative (in order) after which the rest matches -/
def tryAlts (f : Str → Option Caps) (cap : Bool) (s : Str) : List Str → Option Caps
  | [] => none
  | o :: os =>
    if o.isPrefixOf s then
      match f (s.drop o.length) with
      | some caps => some (if cap then some o :: caps else caps)
      | none => tryAlts f cap s os
    else tryAlts f cap s os

def spanLen (p : Char → Bool) (s : Str) : Nat := (s.takeWhile p).length

/-- the tokens after `.*__`, anchored at the end (`$`); result = the captured groups in order (`none` = group did not
participate) -/
def matchToks : List Tk → Str → Option Caps
  | [], s => if s.isEmpty then some [] else none
  | ⟨.lit l, cap⟩ :: r, s =>
    if l.isPrefixOf s then (matchToks r (s.drop l.length)).map (fun c => if cap then some l :: c else c) else none
  | ⟨.word, cap⟩ :: r, s => tryLens (matchToks r) cap s (spanLen isWordChar s)
  | ⟨.digits, cap⟩ :: r, s => tryLens (matchToks r) cap s (spanLen Char.isDigit s)
  | ⟨.alt opts, cap⟩ :: r, s => tryAlts (matchToks r) cap s opts
  | ⟨.optTilde, cap⟩ :: r, s =>
    -- `(~\d+)?` : greedy - first with the group, then without
    let without := (matchToks r s).map (fun c => if cap then none :: c else c)
    match s with
    | '~' :: s' =>
      match tryLens (matchToks r) true s' (spanLen Char.isDigit s') with
      | some (some d :: caps) => some (if cap then some ('~' :: d) :: caps else caps)
      | _ => without
    | _ => without

/-- `.*__` is greedy: the right-most `__` after which the tokens match wins -/
def matchPattern (toks : List Tk) : Str → Option Caps
  | [] => none
  | c :: cs =>
    match matchPattern toks cs with
    | some r => some r
    | none => if sep2.isPrefixOf (c :: cs) then matchToks toks ((c :: cs).drop 2) else none

def hasGroups (toks : List Tk) : Bool := toks.any (·.cap)

/-! ## 3. `FeatureChainParser.parse_feature_name` -/

/-- `(operation_config, source_feature)`; `ok none` = `(None, None)`; `error` = "Matches the pattern, but has no source
feature".  `sep` is the `pattern` argument (defaults to `CHAIN_SEPARATOR`), `pats` the `prefix_patterns`. -/
def parseFeatureName (sep : Str) (pats : List (List Tk)) (name : Str) : Except Err (Option (Option Str × Str)) :=
  let parts := rsplitOnce sep name
  let source : Str := match parts with | some (a, _) => a | none => []
  let opPart : Str := match parts with | some (_, b) => b | none => name
  let rec go : List (List Tk) → Except Err (Option (Option Str × Str))
    | [] => .ok none
    | p :: ps =>
      match matchPattern p name with
      | none => go ps
      | some caps =>
        if parts.isNone || source.isEmpty then .error (.value "no-source")
        else if hasGroups p then .ok (some ((caps.head?).join, source))
        else .ok (some (some ((splitOn '_' opPart).headD []), source))
  go pats

/-! ## 4. Option values, `Options.get`, `Options.get_in_features` -/

/-- the Python values that occur in `Options` and in parsed JSON; sets / frozensets / dicts in iteration order -/
inductive PV where
  | none | bool (b : Bool) | int (i : Int) | float (repr : Str) | str (s : Str)
  | list (l : List PV) | tuple (l : List PV) | set (l : List PV) | fset (l : List PV)
  | dict (kvs : List (Str × PV))
  | feat (name : PV) (group : List (Str × PV)) (ctx : List (Str × PV))   -- a `Feature` object with its `Options`
  deriving Repr, Inhabited

mutual
/-- Python `==` on these values (sets and dicts are compared in the canonical order the harness sends) -/
def PV.eqv : PV → PV → Bool
  | .none, .none => true
  | .bool a, .bool b => a == b
  | .int a, .int b => a == b
  | .float a, .float b => a == b
  | .str a, .str b => a == b
  | .list a, .list b => eqvL a b
  | .tuple a, .tuple b => eqvL a b
  | .set a, .set b => eqvL a b
  | .fset a, .fset b => eqvL a b
  | .dict a, .dict b => eqvKV a b
  | .feat n g c, .feat n' g' c' => n.eqv n' && eqvKV g g' && eqvKV c c'
  | _, _ => false
def eqvL : List PV → List PV → Bool
  | [], [] => true
  | x :: xs, y :: ys => x.eqv y && eqvL xs ys
  | _, _ => false
def eqvKV : List (Str × PV) → List (Str × PV) → Bool
  | [], [] => true
  | (k, x) :: xs, (k', y) :: ys => k == k' && x.eqv y && eqvKV xs ys
  | _, _ => false
end

def PV.isNone : PV → Bool | .none => true | _ => false

/-- Python truthiness -/
def PV.truthy : PV → Bool
  | .none => false
  | .bool b => b
  | .int i => i != 0
  | .float r => !(r == "0.0".toList || r == "-0.0".toList)
  | .str s => !s.isEmpty
  | .list l | .tuple l | .set l | .fset l => !l.isEmpty
  | .dict kvs => !kvs.isEmpty
  | .feat .. => true

mutual
def PV.hashable : PV → Bool
  | .list _ | .set _ | .dict _ => false
  | .tuple l => hashableL l
  | _ => true
def hashableL : List PV → Bool
  | [] => true
  | x :: xs => x.hashable && hashableL xs
end

/-- set-building: keep the first of equal elements -/
def dedupe : List PV → List PV
  | [] => []
  | x :: xs => let r := dedupe xs; if r.any (x.eqv ·) then r else x :: r

def lookup (k : Str) : List (Str × PV) → Option PV
  | [] => none
  | (k', v) :: r => if k == k' then some v else lookup k r

structure Opts where
  group : List (Str × PV)
  ctx : List (Str × PV)
  deriving Repr, Inhabited

def emptyOpts : Opts := ⟨[], []⟩

/-- `Options.get` : group first, then context, `None` when absent -/
def Opts.get (o : Opts) (k : Str) : PV :=
  match lookup k o.group with
  | some v => v
  | none => (lookup k o.ctx).getD .none

def mkFeat (name : Str) : PV := .feat (.str name) [] []

def toFeat : PV → Except Err PV
  | .feat n g c => .ok (.feat n g c)
  | .str s => .ok (mkFeat s)
  | _ => .error (.type "cannot-convert-to-feature")

/-- `Options.get_in_features` (a frozenset: duplicates collapse; order is the harness' canonical one) -/
def getInFeatures (o : Opts) : Except Err (List PV) :=
  let val := o.get inFeaturesKey
  if !val.truthy then .error (.value "no-in-features") else
  match val with
  | .list l | .set l | .fset l => (l.mapM toFeat).map dedupe
  | .str s =>
    if s.contains ',' then .ok (dedupe ((splitOn ',' s).map (fun n => mkFeat (stripChars pyWhitespace n))))
    else .ok [mkFeat s]
  | .feat n g c => .ok [.feat n g c]
  | _ => .error (.type "unsupported-in-features-type")

/-! ## 5. PROPERTY_MAPPING validation, `match_configuration_feature_chain_parser`, `match_feature_group_criteria` -/

/-- `str(x)` / `repr(x)` for the scalars the model formats; `none` = outside the modelled fragment -/
def pyStrScalar : PV → Option Str
  | .none => some "None".toList
  | .bool true => some "True".toList
  | .bool false => some "False".toList
  | .int i => some (if i < 0 then '-' :: Nat.toDigits 10 i.natAbs else Nat.toDigits 10 i.natAbs)
  | .float r => some r
  | _ => none

def pyReprElem : PV → Option Str
  | .str s => if s.all (fun c => c != '\'' && c != '\\' && 32 ≤ c.toNat && c.toNat < 127) then some ('\'' :: s ++ ['\'']) else none
  | v => pyStrScalar v

/-- `str(tuple)` for tuples of scalars / plain strings -/
def pyReprTuple (l : List PV) : Option Str :=
  (l.mapM pyReprElem).map fun rs =>
    '(' :: (", ".toList.intercalate rs) ++ (if rs.length == 1 then [','] else []) ++ [')']

def vocabOf (g : Group) (nm : String) : List Str := ((g.vocab.find? (·.1 == nm.toList)).map (·.2)).getD []

/-- the `validation_function` lambdas of the modelled groups, by `<Class>.<key>`; `none` = not modelled -/
def validatorFn (id : Str) (supportedOps : List Str) : Option (PV → Bool) :=
  if id == "TimeWindowFeatureGroup.window_size".toList then
    some fun
      | .int i => i > 0
      | .bool b => b
      | .str s => isAllDigits s && Nat.ofDigitChars 10 s 0 > 0
      | _ => false
  else if id == "GeoDistanceFeatureGroup.in_features".toList then
    some fun
      | .str _ => true
      | .fset l => l.length == 2
      | _ => false
  else if id == "TextCleaningFeatureGroup.cleaning_operations".toList then
    some fun
      | .str s =>
        s.head? == some '(' && s.getLast? == some ')' &&
          (((splitOn ',' (stripChars ['(', ')'] s)).map (stripChars ['\'', '"', ' ', ','])).filter (!·.isEmpty)).all
            (supportedOps.contains ·)
      | _ => false
  else none

/-- one element of the found value: a `Feature` becomes its name, a tuple its `str()` -/
def convElemM (e : PV) : Except Err PV :=
  match e with
  | .feat n _ _ => pure n
  | .tuple l => match pyReprTuple l with
    | some s => pure (PV.str s)
    | none => throw (Err.unmodelled "tuple-repr")
  | v => pure v

/-- `_validate_property_value` over the converted elements: validation function if there is one, else membership -/
def strictOk (p : PropSpec) (vfn : Option (PV → Bool)) (conv : List PV) : Bool :=
  if !p.strict then true
  else match vfn with
    | some f => conv.all f
    | none => conv.all fun v => match v with | .str s => p.values.contains s | _ => false

/-- `_process_found_property_value` + `_validate_property_value` for one found (non-`None`) value.
first component `true` = validated, `false` = `ValueError` (the caller turns it into "no match"). -/
def elemsOfM (found : PV) : Except Err (List PV) :=
  match found with
  | .fset l => .ok l
  | v => if v.hashable then .ok [v] else .error (.type "unhashable-option-value")   -- `frozenset([value])`

def processFound (p : PropSpec) (vfn : Option (PV → Bool)) (found : PV) : Except Err (Bool × List PV) := do
  let elems ← elemsOfM found
  let conv ← elems.mapM convElemM
  pure (strictOk p vfn conv, dedupe conv)

/-- `_validate_options_against_property_mapping`; `ok none` = a `ValueError` was raised inside -/
def validateProps (vf : Str → Option (PV → Bool)) : List PropSpec → Opts → Except Err (Option Bool)
  | [], _ => .ok (some true)
  | p :: ps, o => do
    let here ← (match o.get p.key with
      | .none => pure (some p.hasDefault)
      | v => do
        if !p.validator.isEmpty && (vf p.validator).isNone then throw (Err.unmodelled "validator")
        let (ok, coll) ← processFound p (vf p.validator) v
        pure (if ok then some (!coll.isEmpty || p.hasDefault) else none))
    match here with
    | none => pure none
    | some h =>
      let rest ← validateProps vf ps o
      pure (rest.map (h && ·))

def supportedOpsOf (g : Group) : List Str := vocabOf g "SUPPORTED_OPERATIONS"

/-- `FeatureChainParser.match_configuration_feature_chain_parser` with both arguments given.
`ok none` = `ValueError` raised. -/
def matchConfiguration (g : Group) (name : Str) (o : Opts) : Except Err (Option Bool) :=
  match parseFeatureName chainSep [g.toks] name with
  | .error (.value _) => .ok none
  | .error e => .error e
  | .ok (some (some _, _)) => .ok (some true)
  | .ok _ => validateProps (fun id => validatorFn id (supportedOpsOf g)) g.props o

def mixinName : Str := "FeatureChainParserMixin".toList

/-- which groups use only code that this file models -/
def modelled (g : Group) : Bool :=
  g.matchImpl == mixinName && g.hookImpl == mixinName &&
  (g.inputImpl == mixinName || g.inputImpl == "TimeWindowFeatureGroup".toList || g.inputImpl == "GeoDistanceFeatureGroup".toList) &&
  g.props.all (fun p => p.validator.isEmpty || (validatorFn p.validator []).isSome) &&
  g.inSep.length == 1

/-- `FeatureChainParserMixin.match_feature_group_criteria` (default hook `_validate_string_match = True`) -/
def matchCriteria (g : Group) (name : Str) (o : Opts) : Except Err Bool :=
  if !modelled g then .error (.unmodelled "group") else
  match matchConfiguration g name o with
  | .error e => .error e
  | .ok none => .ok false
  | .ok (some r) => .ok r

/-! ## 6. `input_features` -/

structure Inputs where
  main : List PV      -- the chained inputs (Feature objects)
  extras : List PV    -- further inputs a group adds (the reference-time column of time windows)
  deriving Repr, Inhabited

def validateCount (g : Group) (n : Nat) : Except Err Unit :=
  if n < g.minIn then .error (.value "too-few-in-features")
  else match g.maxIn with
    | some m => if n > m then .error (.value "too-many-in-features") else .ok ()
    | none => .ok ()

/-- `FeatureChainParserMixin.input_features` -/
def inputFeaturesMixin (g : Group) (o : Opts) (name : Str) : Except Err Inputs := do
  let sepc ← match g.inSep with | [c] => pure c | _ => throw (Err.unmodelled "multi-char-separator")
  let r ← parseFeatureName chainSep [g.toks] name
  match r with
  | some (some _, src) =>
    if !src.isEmpty then
      let parts := splitOn sepc src
      validateCount g parts.length
      return ⟨dedupe (parts.map mkFeat), []⟩
    else
      let fs ← getInFeatures o
      validateCount g fs.length
      return ⟨fs, []⟩
  | _ =>
    let fs ← getInFeatures o
    validateCount g fs.length
    return ⟨fs, []⟩

def referenceTimeKey : Str := "reference_time".toList

/-- `TimeWindowFeatureGroup.get_reference_time_column` -/
def referenceTimeColumn (o : Opts) : Except Err Str :=
  let v := o.get referenceTimeKey
  if v.truthy then match v with
    | .str s => .ok s
    | _ => .error (.value "reference-time-not-str")
  else .ok referenceTimeKey

/-- `TimeWindowFeatureGroup.input_features` -/
def inputFeaturesTimeWindow (g : Group) (o : Opts) (name : Str) : Except Err Inputs := do
  let r ← parseFeatureName chainSep [g.toks] name
  match r with
  | some (_, src) =>
    let t ← referenceTimeColumn o
    return ⟨[mkFeat src], if t == src then [] else [mkFeat t]⟩
  | none =>
    let fs ← getInFeatures o
    if fs.length != 1 then throw (Err.value "expected-one-source")
    let t ← referenceTimeColumn o
    return ⟨fs, if fs.any ((mkFeat t).eqv ·) then [] else [mkFeat t]⟩

/-- `GeoDistanceFeatureGroup.input_features` (`rsplit("__", 1)` and `split("&", 1)` are literals there) -/
def inputFeaturesGeo (_g : Group) (o : Opts) (name : Str) : Except Err Inputs :=
  let viaName : Option Inputs :=
    match rsplitOnce sep2 name with
    | some (src, _) =>
      match splitOnce '&' src with
      | some (a, b) => some ⟨dedupe [mkFeat a, mkFeat b], []⟩
      | none => none
    | none => none
  match viaName with
  | some i => .ok i
  | none => do
    let fs ← getInFeatures o
    if fs.length != 2 then throw (Err.value "expected-two-sources")
    return ⟨fs, []⟩

def inputFeatures (g : Group) (o : Opts) (name : Str) : Except Err Inputs :=
  if g.inputImpl == mixinName then inputFeaturesMixin g o name
  else if g.inputImpl == "TimeWindowFeatureGroup".toList then inputFeaturesTimeWindow g o name
  else if g.inputImpl == "GeoDistanceFeatureGroup".toList then inputFeaturesGeo g o name
  else .error (.unmodelled "input_features")

/-- `FeatureChainParserMixin._extract_source_features` (used by every `calculate_feature`) -/
def extractSourceFeatures (g : Group) (o : Opts) (name : Str) : Except Err (List PV) := do
  let sepc ← match g.inSep with | [c] => pure c | _ => throw (Err.unmodelled "multi-char-separator")
  let r ← parseFeatureName chainSep [g.toks] name
  match r with
  | some (some _, src) => if !src.isEmpty then return (splitOn sepc src).map PV.str else do
      let fs ← getInFeatures o
      return fs.map fun f => match f with | .feat n _ _ => n | v => v
  | _ =>
    let fs ← getInFeatures o
    return fs.map fun f => match f with | .feat n _ _ => n | v => v

/-! ## 7. Operation parameters as the groups' `calculate_feature` extracts them -/

inductive Param where
  | s (v : Str)
  | n (v : Int)
  deriving DecidableEq, Repr, Inhabited

def pyStr : PV → Option Str
  | .str s => some s
  | v => pyStrScalar v

def optStrParam (o : Opts) (key : String) (tag : String) : Except Err Param :=
  match o.get key.toList with
  | .none => .error (.value tag)
  | v => match pyStr v with
    | some s => .ok (.s s)
    | none => .error (.unmodelled "str()")

/-- `TimeWindowFeatureGroup.parse_time_window_prefix` -/
def parseTimeWindowPrefix (g : Group) (name : Str) : Except Err (Str × Nat × Str) :=
  match rsplitOnce sep2 name with
  | none => .error (.value "missing-separator")
  | some (_, suffix) =>
    match splitOn '_' suffix with
    | [f, n, u, w] =>
      if w != "window".toList then .error (.value "bad-format")
      else if !(vocabOf g "WINDOW_FUNCTIONS").contains f then .error (.value "unsupported-window-function")
      else if !(vocabOf g "TIME_UNITS").contains u then .error (.value "unsupported-time-unit")
      else if !isAllDigits n then .error (.value "invalid-window-size")   -- int() of what `\d+` or anything else left there
      else if Nat.ofDigitChars 10 n 0 == 0 then .error (.value "invalid-window-size")
      else .ok (f, Nat.ofDigitChars 10 n 0, u)
    | _ => .error (.value "bad-format")

def isChained (name : Str) : Bool := hasInfix chainSep name

/-- shared shape of `GeoDistanceFeatureGroup._extract_distance_unit` and `ScalingFeatureGroup._extract_scaler_type`:
chained name -> group(1) with the literal removed and `_` stripped, must be in the vocabulary; otherwise the option -/
def typeFromNameOrOption (g : Group) (o : Opts) (name : Str) (lit vocab key : String) : Except Err (List Param) := do
  if isChained name then
    let r ← parseFeatureName chainSep [g.toks] name
    match r with
    | some (some t, _) =>
      let t' := stripChars ['_'] (removeAll lit.toList t)
      if (vocabOf g vocab).contains t' then return [.s t'] else throw (Err.value "unsupported-type")
    | _ => throw (Err.value "invalid-name")
  else
    match o.get key.toList with
    | .none => throw (Err.value "no-type-option")
    | .str t => if (vocabOf g vocab).contains t then return [.s t] else throw (Err.value "unsupported-type")
    | v => if v.hashable then throw (Err.value "unsupported-type") else throw (Err.type "unhashable")

/-- the configuration route of `TimeWindowFeatureGroup._extract_time_window_params`: the raw option values are returned
(only a str window size is converted with `int()`) -/
def windowParamsFromOptions (o : Opts) : Except Err (List Param) :=
  match o.get "window_function".toList, o.get "window_size".toList, o.get "time_unit".toList with
  | .none, _, _ | _, .none, _ | _, _, .none => .error (.value "no-window-params")
  | f, n, u =>
    let raw : PV → Option Param := fun v => match v with | .str s => some (.s s) | .int i => some (.n i) | _ => none
    match raw f, raw u with
    | some f', some u' =>
      match n with
      | .int i => .ok [f', .n i, u']
      | .str s => if isAllDigits s then .ok [f', .n (Nat.ofDigitChars 10 s 0), u'] else .error (.unmodelled "int(str)")
      | _ => .error (.unmodelled "window-size-type")
    | _, _ => .error (.unmodelled "raw-option-type")

/-- what the group's `calculate_feature` will use as operation parameters for a feature `(name, options)` -/
def extractParams (g : Group) (o : Opts) (name : Str) : Except Err (List Param) :=
  if g.name == "AggregatedFeatureGroup".toList then do
    -- `_extract_aggregation_type`
    let r ← parseFeatureName chainSep [g.toks] name
    match r with
    | some (some t, _) => return [.s t]
    | _ => let p ← optStrParam o "aggregation_type" "no-aggregation-type"; return [p]
  else if g.name == "MissingValueFeatureGroup".toList then do
    -- `_extract_imputation_method`
    if isChained name then
      let r ← parseFeatureName chainSep [g.toks] name
      match r with
      | some (some m, _) =>
        if (vocabOf g "IMPUTATION_METHODS").contains m then return [.s m] else throw (Err.value "unsupported-imputation-method")
      | _ => throw (Err.value "invalid-missing-value-name")
    else
      match o.get "imputation_method".toList with
      | .none => throw (Err.value "no-imputation-method")
      | .str m => if (vocabOf g "IMPUTATION_METHODS").contains m then return [.s m] else throw (Err.value "unsupported-imputation-method")
      | v => if v.hashable then throw (Err.value "unsupported-imputation-method") else throw (Err.type "unhashable")
  else if g.name == "TimeWindowFeatureGroup".toList then
    -- `_extract_time_window_params`
    match parseTimeWindowPrefix g name with
    | .ok (f, n, u) => .ok [.s f, .n n, .s u]
    | .error _ => windowParamsFromOptions o
  else if g.name == "GeoDistanceFeatureGroup".toList then
    -- `_extract_distance_unit` / `get_distance_type`
    typeFromNameOrOption g o name "_distance" "DISTANCE_TYPES" "distance_type"
  else if g.name == "ScalingFeatureGroup".toList then
    -- `_extract_scaler_type` / `get_scaler_type`
    typeFromNameOrOption g o name "_scaled" "SUPPORTED_SCALERS" "scaler_type"
  else if g.name == "TextCleaningFeatureGroup".toList then
    -- `_extract_cleaning_operations` : always from the options
    let ops := o.get "cleaning_operations".toList
    let asList : PV → Except Err (List Param) := fun v =>
      match v with
      | .tuple l | .list l | .fset l | .set l =>
        l.mapM fun e => match e with | .str s => .ok (Param.s s) | _ => .error (.unmodelled "non-str-operation")
      | .str s => .ok (s.map fun c => Param.s [c])   -- iterating a str yields its characters
      | _ => .error (.unmodelled "operations-type")
    if isChained name then (if ops.truthy then asList ops else .ok [])
    else if ops.isNone then .error (.value "no-operations") else asList ops
  else if g.name == "NodeCentralityFeatureGroup".toList then do
    -- `_extract_centrality_type`
    let r ← parseFeatureName chainSep [g.toks] name
    match r with
    | some (some t, _) =>
      if (vocabOf g "CENTRALITY_TYPES").contains t then return [.s t]
      else let p ← optStrParam o "centrality_type" "no-centrality-type"; return [p]
    | _ => let p ← optStrParam o "centrality_type" "no-centrality-type"; return [p]
  else .error (.unmodelled "params")

/-! ## 8. Chains: AST, rendering, resolution by name and by options -/

structure Op where
  gid : Nat               -- index into `Gen.Chain.groups`
  params : List Param
  deriving DecidableEq, Repr, Inhabited

/-- `src names ▷ op₁ ▷ … ▷ opₖ` : a spine of operations over one source (or over several `&`-joined sources for the
first operation) -/
inductive Chain where
  | src (names : List Str)
  | step (c : Chain) (op : Op)
  deriving DecidableEq, Repr, Inhabited

def Param.render : Param → Str
  | .s v => v
  | .n v => Nat.toDigits 10 v.toNat

/-- the suffix of a group for given capture values: literals as written, captured tokens filled in order -/
def renderToks : List Tk → List Str → Str
  | [], _ => []
  | ⟨.lit l, false⟩ :: r, caps => l ++ renderToks r caps
  | ⟨_, true⟩ :: r, c :: caps => c ++ renderToks r caps
  | ⟨_, _⟩ :: r, caps => renderToks r caps

def groupAt (i : Nat) : Option Group := groups[i]?

def Op.suffix (op : Op) : Str :=
  match groupAt op.gid with
  | some g => renderToks g.toks (if hasGroups g.toks then op.params.map Param.render else [])
  | none => []

def joinWith (sep : Char) : List Str → Str
  | [] => []
  | [a] => a
  | a :: b :: r => a ++ sep :: joinWith sep (b :: r)

def Chain.render : Chain → Str
  | .src names => joinWith inputSep names
  | .step c op => c.render ++ chainSep ++ op.suffix

def Chain.depth : Chain → Nat
  | .src _ => 0
  | .step c _ => c.depth + 1

/-- all modelled groups (with their index) whose `match_feature_group_criteria` accepts `(name, options)` -/
def matchingGroups (name : Str) (o : Opts) : Except Err (List Nat) :=
  let rec go : List Group → Nat → Except Err (List Nat)
    | [], _ => .ok []
    | g :: gs, i =>
      if !modelled g then go gs (i + 1) else do
        let m ← matchCriteria g name o
        let rest ← go gs (i + 1)
        return if m then i :: rest else rest
  go groups 0

structure Step where
  gid : Nat
  params : List Param
  inputs : Inputs
  deriving Repr, Inhabited

/-- one resolution step for a feature `(name, options)`: `ok none` = no chained group takes it (a source),
`error ambiguous` = several do -/
def resolveStep (name : Str) (o : Opts) : Except Err (Option Step) := do
  let ms ← matchingGroups name o
  match ms with
  | [] => return none
  | [i] =>
    match groupAt i with
    | none => throw (Err.unmodelled "index")
    | some g =>
      let ins ← inputFeatures g o name
      let ps ← extractParams g o name
      return some ⟨i, ps, ins⟩
  | _ => throw (Err.value "multiple-feature-groups")

def featName? : PV → Option Str
  | .feat (.str n) _ _ => some n
  | _ => none

def featOpts : PV → Opts
  | .feat _ g c => ⟨g, c⟩
  | _ => emptyOpts

def isLeaf (f : PV) : Bool :=
  match featName? f with
  | some n => match resolveStep n (featOpts f) with | .ok none => true | _ => false
  | none => false

/-- resolution of a feature (a `PV.feat`) along its spine; `none` = an error was raised somewhere or the shape is not a
spine.  Name-configured features are `feat (str name) [] []`; the fuel is only a recursion bound (≥ depth + 1). -/
def resolveFeat : Nat → PV → Option Chain
  | 0, _ => none
  | fuel + 1, f =>
    match featName? f with
    | none => none
    | some n =>
      match resolveStep n (featOpts f) with
      | .error _ => none
      | .ok none => some (.src [n])
      | .ok (some st) =>
        match st.inputs.main with
        | [i] => (resolveFeat fuel i).map (.step · ⟨st.gid, st.params⟩)
        | is =>
          if is.all isLeaf then (is.mapM featName?).map (fun ns => .step (.src ns) ⟨st.gid, st.params⟩) else none

/-- resolution of a chained *name* -/
def parseAll (fuel : Nat) (name : Str) : Option Chain := resolveFeat fuel (mkFeat name)

/-- what the engine does to every input feature of a consumer (`Features.build_feature_collection` →
`FeatureCollection.merge_options` → `Options.update_with_protected_keys`, default protected key `in_features`):
* any unprotected key present on both sides (group *or* context) with different values is a `ValueError`;
* the consumer's unprotected *group* keys are copied into the input's group options, a `ValueError` if one of them
  is a context key of the input. -/
def propagateGroup (parent : Opts) (child : PV) : Except Err PV :=
  match child with
  | .feat n g c =>
    let pitems := (parent.group ++ parent.ctx).filter (fun kv => kv.1 != inFeaturesKey)
    let citems := g ++ c
    if pitems.any (fun kv => citems.any (fun kv' => kv'.1 == kv.1 && !(kv'.2.eqv kv.2))) then .error (.value "duplicate-key-conflict")
    else
      let inh := parent.group.filter (fun kv => kv.1 != inFeaturesKey)
      if inh.any (fun kv => (lookup kv.1 c).isSome) then .error (.value "group-context-conflict")
      else .ok (.feat n (g ++ inh.filter (fun kv => (lookup kv.1 g).isNone)) c)
  | v => .ok v

/-- like `resolveFeat` but with the engine's propagation of the parent's *group* options into every input feature -/
def resolveFeatProp : Nat → PV → Option Chain
  | 0, _ => none
  | fuel + 1, f =>
    match featName? f with
    | none => none
    | some n =>
      match resolveStep n (featOpts f) with
      | .error _ => none
      | .ok none => some (.src [n])
      | .ok (some st) =>
        match st.inputs.main.mapM (propagateGroup (featOpts f)) with
        | .error _ => none
        | .ok [i] => (resolveFeatProp fuel i).map (.step · ⟨st.gid, st.params⟩)
        | .ok is =>
          if is.all isLeaf then (is.mapM featName?).map (fun ns => .step (.src ns) ⟨st.gid, st.params⟩) else none

/-! ## 9. `~` : sub-columns -/

/-- `FeatureGroup.get_column_base_feature` = `name.split("~")[0]` -/
def columnBase (s : Str) : Str := (splitOn columnSep s).headD []

/-- the loader's `f"{name}~{column_index}"` -/
def withColumnIndex (name idx : Str) : Str := name ++ columnSep :: idx

/-- `FeatureGroup.resolve_multi_column_feature` -/
def resolveMultiColumn (name : Str) (cols : List Str) : List Str :=
  if cols.contains name then [name]
  else
    let m := cols.filter (fun c => (name ++ [columnSep]).isPrefixOf c)
    if m.isEmpty then [name] else (m.eraseDups).mergeSort strLe

/-! ## 10. Well-formed chains (decidable): the generated vocabulary -/

/-- a source name: non-empty, free of `__`, `&` and `~` (so no suffix pattern - all start with `.*__` - can match it) -/
def srcOk (s : Str) : Bool := !s.isEmpty && !hasInfix sep2 s && !s.contains inputSep && !s.contains columnSep

/-- the parameters of an operation come from the group's vocabulary, in the shape its suffix is written with -/
def opParamsOk (g : Group) (ps : List Param) : Bool :=
  if g.name == "AggregatedFeatureGroup".toList then
    match ps with | [.s t] => (vocabOf g "AGGREGATION_TYPES").contains t | _ => false
  else if g.name == "MissingValueFeatureGroup".toList then
    match ps with | [.s t] => (vocabOf g "IMPUTATION_METHODS").contains t | _ => false
  else if g.name == "NodeCentralityFeatureGroup".toList then
    match ps with | [.s t] => (vocabOf g "CENTRALITY_TYPES").contains t | _ => false
  else if g.name == "GeoDistanceFeatureGroup".toList then
    match ps with | [.s t] => (vocabOf g "DISTANCE_TYPES").contains t | _ => false
  else if g.name == "ScalingFeatureGroup".toList then
    match ps with | [.s t] => (vocabOf g "SUPPORTED_SCALERS").contains t | _ => false
  else if g.name == "TimeWindowFeatureGroup".toList then
    match ps with
    | [.s f, .n n, .s u] => (vocabOf g "WINDOW_FUNCTIONS").contains f && decide (0 < n) && (vocabOf g "TIME_UNITS").contains u
    | _ => false
  else if g.name == "TextCleaningFeatureGroup".toList then ps.isEmpty   -- its operations are options, never part of a name
  else false

def Op.ok (op : Op) : Bool :=
  match groupAt op.gid with
  | some g => modelled g && opParamsOk g op.params
  | none => false

def Op.arityOk (op : Op) (n : Nat) : Bool :=
  match groupAt op.gid with
  | some g => g.minIn ≤ n && (match g.maxIn with | some m => n ≤ m | none => true)
  | none => false

def allDistinct : List Str → Bool
  | [] => true
  | a :: r => !r.contains a && allDistinct r

/-- unary spine: one source, every operation takes exactly one input -/
def Chain.wfU : Chain → Bool
  | .src [n] => srcOk n
  | .src _ => false
  | .step c op => c.wfU && op.ok && op.arityOk 1

/-- well-formed chain: a unary spine of vocabulary operations over one source, or a single operation over several
distinct `&`-joined sources (exactly as many as its group allows).  A multi-input operation followed by further
suffixes is *not* well-formed: mloda cannot read such a name back (`C16.amp_then_suffix_witness`). -/
def Chain.wf : Chain → Bool
  | .step (.src ns) op =>
    if 2 ≤ ns.length then ns.all srcOk && allDistinct ns && op.ok && op.arityOk ns.length
    else Chain.wfU (.step (.src ns) op)
  | c => c.wfU

/-! ## 11. The options form of one level -/

def Param.toPV : Param → PV
  | .s v => .str v
  | .n v => .int v

/-- keys of the required (no default) properties other than `in_features`, in PROPERTY_MAPPING order -/
def requiredKeys (g : Group) : List Str :=
  (g.props.filter fun p => !p.hasDefault && p.key != inFeaturesKey).map (·.key)

/-- the option items that describe an operation: required key ↦ parameter -/
def optKV (g : Group) (ps : List Param) : List (Str × PV) := (requiredKeys g).zip (ps.map Param.toPV)

/-- `Feature(name, Options(context={<operation parameters>, "in_features": inVal}))` -/
def optFeature (name : Str) (g : Group) (ps : List Param) (inVal : PV) : PV :=
  .feat (.str name) [] (optKV g ps ++ [(inFeaturesKey, inVal)])

/-- the single input feature denoted by an `in_features` value in the str / frozenset / Feature spellings -/
def inValFeat : PV → Option PV
  | .str s => if !s.isEmpty && !s.contains ',' then some (mkFeat s) else none
  | .feat (.str n) g c => some (.feat (.str n) g c)
  | .fset [.str s] => some (mkFeat s)
  | .fset [.feat (.str n) g c] => some (.feat (.str n) g c)
  | _ => none

end Chain
