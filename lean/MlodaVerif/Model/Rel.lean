/-! # Relational tables and the SPEC operators of C12 / C05

Written from the property text, not from any engine:

* inner / left / right / full-outer join on given key columns: **all** matching pairs for duplicate keys, null
  padding for unmatched rows, differently named keys both retained (same-named key pairs are one column),
  null keys never match;
* append = bag concatenation, union = duplicate-free concatenation.

A row is an association list `column ↦ cell`; a cell is `none` for null. Like the result of `SELECT *` in SQL a
joined row may carry the same column name twice (an overlapping non-key column of both inputs: left entry first).
Tables are lists of rows; equality of results is always stated up to row order, column order and null representation
(`TableEq`). No Mathlib, no `import Lean`. -/
namespace Rel

abbrev Col := String
abbrev Val := Int
abbrev Cell := Option Val
abbrev Row := List (Col × Cell)
abbrev Table := List Row
abbrev Key := List Cell

inductive JoinType where
  | inner | left | right | outer | append | union
  deriving DecidableEq, Repr, Inhabited

def JoinType.all : List JoinType := [.inner, .left, .right, .outer, .append, .union]

/-- name of the member of mloda's `JoinType` enum -/
def JoinType.pyName : JoinType → String
  | .inner => "INNER" | .left => "LEFT" | .right => "RIGHT" | .outer => "OUTER" | .append => "APPEND" | .union => "UNION"

/-- the `BaseMergeEngine` method that is *intended* to implement the operator -/
def JoinType.method : JoinType → String
  | .inner => "merge_inner" | .left => "merge_left" | .right => "merge_right" | .outer => "merge_full_outer"
  | .append => "merge_append" | .union => "merge_union"

def JoinType.ofPyName? (s : String) : Option JoinType := JoinType.all.find? (fun t => t.pyName == s)

/-! ## rows -/

/-- value of column `c` (first entry wins); a missing column reads as null — Python's `row.get(c)` -/
def cell : Row → Col → Cell
  | [], _ => none
  | (c', v) :: r, c => if c' = c then v else cell r c

def rcols (r : Row) : List Col := r.map (·.1)

/-- the non-null entries: what is left of a row "up to null representation" -/
def core (r : Row) : Row := r.filter (fun e => e.2.isSome)

/-- rows are equal up to column order and null representation (absent column = null cell) -/
def RowEq (a b : Row) : Prop := (core a).Perm (core b)

def rowBEq (a b : Row) : Bool := (core a).isPerm (core b)

/-- bag equality of tables modulo `RowEq`: every row occurs (up to `RowEq`) equally often on both sides -/
def TableEq (A B : Table) : Prop := ∀ x : Row, A.countP (rowBEq x) = B.countP (rowBEq x)

/-- executable version of `TableEq` used by `example`s and the driver: rows of `B` are crossed off one by one -/
def removeFirst (x : Row) : Table → Option Table
  | [] => none
  | y :: ys => if rowBEq x y then some ys else (removeFirst x ys).map (y :: ·)

def tableBEq : Table → Table → Bool
  | [], B => B.isEmpty
  | x :: A, B => match removeFirst x B with
    | none => false
    | some B' => tableBEq A B'

/-! ## keys -/

def keyOf (ks : List Col) (r : Row) : Key := ks.map (cell r)

def noNull (k : Key) : Bool := k.all Option.isSome

/-- SQL equality of keys: equal and no component null -/
def matchesK (lk rk : List Col) (l r : Row) : Bool := noNull (keyOf lk l) && keyOf lk l == keyOf rk r

/-- key columns that carry the same name on both sides (position-wise): they are one column of the result -/
def coalesced (lk rk : List Col) : List Col := (lk.zip rk).filterMap (fun p => if p.1 = p.2 then some p.1 else none)

def nulls (cs : List Col) : Row := cs.map (fun c => (c, none))

/-- matched pair: all of `l`, and of `r` everything except the coalesced key columns -/
def combine (co : List Col) (l r : Row) : Row := l ++ r.filter (fun e => decide (e.1 ∉ co))

/-- unmatched left row: the right table's columns (`rs` = its schema) are null -/
def padRight (co rs : List Col) (l : Row) : Row := l ++ nulls (rs.filter (fun c => decide (c ∉ co)))

/-- unmatched right row: the left table's columns (`ls` = its schema) are null; coalesced keys keep the right value -/
def padLeft (co ls : List Col) (r : Row) : Row := nulls (ls.filter (fun c => decide (c ∉ co))) ++ r

/-! ## the operators (nested loops, straight from the definition) -/

def innerJoin (lk rk : List Col) (L R : Table) : Table :=
  L.flatMap (fun l => (R.filter (matchesK lk rk l)).map (combine (coalesced lk rk) l))

def leftJoin (lk rk rs : List Col) (L R : Table) : Table :=
  L.flatMap (fun l =>
    let ms := R.filter (matchesK lk rk l)
    if ms.isEmpty then [padRight (coalesced lk rk) rs l] else ms.map (combine (coalesced lk rk) l))

def rightJoin (lk rk ls : List Col) (L R : Table) : Table :=
  R.flatMap (fun r =>
    let ms := L.filter (fun l => matchesK lk rk l r)
    if ms.isEmpty then [padLeft (coalesced lk rk) ls r] else ms.map (fun l => combine (coalesced lk rk) l r))

def outerJoin (lk rk ls rs : List Col) (L R : Table) : Table :=
  leftJoin lk rk rs L R ++
    (R.filter (fun r => L.all (fun l => !matchesK lk rk l r))).map (padLeft (coalesced lk rk) ls)

def append (L R : Table) : Table := L ++ R

/-- keep the first row of every `RowEq` class -/
def dedupAux (seen : List Row) : Table → Table
  | [] => []
  | x :: xs => if seen.any (fun s => rowBEq s x) then dedupAux seen xs else x :: dedupAux (x :: seen) xs

def dedup (T : Table) : Table := dedupAux [] T

def union (L R : Table) : Table := dedup (L ++ R)

/-- the relational operator a `Link` of type `t` on key columns `lk` / `rk` denotes; `ls` / `rs` are the schemas
(column lists) of the two tables, needed only to null-pad unmatched rows -/
def joinSpec (t : JoinType) (lk rk ls rs : List Col) (L R : Table) : Table :=
  match t with
  | .inner => innerJoin lk rk L R
  | .left => leftJoin lk rk rs L R
  | .right => rightJoin lk rk ls L R
  | .outer => outerJoin lk rk ls rs L R
  | .append => append L R
  | .union => union L R

/-- n-way inner join on commonly named key columns, in the order given -/
def joinAll (ks : List Col) (T : Table) (Ts : List Table) : Table := Ts.foldl (innerJoin ks ks) T

/-! ## decidable side conditions used by the partial theorems -/

/-- the distinct elements of a list (a Python `set` built from it, in some order) -/
def undup {α : Type} [DecidableEq α] : List α → List α
  | [] => []
  | a :: as => if a ∈ undup as then undup as else a :: undup as

/-- schema of a list-of-dicts table as the Python engines compute it: every column of every row -/
def tcols (T : Table) : List Col := undup (T.flatMap rcols)

/-- rows are dicts: no column twice -/
def RowsWF (T : Table) : Prop := ∀ r ∈ T, (rcols r).Nodup

def UniqueKeys (ks : List Col) (T : Table) : Prop := (T.map (keyOf ks)).Nodup

def NoNullKeys (ks : List Col) (T : Table) : Prop := ∀ r ∈ T, noNull (keyOf ks r) = true

/-- the only column names the two tables share are coalesced key columns -/
def NoOverlap (lk rk : List Col) (L R : Table) : Prop :=
  ∀ l ∈ L, ∀ r ∈ R, ∀ c ∈ rcols l, c ∈ rcols r → c ∈ coalesced lk rk

/-- two tables share no column name other than the common key columns `ks` -/
def KeyOnlyOverlap (ks : List Col) (A B : Table) : Prop := ∀ c ∈ tcols A, c ∈ tcols B → c ∈ ks

instance (ks : List Col) (A B : Table) : Decidable (KeyOnlyOverlap ks A B) := by unfold KeyOnlyOverlap; infer_instance
instance (T : Table) : Decidable (RowsWF T) := by unfold RowsWF; infer_instance
instance (ks : List Col) (T : Table) : Decidable (UniqueKeys ks T) := by unfold UniqueKeys; infer_instance
instance (ks : List Col) (T : Table) : Decidable (NoNullKeys ks T) := by unfold NoNullKeys; infer_instance
instance (lk rk : List Col) (L R : Table) : Decidable (NoOverlap lk rk L R) := by unfold NoOverlap; infer_instance

end Rel
