import MlodaVerif.Model.Store
/-! # The drop protocol across the orchestrator (C09, extension `life`)

Modelled, statement by statement (Python file : lines of /repo at the time of writing):

* `DataLifecycleManager` (`mloda/core/runtime/data_lifecycle_manager.py`): `drop_data_for_finished_cfws` 36-57 (`periodic`,
  `periodicGo`), `drop_cfw_data` 59-74 (inside `periodicGo`), `track_flyway_datasets` 76-84 (`Ev.trackFlyway`),
  `add_to_result_data_collection` / `get_result_data` 86-131 (`getResultErr`, first half of `fgDone`), `get_results` 133-146
  (`getResults`), `pop_result_data_collection` 148-157 (`Ev.pop`, `popAll`).
* `ExecutionOrchestrator` (`mloda/core/runtime/run.py`): `_process_step_result` 209-235 + `_mark_step_as_finished` 384-392
  (`Ev.fgDone`, `Ev.otherDone`), `_drop_data_if_possible` 237-262 (both branches of `fgDone`), `_drop_data_for_finished_cfws`
  75-81 (`Ev.periodic`), `_drop_remaining_flight_data` 198-207 (`finalCleanup`).
* `ComputeFramework` (`mloda/core/abstract_plugins/compute_framework.py`): `add_already_calculated_children_and_drop_if_possible`
  316-333 (`Store.report`), `drop_last_data` 462-466 (`cleared` + the `rm` of the key), `upload_finished_data` / `upload_table`
  415-436 (`Ev.uploadKeep`: the callers that ignore the returned key - `FeatureGroupStep.execute` 57-60, `JoinStep` 45-49,
  `TransformFrameworkStep` 77-78, `_handle_command_result` 87-92; `Ev.uploadReplace`: `run_calculation` 206 `self.data = self.upload_finished_data(..)`).
* `ComputeFrameworkExecutor.init_compute_framework` 43-73 (`Ev.register`), `multi_execute_step` 270-292 (`Ev.spawn`).
* the worker process (`mloda/core/runtime/worker/multiprocessing_worker.py` 98-142): `wstep` / `wloop`.
* `WorkerManager` (`mloda/core/runtime/worker_manager.py`): `poll_result_queues` 57-67 (`poll`; `pollUnrepaired` = before fix 4cba3bf),
  `wait_for_drop_completion` 73-84 (`waitDrop`).

uuids (objects, features, links, steps) are `Nat`s.  Python dicts are association lists in insertion order (`dget`/`dset`),
sets that are only tested for membership are lists.  Exceptions are the third component of `step`'s result; the state
returned with an exception is the state at the `raise`. -/
namespace Life
open Store

inductive Err where
  | noObject        -- `get_cfw` / `cfw_collection[uuid]` for an object that does not exist (ValueError / KeyError)
  | duplicateUuid   -- `add_cfw_to_compute_frameworks`: "UUID … already exists in compute_frameworks"
  | keyError        -- `drop_cfw_data`: `cfw_collection[cfw_uuid]` for a tracked uuid without object
  | notImplemented  -- `get_result_data`: data is None and there is no location ("Not implemented")
  | notFound        -- download of a key that is not in the flight store
  | badData         -- a table operation on something that is not a table (None or a key string)
  | noLocation      -- upload without a location
  | noResults       -- `get_results` on an empty collection ("No results found")
  deriving DecidableEq, Repr

/-! ### insertion-ordered dicts -/

def dget {α : Type} : List (Nat × α) → Nat → Option α
  | [], _ => none
  | (k', v) :: t, k => if k' = k then some v else dget t k

/-- `d[k] = v`: an existing key keeps its position, a new key goes to the end -/
def dset {α : Type} : List (Nat × α) → Nat → α → List (Nat × α)
  | [], k, v => [(k, v)]
  | (k', v') :: t, k, v => if k' = k then (k, v) :: t else (k', v') :: dset t k v

def dkeys {α : Type} (d : List (Nat × α)) : List Nat := d.map (·.1)

/-- `set.update` on a list without duplicates being added -/
def union (a b : List Nat) : List Nat := a ++ b.filter (fun x => decide (x ∉ a))

/-- removing the key that `drop_last_data` found (if any) from the flight store -/
def rm (store : List Nat) : Option Nat → List Nat
  | none => store
  | some k => store.filter (· ≠ k)

def addKey (store : List Nat) (k : Nat) : List Nat := if k ∈ store then store else store ++ [k]

/-! ### state -/

/-- one entry of `executor.cfw_collection`: the compute-framework object of the orchestrator process -/
structure Obj where
  cfw   : Cfw                                  -- children_if_root, tracker, `data` as key string, len(object_ids)
  table : Bool := false                        -- `data` is an in-memory table (neither None nor a key string)
  queue : Option (List (List Nat)) := none     -- `some q`: `process_register` has queues for it; q = drop commands put so far
  deriving Repr

def hasData (ob : Obj) : Bool := ob.table || ob.cfw.dataKey.isSome

/-- `drop_last_data`: `self.data = None` (the store effect is applied by the caller with `rm`) -/
def cleared (ob : Obj) : Obj := { ob with cfw := { ob.cfw with dataKey := none }, table := false }

/-- one call of `drop_last_data` -/
structure DropRec where
  obj     : Nat
  tracked : Bool          -- true: through `drop_cfw_data` (track_data_to_drop); false: through the children tracker
  key     : Option Nat    -- the key removed from the flight store
  hadData : Bool          -- `data` was not None when the call happened
  deriving DecidableEq, Repr

structure LS where
  objs     : List (Nat × Obj) := []           -- executor.cfw_collection
  track    : List (Nat × List Nat) := []      -- data_lifecycle_manager.track_data_to_drop
  flyway   : List (Nat × List Nat) := []      -- cfw_register.uuid_flyway_datasets
  results  : List (Nat × Nat) := []           -- result_data_collection: step uuid ↦ (object whose data was selected)
  yielded  : List (Nat × Nat) := []           -- what pop_result_data_collection has yielded so far
  finished : List Nat := []                   -- finished_ids of compute / compute_stream
  store    : List Nat := []                   -- keys in the flight store
  loc      : Bool := false                    -- self.location is set
  deriving Repr

inductive Ev where
  | register (o : Nat) (children : List Nat)            -- init_compute_framework
  | spawn (o : Nat)                                      -- multi_execute_step: create_worker_process unless registered
  | ran (o : Nat)                                        -- a step ran on the object in this process: data := table
  | uploadKeep (o : Nat)                                 -- upload_finished_data, returned key ignored
  | uploadReplace (o : Nat)                              -- self.data = self.upload_finished_data(location)
  | setFlyway (o : Nat) (ids : List Nat)                 -- cfw_register.add_uuid_flyway_datasets
  | trackFlyway (o : Nat) (ids : List Nat)               -- DataLifecycleManager.track_flyway_datasets (public, not called by mloda)
  | fgDone (o step : Nat) (F : List Nat) (requested : Bool)   -- _process_step_result of a done feature-group step + _mark_step_as_finished
  | otherDone (ids : List Nat)                           -- a done transform / join step: only finished_ids grows
  | periodic                                             -- _drop_data_for_finished_cfws(finished_ids)
  | pop                                                  -- one `popitem()` of pop_result_data_collection
  deriving DecidableEq, Repr

/-- `get_result_data` as far as it can fail (the selected payload is the object's own data) -/
def getResultErr (s : LS) (o : Nat) (ob : Obj) : Option Err :=
  if ob.table then none
  else if ob.cfw.dataKey.isSome then some .badData          -- `select_data_by_column_names` on a key string
  else if s.loc then (if o ∈ s.store then none else some .notFound)
  else some .notImplemented

/-- the loop of `drop_data_for_finished_cfws` over `track_data_to_drop.items()`; returns the state, `cfw_to_delete`, the drops -/
def periodicGo (fin : List Nat) : List (Nat × List Nat) → LS → LS × List Nat × List DropRec × Option Err
  | [], s => (s, [], [], none)
  | (o, ids) :: t, s =>
    if ids.all (fun i => decide (i ∈ fin)) then
      match dget s.objs o with
      | none => (s, [], [], some .keyError)
      | some ob =>
        let key := if s.loc then ob.cfw.dataKey else none
        let r := periodicGo fin t { s with objs := dset s.objs o (cleared ob), store := rm s.store key }
        (r.1, o :: r.2.1, ⟨o, true, key, hasData ob⟩ :: r.2.2.1, r.2.2.2)
    else periodicGo fin t s

def periodic (s : LS) : LS × List DropRec × Option Err :=
  if s.finished.isEmpty then (s, [], none)
  else
    let r := periodicGo s.finished s.track s
    match r.2.2.2 with
    | some e => (r.1, r.2.2.1, some e)
    | none => ({ r.1 with track := r.1.track.filter (fun p => decide (p.1 ∉ r.2.1)) }, r.2.2.1, none)

/-- `_drop_data_if_possible`, in-process branch (`command_queue is None`): the children tracker decides; worker branch: the uuids
are put into the worker's command queue.  The four parts of its effect: the object afterwards, the key removed from the store,
`track_data_to_drop` afterwards, the `drop_last_data` calls -/
def dropObj (ob : Obj) (F : List Nat) : Obj :=
  match ob.queue with
  | none => { ob with cfw := (report ob.cfw F).1, table := match (report ob.cfw F).2 with | .dropped _ => false | _ => ob.table }
  | some q => { ob with queue := some (q ++ [F]) }

def dropKey (loc : Bool) (ob : Obj) (F : List Nat) : Option Nat :=
  match ob.queue with
  | none => match (report ob.cfw F).2 with
    | .dropped k => if loc then k else none
    | _ => none
  | some _ => none

def dropTrack (s : LS) (o : Nat) (ob : Obj) (F : List Nat) : List (Nat × List Nat) :=
  match ob.queue with
  | none => match (report ob.cfw F).2 with
    | .pending => dset s.track o ob.cfw.children                  -- `isinstance(data_to_drop, frozenset)`
    | _ => s.track
  | some _ =>
    let fw := (dget s.flyway o).getD []                            -- cfw_register.get_uuid_flyway_datasets(cfw.uuid)
    if fw.isEmpty then s.track else dset s.track o fw

def dropRecs (loc : Bool) (o : Nat) (ob : Obj) (F : List Nat) : List DropRec :=
  match ob.queue with
  | none => match (report ob.cfw F).2 with
    | .dropped k => [⟨o, false, if loc then k else none, hasData ob⟩]
    | _ => []
  | some _ => []

def fgDone (s : LS) (o st : Nat) (F : List Nat) (req : Bool) : LS × List DropRec × Option Err :=
  match dget s.objs o with
  | none => (s, [], some .noObject)
  | some ob =>
    -- add_to_result_data_collection
    match (if req then getResultErr s o ob else none) with
    | some e => (s, [], some e)
    | none =>
      -- _drop_data_if_possible, then _mark_step_as_finished
      ({ s with results := if req then dset s.results st o else s.results, objs := dset s.objs o (dropObj ob F),
                store := rm s.store (dropKey s.loc ob F), track := dropTrack s o ob F, finished := union s.finished F },
       dropRecs s.loc o ob F, none)

def step (s : LS) : Ev → LS × List DropRec × Option Err
  | .register o ch =>
    match dget s.objs o with
    | some _ => (s, [], some .duplicateUuid)
    | none => ({ s with objs := dset s.objs o { cfw := { children := ch } } }, [], none)
  | .spawn o =>
    match dget s.objs o with
    | none => (s, [], some .noObject)
    | some ob => ({ s with objs := dset s.objs o { ob with queue := some (ob.queue.getD []) } }, [], none)
  | .ran o =>
    match dget s.objs o with
    | none => (s, [], some .noObject)
    | some ob => ({ s with objs := dset s.objs o { ob with cfw := { ob.cfw with dataKey := none }, table := true } }, [], none)
  | .uploadKeep o =>
    match dget s.objs o with
    | none => (s, [], some .noObject)
    | some ob =>
      if !s.loc then (s, [], some .noLocation)
      else if !ob.table then (s, [], some .badData)
      else ({ s with objs := dset s.objs o { ob with cfw := { ob.cfw with objectIds := ob.cfw.objectIds + 1 } }, store := addKey s.store o }, [], none)
  | .uploadReplace o =>
    match dget s.objs o with
    | none => (s, [], some .noObject)
    | some ob =>
      if !s.loc then (s, [], some .noLocation)
      else if !ob.table then (s, [], some .badData)
      else ({ s with objs := dset s.objs o { ob with cfw := upload ob.cfw o, table := false }, store := addKey s.store o }, [], none)
  | .setFlyway o ids => ({ s with flyway := dset s.flyway o ids }, [], none)
  | .trackFlyway o ids => ({ s with track := dset s.track o ids }, [], none)
  | .fgDone o st F req => fgDone s o st F req
  | .otherDone ids => ({ s with finished := union s.finished ids }, [], none)
  | .periodic => periodic s
  | .pop =>
    match s.results.getLast? with
    | none => (s, [], none)
    | some p => ({ s with results := s.results.dropLast, yielded := s.yielded ++ [p] }, [], none)

/-- the events are processed until one raises -/
def run (s : LS) : List Ev → LS × List DropRec × Option Err
  | [] => (s, [], none)
  | e :: es =>
    let r := step s e
    match r.2.2 with
    | some err => (r.1, r.2.1, some err)
    | none =>
      let r' := run r.1 es
      (r'.1, r.2.1 ++ r'.2.1, r'.2.2)

/-- `get_results` -/
def getResults (s : LS) : Except Err (List Nat) :=
  if s.results.isEmpty then .error .noResults else .ok (s.results.map (·.2))

/-- `yield from pop_result_data_collection()`: pops until the dict is empty -/
def popAll (s : LS) : LS := { s with results := [], yielded := s.yielded ++ s.results.reverse }

/-- `_drop_remaining_flight_data` in the `finally` of compute / compute_stream -/
def finalCleanup (s : LS) : LS :=
  if s.loc then { s with store := s.store.filter (fun k => decide (k ∉ dkeys s.objs)) } else s

/-- a run of the orchestrator: the loop's events (until one raises), then the `finally` -/
def compute (s : LS) (evs : List Ev) : LS × List DropRec × Option Err :=
  let r := run s evs
  (finalCleanup r.1, r.2.1, r.2.2)

def init (loc : Bool) (store : List Nat) : LS := { loc := loc, store := store }

/-- the view `Store.Run` has of the state -/
def toRun (s : LS) : Run := { keys := dkeys s.objs, store := s.store }

/-! ### trace functions used by the statements -/

/-- uuids reported to object `o` by `fgDone` events -/
def reportedIn (o : Nat) : List Ev → List Nat
  | [] => []
  | .fgDone o' _ F _ :: es => if o' = o then F ++ reportedIn o es else reportedIn o es
  | _ :: es => reportedIn o es

/-- what `finished_ids` holds after the events -/
def finishedIn : List Ev → List Nat
  | [] => []
  | .fgDone _ _ F _ :: es => F ++ finishedIn es
  | .otherDone ids :: es => ids ++ finishedIn es
  | _ :: es => finishedIn es

/-- step uuids of the processed feature-group steps / of those with initially requested features -/
def fgSteps : List Ev → List Nat
  | [] => []
  | .fgDone _ st _ _ :: es => st :: fgSteps es
  | _ :: es => fgSteps es

def reqSteps : List Ev → List Nat
  | [] => []
  | .fgDone _ st _ req :: es => if req then st :: reqSteps es else reqSteps es
  | _ :: es => reqSteps es

/-- number of events that can (re)write the entry of `o` in `track_data_to_drop` -/
def nTrack (o : Nat) : List Ev → Nat
  | [] => 0
  | .fgDone o' _ _ _ :: es => (if o' = o then 1 else 0) + nTrack o es
  | .trackFlyway o' _ :: es => (if o' = o then 1 else 0) + nTrack o es
  | _ :: es => nTrack o es

/-- number of `drop_cfw_data(o)` calls in a drop log -/
def trackedDrops (o : Nat) (log : List DropRec) : Nat := (log.filter (fun d => d.tracked && d.obj == o)).length

/-- the events the orchestrator itself produces (no direct call of the public `track_flyway_datasets`) -/
def orchEv : Ev → Bool
  | .trackFlyway _ _ => false
  | _ => true

/-! ### what-if variant used only for a negation witness: a COUNT based drop test (`len(tracker) >= len(children)`) -/
def reportCountBased (c : Cfw) (ch : List Nat) : Cfw × Drop :=
  let t := c.tracker ++ ch.filter (fun x => decide (x ∉ c.tracker))
  if t.length ≥ c.children.length then ({ c with tracker := t, dataKey := none }, .dropped c.dataKey)
  else if c.objectIds > 0 then ({ c with tracker := t }, .pending)
  else ({ c with tracker := t }, .no)

/-! ### the worker process (multiprocessing_worker.worker) -/

inductive Msg where
  | done (step : Nat)              -- `result_queue.put(str(command.uuid))`
  | dropComplete (o : Nat)         -- `result_queue.put(("DROP_COMPLETE", cfw.uuid))`
  deriving DecidableEq, Repr

inductive StepRes where
  | table      -- `execute` returned a table (`cfw.data` is that table)
  | key        -- `execute` returned the key string: run_calculation uploaded the finished data and replaced `cfw.data` by the key
  | raise      -- `execute` raised
  deriving DecidableEq, Repr

inductive WCmd where
  | stop
  | drop (F : List Nat)                                                    -- a `set` of feature uuids
  | step (id : Nat) (fgRequested : Bool) (res : StepRes) (uploadFails : Bool)   -- a step object; fgRequested: FeatureGroupStep with initially requested features
  deriving DecidableEq, Repr

structure WS where
  cfw      : Cfw
  table    : Bool := false
  alive    : Bool := true           -- the `while True` loop has not been left
  out      : List Msg := []         -- result_queue
  store    : List Nat := []
  error    : Bool := false          -- cfw_register.set_error was called
  ownStops : Nat := 0               -- "STOP"s the worker put into its own command queue (`_handle_stop_command`)
  unread   : Nat := 0               -- commands that were in the queue and never read
  deriving Repr

/-- one command taken from the queue by the worker of object `o` (the location is always set in a worker) -/
def wstep (o : Nat) (w : WS) (c : WCmd) : WS :=
    if !w.alive then { w with unread := w.unread + 1 } else
    match c with
    | .stop => { w with alive := false }
    | .drop F =>
      let rp := report w.cfw F
      let w1 := { w with cfw := rp.1, out := w.out ++ [.dropComplete o] }
      match rp.2 with
      | .dropped k => { w1 with table := false, store := rm w1.store k, alive := false, ownStops := w1.ownStops + 1 }
      | _ => w1
    | .step id rq res uf =>
      match res with
      | .raise => { w with error := true, alive := false, ownStops := w.ownStops + 1 }
      | .key =>
        -- run_calculation: self.data = self.upload_finished_data(location)
        { w with cfw := upload w.cfw o, table := false, store := addKey w.store o, out := w.out ++ [.done id] }
      | .table =>
        let w1 := { w with cfw := { w.cfw with dataKey := none }, table := true }
        if rq then
          -- _handle_command_result: cfw.upload_finished_data(location) for a requested result
          if uf then { w1 with error := true, alive := false, ownStops := w1.ownStops + 1 }
          else { w1 with cfw := { w1.cfw with objectIds := w1.cfw.objectIds + 1 }, store := addKey w1.store o, out := w1.out ++ [.done id] }
        else { w1 with out := w1.out ++ [.done id] }

def wloop (o : Nat) (w : WS) (cmds : List WCmd) : WS := cmds.foldl (wstep o) w

/-- ids of the step commands / of the `done` messages / drop commands -/
def stepIds : List WCmd → List Nat
  | [] => []
  | .step id _ _ _ :: t => id :: stepIds t
  | _ :: t => stepIds t

def doneIds : List Msg → List Nat
  | [] => []
  | .done id :: t => id :: doneIds t
  | _ :: t => doneIds t

def dropCmds : List WCmd → List (List Nat)
  | [] => []
  | .drop F :: t => F :: dropCmds t
  | _ :: t => dropCmds t

/-! ### WorkerManager: the orchestrator's side of the result queues -/

/-- `poll_result_queues` (as repaired by the `fix:` commit 4cba3bf): one non-blocking `get` per queue (queues in the iteration
order of the set); a string is turned into a UUID and collected; a tuple (a DROP_COMPLETE that arrived after
`wait_for_drop_completion` gave up) is taken off the queue and skipped.  Returns the queues and `result_uuids_collection` -/
def poll : List (List Msg) → List Nat → List (List Msg) × List Nat
  | [], coll => ([], coll)
  | [] :: qs, coll => let r := poll qs coll; ([] :: r.1, r.2)
  | (.done u :: q) :: qs, coll => let r := poll qs (if u ∈ coll then coll else coll ++ [u]); (q :: r.1, r.2)
  | (.dropComplete _ :: q) :: qs, coll => let r := poll qs coll; (q :: r.1, r.2)

/-- the poll before that repair: anything but a string makes `UUID(..)` raise (AttributeError) - that message is gone, the
remaining queues are not polled.  Returns the queues, `result_uuids_collection`, raised? -/
def pollUnrepaired : List (List Msg) → List Nat → List (List Msg) × List Nat × Bool
  | [], coll => ([], coll, false)
  | [] :: qs, coll => let r := pollUnrepaired qs coll; ([] :: r.1, r.2.1, r.2.2)
  | (.done u :: q) :: qs, coll => let r := pollUnrepaired qs (if u ∈ coll then coll else coll ++ [u]); (q :: r.1, r.2.1, r.2.2)
  | (.dropComplete _ :: q) :: qs, coll => (q :: qs, coll, true)

/-- `wait_for_drop_completion(result_queue, o, timeout)`: every iteration (the schedule has one entry per iteration that fits
into the timeout: the messages that arrive before it) takes the head of the queue; the matching DROP_COMPLETE ends the wait,
anything else is put back at the end; an empty queue is a sleep.  Returns the queue and found? (false = timeout, a warning only) -/
def waitDrop (o : Nat) : List (List Msg) → List Msg → List Msg × Bool
  | [], q => (q, false)
  | a :: rest, q =>
    match q ++ a with
    | [] => waitDrop o rest []
    | m :: t => if m = .dropComplete o then (t, true) else waitDrop o rest (t ++ [m])

end Life
