/-! # Model of `ExecutionOrchestrator.compute` / `compute_stream` (mloda/core/runtime/run.py)

A plan is a list of steps; a step is identified by its position.  The orchestrator's main loop visits the steps in
plan order again and again; workers (inline in SYNC, threads, worker processes) execute started steps.  Concurrency is
an *event list*: every interleaving of the main loop's visits (`scan i`), of workers entering a step's calculation
(`begin i`), finishing it (`finish i`) or failing in it (`fail i`), and of the loop head (`loopHead`, where a recorded
error is raised and where the return condition is tested) is an event list; theorems quantify over all of them.

`finished`/`running` are the orchestrator's `finished_ids` / `currently_running_steps` (sets of uuids, here lists).
`done` is the set of steps whose `step_is_done` flag is set (or whose uuid arrived through a result queue).
-/

namespace Sched

inductive Kind where
  | fg | tfs | join
  deriving DecidableEq, Repr, Inhabited

structure Step where
  outs : List Nat          -- `step.get_uuids()` in iteration order
  req  : List Nat          -- `step.required_uuids`
  kind : Kind := .fg
  result : Bool := true    -- FG step whose FeatureSet has initially requested features (its table is a result)
  deriving Repr, Inhabited

abbrev Plan := List Step

inductive Ev where
  | scan (i : Nat)         -- main loop body for step i
  | begin (i : Nat)        -- worker enters the step's execution
  | finish (i : Nat)       -- worker completed: `step_is_done = True` / uuid put on the result queue
  | fail (i : Nat)         -- worker raised: `cfw_register.set_error(...)`
  | loopHead               -- `while` condition + error check at the top of the loop
  deriving DecidableEq, Repr

structure St where
  finished  : List Nat := []
  running   : List Nat := []
  started   : List Nat := []     -- steps handed to `_execute_step` (most recent first)
  begun     : List Nat := []
  done      : List Nat := []
  failed    : List Nat := []
  collected : List Nat := []     -- steps whose result was processed (`_process_step_result` returned True)
  err       : Option Nat := none -- step whose error is stored in the CfwManager (last writer wins)
  raised    : Option Nat := none -- the loop head raised the stored error: compute() has exited
  returned  : Bool := false      -- the loop condition became false: compute() returned normally
  yielded   : List Nat := []     -- compute_stream: steps whose result was yielded (in order)
  pending   : List Nat := []     -- compute_stream: result_data_collection not yet drained
  deriving Repr

/-- `_is_step_done` -/
def isStepDone (outs finished : List Nat) : Bool := outs.all (· ∈ finished)

/-- `currently_running_step`: `next(iter(step_uuids)) in currently_running_steps`; `none` = StopIteration on an empty set -/
def currentlyRunning (outs running : List Nat) : Option Bool :=
  match outs with
  | [] => none
  | u :: _ => some (decide (u ∈ running))

/-- `_can_run_step` (decision part) -/
def canRun (req outs finished running : List Nat) : Bool :=
  req.all (· ∈ finished) && !(outs.any (· ∈ running))

/-- `_mark_step_as_finished` -/
def markFinished (outs finished running : List Nat) : List Nat × List Nat :=
  (finished ++ outs.filter (· ∉ finished), running.filter (· ∉ outs))

def halted (s : St) : Bool := s.raised.isSome || s.returned

/-- all uuids the plan is to finish (`to_finish_ids` after one full pass) -/
def allOuts (p : Plan) : List Nat := p.flatMap (·.outs)

def stepEv (p : Plan) (s : St) : Ev → St
  | .scan i =>
    if halted s then s else
    match p[i]? with
    | none => s
    | some st =>
      if isStepDone st.outs s.finished then s
      else match currentlyRunning st.outs s.running with
        | none => s                                   -- (StopIteration) excluded by `NonemptyOuts`
        | some true =>
          if i ∈ s.done then
            let (f, r) := markFinished st.outs s.finished s.running
            { s with finished := f, running := r, collected := i :: s.collected,
                     pending := if st.kind == .fg && st.result then s.pending ++ [i] else s.pending }
          else s
        | some false =>
          if canRun st.req st.outs s.finished s.running then
            { s with running := s.running ++ st.outs, started := i :: s.started }
          else s
  | .begin i =>
    if i ∈ s.started ∧ i ∉ s.begun ∧ i ∉ s.failed then { s with begun := i :: s.begun } else s
  | .finish i =>
    if i ∈ s.begun ∧ i ∉ s.done ∧ i ∉ s.failed then { s with done := i :: s.done } else s
  | .fail i =>
    if i ∈ s.started ∧ i ∉ s.done ∧ i ∉ s.failed then { s with failed := i :: s.failed, err := some i } else s
  | .loopHead =>
    if halted s then s else
    -- compute_stream drains the result collection (`popitem`: last in first out) at the end of every pass, i.e. just
    -- before the next loop head
    let s := { s with yielded := s.yielded ++ s.pending.reverse, pending := [] }
    -- `while to_finish_ids != finished_ids or len(finished_ids) == 0` is tested first ...
    if (allOuts p).all (· ∈ s.finished) ∧ s.finished ≠ [] then { s with returned := true }
    -- ... then the error check inside the loop body
    else match s.err with
      | some e => { s with raised := some e }
      | none => s

/-- does step i contribute a table to the results -/
def hasResult (p : Plan) (i : Nat) : Bool :=
  match p[i]? with
  | some st => st.kind == .fg && st.result
  | none => false

/-- batch: `list(result_data_collection.values())` - insertion order = order of collection -/
def results (p : Plan) (s : St) : List Nat := (s.collected.filter (hasResult p)).reverse

def run (p : Plan) (s : St) (evs : List Ev) : St := evs.foldl (stepEv p) s

def init : St := {}

/-- reachable states -/
def Reach (p : Plan) (s : St) : Prop := ∃ evs, s = run p init evs

/-! ### structural hypotheses on plans (decidable; checked on every exported real plan) -/

def NonemptyOuts (p : Plan) : Prop := ∀ st ∈ p, st.outs ≠ []

def DisjointOuts (p : Plan) : Prop :=
  ∀ (i j : Nat) (si sj : Step), p[i]? = some si → p[j]? = some sj → ∀ u, u ∈ si.outs → u ∈ sj.outs → i = j

def nonemptyOutsB (p : Plan) : Bool := p.all (fun st => !st.outs.isEmpty)

def disjointOutsB (p : Plan) : Bool := decide (allOuts p).Nodup


end Sched
