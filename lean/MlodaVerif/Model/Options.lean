import MlodaVerif.Model.PyVal
import MlodaVerif.Gen.OptionConsts
/-! # `Options`, `OptionsValidator`, `Features.merge_options` (C15) — the code that exists, statement by statement

Anchors: `mloda/core/abstract_plugins/components/options.py`, `validators/options_validator.py`,
`feature_collection.py` (`Features.merge_options`).  A Python exception is an `Err` tag; because several methods
mutate `self` *before* a later statement raises, every operation returns the state after the call **and** the
error (`Option Err`), so "state after a raised call" is part of the model and of the correspondence.

Naming of the code (kept): in `merge_options(feature_options, child_options)` the *parent* is the input feature
(`feature_options`, updated in place) and the *child* is the dependent feature whose options flow to its inputs. -/

open PyVal (pyEq pyNe truthy hashable hashableL mh sortKV item)
open PyDict

inductive OptErr where
  | dupKeys          -- "Keys cannot exist in both group and context"
  | propMissing      -- "propagate_context_keys ... not found in context"
  | groupDiff        -- "already exists in group options with a different value"
  | inContext        -- "already exists in context options. Cannot add to group."
  | ctxDiff          -- "already exists in context options with a different value"
  | inGroup          -- "already exists in group options. Cannot add to context."
  | groupCtxConflict -- "Cannot update group: keys already exist in context"
  | ctxGroupConflict -- "Cannot propagate context: keys already exist in group"
  | ctxConflict      -- "Context key ... conflict"
  | mergeConflict    -- "Duplicate key ... found with conflicting values"
  | notIterable      -- TypeError: the feature_chainer_parser_key value cannot be iterated
  | unhashable       -- TypeError: unhashable element put into the protected-key set
  deriving DecidableEq, Repr, Inhabited

def OptErr.tag : OptErr → String
  | .dupKeys => "dupKeys" | .propMissing => "propMissing" | .groupDiff => "groupDiff" | .inContext => "inContext"
  | .ctxDiff => "ctxDiff" | .inGroup => "inGroup" | .groupCtxConflict => "groupCtxConflict"
  | .ctxGroupConflict => "ctxGroupConflict" | .ctxConflict => "ctxConflict" | .mergeConflict => "mergeConflict"
  | .notIterable => "notIterable" | .unhashable => "unhashable"

structure Options where
  group : PyDict
  context : PyDict
  propagate : List String   -- `propagate_context_keys` (a frozenset of str; order irrelevant)
  deriving Repr, Inhabited

namespace Options

/-- `Options.__init__` (`group or {}`, `context or {}`, the two constructor validations) -/
def init (g c : PyDict) (p : List String) : Except OptErr Options :=
  if (keys g).any (fun k => has c k) then .error .dupKeys
  else if p.any (fun k => !(has c k)) then .error .propMissing
  else .ok { group := g, context := c, propagate := p }

/-- `Options.get`: group first, then `context.get(key, None)` -/
def get (o : Options) (k : String) : PyVal :=
  match o.group.get? k with
  | some v => v
  | none => (o.context.get? k).getD .none

/-- `Options.items()` -/
def items (o : Options) : PyDict := o.group ++ o.context
/-- `Options.keys()` -/
def allKeys (o : Options) : List String := keys o.group ++ keys o.context
/-- `key in options` -/
def contains (o : Options) (k : String) : Bool := has o.group k || has o.context k

/-- `add_to_group` = `OptionsValidator.validate_can_add_to_group` then `self.group[key] = value` -/
def addToGroup (o : Options) (k : String) (v : PyVal) : Options × Option OptErr :=
  match o.group.get? k with
  | some old => if pyNe v old then (o, some .groupDiff)
                else if has o.context k then (o, some .inContext)
                else ({ o with group := o.group.set k v }, none)
  | none => if has o.context k then (o, some .inContext) else ({ o with group := o.group.set k v }, none)

/-- `add_to_context` -/
def addToContext (o : Options) (k : String) (v : PyVal) : Options × Option OptErr :=
  match o.context.get? k with
  | some old => if pyNe v old then (o, some .ctxDiff)
                else if has o.group k then (o, some .inGroup)
                else ({ o with context := o.context.set k v }, none)
  | none => if has o.group k then (o, some .inGroup) else ({ o with context := o.context.set k v }, none)

/-- `Options.set`: update in place where the key lives, new keys go to group -/
def setKey (o : Options) (k : String) (v : PyVal) : Options :=
  if has o.group k then { o with group := o.group.set k v }
  else if has o.context k then { o with context := o.context.set k v }
  else { o with group := o.group.set k v }

/-- what `for key in value: protected_keys.add(key)` / `protected_keys.update(value)` adds: the string elements
(non-string hashable elements can never equal an option key and are dropped here); iterating a `str` yields its
characters, a `dict` its keys; non-iterables and unhashable elements raise `TypeError` -/
def iterProtected : PyVal → Except OptErr (List String)
  | .str s => .ok (s.toList.map (fun c => String.singleton c))
  | .dict d => .ok (keys d)
  | .tuple l | .list l | .set l | .frozenset l =>
      if hashableL l then .ok (l.filterMap (fun x => match x with | .str s => some s | _ => none))
      else .error .unhashable
  | _ => .error .notIterable

/-- the protected-key set both `merge_options` and `update_with_protected_keys(…, None)` build from `self` -/
def protectedKeys (o : Options) : Except OptErr (List String) :=
  let v := o.get Gen.OptionConsts.chainerKey
  if truthy v then (iterProtected v).map (fun ks => Gen.OptionConsts.defaultProtected ++ ks)
  else .ok Gen.OptionConsts.defaultProtected

/-- first conflicting propagated context key, in the iteration order of `propagating` -/
def ctxConflictIn (ctx propagating : PyDict) : Bool :=
  propagating.any (fun kv => match ctx.get? kv.1 with | some old => pyNe old kv.2 | none => false)

/-- `update_with_protected_keys(self, other, protected_keys)` with the protected set already built -/
def updateWith (o other : Options) (pk : List String) : Options × Option OptErr :=
  let otherGroupCopy := other.group.filter (fun kv => !(pk.contains kv.1))
  if (keys otherGroupCopy).any (fun k => has o.context k) then (o, some .groupCtxConflict)
  else
    let o1 := { o with group := o.group.update otherGroupCopy }
    if other.propagate.isEmpty then (o1, none)
    else
      let propagating := other.context.filter (fun kv => other.propagate.contains kv.1 && !(pk.contains kv.1))
      if (keys propagating).any (fun k => has o1.group k) then (o1, some .ctxGroupConflict)
      else if ctxConflictIn o1.context propagating then (o1, some .ctxConflict)
      else ({ o1 with context := o1.context.update propagating }, none)

/-- `update_with_protected_keys(self, other, protected_keys=None | explicit set)` -/
def updateWithProtectedKeys (o other : Options) (explicit : Option (List String)) : Options × Option OptErr :=
  match explicit with
  | some pk => updateWith o other pk
  | none => match protectedKeys o with
    | .error e => (o, some e)
    | .ok pk => updateWith o other pk

/-- the conflict scan of `Features.merge_options`: some key of `child.items()` equals a key of `parent.items()`,
is not protected and carries a `!=` value -/
def mergeConflict (parent child : Options) (pk : List String) : Bool :=
  child.items.any (fun kc => parent.items.any (fun kp => kc.1 == kp.1 && !(pk.contains kp.1) && pyNe kc.2 kp.2))

/-- `Features.merge_options(feature_options := parent, child_options := child)` -/
def mergeOptions (parent child : Options) : Options × Option OptErr :=
  match protectedKeys parent with
  | .error e => (parent, some e)
  | .ok pk =>
    if mergeConflict parent child pk then (parent, some .mergeConflict)
    else updateWithProtectedKeys parent child none

/-- the mutating operations of the public surface -/
inductive Op where
  | add (k : String) (v : PyVal)
  | addToGroup (k : String) (v : PyVal)
  | addToContext (k : String) (v : PyVal)
  | set (k : String) (v : PyVal)
  | update (other : Options) (explicit : Option (List String))
  | merge (child : Options)
  deriving Repr, Inhabited

/-- one call: state afterwards and the exception raised (if any) -/
def step (o : Options) : Op → Options × Option OptErr
  | .add k v => o.addToGroup k v
  | .addToGroup k v => o.addToGroup k v
  | .addToContext k v => o.addToContext k v
  | .set k v => (o.setKey k v, none)
  | .update other ex => o.updateWithProtectedKeys other ex
  | .merge child => o.mergeOptions child

/-- a history: every call is made, raised or not (the caller may catch), the object lives on -/
def run (o : Options) : List Op → Options
  | [] => o
  | op :: ops => run (o.step op).1 ops

/-- `Options.__eq__` (group only) -/
def eq (a b : Options) : Bool := pyEq (.dict a.group) (.dict b.group)
/-- the value whose Python hash is `Options.__hash__`: `_make_hashable(self.group)` -/
def hashVal (a : Options) : PyVal := mh (.dict a.group)

/-- the invariant of the docstring: "A key cannot exist in both group and context simultaneously." -/
def Disjoint (o : Options) : Prop := ∀ k, k ∈ keys o.group → k ∉ keys o.context
/-- constructor validation 2: every propagate key is a context key -/
def PropOk (o : Options) : Prop := ∀ k, k ∈ o.propagate → k ∈ keys o.context

end Options
