import MlodaVerif.Gen.TypeTables
/-! C17 - model of `DataTypeValidator.validate`, `Engine.set_data_type` and the propagation of the API strict flag
(`mlodaAPI._process_features`).  The two compatibility tables are *generated* from the code (`Gen.TypeTables`);
`Doc` is the hand-written documented rule (validator docstrings: strict = exact or widening; lenient = same
numeric / timestamp category). -/
open Gen

namespace TypeCheck

/-- documented widening table (strict mode): declared ← admissible actual -/
def Doc.strict (d a : DType) : Bool :=
  d == a ||
  match d, a with
  | .INT64, .INT32 => true
  | .DOUBLE, .FLOAT | .DOUBLE, .INT32 | .DOUBLE, .INT64 => true
  | .TIMESTAMP_MICROS, .TIMESTAMP_MILLIS => true
  | _, _ => false

def Doc.isNumeric : DType → Bool
  | .INT32 | .INT64 | .FLOAT | .DOUBLE => true
  | _ => false
def Doc.isTimestamp : DType → Bool
  | .TIMESTAMP_MILLIS | .TIMESTAMP_MICROS => true
  | _ => false
/-- documented lenient rule: exact, or both numeric, or both timestamp -/
def Doc.lenient (d a : DType) : Bool :=
  d == a || (Doc.isNumeric d && Doc.isNumeric a) || (Doc.isTimestamp d && Doc.isTimestamp a)

/-- one feature as `validate` sees it -/
structure Feat where
  name : String
  declared : Option DType          -- `feature.data_type`
  strictOpt : Option Bool          -- value of options["strict_type_enforcement"]; `none` = key absent / None
  deriving Repr

/-- one column of the produced data: name and its Arrow type; `none` = `from_arrow_type` raises (unsupported) -/
abbrev Col := String × Option DType

inductive Outcome where
  | ok
  | mismatch (col : String) (declared actual : DType)
  deriving DecidableEq, Repr

/-- the body of the `for feature in features.features` loop for one feature: `none` = continue -/
def checkOne (cols : List Col) (f : Feat) : Option Outcome :=
  match f.declared with
  | none => none
  | some d =>
    match cols.find? (fun c => c.1 == f.name) with
    | none => none                              -- `col_name not in data.column_names`
    | some (_, none) => none                    -- unsupported Arrow type: `except ValueError: continue`
    | some (_, some a) =>
      let strict := f.strictOpt.getD false
      let compat := if strict then strictCompat d a else looseCompat d a
      if compat then none else some (.mismatch f.name d a)

/-- `DataTypeValidator.validate`: features are visited in the iteration order of the set; first mismatch raises -/
def validate (cols : List Col) : List Feat → Outcome
  | [] => .ok
  | f :: fs => match checkOne cols f with
    | some o => o
    | none => validate cols fs

/-- the condition under which a feature is in violation of its declaration -/
def Violates (cols : List Col) (f : Feat) : Prop :=
  ∃ d a, f.declared = some d ∧ (∃ c ∈ cols, c.1 = f.name) ∧
    cols.find? (fun c => c.1 == f.name) = some (f.name, some a) ∧
    (if f.strictOpt.getD false then strictCompat d a else looseCompat d a) = false

/-- `mlodaAPI._process_features`: the API-level flag adds the strict option to *typed* features only -/
def propagateStrict (apiStrict : Bool) (f : Feat) : Feat :=
  if apiStrict && f.declared.isSome then { f with strictOpt := some true } else f

/-- `Engine.set_data_type`: request-side declaration vs the group's `return_data_type_rule` -/
def setDataType (requested fg : Option DType) : Except Unit (Option DType) :=
  match requested, fg with
  | some r, some g => if r != g then .error () else .ok (some g)
  | _, some g => .ok (some g)
  | r, none => .ok r

end TypeCheck
