import MlodaVerif.Model.Sched
/-! # Data flow on one shared compute-framework object (C01 "columns present", C02, C06)

All steps of a link-free, single-framework plan are handed the *same* compute-framework object.  A feature-group step
reads `cfw.data` when its calculation begins (`begin i`: snapshot) and writes `cfw.data = <its own extended copy>` when it
ends (`finish i`) - two events, not one.  In SYNC mode and in MULTIPROCESSING mode (one worker process with a FIFO
command queue per compute-framework object) the steps of one object never overlap: `atomic = true` ignores a `begin`
while another step is open.  THREADING has no such guard (`atomic = false`): the lost update is a behaviour of the model.

Columns are feature uuids; the value of a column is computed by `compute c parentsValues` from the values of its direct
parents found in the snapshot (`none` for a missing parent). -/

namespace Exec
open Sched

structure Cfg (V : Type) where
  parents : Nat → List Nat
  compute : Nat → List (Option V) → V       -- value of column c from the values of `parents c` (in that order)

structure ESt (V : Type) where
  s     : St := {}
  store : List (Nat × V) := []               -- `cfw.data` as an association list column ↦ value (first entry wins)
  snaps : List (Nat × List (Nat × V)) := []  -- snapshot taken by each begun step

def lookup {V : Type} (t : List (Nat × V)) (c : Nat) : Option V := (t.find? (fun q => q.1 == c)).map (·.2)

def snapOf {V : Type} (e : ESt V) (i : Nat) : List (Nat × V) :=
  match e.snaps.find? (fun q => q.1 == i) with | some q => q.2 | none => []

/-- a step is open: begun, neither done nor failed -/
def isOpen (s : St) (j : Nat) : Bool := decide (j ∈ s.begun) && !decide (j ∈ s.done) && !decide (j ∈ s.failed)

def anyOpen (s : St) : Bool := s.begun.any (isOpen s)

/-- what the step writes back: its snapshot extended by the columns it computes from the snapshot -/
def written {V : Type} (cfg : Cfg V) (snap : List (Nat × V)) (outs : List Nat) : List (Nat × V) :=
  outs.map (fun c => (c, cfg.compute c ((cfg.parents c).map (lookup snap)))) ++ snap

def estep {V : Type} (cfg : Cfg V) (atomic : Bool) (p : Plan) (e : ESt V) : Ev → ESt V
  | .begin i =>
    if atomic && anyOpen e.s then e                    -- serialised executors never start a second step on the object
    else
      let s' := stepEv p e.s (.begin i)
      if i ∈ s'.begun ∧ i ∉ e.s.begun then { e with s := s', snaps := (i, e.store) :: e.snaps } else { e with s := s' }
  | .finish i =>
    let s' := stepEv p e.s (.finish i)
    if i ∈ s'.done ∧ i ∉ e.s.done then
      { e with s := s', store := written cfg (snapOf e i) (outsOf' p i) }
    else { e with s := s' }
  | ev => { e with s := stepEv p e.s ev }
where outsOf' (p : Plan) (i : Nat) : List Nat := match p[i]? with | some st => st.outs | none => []

def erun {V : Type} (cfg : Cfg V) (atomic : Bool) (p : Plan) (e : ESt V) (evs : List Ev) : ESt V :=
  evs.foldl (estep cfg atomic p) e

def einit {V : Type} : ESt V := {}

/-- reference evaluation: a valuation `ref` is *the* bottom-up evaluation when every column's value is `compute` of its
parents' reference values -/
def IsRef {V : Type} (cfg : Cfg V) (ref : Nat → V) : Prop :=
  ∀ c, ref c = cfg.compute c ((cfg.parents c).map (fun a => some (ref a)))

end Exec
