import MlodaVerif.Model.PyRtObj
/-! # Run-time library, part 5: shared `set` objects (references into a heap), dicts with arbitrary keys, list primitives

Used by `Gen/LinkOrderGen.lean` and `Gen/PlanGen.lean` (harness/extractors/pytrans_links.py, pytrans_plan.py).  Core Lean only.

* **`SHeap`** - Python `set` objects that can be SHARED between containers (`LinkTrekker.data[k]` and `data_ordered[k]` hold the same
  object after `create_data_ordered`) are REFERENCES (`Nat` handles, spec type "sref") into the heap of set objects, a world variable
  `sheap` that every translated function which touches a set takes and (when it writes) returns.  A handle is an index into the list of
  objects; allocation appends.  `add` / `remove` / `in` / `len` / iteration go through the heap, so a mutation made through one
  container is seen through every other container that holds the same handle - aliasing is not an assumption of the translation
  but its result.
* **`KDict K V`** - an insertion-ordered dict (`dict`, `OrderedDict`, `defaultdict`) whose keys are of any type with decidable
  equality (uuids, tuples `(Link, framework, framework)`, positions): the association list of its items; an existing key keeps its place,
  a new key goes to the end, `move_to_end` puts the item last, `OrderedDict(items)` re-inserts the items in order.
  `KDict.read` is the READ `d[k]` of a `defaultdict(set)`: a missing key is inserted with a freshly allocated empty set. -/
namespace PyRt

/-! ### the heap of set objects -/

abbrev SHeap := List PSet

/-- the object a handle refers to (a handle that was never allocated: the empty set - not reached by translated code) -/
def SHeap.get (h : SHeap) (r : Nat) : PSet := h.getD r []

/-- `set()` / `{x}` / the default factory of a `defaultdict(set)`: a new object -/
def SHeap.alloc (h : SHeap) (s : PSet) : Nat × SHeap := (h.length, h ++ [s])

/-- `r.add(x)` -/
def SHeap.add (h : SHeap) (r x : Nat) : SHeap := h.set r (PSet.add (h.get r) x)

/-- `r.remove(x)` (KeyError when `x` is not an element) -/
def SHeap.remove (h : SHeap) (r x : Nat) : Except PyExc SHeap :=
  if x ∈ h.get r then .ok (h.set r ((h.get r).filter (· ≠ x))) else .error .keyError

/-- `x in r` -/
def SHeap.has (h : SHeap) (r x : Nat) : Bool := PSet.has (h.get r) x

/-- `len(r)` -/
def SHeap.len (h : SHeap) (r : Nat) : Nat := (h.get r).length

/-! ### dicts with arbitrary keys -/

abbrev KDict (K V : Type) := List (K × V)

section
variable {K V : Type} [DecidableEq K]

/-- `d.keys()` / iterating `d` -/
def KDict.keys (d : KDict K V) : List K := d.map (·.1)

/-- `d.get(k)` -/
def KDict.get? : KDict K V → K → Option V
  | [], _ => none
  | e :: r, k => if e.1 = k then some e.2 else KDict.get? r k

/-- `k in d` -/
def KDict.has (d : KDict K V) (k : K) : Bool := decide (k ∈ KDict.keys d)

/-- `d[k]` on a plain dict -/
def KDict.getItem (d : KDict K V) (k : K) : Except PyExc V :=
  match KDict.get? d k with
  | some v => .ok v
  | none => .error .keyError

/-- `d[k] = v`: an existing key keeps its position, a new key goes to the end -/
def KDict.set (d : KDict K V) (k : K) (v : V) : KDict K V :=
  if k ∈ KDict.keys d then d.map (fun e => if e.1 = k then (e.1, v) else e) else d ++ [(k, v)]

/-- `del d[k]` (KeyError when `k` is not a key) -/
def KDict.delItem (d : KDict K V) (k : K) : Except PyExc (KDict K V) :=
  if k ∈ KDict.keys d then .ok (d.filter (fun e => e.1 ≠ k)) else .error .keyError

/-- `OrderedDict.move_to_end(k)` (KeyError when `k` is not a key) -/
def KDict.moveToEnd (d : KDict K V) (k : K) : Except PyExc (KDict K V) :=
  if k ∈ KDict.keys d then .ok (d.filter (fun e => e.1 ≠ k) ++ d.filter (fun e => e.1 = k)) else .error .keyError

/-- `OrderedDict(items)` / `dict(items)`: the items are inserted in order (a repeated key keeps its first place, last value) -/
def KDict.ofItems (l : List (K × V)) : KDict K V := l.foldl (fun d e => KDict.set d e.1 e.2) []

/-- the READ `d[k]` of a `defaultdict(set)` whose values are set objects: the handle; a missing key is inserted with a new empty set -/
def KDict.read (d : KDict K Nat) (k : K) (h : SHeap) : Nat × KDict K Nat × SHeap :=
  match KDict.get? d k with
  | some r => (r, d, h)
  | none => (h.length, d ++ [(k, h.length)], h ++ [[]])

/-- `deepcopy(d)` of a dict of set objects: the contents at this moment, as values -/
def KDict.snapshot (d : KDict K Nat) (h : SHeap) : KDict K PSet := d.map (fun e => (e.1, SHeap.get h e.2))

/-- `d[k].add(x)` on a LOCAL `defaultdict(set)` whose sets hold records (values; the dict does not escape) -/
def KDict.addAt {E : Type} [DecidableEq E] (d : KDict K (List E)) (k : K) (x : E) : KDict K (List E) :=
  if k ∈ KDict.keys d then d.map (fun e => if e.1 = k then (e.1, if x ∈ e.2 then e.2 else e.2 ++ [x]) else e) else d ++ [(k, [x])]

end

/-! ### lists -/

/-- `enumerate(l)` -/
def PyList.enumerate {α : Type} (l : List α) : List (Nat × α) := (List.range l.length).zip l

/-- `l.insert(pos, x)` for `pos ≥ 0` (a position beyond the end appends) -/
def PyList.insert {α : Type} (l : List α) (pos : Nat) (x : α) : List α := l.take pos ++ [x] ++ l.drop pos

/-- `max(l)` (ValueError on an empty sequence) -/
def PyList.max : List Nat → Except PyExc Nat
  | [] => .error (.valueError "max() arg is an empty sequence")
  | x :: r => .ok (r.foldl Nat.max x)

/-- `range(a, b)` -/
def PyList.range (a b : Nat) : List Nat := List.range' a (b - a)

/-- `s.add(x)` on a set of records (a value) -/
def PyList.addE {E : Type} [DecidableEq E] (s : List E) (x : E) : List E := if x ∈ s then s else s ++ [x]

/-- `x[i]` on an `Optional` tuple: `None[i]` is a TypeError -/
def Opt.derefSub {α : Type} : Option α → Except PyExc α
  | some a => .ok a
  | none => .error (.typeError "'NoneType' object is not subscriptable")

end PyRt
