/-! # Which compute-framework object a step reads and writes (C02, extension `cfw`)

Model of `mloda/core/core/cfw_manager.py` (`CfwManager`) and of the object placement in
`mloda/core/runtime/compute_framework_executor.py` (`ComputeFrameworkExecutor`), statement by statement.

* uuids, class names, artifact names, api_data keys are `Nat` ids;
* a Python `dict` is an association list in insertion order (`dget` / `dset`); the only dict whose iteration order the
  code observes is `compute_frameworks` (`get_cfw_uuid` returns at the first match);
* a Python `set` whose iteration order the code observes (`step.tfs_ids`, `step.required_uuids`,
  `next(iter(step.left_framework_uuids))`, …) is a `List` in the real iteration order, given by the caller; sets that are
  only tested for membership (`children_if_root`) are lists read through `∈`;
* every `raise` / `KeyError` / `StopIteration` of the code is an `Err`; the `while` of `find_leftmost` takes fuel = number of
  executions of the loop body, and running out of it (`Err.fuel`) means that the real call never returns;
* `uuid4()` is an explicit argument `fresh`.
-/
namespace CfwReg

abbrev Uuid := Nat
abbrev Cls := Nat

inductive Err where
  | dupUuid        -- ValueError "UUID … already exists in compute_frameworks"
  | noCfw          -- ValueError "No compute framework registered."                (get_initialized_compute_framework_uuid)
  | keyError       -- KeyError of an unguarded dict subscript
  | fuel           -- the `while` of find_leftmost did not end: the real call spins
  | anyUuidNone    -- ValueError "from_feature_uuid should not be none."           (FeatureGroupStep, any_uuid is None)
  | tfsNoSource    -- ValueError "from_feature_uuid or from_cfw_uuid should not be none."
  | stopIteration  -- next(iter(<empty set>))
  | notOccur       -- ValueError "This should not occur."
  | fromNone       -- ValueError "cfw_uuid should not be none in prepare_tfs" / "from_cfw_uuid should not be none"
  | dupArtifact    -- ValueError "Artifact name … already exists."
  | noApiData      -- ValueError "No api data set."
  | apiKeyMissing  -- ValueError "Api data with key … not found."
  deriving DecidableEq, Repr

/-! ### Python dicts -/

def dget {V : Type} : List (Nat × V) → Nat → Option V
  | [], _ => none
  | (k', v') :: t, k => if k' == k then some v' else dget t k

/-- `d[k] = v`: an existing key keeps its position, a new key goes to the end -/
def dset {V : Type} : List (Nat × V) → Nat → V → List (Nat × V)
  | [], k, v => [(k, v)]
  | (k', v') :: t, k, v => if k' == k then (k, v) :: t else (k', v') :: dset t k v

/-! ### CfwManager -/

/-- value of `compute_frameworks[uuid]`: `(cfw class name, children_if_root)` -/
structure Obj where
  cls      : Cls
  children : List Uuid
  deriving DecidableEq, Repr

abbrev Rel := List (Uuid × (Uuid × Cls))     -- `cfw_merge_relation`: right ↦ (left, cls_name)

structure Reg where
  cfws      : List (Uuid × Obj) := []                   -- `compute_frameworks`, insertion order = iteration order
  rel       : Rel := []
  location  : Option Nat := none                        -- `some 0` is the empty string (falsy)
  error     : Bool := false
  msg       : Option Nat := none                        -- `Any`; `none` = Python None
  exc       : Option Nat := none
  colNames  : List (Uuid × List Nat) := []              -- `uuid_column_names`
  flyway    : List (Uuid × List Uuid) := []             -- `uuid_flyway_datasets`
  artifacts : List (Nat × Nat) := []                    -- `artifact_to_save`
  apiData   : Option (List (Nat × Option Nat)) := none  -- `api_data`: None or a dict whose values may be None / falsy (0)
  deriving Repr

/-- the `while` of `find_leftmost`; `u` is the current `uuid`, `p = cfw_merge_relation[uuid][0]`, `lm = leftmost_uuid`.
One unit of fuel per execution of the loop body. -/
def leftLoop (rel : Rel) (c : Cls) : Nat → Uuid → Uuid → Uuid → Except Err Uuid
  | 0, u, p, lm => if p == u then .ok lm else .error .fuel
  | n + 1, u, p, lm =>
    if p == u then .ok lm
    else match dget rel p with                            -- uuid = rel[uuid][0];  rel[uuid][1]
      | none => .error .keyError
      | some (pp, cl) => leftLoop rel c n p pp (if cl == c then p else lm)

/-- `find_leftmost(uuid, cls_name)` -/
def findLeftmost (rel : Rel) (fuel : Nat) (u : Uuid) (c : Cls) : Except Err Uuid :=
  match dget rel u with
  | none => .ok u                                          -- `if uuid not in self.cfw_merge_relation: return uuid`
  | some (p, _) => leftLoop rel c fuel u p u

/-- the test of the `for` in `get_cfw_uuid` -/
def hit (c : Cls) (f : Uuid) (q : Uuid × Obj) : Bool := q.2.cls == c && q.2.children.contains f

/-- `get_cfw_uuid(cf_class_name, feature_uuid)`: first registered object (registration order) of that class whose
`children_if_root` contains the feature uuid, then `find_leftmost` from it -/
def getCfwUuid (r : Reg) (fuel : Nat) (c : Cls) (f : Uuid) : Except Err (Option Uuid) :=
  match r.cfws.find? (hit c f) with
  | none => .ok none
  | some q => (findLeftmost r.rel fuel q.1 c).map some

/-- `get_initialized_compute_framework_uuid` -/
def getInitialized (r : Reg) (fuel : Nat) (c : Cls) (f : Uuid) : Except Err Uuid :=
  match getCfwUuid r fuel c f with
  | .error e => .error e
  | .ok none => .error .noCfw
  | .ok (some u) => .ok u

/-- `add_to_merge_relation(left_uuid, right_uuid, cls_name)` on the relation -/
def addRel (rel : Rel) (l rt : Uuid) (c : Cls) : Rel :=
  let rel1 := dset rel rt (l, c)
  if (dget rel1 l).isSome then rel1 else dset rel1 l (l, c)

def addMerge (r : Reg) (l rt : Uuid) (c : Cls) : Reg := { r with rel := addRel r.rel l rt c }

/-- `add_cfw_to_compute_frameworks`: `if self.compute_frameworks.get(uuid): raise` - the stored value is a non-empty
tuple, hence truthy whenever the key exists -/
def addCfw (r : Reg) (u : Uuid) (c : Cls) (ch : List Uuid) : Except Err Reg :=
  if (dget r.cfws u).isSome then .error .dupUuid else .ok { r with cfws := dset r.cfws u ⟨c, ch⟩ }

/-- `set_location`: `if not self.location:` - None and the empty string are both replaced -/
def setLocation (r : Reg) (loc : Nat) : Reg :=
  match r.location with
  | none => { r with location := some loc }
  | some 0 => { r with location := some loc }
  | some _ => r

def setError (r : Reg) (m e : Option Nat) : Reg := { r with error := true, msg := m, exc := e }

def setArtifact (r : Reg) (n a : Nat) : Except Err Reg :=
  if (dget r.artifacts n).isSome then .error .dupArtifact else .ok { r with artifacts := dset r.artifacts n a }

def setApiData (r : Reg) (d : Option (List (Nat × Option Nat))) : Reg := { r with apiData := d }

/-- `get_api_data_by_name`: `api_data.get(key, None)`, then `if api_data is None: raise` -/
def getApiData (r : Reg) (k : Nat) : Except Err Nat :=
  match r.apiData with
  | none => .error .noApiData
  | some d =>
    match dget d k with
    | none => .error .apiKeyMissing           -- key absent
    | some none => .error .apiKeyMissing      -- key present, value None: same error
    | some (some v) => .ok v                  -- any other value, falsy ones (0) included

def addColNames (r : Reg) (u : Uuid) (cs : List Nat) : Reg := { r with colNames := dset r.colNames u cs }
def getColNames (r : Reg) (u : Uuid) : Except Err (List Nat) :=
  match dget r.colNames u with | none => .error .keyError | some cs => .ok cs
def addFlyway (r : Reg) (u : Uuid) (ds : List Uuid) : Reg := { r with flyway := dset r.flyway u ds }
def getFlyway (r : Reg) (u : Uuid) : Option (List Uuid) := dget r.flyway u

/-! ### operation histories on a CfwManager -/

inductive Op where
  | register (u : Uuid) (c : Cls) (ch : List Uuid)
  | lookup (c : Cls) (f : Uuid)
  | lookupInit (c : Cls) (f : Uuid)
  | merge (l rt : Uuid) (c : Cls)
  | leftmost (u : Uuid) (c : Cls)
  | setLocation (loc : Nat)
  | setError (m e : Option Nat)
  | setArtifact (n a : Nat)
  | setApiData (d : Option (List (Nat × Option Nat)))
  | getApiData (k : Nat)
  | addColNames (u : Uuid) (cs : List Nat)
  | getColNames (u : Uuid)
  | addFlyway (u : Uuid) (ds : List Uuid)
  | getFlyway (u : Uuid)
  deriving Repr

/-- what a call returns -/
inductive Ret where
  | unit
  | uuid (u : Option Uuid)
  | nat (n : Nat)
  | nats (l : Option (List Nat))
  | err (e : Err)
  deriving DecidableEq, Repr

/-- one call; a call that raises leaves the state as it was.  Fuel of the look-ups = size of the merge relation. -/
def applyOp (r : Reg) : Op → Reg × Ret
  | .register u c ch => match addCfw r u c ch with | .ok r' => (r', .unit) | .error e => (r, .err e)
  | .lookup c f => match getCfwUuid r r.rel.length c f with | .ok u => (r, .uuid u) | .error e => (r, .err e)
  | .lookupInit c f => match getInitialized r r.rel.length c f with | .ok u => (r, .uuid (some u)) | .error e => (r, .err e)
  | .merge l rt c => (addMerge r l rt c, .unit)
  | .leftmost u c => match findLeftmost r.rel r.rel.length u c with | .ok v => (r, .uuid (some v)) | .error e => (r, .err e)
  | .setLocation loc => (setLocation r loc, .unit)
  | .setError m e => (setError r m e, .unit)
  | .setArtifact n a => match setArtifact r n a with | .ok r' => (r', .unit) | .error e => (r, .err e)
  | .setApiData d => (setApiData r d, .unit)
  | .getApiData k => match getApiData r k with | .ok v => (r, .nat v) | .error e => (r, .err e)
  | .addColNames u cs => (addColNames r u cs, .unit)
  | .getColNames u => match getColNames r u with | .ok cs => (r, .nats (some cs)) | .error e => (r, .err e)
  | .addFlyway u ds => (addFlyway r u ds, .unit)
  | .getFlyway u => (r, .nats (getFlyway r u))

def runOps (r : Reg) (ops : List Op) : Reg := ops.foldl (fun r o => (applyOp r o).1) r

/-! ### ComputeFrameworkExecutor -/

structure Exe where
  reg  : Reg := {}
  coll : List (Uuid × Obj) := []     -- `cfw_collection`: uuid ↦ the object (its class, its frozen `children_if_root`)
  deriving Repr

/-- `init_compute_framework(cf_class, mode, children_if_root, uuid)`; the new object is registered first (may raise), then
put into the collection -/
def initCfw (x : Exe) (c : Cls) (ch : List Uuid) (u : Uuid) : Except Err (Uuid × Exe) :=
  match addCfw x.reg u c ch with
  | .error e => .error e
  | .ok r' => .ok (u, { reg := r', coll := dset x.coll u ⟨c, ch⟩ })

/-- `get_cfw(compute_framework, feature_uuid)`: the object's uuid (the code returns `self.cfw_collection[cfw_uuid]`) -/
def getCfw (x : Exe) (fuel : Nat) (c : Cls) (f : Uuid) : Except Err Uuid :=
  match getInitialized x.reg fuel c f with
  | .error e => .error e
  | .ok u => match dget x.coll u with | none => .error .keyError | some _ => .ok u

/-- the three step kinds, with exactly the fields `prepare_execute_step` / `prepare_tfs_and_joinstep` read -/
inductive Step where
  | fg (cls : Cls) (tfsIds : List Uuid) (anyUuid : Option Uuid) (childrenIfRoot : List Uuid)
  | tfs (fromCls toCls : Cls) (required : List Uuid) (linkId : Option Uuid) (uuid : Uuid) (rightUuid : Option Uuid)
  | join (leftCls : Cls) (leftUuids : List Uuid) (linkUuid : Uuid) (rightUuids : List Uuid)
  deriving Repr

/-- `for x in xs: u = get_cfw_uuid(c, x); if u: return/break` - first hit in iteration order, with the element that hit -/
def firstHit (r : Reg) (fuel : Nat) (c : Cls) : List Uuid → Except Err (Option (Uuid × Uuid))
  | [] => .ok none
  | x :: xs =>
    match getCfwUuid r fuel c x with
    | .error e => .error e
    | .ok (some u) => .ok (some (x, u))
    | .ok none => firstHit r fuel c xs

def setAdd (l : List Uuid) (x : Uuid) : List Uuid := if l.contains x then l else l ++ [x]

/-- `childrens = set(from_cfw.children_if_root)`; `if step.link_id: childrens.add(step.link_id)` -/
def tfsChildren (ch : List Uuid) : Option Uuid → List Uuid
  | some l => setAdd ch l
  | none => ch

/-- `prepare_execute_step(step, mode)`: the uuid of the object the step will work on, and the executor afterwards -/
def prepareExecuteStep (x : Exe) (fuel : Nat) (fresh : Uuid) : Step → Except Err (Uuid × Exe)
  | .fg c tfsIds anyUuid ch =>
    match firstHit x.reg fuel c tfsIds with
    | .error e => .error e
    | .ok (some (_, u)) => .ok (u, x)
    | .ok none =>
      match anyUuid with
      | none => .error .anyUuidNone
      | some a =>
        -- add_compute_framework
        match getCfwUuid x.reg fuel c a with
        | .error e => .error e
        | .ok (some u) => .ok (u, x)
        | .ok none => initCfw x c ch fresh
  | .tfs fromCls toCls required linkId uuid _ =>
    match firstHit x.reg fuel fromCls required with
    | .error e => .error e
    | .ok none => .error .tfsNoSource
    | .ok (some (_, fromUuid)) =>
      match dget x.coll fromUuid with
      | none => .error .keyError                       -- self.cfw_collection[from_cfw_uuid]
      | some fromObj =>
        initCfw x toCls (tfsChildren fromObj.children linkId) uuid
  | .join leftCls leftUuids _ _ =>
    match leftUuids with
    | [] => .error .stopIteration
    | f :: _ =>
      match getCfwUuid x.reg fuel leftCls f with
      | .error e => .error e
      | .ok none => .error .notOccur
      | .ok (some u) => .ok (u, x)

/-- `prepare_tfs_and_joinstep(step)`: uuid of the object the step reads from (`none` for a feature-group step) -/
def prepareFrom (x : Exe) (fuel : Nat) : Step → Except Err (Option Uuid)
  | .fg .. => .ok none
  | .tfs fromCls _ required _ _ rightUuid =>
    -- prepare_tfs_right_cfw
    let pick : Except Err Uuid := match rightUuid with
      | some r => .ok r
      | none => match required with | [] => .error .stopIteration | r :: _ => .ok r
    match pick with
    | .error e => .error e
    | .ok u =>
      match getCfwUuid x.reg fuel fromCls u with
      | .error e => .error e
      | .ok none => .error .fromNone
      | .ok (some v) => match dget x.coll v with | none => .error .keyError | some _ => .ok (some v)
  | .join leftCls _ linkUuid rightUuids =>
    match getCfwUuid x.reg fuel leftCls linkUuid with
    | .error e => .error e
    | .ok (some v) => match dget x.coll v with | none => .error .keyError | some _ => .ok (some v)
    | .ok none =>
      match rightUuids with
      | [] => .error .stopIteration
      | r :: _ =>
        match getCfwUuid x.reg fuel leftCls r with
        | .error e => .error e
        | .ok none => .error .fromNone
        | .ok (some v) => match dget x.coll v with | none => .error .keyError | some _ => .ok (some v)

/-- `_get_execution_function`: intersection of the modes of the register and of the step; MULTIPROCESSING before
THREADING before SYNC (also when the intersection is empty) -/
inductive Mode where | sync | thread | mp
  deriving DecidableEq, Repr

def executionFunction (regModes stepModes : List Mode) : Mode :=
  let modes := regModes.filter (fun m => stepModes.contains m)
  if modes.contains .mp then .mp else if modes.contains .thread then .thread else .sync

/-- what executing a step does to the register in SYNC mode as far as placement is concerned: a join step records
`add_to_merge_relation(cfw.uuid, from_cfw.uuid, cfw.get_class_name())`, the other kinds change nothing -/
def afterExecute (x : Exe) (st : Step) (cfw : Uuid) (fromCfw : Option Uuid) : Exe :=
  match st, fromCfw, dget x.coll cfw with
  | .join .., some f, some o => { x with reg := addMerge x.reg cfw f o.cls }
  | _, _, _ => x

/-- a sequence of feature-group steps, each prepared in turn (`fresh i` = the uuid4 drawn for the i-th step); the uuids
handed out, in order -/
def placeAll (x : Exe) (fuel : Nat) : List (Step × Uuid) → Except Err (List Uuid × Exe)
  | [] => .ok ([], x)
  | (st, fresh) :: rest =>
    match prepareExecuteStep x fuel fresh st with
    | .error e => .error e
    | .ok (u, x') =>
      match placeAll x' fuel rest with
      | .error e => .error e
      | .ok (us, x'') => .ok (u :: us, x'')

end CfwReg
