import MlodaVerif.Model.EngineColl
import MlodaVerif.Model.Select
/-! # A `World` given by finite tables (what the generated feature-group classes of the harness answer)

`tableWorld` implements the parameters of `Model/EngineColl.lean` for classes built from a declarative spec:
* `match_feature_group_criteria` = the base name (`name.split("~")[0]`) is one of `criteria` (DataCreator columns / `feature_names_supported`);
* `set_feature_name` = the default implementation (`Select.setFeatureName` on `supported`);
* `IdentifyFeatureGroupClass` without the subclass filter (generated classes are unrelated): criteria, domain, framework, links, non-empty
  accessible frameworks; exactly one candidate;
* `return_data_type_rule` = a table on the (renamed) feature name; `input_features` = a table on the base name, a template may take over the
  feature's own options (`pass`); `next(iter(frameworks))` = a table on the framework sets that occur (observed in the checking process). -/
namespace EngineWorld
open EngineColl

structure TSpec where
  feat : Feat
  pass : Bool
  deriving Repr

structure GSpec where
  criteria : List Name
  supported : List Name
  dom : Nat
  cfws : List Nat
  index : Option (List (List Name))
  types : List (Name × Nat)
  inputs : Option (List (Name × List TSpec))
  /-- observed `list(set)` orders: (base name, group options, context of the calling feature) ↦ positions of the templates -/
  orders : List ((Name × Opts × Opts) × List Nat)
  deriving Repr

structure Spec where
  groups : List GSpec
  filters : Option (List Filt)
  picks : List (List Nat × Nat)
  scans : List (List Nat)
  morders : List (List Nat)
  deriving Repr

/-- `Index.is_a_part_of_` -/
def isPartOf (a b : List Name) : Bool := a.isPrefixOf b

/-- `FeatureGroup.supports_index` when `index_columns()` is not `None` -/
def supportsIndex (ixs : List (List Name)) (ix : List Name) : Bool := ixs.any (isPartOf ix)

def pickOf (s : Spec) (l : List Nat) : Nat :=
  match s.picks.find? (fun p => p.1 == l) with
  | some p => p.2
  | none => l.headD 0

/-- `_filter_feature_group_by_links` -/
def linksOk (g : GSpec) (links : Option (List Link)) : Bool :=
  match g.index, links with
  | none, _ => true
  | _, none => true
  | some ixs, some ls => ls.any (fun l => supportsIndex ixs l.li || supportsIndex ixs l.ri)

/-- the three filters of `_filter_loop` before the framework filter -/
def preCand (g : GSpec) (k : Key) : Bool :=
  g.criteria.contains (Select.baseName k.name) && (match k.dom with | none => true | some d => g.dom == d)

def fwOk (s : Spec) (g : GSpec) (k : Key) : Bool :=
  match k.cfw with
  | none => true
  | some l => g.cfws.contains (pickOf s l)

def resolve (s : Spec) (links : Option (List Link)) (k : Key) : Except Err (Nat × List Nat) :=
  let idx := List.range s.groups.length
  let pre := idx.filter (fun i => match s.groups[i]? with | some g => preCand g k | none => false)
  if !pre.isEmpty && (match k.cfw with | some l => decide (l.length > 1) | none => false) then .error .multiCfw
  else
    match pre.filter (fun i => match s.groups[i]? with
        | some g => fwOk s g k && linksOk g links && !g.cfws.isEmpty | none => false) with
    | [] => .error .noGroup
    | [i] => (match s.groups[i]? with | some g => .ok (i, g.cfws) | none => .error .noGroup)
    | _ => .error .multiGroup

def gspec (s : Spec) (g : Nat) : GSpec :=
  (s.groups[g]?).getD { criteria := [], supported := [], dom := 0, cfws := [], index := none, types := [], inputs := none, orders := [] }

def inputsOf (s : Spec) (g : Nat) (k : Key) : Option (List Feat) :=
  match (gspec s g).inputs with
  | none => none
  | some tbl =>
    match tbl.find? (fun p => p.1 == Select.baseName k.name) with
    | none => none
    | some p =>
      let ts := p.2.map (fun t => if t.pass then { t.feat with key := { t.feat.key with grp := k.grp, ctx := k.ctx } } else t.feat)
      match (gspec s g).orders.find? (fun o => o.1 == (Select.baseName k.name, k.grp, k.ctx)) with
      | some o => some (o.2.filterMap (fun i => ts[i]?))
      | none => some ts

def tableWorld (s : Spec) : World where
  resolve := resolve s
  setName := fun g k => Select.setFeatureName (gspec s g).supported k.name
  typeRule := fun g k => ((gspec s g).types.find? (fun p => p.1 == k.name)).map (·.2)
  inputs := inputsOf s
  indexCols := fun g => (gspec s g).index
  groupDom := fun g => (gspec s g).dom
  criteria := fun g k => (gspec s g).criteria.contains (Select.baseName k.name)
  pick := pickOf s
  filters := s.filters
  scanOrd := fun n => s.scans[n]?
  matchOrd := fun n => s.morders[n]?

/-- a group that matches every name and whose `input_features(name)` is `{Feature(name + "q")}`: infinitely many pairwise different
features, the recursion of the real engine has no bound (RecursionError) -/
def chainWorld : World where
  resolve := fun _ _ => .ok (0, [0])
  setName := fun _ k => k.name
  typeRule := fun _ _ => none
  inputs := fun _ k => some [{ key := { name := k.name ++ [113], grp := [], ctx := [], dom := none, cfw := none, dtype := none, child := none },
                               req := false, uuid := 0, link := none }]
  indexCols := fun _ => none
  groupDom := fun _ => 0
  criteria := fun _ _ => true
  pick := fun l => l.headD 0
  filters := none
  scanOrd := fun _ => none
  matchOrd := fun _ => none

def chainRequest : List Feat :=
  [{ key := { name := [113], grp := [], ctx := [], dom := none, cfw := none, dtype := none, child := none }, req := true, uuid := 0, link := none }]

end EngineWorld
