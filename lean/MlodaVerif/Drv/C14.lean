import MlodaVerif.Drv.Util
import MlodaVerif.Model.Transform
open Lean Transform
namespace Drv.C14

/-! The generic model is instantiated at `F := String` (qualified type names), so that the harness can drive it with
the installed registry in its real dict order and with synthetic registries alike. -/

def tr (j : Json) : Tr String :=
  match asArr j with
  | [n, a, b] => ⟨asStr n, asStr a, asStr b⟩
  | _ => ⟨"?", "?", "?"⟩

def trsOf (j : Json) : List (Tr String) := (arrF j "trs").map tr

def regOf (j : Json) : Registry String :=
  let trs := trsOf j
  (arrF j "reg").filterMap (fun e =>
    match asArr e with
    | [a, b, n] => (trs.find? (fun t => t.name == asStr n)).map (fun t => ((asStr a, asStr b), t))
    | _ => none)

def errName : Err → String
  | .conflict => "conflict" | .sameFramework => "sameFramework" | .unsupported => "unsupported"
  | .noOrientation => "noOrientation" | .noPath => "noPath" | .unboundTarget => "unboundTarget"
  | .illTyped => "illTyped" | .hop m => s!"hop:{m}"

def orientName : Orient → String
  | .left => "left" | .right => "right"

/-- symbolic hop: records (transformer, orientation) as an extra column name -/
def symSem : Sem String := fun t dir tb => .ok (some (tb ++ [⟨s!"{t.name}:{orientName dir}", []⟩]))

def outcome (r : Except Err (Option (Data String))) : Json :=
  match r with
  | .error e => jObj [("err", errName e)]
  | .ok none => jObj [("none", true)]
  | .ok (some d) => jObj [("ty", d.ty), ("hops", jStrs (d.tbl.map (·.name)))]

def cell (j : Json) : Cell :=
  match asArr j with
  | [k] => match asStr k with
    | "null" => .null | "nan" => .nan | "negzero" => .negZero | "inf" => .posInf | "ninf" => .negInf | _ => .null
  | [k, v] => match asStr k with
    | "int" => .int ((asStr v).toInt?.getD 0)
    | "str" => .str (asStr v)
    | "bool" => .bool (asBool v)
    | _ => .null
  | [k, n, d] => match asStr k with
    | "flt" => .flt (mkRat ((asStr n).toInt?.getD 0) ((asStr d).toNat?.getD 1))
    | _ => .null
  | _ => .null

def table (j : Json) : Table := (asArr j).map (fun c => ⟨strF c "name", (arrF c "cells").map cell⟩)

def cellJ : Cell → Json
  | .null => jArr ["null"] | .nan => jArr ["nan"] | .negZero => jArr ["negzero"] | .posInf => jArr ["inf"] | .negInf => jArr ["ninf"]
  | .int i => jArr ["int", Json.str (toString i)]
  | .flt q => jArr ["flt", Json.str (toString q.num), Json.str (toString q.den)]
  | .str s => jArr ["str", Json.str s]
  | .bool b => jArr ["bool", Json.bool b]

def tableJ (t : Table) : Json := jArr (t.map (fun c => jObj [("name", c.name), ("cells", jArr (c.cells.map cellJ))]))

def handle (op : String) (j : Json) : Json :=
  let reg := regOf j
  let pa := optStr (fld j "pa")
  let d : Data String := ⟨strF j "dty", []⟩
  match op with
  | "chain" =>
    match getTransformationChain reg pa (strF j "from") (strF j "to") with
    | none => Json.null
    | some c => jStrs (c.map (·.name))
  | "orient" =>
    match identifyOrientation (tr (fld j "tr")) (strF j "f") (strF j "o") with
    | .error e => Json.str s!"err:{errName e}"
    | .ok none => Json.null
    | .ok (some o) => Json.str (orientName o)
  | "tfs" => outcome (tfsTransform reg pa symSem (strF j "from") (strF j "to") (some d))
  | "cfw" =>
    match cfwTransform reg symSem (strF j "expected") d with
    | .error e => jObj [("err", errName e)]
    | .ok d' => outcome (.ok (some d'))
  | "upload" => outcome (uploadTable reg symSem (pa.getD "") d)
  | "convertBack" => outcome (convertBack reg symSem (pa.getD "") (strF j "expected") d)
  | "flight" => outcome (flightRoundTrip reg symSem (pa.getD "") (strF j "expected") d)
  | "tfsFlight" => outcome (tfsExecuteFlight reg symSem (pa.getD "") (strF j "from") (strF j "to") d)
  | "init" =>
    let ts := (arrF j "adds").map (fun a => (tr (fld a "tr"), boolF a "imp"))
    match initRegistry ts [] with
    | .error e => jObj [("err", errName e)]
    | .ok r => jObj [("items", jArr (r.map (fun e => jArr [Json.str e.1.1, Json.str e.1.2, Json.str e.2.name])))]
  | "approx" => Json.bool (decide (table (fld j "a") ≈ₜ table (fld j "b")))
  | "norm" => tableJ (normTable (table (fld j "a")))
  | "installed" =>
    jObj [("reg", jArr (Installed.reg.map (fun e => jArr [Json.str e.1.1.name, Json.str e.1.2.name, Json.str e.2.name]))),
          ("trs", jArr (Installed.trs.map (fun t => jArr [Json.str t.name, Json.str t.fw.name, Json.str t.other.name]))),
          ("pa", Json.str Gen.paTable.name),
          ("fws", jArr (Gen.computeFrameworks.map (fun p => jArr [Json.str p.1, Json.str p.2.name])))]
  | _ => jErr s!"C14: unknown op {op}"

end Drv.C14
