import MlodaVerif.Drv.Util
import MlodaVerif.Drv.C12
import MlodaVerif.Model.JoinPlan
open Lean Rel JoinPlan
namespace Drv.C05

def reqOf (j : Json) : Option Req := do
  let t ← JoinType.ofPyName? (strF j "t")
  pure { t := t, lidx := strsF j "lidx", ridx := strsF j "ridx", lf := natF j "lf", rf := natF j "rf", cfws := natsF j "cfws" }

def jSide : Side → Json
  | .left => "left"
  | .right => "right"

def jReads : Reads → Json
  | .merged => "merged"
  | .only s => jObj [("only", jSide s)]

def jErrK : Err → Json
  | .noFramework => "noFramework"
  | .rightSameFw => "rightSameFw"

def jPlan (p : Plan) : Json :=
  jObj [("consumerFw", toJson p.consumerFw), ("execFw", toJson p.execFw), ("first", jSide p.first),
        ("transforms", Json.bool p.transforms), ("reads", jReads p.reads)]

def handle (op : String) (j : Json) : Json :=
  match op with
  | "plan" =>
    match reqOf j with
    | none => jErr "bad request"
    | some r => match plan r with
      | .error e => jObj [("reject", jErrK e)]
      | .ok p => jObj [("plan", jPlan p), ("sidesPreserved", Json.bool (decide (SidesPreserved r)))]
  | "e2e" =>
    match reqOf j with
    | none => jErr "bad request"
    | some r => match plan r with
      | .error e => jObj [("reject", jErrK e)]
      | .ok p =>
        match consumerTable engineOf r p (strsF j "sl") (strsF j "sr") (Drv.C12.tableOf (fld j "TL")) (Drv.C12.tableOf (fld j "TR")) with
        | .ok tb => jObj [("plan", jPlan p), ("rows", Drv.C12.jTable tb)]
        | .error e => jObj [("plan", jPlan p), ("mergeError", Json.str e)]
  | _ => Drv.C12.handle op j

end Drv.C05
