import MlodaVerif.Drv.Sched
namespace Drv.C01
def handle := Drv.Sched.handle
end Drv.C01
