import MlodaVerif.Drv.Util
import MlodaVerif.Model.LinkOrder
/-! Line-protocol driver of `Model/LinkOrder.lean` (extension `C04_links`).

Encodings: key = `[link, left, right]`; trekker state = `{"data": [[key, [u…]]…], "dord": [[key, alias, [u…]]…],
"order": [[k, [l…]]…]}`; queue item of `add_links_to_queue` = `["u", n] | ["l", key]`; planned-queue element =
`["f", id] | ["l", key]` (`links`: `["f", id, [[uuid, [cfw…]]…]]`). -/
open Lean LinkOrder
namespace Drv.C04_links

def keyOf (j : Json) : Key :=
  match (asArr j).map asNat with
  | [l, a, b] => { link := l, left := a, right := b }
  | _ => { link := 0, left := 0, right := 0 }

def jKey (k : Key) : Json := jNats [k.link, k.left, k.right]

def natsOf (j : Json) : List Nat := (asArr j).map asNat

def stateOf (j : Json) : Trekker :=
  { data := (arrF j "data").map (fun e => match asArr e with | [k, s] => (keyOf k, natsOf s) | _ => (keyOf Json.null, [])),
    dataOrdered := (arrF j "dord").map (fun e => match asArr e with | [k, a, s] => (keyOf k, (asBool a, natsOf s)) | _ => (keyOf Json.null, (false, []))),
    order := (arrF j "order").map (fun e => match asArr e with | [k, s] => (asNat k, natsOf s) | _ => (0, [])) }

def jOrder (o : Order) : Json := jArr (o.map (fun e => jArr [toJson e.1, jNats e.2]))

def jState (t : Trekker) : Json :=
  jObj [("data", jArr (t.data.map (fun e => jArr [jKey e.1, jNats e.2]))),
        ("dord", jArr (t.dataOrdered.map (fun e => jArr [jKey e.1, Json.bool e.2.1, jNats e.2.2]))),
        ("order", jOrder t.order)]

def jQItem : QItem → Json
  | .uuid u => jArr [Json.str "u", toJson u]
  | .link k => jArr [Json.str "l", jKey k]

def pelOf (j : Json) : PEl :=
  match asArr j with
  | [t, x] => if asStr t == "l" then .link (keyOf x) else .fg (asNat x)
  | t :: x :: _ => if asStr t == "l" then .link (keyOf x) else .fg (asNat x)
  | _ => .fg 0

def jPEl : PEl → Json
  | .fg i => jArr [Json.str "f", toJson i]
  | .link k => jArr [Json.str "l", jKey k]

def lelOf (j : Json) : LEl :=
  match asArr j with
  | [t, x] => if asStr t == "l" then .link (keyOf x) else .fg (asNat x) []
  | [_, x, fs] => .fg (asNat x) ((asArr fs).map (fun f => match asArr f with | [u, c] => (asNat u, natsOf c) | _ => (0, [])))
  | _ => .fg 0 []

def jLEl : LEl → Json
  | .fg i fs => jArr [Json.str "f", toJson i, jArr (fs.map (fun f => jArr [toJson f.1, jNats f.2]))]
  | .link k => jArr [Json.str "l", jKey k]

def ordsOf (j : Json) : Nat → List Key :=
  let tab : List (Nat × List Key) := (arrF j "ords").map (fun e => match asArr e with | [k, s] => (asNat k, (asArr s).map keyOf) | _ => (0, []))
  fun k => (dget tab k).getD []

def jtOf (j : Json) : Nat → JT :=
  let tab : List (Nat × String) := (arrF j "jt").map (fun e => match asArr e with | [k, s] => (asNat k, asStr s) | _ => (0, ""))
  fun k => match dget tab k with
    | some "right" => .right
    | some "invalid" => .invalid
    | _ => .other

/-- one scripted operation on a trekker -/
def trekOp (t : Trekker) (o : Json) : Except String Trekker :=
  match asArr o with
  | [n] =>
    match asStr n with
    | "order_links" => orderLinksByFrameworks t
    | "order_raw" => .ok { t with order := orderRaw (dkeys t.data) t.order }
    | "drop_circular" => (dropCircular t.data t.order).map (fun o => { t with order := o })
    | "reorder" => .ok { t with order := reorder t.order }
    | "create" => createDataOrdered t
    | "get_ordered" => getOrderedData t
    | s => .error s!"driver: unknown op {s}"
  | [n, k, u] =>
    match asStr n with
    | "update" => .ok (update t (keyOf k) (asNat u))
    | "invert" => invertLink t (keyOf k) (asNat u)
    | s => .error s!"driver: unknown op {s}"
  | _ => .error "driver: bad op"

def runOps (t : Trekker) : List Json → Trekker × List Json → Trekker × List Json
  | [], st => st
  | o :: r, (t', outs) =>
    match trekOp t' o with
    | .error e => (t', outs ++ [Json.str e])     -- stop at the first exception
    | .ok t'' => runOps t r (t'', outs ++ [Json.str "ok"])

def handle (op : String) (j : Json) : Json :=
  match op with
  | "trek" =>
    let t0 := stateOf (fld j "state")
    let (t, outs) := runOps t0 (arrF j "ops") (t0, [])
    jObj [("outs", jArr outs), ("state", jState t)]
  | "addLinks" =>
    match addLinksToQueue (stateOf (fld j "state")) (natsF j "queue") with
    | .error e => jObj [("err", Json.str e)]
    | .ok (q, t) => jObj [("out", jArr (q.map jQItem)), ("state", jState t)]
  | "orderQueue" =>
    let orders : Order := (arrF j "orders").map (fun e => match asArr e with | [k, s] => (asNat k, natsOf s) | _ => (0, []))
    jObj [("out", jArr ((orderQueue orders (ordsOf j) ((arrF j "queue").map pelOf)).map jPEl))]
  | "resolve" =>
    match resolveTrekked (jtOf j) ((arrF j "trekked").map keyOf) (natsF j "cfws") ((arrF j "inv").map keyOf) with
    | .error e => jObj [("err", Json.str e)]
    | .ok (new, inv) => jObj [("new", jNats new), ("inv", jArr (inv.map jKey))]
  | "access" =>
    jObj [("keys", jArr ((accessLinks (stateOf (fld j "state")) (natF j "child")).map jKey))]
  | "links" =>
    match links (jtOf j) (ordsOf j) ((arrF j "queue").map lelOf) (stateOf (fld j "state")) with
    | .error e => jObj [("err", Json.str e)]
    | .ok (q, t) => jObj [("out", jArr (q.map jLEl)), ("state", jState t)]
  | _ => jErr s!"unknown op {op}"

end Drv.C04_links
