import MlodaVerif.Drv.Util
import MlodaVerif.Model.EngineWorld
/-! Line-protocol driver of the Engine feature-collection model (extension `C03_engine`).
Names are arrays of code points; options are arrays of [key, value]; `null` = Python `None`. -/
open Lean EngineColl EngineWorld
namespace Drv.C03_engine

def nm (j : Json) : EngineColl.Name := (asArr j).map asNat
def nms (j : Json) : List EngineColl.Name := (asArr j).map nm
def opts (j : Json) : Opts := (asArr j).map fun p => match asArr p with | [k, v] => (asNat k, asNat v) | _ => (0, 0)
def optOpts (j : Json) : Option Opts := if isNull j then none else some (opts j)
def optNats (j : Json) : Option (List Nat) := if isNull j then none else some ((asArr j).map asNat)

def link (j : Json) : Link :=
  match asArr j with
  | [jt, lg, li, rg, ri] => { jt := asNat jt, lg := asNat lg, li := nms li, rg := asNat rg, ri := nms ri }
  | _ => { jt := 0, lg := 0, li := [], rg := 0, ri := [] }
def optLink (j : Json) : Option Link := if isNull j then none else some (link j)
def optLinks (j : Json) : Option (List Link) := if isNull j then none else some ((asArr j).map link)

def key (j : Json) : Key :=
  { name := nm (fld j "n"), grp := opts (fld j "g"), ctx := opts (fld j "c"), dom := optNat (fld j "d"), cfw := optNats (fld j "f"),
    dtype := optNat (fld j "t"), child := optOpts (fld j "ch") }
def feat (j : Json) : Feat := { key := key j, req := boolF j "r", uuid := natF j "u", link := optLink (fld j "l") }

def jOpts (o : Opts) : Json := jArr (o.map fun kv => jNats [kv.1, kv.2])
def jOptOpts : Option Opts → Json | none => Json.null | some o => jOpts o
def jOptNats : Option (List Nat) → Json | none => Json.null | some l => jNats l
def jNm (n : EngineColl.Name) : Json := jNats n
def jLink (l : Link) : Json := jArr [toJson l.jt, toJson l.lg, jArr (l.li.map jNm), toJson l.rg, jArr (l.ri.map jNm)]
def jKey (k : Key) : List (String × Json) :=
  [("n", jNm k.name), ("g", jOpts k.grp), ("c", jOpts k.ctx), ("d", jOptNat k.dom), ("f", jOptNats k.cfw), ("t", jOptNat k.dtype), ("ch", jOptOpts k.child)]
def jFeat (f : Feat) : Json :=
  jObj (jKey f.key ++ [("r", Json.bool f.req), ("u", toJson f.uuid), ("l", match f.link with | none => Json.null | some l => jLink l)])

def errName : Err → String
  | .fuel => "fuel" | .noGroup => "noGroup" | .multiGroup => "multiGroup" | .multiCfw => "multiCfw" | .cfwUnsupported => "cfwUnsupported"
  | .typeMismatch => "typeMismatch" | .mergeConflict => "mergeConflict" | .groupCtxConflict => "groupCtxConflict"
  | .duplicate => "duplicate" | .domainCompare => "domainCompare" | .domainScan => "domainScan" | .domainFilter => "domainFilter" | .emptyIndex => "emptyIndex" | .oracle => "oracle"

def tspec (j : Json) : TSpec := { feat := feat j, pass := boolF j "pass" }

def gspec (j : Json) : GSpec :=
  { criteria := nms (fld j "criteria"), supported := nms (fld j "supported"), dom := natF j "dom", cfws := natsF j "cfws",
    index := if isNull (fld j "index") then none else some ((arrF j "index").map nms),
    types := (arrF j "types").map (fun p => match asArr p with | [n, t] => (nm n, asNat t) | _ => ([], 0)),
    inputs := if isNull (fld j "inputs") then none else
      some ((arrF j "inputs").map (fun p => match asArr p with | [n, ts] => (nm n, (asArr ts).map tspec) | _ => ([], []))),
    orders := (arrF j "orders").map (fun p => match asArr p with
      | [n, g, c, o] => ((nm n, opts g, opts c), (asArr o).map asNat) | _ => (([], [], []), [])) }

def filt (j : Json) : Filt := { key := key j, tp := natF j "tp" }

def spec (j : Json) : Spec :=
  { groups := (arrF j "groups").map gspec,
    filters := if isNull (fld j "filters") then none else some ((arrF j "filters").map filt),
    picks := (arrF j "picks").map (fun p => match asArr p with | [l, x] => ((asArr l).map asNat, asNat x) | _ => ([], 0)),
    scans := (arrF j "scans").map (fun l => (asArr l).map asNat),
    morders := (arrF j "matches").map (fun l => (asArr l).map asNat) }

def jDict (d : Graph.Dict) : Json := jArr (d.map fun e => jArr [toJson e.1, jNats e.2])

def jSt (st : St) : Json :=
  let g := graphOf st
  jObj [("coll", jArr (st.coll.map fun e => jArr [toJson e.1, jFeat e.2])),
        ("flp", jDict st.flp),
        ("links", match st.links with | none => Json.null | some ls => jArr (ls.map jLink)),
        ("gfc", jArr (st.gfc.map fun e => jArr [toJson e.1.1, jNm e.1.2, jArr (e.2.map fun v => jObj (jKey v.1 ++ [("tp", toJson v.2)]))])),
        ("next", toJson st.next), ("nscan", toJson st.nscan), ("nmatch", toJson st.nmatch),
        ("nodes", jNats g.nodes), ("edges", jArr (g.edges.map fun e => jNats [e.1, e.2]))]

def handle (op : String) (j : Json) : Json :=
  match op with
  | "run" =>
    -- {"world": spec, "links": null|[…], "request": [feat…], "fuel": n}
    match run (tableWorld (spec (fld j "world"))) (natF j "fuel") (optLinks (fld j "links")) ((arrF j "request").map feat) with
    | .ok st => jObj [("ok", jSt st)]
    | .error e => jObj [("err", errName e)]
  | "chain" =>
    match run chainWorld (natF j "fuel") none chainRequest with
    | .ok st => jObj [("ok", jSt st)]
    | .error e => jObj [("err", errName e)]
  | "feq" =>
    match feqE (key (fld j "a")) (key (fld j "b")) with
    | .ok b => jObj [("ok", Json.bool b)]
    | .error e => jObj [("err", errName e)]
  | "merge" =>
    match mergeOpts (opts (fld j "fg")) (opts (fld j "fc")) (opts (fld j "cg")) (opts (fld j "cc")) with
    | .ok o => jObj [("ok", jOpts o)]
    | .error e => jObj [("err", errName e)]
  | "unify" =>
    let (g, c) := unify (opts (fld j "fg")) (opts (fld j "fc")) (opts (fld j "flg")) (opts (fld j "flc"))
    jObj [("g", jOpts g), ("c", jOpts c)]
  | _ => jErr s!"C03_engine: unknown op {op}"

end Drv.C03_engine
