import MlodaVerif.Drv.Sched
namespace Drv.C13
def handle := Drv.Sched.handle
end Drv.C13
