import MlodaVerif.Drv.Util
import MlodaVerif.Drv.C17
open Lean
namespace Drv

/-- `op` is `"<prop>.<name>"`. -/
def dispatch (j : Json) : Json :=
  let op := strF j "op"
  match op.splitOn "." with
  | ["C17", o] => C17.handle o j
  | _ => jErr s!"unknown op {op}"

end Drv
