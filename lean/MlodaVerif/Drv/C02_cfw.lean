import MlodaVerif.Drv.Util
import MlodaVerif.Model.CfwReg
open Lean CfwReg
namespace Drv.C02_cfw

def errName : Err → String
  | .dupUuid => "dupUuid" | .noCfw => "noCfw" | .keyError => "keyError" | .fuel => "fuel"
  | .anyUuidNone => "anyUuidNone" | .tfsNoSource => "tfsNoSource" | .stopIteration => "stopIteration"
  | .notOccur => "notOccur" | .fromNone => "fromNone" | .dupArtifact => "dupArtifact"
  | .noApiData => "noApiData" | .apiKeyMissing => "apiKeyMissing"

def objsJson (l : List (Uuid × Obj)) : Json := jArr (l.map (fun q => jArr [toJson q.1, toJson q.2.cls, jNats q.2.children]))
def relJson (l : Rel) : Json := jArr (l.map (fun q => jArr [toJson q.1, toJson q.2.1, toJson q.2.2]))
def natsDictJson (l : List (Nat × List Nat)) : Json := jArr (l.map (fun q => jArr [toJson q.1, jNats q.2]))

def apiJson : Option (List (Nat × Option Nat)) → Json
  | none => Json.null
  | some d => jArr (d.map (fun q => jArr [toJson q.1, jOptNat q.2]))

def regJson (r : Reg) : Json :=
  jObj [("cfws", objsJson r.cfws), ("rel", relJson r.rel), ("location", jOptNat r.location), ("error", toJson r.error),
        ("msg", jOptNat r.msg), ("exc", jOptNat r.exc), ("colNames", natsDictJson r.colNames), ("flyway", natsDictJson r.flyway),
        ("artifacts", jArr (r.artifacts.map (fun q => jArr [toJson q.1, toJson q.2]))), ("apiData", apiJson r.apiData)]

def retJson : Ret → Json
  | .unit => jObj [("r", "unit")]
  | .uuid u => jObj [("r", "uuid"), ("v", jOptNat u)]
  | .nat n => jObj [("r", "nat"), ("v", toJson n)]
  | .nats l => jObj [("r", "nats"), ("v", match l with | none => Json.null | some l => jNats l)]
  | .err e => jObj [("r", "err"), ("v", errName e)]

def nth (l : List Json) (i : Nat) : Json := l.getD i Json.null

def parseApi (j : Json) : Option (List (Nat × Option Nat)) :=
  if isNull j then none else some ((asArr j).map (fun q => (asNat (nth (asArr q) 0), optNat (nth (asArr q) 1))))

/-- `["register",u,c,[ch]]`, `["lookup",c,f]`, … -/
def parseOp (j : Json) : Option Op :=
  let a := asArr j
  let n (i : Nat) := asNat (nth a i)
  match asStr (nth a 0) with
  | "register" => some (.register (n 1) (n 2) ((asArr (nth a 3)).map asNat))
  | "lookup" => some (.lookup (n 1) (n 2))
  | "lookupInit" => some (.lookupInit (n 1) (n 2))
  | "merge" => some (.merge (n 1) (n 2) (n 3))
  | "leftmost" => some (.leftmost (n 1) (n 2))
  | "setLocation" => some (.setLocation (n 1))
  | "setError" => some (.setError (optNat (nth a 1)) (optNat (nth a 2)))
  | "setArtifact" => some (.setArtifact (n 1) (n 2))
  | "setApiData" => some (.setApiData (parseApi (nth a 1)))
  | "getApiData" => some (.getApiData (n 1))
  | "addColNames" => some (.addColNames (n 1) ((asArr (nth a 2)).map asNat))
  | "getColNames" => some (.getColNames (n 1))
  | "addFlyway" => some (.addFlyway (n 1) ((asArr (nth a 2)).map asNat))
  | "getFlyway" => some (.getFlyway (n 1))
  | _ => none

def parseObjs (j : Json) : List (Uuid × Obj) :=
  (asArr j).map (fun q => let a := asArr q; (asNat (nth a 0), ⟨asNat (nth a 1), (asArr (nth a 2)).map asNat⟩))

def parseRel (j : Json) : Rel :=
  (asArr j).map (fun q => let a := asArr q; (asNat (nth a 0), (asNat (nth a 1), asNat (nth a 2))))

def parseExe (j : Json) : Exe :=
  { reg := { cfws := parseObjs (fld j "cfws"), rel := parseRel (fld j "rel") }, coll := parseObjs (fld j "coll") }

def exeJson (x : Exe) : Json := jObj [("cfws", objsJson x.reg.cfws), ("rel", relJson x.reg.rel), ("coll", objsJson x.coll)]

def parseStep (j : Json) : Option Step :=
  match strF j "kind" with
  | "fg" => some (.fg (natF j "cls") (natsF j "tfs") (optNat (fld j "any")) (natsF j "children"))
  | "tfs" => some (.tfs (natF j "from") (natF j "to") (natsF j "req") (optNat (fld j "link")) (natF j "uuid") (optNat (fld j "right")))
  | "join" => some (.join (natF j "left") (natsF j "lefts") (natF j "link") (natsF j "rights"))
  | _ => none

def parseMode (s : String) : Mode := if s == "mp" then .mp else if s == "thread" then .thread else .sync
def modeName : Mode → String | .mp => "mp" | .thread => "thread" | .sync => "sync"

def handle (op : String) (j : Json) : Json :=
  match op with
  | "ops" =>
    -- a history of CfwManager calls from the empty manager: per call the return value and the whole state afterwards
    let (_, outs) := (arrF j "ops").foldl (fun (acc : Reg × List Json) o =>
      match parseOp o with
      | none => (acc.1, acc.2 ++ [jErr "bad op"])
      | some p => let (r', ret) := applyOp acc.1 p; (r', acc.2 ++ [jObj [("ret", retJson ret), ("state", regJson r')]])) (({} : Reg), [])
    jArr outs
  | "seq" =>
    -- executor calls threaded through the model's own state, starting from the given one
    let (_, outs) := (arrF j "calls").foldl (fun (acc : Exe × List Json) c =>
      let x := acc.1
      let fuel := x.reg.rel.length
      let out (ret : Json) (x' : Exe) := (x', acc.2 ++ [jObj [("ret", ret), ("exe", exeJson x')]])
      match strF c "k" with
      | "prepare" =>
        match parseStep (fld c "step") with
        | none => out (jErr "bad step") x
        | some st =>
          match prepareExecuteStep x fuel (natF c "fresh") st with
          | .error e => out (jObj [("err", errName e)]) x
          | .ok (u, x') => out (jObj [("ok", toJson u)]) x'
      | "from" =>
        match parseStep (fld c "step") with
        | none => out (jErr "bad step") x
        | some st =>
          match prepareFrom x fuel st with
          | .error e => out (jObj [("err", errName e)]) x
          | .ok u => out (jObj [("ok", jOptNat u)]) x
      | "exec" =>
        match parseStep (fld c "step") with
        | none => out (jErr "bad step") x
        | some st => out (jObj [("ok", Json.null)]) (afterExecute x st (natF c "cfw") (optNat (fld c "from")))
      | "merge" => out (jObj [("ok", Json.null)]) { x with reg := addMerge x.reg (natF c "l") (natF c "r") (natF c "c") }
      | "getcfw" =>
        match getCfw x fuel (natF c "c") (natF c "f") with
        | .error e => out (jObj [("err", errName e)]) x
        | .ok u => out (jObj [("ok", toJson u)]) x
      | "lookup" =>
        match getCfwUuid x.reg fuel (natF c "c") (natF c "f") with
        | .error e => out (jObj [("err", errName e)]) x
        | .ok u => out (jObj [("ok", jOptNat u)]) x
      | _ => out (jErr "bad call") x) (parseExe (fld j "exe"), [])
    jArr outs
  | "mode" =>
    Json.str (modeName (executionFunction ((strsF j "reg").map parseMode) ((strsF j "step").map parseMode)))
  | _ => jErr s!"unknown op {op}"

end Drv.C02_cfw
