import MlodaVerif.Drv.Util
import MlodaVerif.Model.OptGroup
open Lean
open PyVal (pyEq pyNe truthy hashable wf mh)
namespace Drv.C15
abbrev Opts := _root_.Options

/-- `{"t":"int","v":3}` … ; ints and float mantissas travel as decimal strings -/
partial def decVal (j : Json) : PyVal :=
  let t := strF j "t"
  let big (k : String) : Int := match fld j k with
    | .str s => s.toInt?.getD 0
    | other => asInt other
  match t with
  | "none" => .none
  | "bool" => .bool (boolF j "v")
  | "int" => .int (big "v")
  | "float" => .float (big "m") (natF j "e")
  | "str" => .str (strF j "v")
  | "obj" => .obj (natF j "v")
  | "feat" => .feat (strF j "name") (natF j "rest")
  | "tuple" => .tuple ((arrF j "v").map decVal)
  | "list" => .list ((arrF j "v").map decVal)
  | "set" => .set ((arrF j "v").map decVal)
  | "frozenset" => .frozenset ((arrF j "v").map decVal)
  | "dict" => .dict ((arrF j "v").map (fun kv => match asArr kv with
      | [k, v] => (asStr k, decVal v)
      | _ => ("", .none)))
  | _ => .none

def decDict (j : Json) : PyDict := (asArr j).map (fun kv => match asArr kv with
  | [k, v] => (asStr k, decVal v)
  | _ => ("", .none))

partial def encVal : PyVal → Json
  | .none => jObj [("t", "none")]
  | .bool b => jObj [("t", "bool"), ("v", b)]
  | .int i => jObj [("t", "int"), ("v", toString i)]
  | .float m e => jObj [("t", "float"), ("m", toString m), ("e", toJson e)]
  | .str s => jObj [("t", "str"), ("v", s)]
  | .obj n => jObj [("t", "obj"), ("v", toJson n)]
  | .feat n c => jObj [("t", "feat"), ("name", n), ("rest", toJson c)]
  | .tuple l => jObj [("t", "tuple"), ("v", jArr (l.map encVal))]
  | .list l => jObj [("t", "list"), ("v", jArr (l.map encVal))]
  | .set l => jObj [("t", "set"), ("v", jArr (l.map encVal))]
  | .frozenset l => jObj [("t", "frozenset"), ("v", jArr (l.map encVal))]
  | .dict d => jObj [("t", "dict"), ("v", jArr (d.map (fun kv => jArr [Json.str kv.1, encVal kv.2])))]

def encDict (d : PyDict) : Json := jArr (d.map (fun kv => jArr [Json.str kv.1, encVal kv.2]))

def encOptions (o : Opts) : Json :=
  jObj [("group", encDict o.group), ("context", encDict o.context), ("propagate", jStrs o.propagate)]

def errJ : Option OptErr → Json
  | none => Json.null
  | some e => Json.str e.tag

def decOptionsRaw (j : Json) : Opts :=
  { group := decDict (fld j "group"), context := decDict (fld j "context"), propagate := strsF j "propagate" }

def decOptOptions (j : Json) : Option Opts := if isNull j then none else some (decOptionsRaw j)

def decOp (j : Json) : Option _root_.Options.Op :=
  let k := strF j "k"
  let v := decVal (fld j "v")
  match strF j "op" with
  | "add" => some (.add k v)
  | "addToGroup" => some (.addToGroup k v)
  | "addToContext" => some (.addToContext k v)
  | "set" => some (.set k v)
  | "update" => some (.update (decOptionsRaw (fld j "other"))
      (if isNull (fld j "protected") then none else some (strsF j "protected")))
  | "merge" => some (.merge (decOptionsRaw (fld j "other")))
  | _ => none

/-- run a history; after every call report the error tag and the state; query ops report their answer -/
def runOps (o : Opts) (ops : List Json) : List Json :=
  match ops with
  | [] => []
  | j :: rest =>
    match decOp j with
    | some op =>
      let (o', e) := o.step op
      jObj [("err", errJ e), ("state", encOptions o')] :: runOps o' rest
    | none =>
      let k := strF j "k"
      let ans := match strF j "op" with
        | "get" => encVal (o.get k)
        | "contains" => toJson (o.contains k)
        | "keys" => jStrs o.allKeys
        | "items" => encDict o.items
        | other => jErr s!"unknown op {other}"
      jObj [("ans", ans)] :: runOps o rest

def decFeature (j : Json) : FeatureId :=
  { name := strF j "name", options := decOptionsRaw (fld j "options"), domain := optStr (fld j "domain"),
    cfw := if isNull (fld j "cfw") then none else some (natsF j "cfw"),
    dtype := optNat (fld j "dtype"), child := decOptOptions (fld j "child") }

def decIndex (j : Json) : IndexId := ⟨decVal j⟩

def decLink (j : Json) : LinkId :=
  { jointype := natF j "jointype", leftName := strF j "left", rightName := strF j "right",
    leftIndex := decIndex (fld j "leftIndex"), rightIndex := decIndex (fld j "rightIndex") }

def decFilter (j : Json) : SingleFilterId :=
  { feature := decFeature (fld j "feature"), ftype := strF j "ftype", param := FilterParamId.fromDict (decDict (fld j "param")) }

def eqJ : Except IdErr Bool → Json
  | .ok b => toJson b
  | .error _ => Json.str "raise"

/-- `{"kind": …, "a": …, "b": …}` → `a == b`, the two hashed values, hashability -/
def ident (j : Json) : Json :=
  let a := fld j "a"
  let b := fld j "b"
  let out (e : Json) (ha hb : PyVal) : Json :=
    jObj [("eq", e), ("ha", encVal ha), ("hb", encVal hb), ("hashableA", toJson (hashable ha)), ("hashableB", toJson (hashable hb)),
          ("hvEq", toJson (pyEq ha hb))]
  match strF j "kind" with
  | "feature" => let x := decFeature a; let y := decFeature b; out (eqJ (x.eq y)) x.hashVal y.hashVal
  | "options" => let x := decOptionsRaw a; let y := decOptionsRaw b; out (toJson (x.eq y)) x.hashVal y.hashVal
  | "hdict" => let x : HashableDictId := ⟨decDict a⟩; let y : HashableDictId := ⟨decDict b⟩
               out (toJson (x.eq y)) x.hashVal y.hashVal
  | "index" => let x := decIndex a; let y := decIndex b; out (toJson (x.eq y)) x.hashVal y.hashVal
  | "joinspec" =>
      let x : JoinSpecId := ⟨natF a "fg", decIndex (fld a "index")⟩
      let y : JoinSpecId := ⟨natF b "fg", decIndex (fld b "index")⟩
      out (toJson (x.eq y)) x.hashVal y.hashVal
  | "link" => let x := decLink a; let y := decLink b; out (toJson (x.eq y)) x.hashVal y.hashVal
  | "param" => let x := FilterParamId.fromDict (decDict a); let y := FilterParamId.fromDict (decDict b)
               out (toJson (x.eq y)) x.hashVal y.hashVal
  | "filter" => let x := decFilter a; let y := decFilter b; out (eqJ (x.eq y)) x.hashVal y.hashVal
  | other => jErr s!"unknown kind {other}"

def handle (op : String) (j : Json) : Json :=
  match op with
  | "pyEq" =>
    let a := decVal (fld j "a"); let b := decVal (fld j "b")
    jObj [("eq", pyEq a b), ("ne", pyNe a b), ("truthyA", truthy a), ("hashableA", hashable a), ("wfA", wf a), ("wfB", wf b)]
  | "mh" => let v := decVal (fld j "v"); jObj [("mh", encVal (mh v)), ("hashable", hashable (mh v)), ("wf", wf v)]
  | "optRun" =>
    match _root_.Options.init (decDict (fld j "group")) (decDict (fld j "context")) (strsF j "propagate") with
    | .error e => jObj [("init", e.tag)]
    | .ok o => jObj [("init", Json.null), ("state", encOptions o), ("steps", jArr (runOps o (arrF j "ops")))]
  | "ident" => ident j
  | "sim" =>
    let f := decFeature (fld j "f")
    jObj [("sim", encVal f.simVal), ("base", encVal f.baseVal)]
  | "keyEq" =>
    let a := decFeature (fld j "a"); let b := decFeature (fld j "b")
    jObj [("simEq", toJson (pyEq a.simKey b.simKey)), ("baseEq", toJson (pyEq a.baseKey b.baseKey))]
  | "group" =>
    -- features in the iteration order of the real set; ids = positions
    let fs : List (Nat × FeatureId) := (arrF j "features").zipIdx.map (fun (f, i) => (i, decFeature f))
    let res := OptGroup.groupBy pyEq (fun f : Nat × FeatureId => f.2.dtype.isSome) (fun f => f.2.simKey)
      (fun f => f.2.baseKey) List.head? fs
    jObj [("groups", jArr (res.map (fun e => jNats (e.2.map (·.1)))))]
  | "levels" =>
    let deps : List (Nat × List Nat) := (arrF j "deps").map (fun d => match asArr d with
      | [u, ds] => (asNat u, (asArr ds).map asNat)
      | _ => (0, []))
    let res := OptGroup.splitLevels (natsF j "ids") (fun u => (deps.lookup u).getD [])
    jObj [("levels", jArr (res.map jNats))]
  | _ => jErr s!"C15: unknown op {op}"

end Drv.C15
