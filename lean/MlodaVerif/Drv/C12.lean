import MlodaVerif.Drv.Util
import MlodaVerif.Model.PyDictMerge
import MlodaVerif.Model.LibMergeSem
import MlodaVerif.Gen.JoinDispatch
open Lean Rel
namespace Drv.C12

def cellOf (j : Json) : Cell := if isNull j then none else some (asInt j)

def rowOf (j : Json) : Row := (asArr j).map (fun e => match asArr e with
  | [c, v] => (asStr c, cellOf v)
  | _ => ("?", none))

def tableOf (j : Json) : Table := (asArr j).map rowOf

def jCell : Cell → Json
  | none => Json.null
  | some v => toJson v

def jRow (r : Row) : Json := jArr (r.map (fun e => jArr [Json.str e.1, jCell e.2]))
def jTable (t : Table) : Json := jArr (t.map jRow)

def jt (j : Json) : Option JoinType := JoinType.ofPyName? (strF j "t")

def handle (op : String) (j : Json) : Json :=
  let lk := strsF j "lk"
  let rk := strsF j "rk"
  let ls := strsF j "ls"
  let rs := strsF j "rs"
  let L := tableOf (fld j "L")
  let R := tableOf (fld j "R")
  match op with
  | "dispatch" =>
    match Gen.joinDispatch.find? (fun e => e.1 == strF j "t") with
    | some (_, v, m, o) => jObj [("value", Json.str v), ("method", Json.str m), ("inOrder", Json.bool o)]
    | none => jObj [("method", Json.str Gen.joinDispatchOther)]
  | "intended" =>
    match jt j with
    | some t => jObj [("method", Json.str t.method)]
    | none => Json.null
  | "spec" =>
    match jt j with
    | some t => jTable (joinSpec t lk rk ls rs L R)
    | none => jErr "bad join type"
  | "pydict" =>
    match jt j with
    | some t => jTable (PyDictMerge.merge t lk rk L R (PyDictMerge.allKeys lk rk L R))
    | none => jErr "bad join type"
  | "pandas" =>
    match jt j with
    | some t =>
      match PandasMerge.merge t lk rk ls rs L R with
      | .ok tb => jObj [("ok", jTable tb)]
      | .error e => jObj [("err", Json.str e)]
    | none => jErr "bad join type"
  | "arrow" =>
    match jt j with
    | some t =>
      match ArrowMerge.merge t lk rk ls rs L R with
      | .ok tb => jObj [("ok", jTable tb)]
      | .error e => jObj [("err", Json.str e)]
    | none => jErr "bad join type"
  | "tableEq" => Json.bool (tableBEq (tableOf (fld j "A")) (tableOf (fld j "B")))
  | "joinAll" => jTable (joinAll (strsF j "ks") L ((arrF j "Ts").map tableOf))
  | _ => jErr s!"C12: unknown op {op}"

end Drv.C12
