import MlodaVerif.Drv.C02
import MlodaVerif.Model.StepExec
import MlodaVerif.Model.Rel
open Lean StepExec Eval
namespace Drv.C06_steps

abbrev T := StepExec.Table Column

def fwOf (s : String) : Fw := if s == "pandas" then .pandas else if s == "pydict" then .pydict else .pyarrow
def styleOf (s : String) : Style := if s == "inplace" then .inplace else if s == "column" then .column else .fresh

/-- {"cols":[[id,[vals]],..]} -/
def tableOf (j : Json) : T := (asArr j).filterMap fun p => match asArr p with
  | [c, v] => some (asNat c, Drv.C02.colOf v)
  | _ => none

def dedupT (t : T) : T := t.foldl (fun acc p => if acc.any (fun q => q.1 == p.1) then acc else acc ++ [p]) []

def jTable (t : T) : Json := jArr ((dedupT t).map fun p => jArr [toJson p.1, Drv.C02.jCol p.2])

def exprCols : Expr → List Nat
  | .col c => [c]
  | .const _ => []
  | .add a b => exprCols a ++ exprCols b
  | .sub a b => exprCols a ++ exprCols b
  | .mul a b => exprCols a ++ exprCols b

/-- the generated groups' `calculate_feature` (harness/fgfactory.py): root groups return their columns whatever they are
handed; a derived group evaluates its expressions row by row on the table it is handed - `None` raises (TypeError in
`add_columns`), a missing parent column raises KeyError as soon as there is a row -/
def calcOf (defs : List Def) (inp : Option T) : Option T :=
  if defs.all (fun d => d.expr.isNone) then some (defs.map fun d => (d.uuid, d.rootVals))
  else match inp with
    | none => none
    | some t =>
      let nrows := match dedupT t with | [] => 0 | p :: _ => p.2.length
      let ok := nrows == 0 || defs.all fun d => match d.expr with
        | none => true
        | some e => (exprCols e).all fun c => (Exec.lookup t c).isSome
      if !ok then none else
      some (defs.map fun d => match d.expr with
        | none => (d.uuid, d.rootVals)
        | some e => (d.uuid, (List.range nrows).map fun r =>
            evalRow (fun a => ((Exec.lookup t a).getD []).getD r none) e))

/-! joins through the SPEC operators of `Rel` (row order is not defined: the harness sorts rows) -/
def toRel (t : T) : Rel.Table :=
  let t := dedupT t
  let n := match t with | [] => 0 | p :: _ => p.2.length
  (List.range n).map fun i => t.map fun p => (toString p.1, p.2.getD i none)

def fromRel (cols : List Nat) (r : Rel.Table) : T := cols.map fun c => (c, r.map fun row => Rel.cell row (toString c))

def mergeOf (jt : String) (lk rk : Nat) (l r : T) : Option T :=
  let L := toRel l; let R := toRel r
  let lks := [toString lk]; let rks := [toString rk]
  let lcols := (dedupT l).map (·.1); let rcols := (dedupT r).map (·.1)
  let co := if lk == rk then [lk] else []
  let cols := lcols ++ rcols.filter (fun c => !(co.contains c) && !(lcols.contains c))
  let ls := lcols.map toString; let rs := rcols.map toString
  match jt with
  | "INNER" => some (fromRel cols (Rel.innerJoin lks rks L R))
  | "LEFT" => some (fromRel cols (Rel.leftJoin lks rks rs L R))
  | "OUTER" => some (fromRel cols (Rel.outerJoin lks rks ls rs L R))
  | "RIGHT" => some (fromRel cols (Rel.rightJoin lks rks ls L R))
  | _ => none

def descOf (j : Json) : Desc Column :=
  let defs := (arrF j "defs").map Drv.C02.defOf
  let m := fld j "merge"
  { kind := Drv.Sched.kindOf (strF j "kind"), obj := natF j "obj", src := natF j "src", style := styleOf (strF j "style"),
    outs := natsF j "outs", fn := calcOf defs,
    api := if isNull (fld j "api") then none else some (tableOf (fld j "api")),
    equalFw := boolF j "equalFw",
    cv := fun t => if boolF j "noPath" then none else some t,
    merge := fun l r => mergeOf (strF m "type") (natF m "lkey") (natF m "rkey") l r,
    requested := natsF j "requested", reports := boolF j "reports", feats := natsF j "feats" }

def objOf (j : Json) : Obj Column := { fw := fwOf (strF j "fw"), children := natsF j "children" }

def errName (e : Err) : String := (reprStr e).replace "StepExec.Err." ""
def opName (o : Op) : String := (reprStr o).replace "StepExec.Op." ""

def valJson (o : Obj Column) : Val → Json
  | .none => Json.null
  | .key => Json.str "key"
  | .ref k => match o.cells[k]? with
    | some t => jObj [("ref", toJson k), ("table", jTable t)]
    | none => jObj [("ref", toJson k)]

def objJson (o : Obj Column) : Json :=
  jObj [("data", valJson o o.data), ("cols", jNats o.colNames), ("tracker", jNats o.tracker)]

def locJson (ds : List (Desc Column)) (σ : MSt Column) (i : Nat) : Json :=
  match σ.locs[i]? with
  | none => Json.null
  | some l => jObj [("pc", toJson l.pc), ("err", match l.err with | none => Json.null | some e => Json.str (errName e)),
                    ("ended", ended ds σ i),
                    ("result", match l.result with | none => Json.null | some t => jTable t)]


def mdescOf (j : Json) : MDesc Column :=
  { toDesc := descOf j, needUpload := boolF j "needUpload", stepChildren := natsF j "stepChildren",
    cvMp := fun t => if boolF j "noPathMp" then none else some t }

def valJ (o : Obj Column) : Val → Json
  | .none => Json.null
  | .key => Json.str "key"
  | .ref k => match o.cells[k]? with
    | some t => jObj [("table", jTable t)]
    | none => Json.str "badref"

def slotJson (w : Slot Column) : Json :=
  jObj [("data", valJ w.obj w.obj.data), ("dataV", valJ w.obj w.dataV), ("sameObj", decide (w.dataV = w.obj.data)),
        ("stored", match w.stored with | none => Json.null | some t => jTable t), ("tracker", jNats w.obj.tracker),
        ("flyway", jNats w.flyway), ("stopped", w.stopped), ("cols", jNats w.obj.colNames), ("nobj", toJson w.obj.objectIds),
        ("err", match w.err with | none => Json.null | some e => Json.str (errName e))]

def cmdOf (j : Json) : Option Cmd :=
  match asArr j with
  | [k, i] => match asStr k with
    | "step" => some (.step (asNat i))
    | "collect" => some (.collect (asNat i))
    | "drop" => some (.drop (asNat i))
    | _ => none
  | _ => none

def handleMp (j : Json) : Json :=
  let ds := (arrF j "steps").map mdescOf
  let σ0 : MPSt Column := { slots := (arrF j "objs").map (fun o => { obj := objOf o }), results := List.replicate ds.length none }
  let cmds := (arrF j "cmds").filterMap cmdOf
  let (σ, tr) := cmds.foldl (fun (acc : MPSt Column × List Json) c =>
    let σ' := mpCmd ds acc.1 c
    let i := match c with | .step i => i | .collect i => i | .drop i => i
    let slotJ : Json := match ds[i]? with
      | some d => match σ'.slots[d.obj]? with | some w => slotJson w | none => Json.null
      | none => Json.null
    let r : Option (Option (Except Err T)) := σ'.results[i]?
    let resJ : Json := match c, r with
      | Cmd.collect _, some (some (Except.ok t)) => jObj [("table", jTable t)]
      | Cmd.collect _, some (some (Except.error e)) => jObj [("err", Json.str (errName e))]
      | _, _ => Json.null
    (σ', acc.2 ++ [jObj [("slot", slotJ), ("result", resJ)]])) (σ0, [])
  jObj [("trace", jArr tr), ("slots", jArr (σ.slots.map slotJson))]

def handle (op : String) (j : Json) : Json :=
  match op with
  | "run" =>
    let ds := (arrF j "steps").map descOf
    let σ0 : MSt Column := StepExec.init ((arrF j "objs").map objOf) ds.length
    let sched := natsF j "sched"
    let (σ, tr) := sched.foldl (fun (acc : MSt Column × List Json) i =>
      let σ := acc.1
      let opn : Json := match ds[i]?, σ.locs[i]? with
        | some d, some l => match σ.objs[d.obj]? with
          | some o => if l.err.isSome then Json.null else match (prog o.fw d)[l.pc]? with
            | some o' => Json.str (opName o') | none => Json.null
          | none => Json.null
        | _, _ => Json.null
      let σ' := mstep ds σ i
      let objJ : Json := match ds[i]? with
        | some d => match σ'.objs[d.obj]? with | some o => objJson o | none => Json.null
        | none => Json.null
      (σ', acc.2 ++ [jObj [("step", toJson i), ("op", opn), ("obj", objJ), ("loc", locJson ds σ' i)]])) (σ0, [])
    jObj [("trace", jArr tr), ("objs", jArr (σ.objs.map objJson)),
          ("locs", jArr ((List.range ds.length).map (locJson ds σ))),
          ("progLens", jNats ((List.range ds.length).map (progLen ds σ0)))]
  | "progs" =>
    let ds := (arrF j "steps").map descOf
    let objs := (arrF j "objs").map objOf
    jArr (ds.map fun d => match objs[d.obj]? with
      | some o => jStrs ((prog o.fw d).map opName)
      | none => jArr [])
  | "mp" => handleMp j
  | "upload" =>
    let ch := natsF j "children"; let tr := natsF j "tracker"; let fs := natsF j "feats"
    jObj [("keep", keepCount ch tr fs), ("allCalculated", allCalculated ch tr fs)]
  | "mode" =>
    let m (s : String) : CfwReg.Mode := if s == "mp" then .mp else if s == "thread" then .thread else .sync
    let r := CfwReg.executionFunction ((strsF j "reg").map m) ((strsF j "step").map m)
    Json.str (match r with | .mp => "mp" | .thread => "thread" | .sync => "sync")
  | _ => Drv.C02.handle op j

end Drv.C06_steps
