import MlodaVerif.Drv.Util
import MlodaVerif.Model.Filter
import MlodaVerif.Model.Time
open Lean Filter
namespace Drv.C11

/-- value: `null` | {"t":"i","v":n} | {"t":"q","n":num,"d":den} | {"t":"s","v":str} -/
def val (j : Json) : Val :=
  if isNull j then .null else
  match strF j "t" with
  | "i" => .int (intF j "v")
  | "q" => .rat (mkRat (intF j "n") (natF j "d"))
  | "s" => .str (strF j "v")
  | _ => .null

def valuesParam (j : Json) : ValuesParam :=
  if isNull j then .none
  else if !(isNull (fld j "list")) then .list ((arrF j "list").map val)
  else if !(isNull (fld j "tuple")) then .tuple ((arrF j "tuple").map val)
  else .scalar (val (fld j "scalar"))

def rawFilter (j : Json) : RawFilter :=
  { col := strF j "col", ftype := strF j "ftype", value := val (fld j "value"), values := valuesParam (fld j "values"),
    min := val (fld j "min"), max := val (fld j "max"), maxExclusive := boolF j "excl" }

/-- "cols": [[name, [cell, ...]], ...]; a cell {"t":"m"} means the key is absent from that row's dict.
Row k also gets the key "#" = k. -/
def rowsOf (j : Json) : List Row :=
  let cols : List (String × List Json) := (arrF j "cols").map (fun c => match asArr c with
    | [n, cells] => (asStr n, asArr cells)
    | _ => ("", []))
  let n := match cols with
    | [] => natF j "nrows"
    | c :: _ => c.2.length
  (List.range n).map (fun (k : Nat) =>
    (cols.filterMap (fun (c : String × List Json) =>
      match c.2[k]? with
      | some cell => if !(isNull cell) && strF cell "t" == "m" then none else some (c.1, val cell)
      | none => none)) ++ [("#", Val.int (k : Int))])

def ids (rows : List Row) : Json :=
  jArr (rows.map (fun r => match Row.get r "#" with
    | .int i => toJson i
    | _ => Json.null))

def errName : Err → String
  | .valueError => "value"
  | .typeError => "type"
  | .notImplemented => "notimpl"
  | .keyError => "key"
  | .notModelled => "notmodelled"

def result : Except Err (List Row) → Json
  | .ok rows => jObj [("ok", ids rows)]
  | .error e => jObj [("err", errName e)]

def colClass (s : String) : ColClass := if s == "str" then .str else .num

def engine (j : Json) : Engine :=
  let cts := fld j "cts"
  let ctOf (c : String) : ColClass := colClass (strF cts c)
  match strF j "eng" with
  | "pa" => fun f rows => ArrowSem.doFilter f (ctOf f.col) rows
  | "pd" => fun f rows => PandasSem.run f (ctOf f.col) rows
  | "pd-prefix" => fun f rows => PandasSem.doFilter f true (ctOf f.col) rows   -- the variant before commit 15de8bc
  | _ => PyDict.doFilter

def methodName : Gen.FilterMethod → String
  | .do_range_filter => "do_range_filter"
  | .do_min_filter => "do_min_filter"
  | .do_max_filter => "do_max_filter"
  | .do_equal_filter => "do_equal_filter"
  | .do_regex_filter => "do_regex_filter"
  | .do_categorical_inclusion_filter => "do_categorical_inclusion_filter"
  | .do_custom_filter => "do_custom_filter"

def awareDT (j : Json) : Time.Aware :=
  { wall := intF j "wall", micros := natF j "micros", offset := intF j "offset" }

def handle (op : String) (j : Json) : Json :=
  match op with
  | "doFilter" => result (engine j (rawFilter (fld j "filter")) (rowsOf j))
  | "applyAll" =>
    let fs := fld j "filters"
    result (applyAll (engine j) (strsF j "exposed") (if isNull fs then none else some ((asArr fs).map rawFilter)) (rowsOf j))
  | "runGroup" =>
    result (runGroupApi (engine j) (if strF j "eng" == "py" then pyDictFinish else Except.ok) (strsF j "requested") (strsF j "supported") ((arrF j "filters").map rawFilter) (rowsOf j))
  | "sat" =>
    match (rawFilter (fld j "filter")).parse with
    | .error e => jObj [("err", errName e)]
    | .ok f => jObj [("ok", jArr ((arrF j "cells").map (fun c => Json.bool (sat f (val c)))))]
  | "dispatch" => Json.str (methodName (Gen.filterDispatch (strF j "ftype")))
  | "pyStr" => Json.str (pyStr (val (fld j "v")))
  | "toUtcIso" =>
    match Time.toUtcIso (awareDT j) with
    | some s => jObj [("ok", Json.str s)]
    | none => jObj [("err", "overflow")]
  | "sameInstant" => Json.bool (decide ((awareDT (fld j "a")).instant = (awareDT (fld j "b")).instant))
  | _ => jErr s!"C11: unknown op {op}"

end Drv.C11
