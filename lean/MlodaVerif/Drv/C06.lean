import MlodaVerif.Drv.C02
namespace Drv.C06
def handle := Drv.C02.handle
end Drv.C06
