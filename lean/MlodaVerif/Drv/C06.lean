import MlodaVerif.Drv.Sched
namespace Drv.C06
def handle := Drv.Sched.handle
end Drv.C06
