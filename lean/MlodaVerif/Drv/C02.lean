import MlodaVerif.Drv.Sched
import MlodaVerif.Model.Eval
import MlodaVerif.Model.ApiRoute
open Lean Sched Exec Eval
namespace Drv.C02

partial def exprOf (j : Json) : Expr :=
  match asArr j with
  | [k, a] => if asStr k == "col" then .col (asNat a) else .const (asInt a)
  | [k, a, b] =>
    match asStr k with
    | "add" => .add (exprOf a) (exprOf b)
    | "sub" => .sub (exprOf a) (exprOf b)
    | _ => .mul (exprOf a) (exprOf b)
  | _ => .const 0

def colOf (j : Json) : Column := (asArr j).map (fun x => if isNull x then none else some (asInt x))

def defOf (j : Json) : Def :=
  { uuid := natF j "uuid", parents := natsF j "parents",
    expr := if isNull (fld j "expr") then none else some (exprOf (fld j "expr")),
    rootVals := colOf (fld j "vals") }

def jCol (c : Column) : Json := jArr (c.map fun x => match x with | none => Json.null | some v => toJson v)

def handle (op : String) (j : Json) : Json :=
  match op with
  | "exec" =>
    -- run the SYNC executor's events (or the given worker-event trace) through the data-flow model
    let p := Drv.Sched.planOf j
    let defs := (arrF j "defs").map defOf
    let cfg := cfgOf defs
    let atomic := (optBool (fld j "atomic")).getD true
    let evs := syncEvs p (2 * p.length + 3) init
    let e := erun cfg atomic p (einit : ESt Column) evs
    let want := natsF j "want"
    jObj [("returned", e.s.returned), ("values", jArr (want.map fun c => match lookup e.store c with
        | none => Json.null | some col => jCol col))]
  | "execTrace" =>
    -- the data-flow model WITHOUT serialisation (THREADING) driven by an observed worker-event trace
    let p := Drv.Sched.planOf j
    let defs := (arrF j "defs").map defOf
    let cfg := cfgOf defs
    let obs := (arrF j "obs").filterMap Drv.Sched.obsOf
    match accepts p obs with
    | none => jObj [("ok", false)]
    | some evs =>
      let e := erun cfg false p (einit : ESt Column) evs
      let want := natsF j "want"
      jObj [("ok", true), ("returned", e.s.returned), ("values", jArr (want.map fun c => match lookup e.store c with
        | none => Json.null | some col => jCol col))]
  | "route" =>
    let reg : ApiRoute.Registry := (arrF j "reg").map (fun kv => (strF kv "key", strsF kv "cols"))
    jOptStr (ApiRoute.route reg (strF j "col"))
  | _ => Drv.Sched.handle op j

end Drv.C02
