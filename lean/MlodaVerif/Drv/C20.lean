import MlodaVerif.Drv.Util
import MlodaVerif.Model.Extender
open Lean Gen Extender
namespace Drv.C20

def beh (s : String) : Beh :=
  match s with
  | "rb" => .raiseBefore
  | "ra" => .raiseAfter
  | _ => .pass

def ext (j : Json) : Ext :=
  { id := natF j "id", priority := intF j "prio",
    wraps := (strsF j "wraps").filterMap Hook.ofName?, beh := beh (strF j "beh") }

/-- wrapped function: outcome list for successive calls, the last entry repeats; `null` = raises -/
def wrapped (j : Json) : Wrapped Nat :=
  let outs : List (Option Nat) := (asArr j).map optNat
  fun k => match outs[k]? with
    | some o => o
    | none => (outs.getLast?).getD (some 0)

def ev : Ev → Json
  | .enter e => Json.str s!"E{e.id}"
  | .exit e => Json.str s!"X{e.id}"
  | .logged e => Json.str s!"L{e.id}"
  | .call => Json.str "C"

def res (r : Res Nat) : Json :=
  jObj [("trace", jArr (r.trace.map ev)), ("calls", toJson r.calls), ("out", jOptNat r.out)]

def selected : Selected → Json
  | .none => jObj [("kind", "none")]
  | .bare e => jObj [("kind", "bare"), ("ids", jNats [e.id])]
  | .composite l => jObj [("kind", "composite"), ("ids", jNats (l.map (·.id)))]

def hookOf (j : Json) : Option Hook := Hook.ofName? (strF j "hook")

def handle (op : String) (j : Json) : Json :=
  let exts := (arrF j "exts").map ext
  match op with
  | "composite" => res (compositeCall (wrapped (fld j "w")) exts (natF j "n"))
  | "sorted" => jNats ((sortPrio exts).map (·.id))
  | "getfe" =>
    match hookOf j with
    | some h => selected (getFunctionExtender exts h)
    | none => jErr "bad hook"
  | "hook" =>
    match hookOf j with
    | some h => res (runHook (wrapped (fld j "w")) exts h (natF j "n"))
    | none => jErr "bad hook"
  | "hooks3" =>   -- all three hooks at once: selection + run
    jArr (Hook.all.map (fun h =>
      jObj [("hook", h.name), ("sel", selected (getFunctionExtender exts h)),
            ("res", res (runHook (wrapped (fld j "w")) exts h (natF j "n")))]))
  | "step" =>
    let w : Wrapped Unit := fun _ => some ()
    let r := runCalculation exts (boolF j "dataBefore") (boolF j "dataAfter") w w w
    jObj [("ok", r.ok), ("segs", jArr (r.segs.map (fun s => jObj [("hook", s.1.name), ("trace", jArr (s.2.map ev))])))]
  | "consults" => jArr ((consults (strF j "method")).map (fun p => jArr [Json.str p.1.name, Json.str p.2]))
  | "hookNames" => jStrs (Hook.all.map Hook.name)
  | _ => jErr s!"C20: unknown op {op}"

end Drv.C20
