import MlodaVerif.Drv.Util
import MlodaVerif.Model.PlanOK
open Lean Sched
namespace Drv.Sched

def kindOf (s : String) : Kind := if s == "tfs" then .tfs else if s == "join" then .join else .fg

def stepOf (j : Json) : Step :=
  { outs := natsF j "outs", req := natsF j "req", kind := kindOf (strF j "kind"),
    result := (optBool (fld j "result")).getD true }

def planOf (j : Json) : Plan := (arrF j "steps").map stepOf

def obsOf (j : Json) : Option Obs :=
  match asArr j with
  | [k, i] => match asStr k with
    | "b" => some (.begin (asNat i))
    | "f" => some (.finish (asNat i))
    | "x" => some (.fail (asNat i))
    | _ => none
  | _ => none

def stJson (p : Plan) (s : St) : Json :=
  jObj [("returned", s.returned), ("raised", jOptNat s.raised), ("begun", jNats s.begun.reverse),
        ("started", jNats s.started.reverse), ("done", jNats s.done.reverse), ("failed", jNats s.failed.reverse),
        ("collected", jNats s.collected.reverse), ("results", jNats (results p s)), ("yielded", jNats s.yielded),
        ("halted", halted s)]

def handle (op : String) (j : Json) : Json :=
  match op with
  | "gates" =>
    let req := natsF j "req"; let outs := natsF j "outs"; let fin := natsF j "fin"; let run := natsF j "run"
    let mf := markFinished outs fin run
    jObj [("canRun", canRun req outs fin run), ("isStepDone", isStepDone outs fin),
          ("currentlyRunning", match currentlyRunning outs run with | none => Json.null | some b => b),
          ("finished", jNats mf.1), ("running", jNats mf.2)]
  | "planCheck" =>
    let p := planOf j
    let parents : List (Nat × List Nat) := (arrF j "parents").map (fun q => match asArr q with
      | [f, ps] => (asNat f, (asArr ps).map asNat) | _ => (0, []))
    let ranks := computeRanks p
    jObj [("nonempty", nonemptyOutsB p), ("disjoint", disjointOutsB p), ("ranked", checkRank p ranks),
          ("planOK", planOK p), ("parentsCovered", parentsCoveredB p parents), ("ranks", jNats ranks)]
  | "accepts" =>
    let p := planOf j
    let obs := (arrF j "obs").filterMap obsOf
    if obs.length != (arrF j "obs").length then jErr "bad obs" else
    match accepts p obs with
    | none =>
      -- report the longest accepted prefix for diagnosis
      let n := ((List.range (obs.length + 1)).filter fun k => (acceptsGo p init (obs.take k)).isSome).length
      jObj [("ok", false), ("acceptedPrefix", (n - 1 : Nat))]
    | some evs => jObj [("ok", true), ("state", stJson p (run p init evs))]
  | "syncRun" =>
    let p := planOf j
    let s := syncRun p (natsF j "fails") (2 * p.length + 3) init
    stJson p s
  | _ => jErr s!"Sched: unknown op {op}"

end Drv.Sched
