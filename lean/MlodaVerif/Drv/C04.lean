import MlodaVerif.Drv.Sched
import MlodaVerif.Model.PlanCore
open Lean Sched
namespace Drv.C04

def handle (op : String) (j : Json) : Json :=
  match op with
  | "planCore" =>
    let ancL : List (Nat × List Nat) := (arrF j "anc").map (fun q => match asArr q with
      | [f, ps] => (asNat f, (asArr ps).map asNat) | _ => (0, []))
    let anc := fun f => match ancL.find? (fun q => q.1 == f) with | some q => q.2 | none => []
    let buckets := (arrF j "buckets").map (fun b => (asArr b).map asNat)
    let p := PlanCore.planCore anc buckets
    jObj [("steps", jArr (p.map fun st => jObj [("outs", jNats st.outs), ("req", jNats st.req)])), ("planOK", planOK p)]
  | _ => Drv.Sched.handle op j

end Drv.C04
