import MlodaVerif.Drv.Sched
namespace Drv.C04
def handle := Drv.Sched.handle
end Drv.C04
