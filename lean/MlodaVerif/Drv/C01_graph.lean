import MlodaVerif.Drv.Util
import MlodaVerif.Model.Graph
/-! Line-protocol driver of the `Graph` model (extension `C01_graph`). -/
open Lean Graph
namespace Drv.C01_graph

def jDict (d : Dict) : Json := jArr (d.map fun e => jArr [toJson e.1, jNats e.2])

def jG (g : G) : Json :=
  jObj [("nodes", jNats g.nodes), ("edges", jArr (g.edges.map fun e => jNats [e.1, e.2])), ("adj", jDict g.adj),
        ("roots", jNats g.roots), ("queue", jNats g.queue), ("visited", jNats g.visited),
        ("pbd", jDict g.pbd), ("p2c", jDict g.p2c), ("cwr", jDict g.cwr)]

def errStr : Err → String
  | .recursion => "recursion"
  | .dictChanged => "dictChanged"

/-- ops: ["node", n] | ["edge", p, c] | ["iterate"] | ["direct"] | ["all"] | ["roots"]; stops at the first error -/
def runOps (fuel : Nat) : List Json → Nat → G → (G × Option (Nat × Err))
  | [], _, g => (g, none)
  | o :: rest, i, g =>
    match asArr o with
    | k :: args =>
      let a := args.map asNat
      let r : Except Err G :=
        match asStr k, a with
        | "node", [n] => .ok (addNode g n)
        | "edge", [p, c] => .ok (addEdge g p c)
        | "iterate", _ => iterate fuel g
        | "direct", _ => setDirect fuel g
        | "all", _ => setAll fuel g
        | "roots", _ => .ok (setRoots g)
        | _, _ => .ok g
      match r with
      | .ok g' => runOps fuel rest (i + 1) g'
      | .error e => (g, some (i, e))
    | [] => runOps fuel rest (i + 1) g

def parseFlp (j : Json) : List (Nat × List Nat) :=
  (arrF j "flp").map fun e => match asArr e with | [c, ps] => (asNat c, (asArr ps).map asNat) | _ => (0, [])

def handle (op : String) (j : Json) : Json :=
  match op with
  | "ops" =>
    let (g, e) := runOps (natF j "fuel") (arrF j "ops") 0 {}
    match e with
    | none => jObj [("ok", true), ("g", jG g)]
    | some (i, err) => jObj [("ok", false), ("at", toJson i), ("err", errStr err)]
  | "flp" =>
    -- BuildGraph + create_initial_queue + resolve_links' three calls; fuel 0 = the model's own bound
    let g0 := buildGraph (parseFlp j)
    let fuel := if natF j "fuel" == 0 then fuelBound g0 else natF j "fuel"
    match prepare fuel g0 with
    | .ok g => jObj [("ok", true), ("g", jG g), ("fuel", toJson fuel)]
    | .error err => jObj [("ok", false), ("err", errStr err), ("g0", jG g0)]
  | "groups" =>
    let cls := natsF j "cls"
    jObj [("groups", jDict (nodesPerGroup (fun n => cls.getD n 0) (natsF j "queue")))]
  | "required" =>
    let p2c : Dict := (arrF j "p2c").map fun e => match asArr e with | [c, ps] => (asNat c, (asArr ps).map asNat) | _ => (0, [])
    jObj [("req", jNats (requiredBefore p2c (natsF j "features")))]
  | _ => jErr s!"unknown op {op}"

end Drv.C01_graph
