import MlodaVerif.Drv.Util
import MlodaVerif.Model.Lifecycle
open Lean Store Life
namespace Drv.C09_life

def errName : Err → String
  | .noObject => "noObject" | .duplicateUuid => "duplicateUuid" | .keyError => "keyError" | .notImplemented => "notImplemented"
  | .notFound => "notFound" | .badData => "badData" | .noLocation => "noLocation" | .noResults => "noResults"

def jOptErr : Option Err → Json
  | none => Json.null
  | some e => Json.str (errName e)

def evOf (j : Json) : Option Ev :=
  match asArr j with
  | [t, a] =>
    match asStr t with
    | "spawn" => some (.spawn (asNat a))
    | "calc" => some (.ran (asNat a))
    | "uploadKeep" => some (.uploadKeep (asNat a))
    | "uploadReplace" => some (.uploadReplace (asNat a))
    | "otherDone" => some (.otherDone ((asArr a).map asNat))
    | _ => none
  | [t, a, b] =>
    match asStr t with
    | "register" => some (.register (asNat a) ((asArr b).map asNat))
    | "setFlyway" => some (.setFlyway (asNat a) ((asArr b).map asNat))
    | "trackFlyway" => some (.trackFlyway (asNat a) ((asArr b).map asNat))
    | _ => none
  | [t, o, st, f, r] => if asStr t == "fgDone" then some (.fgDone (asNat o) (asNat st) ((asArr f).map asNat) (asBool r)) else none
  | [t] =>
    match asStr t with
    | "periodic" => some .periodic
    | "pop" => some .pop
    | _ => none
  | _ => none

def dropJson (d : DropRec) : Json := jArr [toJson d.obj, d.tracked, jOptNat d.key, d.hadData]

def objJson (ob : Obj) : Json :=
  jObj [("children", jNats ob.cfw.children), ("tracker", jNats ob.cfw.tracker), ("key", jOptNat ob.cfw.dataKey), ("table", ob.table),
        ("nobj", toJson ob.cfw.objectIds), ("queue", match ob.queue with | none => Json.null | some q => jArr (q.map jNats))]

def pairsJson (d : List (Nat × List Nat)) : Json := jArr (d.map (fun p => jArr [toJson p.1, jNats p.2]))
def pairs2Json (d : List (Nat × Nat)) : Json := jArr (d.map (fun p => jArr [toJson p.1, toJson p.2]))

def stateJson (s : LS) : Json :=
  jObj [("objs", jArr (s.objs.map (fun p => jArr [toJson p.1, objJson p.2]))), ("track", pairsJson s.track), ("flyway", pairsJson s.flyway),
        ("results", pairs2Json s.results), ("yielded", pairs2Json s.yielded), ("finished", jNats s.finished), ("store", jNats s.store), ("loc", s.loc)]

def msgOf (j : Json) : Msg :=
  match asArr j with
  | [t, a] => if asStr t == "dc" then .dropComplete (asNat a) else .done (asNat a)
  | _ => .done 0

def msgJson : Msg → Json
  | .done i => jArr [Json.str "done", toJson i]
  | .dropComplete o => jArr [Json.str "dc", toJson o]

def resOf (s : String) : StepRes := if s == "key" then .key else if s == "raise" then .raise else .table

def cmdOf (j : Json) : WCmd :=
  match asArr j with
  | [t, f] => if asStr t == "drop" then .drop ((asArr f).map asNat) else .stop
  | [_, id, rq, res, uf] => .step (asNat id) (asBool rq) (resOf (asStr res)) (asBool uf)
  | _ => .stop

def handle (op : String) (j : Json) : Json :=
  match op with
  | "lifeRun" =>
    -- every event is applied to the state the previous one left (also after a raise: the harness goes on with the real objects too)
    let s0 : LS := init (boolF j "loc") (natsF j "store")
    let (s, outs) := (arrF j "evs").foldl (fun (acc : LS × List Json) e =>
      match asArr e with
      | [t] =>
        if asStr t == "getResults" then
          (acc.1, acc.2 ++ [match getResults acc.1 with | .ok v => jObj [("err", Json.null), ("values", jNats v)] | .error er => jObj [("err", Json.str (errName er))]])
        else if asStr t == "popAll" then (popAll acc.1, acc.2 ++ [jObj [("err", Json.null), ("drops", jArr [])]])
        else if asStr t == "final" then (finalCleanup acc.1, acc.2 ++ [jObj [("err", Json.null), ("drops", jArr [])]])
        else match evOf e with
          | some ev => let r := step acc.1 ev; (r.1, acc.2 ++ [jObj [("err", jOptErr r.2.2), ("drops", jArr (r.2.1.map dropJson))]])
          | none => (acc.1, acc.2 ++ [jErr "bad event"])
      | _ => match evOf e with
        | some ev => let r := step acc.1 ev; (r.1, acc.2 ++ [jObj [("err", jOptErr r.2.2), ("drops", jArr (r.2.1.map dropJson))]])
        | none => (acc.1, acc.2 ++ [jErr "bad event"])) (s0, [])
    jObj [("outs", jArr outs), ("state", stateJson s)]
  | "worker" =>
    let o := natF j "o"
    let w0 : WS := { cfw := { children := natsF j "children" } }
    let w := wloop o w0 ((arrF j "cmds").map cmdOf)
    jObj [("out", jArr (w.out.map msgJson)), ("tracker", jNats w.cfw.tracker), ("key", jOptNat w.cfw.dataKey), ("table", w.table), ("alive", w.alive),
          ("store", jNats w.store), ("error", w.error), ("ownStops", toJson w.ownStops), ("unread", toJson w.unread), ("nobj", toJson w.cfw.objectIds)]
  | "poll" =>
    let r := poll ((arrF j "queues").map (fun q => (asArr q).map msgOf)) (natsF j "coll")
    jObj [("queues", jArr (r.1.map (fun q => jArr (q.map msgJson)))), ("coll", jNats r.2), ("raised", false)]
  | "waitDrop" =>
    let r := waitDrop (natF j "o") ((arrF j "sched").map (fun q => (asArr q).map msgOf)) ((arrF j "q").map msgOf)
    jObj [("q", jArr (r.1.map msgJson)), ("found", r.2)]
  | "countBased" =>
    let c : Cfw := { children := natsF j "children", tracker := natsF j "tracker" }
    let r := reportCountBased c (natsF j "report")
    let r' := report c (natsF j "report")
    jObj [("count", match r.2 with | .dropped _ => "dropped" | .pending => "pending" | .no => "no"),
          ("set", match r'.2 with | .dropped _ => "dropped" | .pending => "pending" | .no => "no")]
  | _ => jErr s!"unknown op {op}"

end Drv.C09_life
