import MlodaVerif.Drv.Sched
namespace Drv.C09
def handle := Drv.Sched.handle
end Drv.C09
