import MlodaVerif.Drv.Sched
import MlodaVerif.Model.Store
open Lean Store
namespace Drv.C09

def dropJson : Drop → Json
  | .dropped k => jObj [("r", "dropped"), ("key", jOptNat k)]
  | .pending => jObj [("r", "pending")]
  | .no => jObj [("r", "no")]

def handle (op : String) (j : Json) : Json :=
  match op with
  | "reports" =>
    -- a compute-framework object driven by a sequence of reports (and uploads): {"children":[..],"ops":[["upload",k]|["report",[..]]]}
    let c0 : Cfw := { children := natsF j "children" }
    let (c, outs) := (arrF j "ops").foldl (fun (acc : Cfw × List Json) o =>
      match asArr o with
      | [k, v] =>
        if asStr k == "upload" then (upload acc.1 (asNat v), acc.2 ++ [Json.null])
        else let (c', d) := report acc.1 ((asArr v).map asNat); (c', acc.2 ++ [dropJson d])
      | _ => acc) (c0, [])
    jObj [("outs", jArr outs), ("tracker", jNats c.tracker), ("dataKey", jOptNat c.dataKey)]
  | "joinAll" =>
    let spawns := (arrF j "spawns").map (fun s => match asArr s with | [t, b] => (asNat t, asBool b) | _ => (0, false))
    let fails := natsF j "joinFails"
    let loop := if strF j "loop" == "raised" then Outcome.raised else Outcome.returned
    let (w, o) := compute spawns loop (fun t => fails.contains t)
    jObj [("live", jNats w.live), ("tasks", jNats w.tasks), ("outcome", if o == .raised then "raised" else "returned")]
  | _ => Drv.Sched.handle op j

end Drv.C09
