import MlodaVerif.Drv.Util
import MlodaVerif.Model.Builtin
import MlodaVerif.Model.BuiltinImpute
import MlodaVerif.Model.BuiltinWindow
import MlodaVerif.Model.BuiltinText
open Lean Builtin
namespace Drv.C19

/-- "num/den" (or "num") → Rat -/
def parseRat (s : String) : Rat :=
  match s.splitOn "/" with
  | [n, d] => mkRat (n.toInt?.getD 0) (d.toNat?.getD 1)
  | [n] => ((n.toInt?.getD 0 : Int) : Rat)
  | _ => 0

def showRat (r : Rat) : String := s!"{r.num}/{r.den}"

def optRat (j : Json) : Option Rat := (optStr j).map parseRat
def ratCol (j : Json) (k : String) : List (Option Rat) := (arrF j k).map optRat
def strCol (j : Json) (k : String) : List (Option String) := (arrF j k).map optStr

def jOptRat : Option Rat → Json
  | none => Json.null
  | some r => Json.str (showRat r)

def jRes (r : Res) : Json := jObj [("v", jOptRat r.v), ("sqrt", r.sqrt)]

def jResList : Option (List Res) → Json
  | none => jErr "unknown operation"
  | some l => jObj [("ok", jArr (l.map jRes))]

def keysOf (j : Json) : Option (List Nat) := if isNull (fld j "keys") then none else some (natsF j "keys")

def imputeRat (j : Json) (m : Method) : Except String (List (Option Rat)) :=
  let c := ratCol j "col"
  let const := optRat (fld j "const")
  let isInt := boolF j "isInt"
  match strF j "fw", keysOf j with
  | "pd", none => .ok (pandasImpute ratOps m const c)
  | "pa", none => .ok (arrowImpute ratOps isInt m const c)
  | "py", none => .ok (dictImpute ratOps m const c)
  | "pd", some ks => .ok (pandasGrouped ratOps m const ks c)
  | "pa", some ks => .ok (arrowGrouped ratOps isInt m const ks c)
  | "py", some ks => dictGrouped ratOps m const ks c
  | _, _ => .error "unknown framework"

def imputeStr (j : Json) (m : Method) : Except String (List (Option String)) :=
  let c := strCol j "col"
  let const := optStr (fld j "const")
  match strF j "fw", keysOf j with
  | "pd", none => .ok (pandasImpute strOps m const c)
  | "pa", none => .ok (arrowImpute strOps false m const c)
  | "py", none => .ok (dictImpute strOps m const c)
  | "pd", some ks => .ok (pandasGrouped strOps m const ks c)
  | "pa", some ks => .ok (arrowGrouped strOps false m const ks c)
  | "py", some ks => dictGrouped strOps m const ks c
  | _, _ => .error "unknown framework"

def handle (op : String) (j : Json) : Json :=
  match op with
  | "aggr" =>
    let c := ratCol j "col"
    match strF j "fw" with
    | "pd" => jResList (pandasAggr (strF j "fn") c)
    | "pa" => jResList (arrowAggr (strF j "fn") c)
    | f => jErr s!"no aggregation model for framework {f}"
  | "window" =>
    let c := ratCol j "col"
    let times := (arrF j "times").map asInt
    match strF j "fw" with
    | "pd" => jResList (pandasWindow (strF j "fn") (natF j "w") times c)
    | "pa" => jResList (arrowWindow (strF j "fn") (natF j "w") times c)
    | f => jErr s!"no window model for framework {f}"
  | "impute" =>
    match Method.ofString? (strF j "method") with
    | none => jErr "unknown operation"
    | some m =>
      if strF j "kind" == "str" then
        match constantGuard m (optStr (fld j "const")) with
        | .error e => jErr e
        | .ok _ => match imputeStr j m with
          | .ok l => jObj [("ok", jArr (l.map jOptStr))]
          | .error e => jErr e
      else
        match constantGuard m (optRat (fld j "const")) with
        | .error e => jErr e
        | .ok _ => match imputeRat j m with
          | .ok l => jObj [("ok", jArr (l.map jOptRat))]
          | .error e => jErr e
  | "text" =>
    match (strsF j "ops").mapM Text.Op.ofString? with
    | none => jErr "unknown operation"
    | some ops =>
      let c : List (Option Text.Str) := (strCol j "col").map (·.map String.toList)
      let out (l : List (Option Text.Str)) : Json := jObj [("ok", jArr (l.map (fun x => jOptStr (x.map String.ofList))))]
      match strF j "fw" with
      | "pd" => match Text.pandasClean ops c with
        | .ok l => out l
        | .error e => jErr e
      | "py" => out (Text.dictClean ops c)
      | f => jErr s!"no text model for framework {f}"
  | _ => jErr s!"C19: unknown op {op}"

end Drv.C19
