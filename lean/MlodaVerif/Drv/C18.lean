import MlodaVerif.Drv.Util
import MlodaVerif.Model.Links
open Lean Links
namespace Drv.C18

def jtOf : String → JoinType
  | "inner" => .inner | "left" => .left | "right" => .right | "outer" => .outer
  | "append" => .append | "union" => .union | _ => .invalid

def link (j : Json) : Link :=
  { jt := jtOf (strF j "jt"), left := natF j "l", right := natF j "r", li := strsF j "li", ri := strsF j "ri",
    uid := natF j "uid" }

def links (j : Json) (k : String) : List Link := (arrF j k).map link

/-- `{"parents":[null|n,…], "names":[…], "idx":[null|{"r":null|[[…]]},…]}` indexed by class id -/
def hier (j : Json) : Hier :=
  let ps : List (Option Nat) := (arrF j "parents").map optNat
  let ns : List String := strsF j "names"
  let ix : List (Option (Option (List Index))) := (arrF j "idx").map (fun e =>
    if isNull e then none else
      let r := fld e "r"
      some (if isNull r then none else some ((asArr r).map (fun t => (asArr t).map asStr))))
  { parent := fun c => (ps[c]?).join,
    name := fun c => (ns[c]?).getD s!"cls{c}",
    indexDecl := fun c => (ix[c]?).join }

def uids (ls : List Link) : Json := jNats (ls.map (·.uid))

def vout : VOutcome → Json
  | .ok => jObj [("r", "ok")]
  | .badJoinType _ => jObj [("r", "jointype")]  -- the message names the join type object, not the link
  | .double i j => jObj [("r", "double"), ("i", toJson i), ("j", toJson j)]
  | .conflict i j => jObj [("r", "conflict"), ("i", toJson i), ("j", toJson j)]
  | .rightJoin i j => jObj [("r", "right"), ("i", toJson i), ("j", toJson j)]

def jOptBool : Option Bool → Json | none => Json.null | some b => toJson b

def pairOf (p : Json) : Nat × Nat := match asArr p with
  | [a, b] => (asNat a, asNat b)
  | _ => (0, 0)

def handle (op : String) (j : Json) : Json :=
  let H := hier j
  match op with
  | "mro" => jArr ((arrF j "cs").map (fun c => jNats (H.mro (asNat c))))
  | "rel" => jArr ((arrF j "pairs").map (fun p =>
      let (c, q) := pairOf p
      jObj [("sub", H.isSub c q), ("dist", toJson (H.dist c q))]))
  | "find" =>
    let ls := links j "links"
    let lsOpt : Option (List Link) := if isNull (fld j "links") then none else some ls
    jArr ((arrF j "pairs").map (fun p =>
      let (x, y) := pairOf p
      jObj [("m", uids (findMatchingLinksOpt H lsOpt x y)), ("s", uids (Spec.findLinks H ls x y)),
            ("a", jNats ((ls.filter (asymmetricAdmitted H x y)).map (·.uid)))]))
  | "select" =>
    let ls := links j "links"
    jArr ((arrF j "pairs").map (fun p => let (x, y) := pairOf p; uids (selectMostSpecific H ls x y)))
  | "mkSet" => uids (mkSet H (links j "links"))
  | "validate" =>
    let ls := links j "links"
    if isNull (fld j "links") then jObj [("v", vout .ok), ("contra", false), ("reuse", false)] else
    jObj [("v", vout (validateLinks H ls)), ("contra", Spec.contradictory ls), ("reuse", Spec.rightLeftReuse ls)]
  | "resolveConflict" => toJson (resolveConflict (links j "links"))
  | "isPartOf" => jArr ((arrF j "pairs").map (fun p => match asArr p with
      | [a, b] => toJson (isPartOf ((asArr a).map asStr) ((asArr b).map asStr))
      | _ => jErr "pair"))
  | "supports" => jArr ((arrF j "qs").map (fun q =>
      jOptBool (H.supportsIndex (natF q "c") (strsF q "i"))))
  | "indexColumns" => jArr ((arrF j "cs").map (fun c => match H.indexColumns (asNat c) with
      | none => Json.null
      | some l => jArr (l.map jStrs)))
  | _ => jErr s!"C18: unknown op {op}"

end Drv.C18
