import MlodaVerif.Drv.Sched
namespace Drv.C08
def handle := Drv.Sched.handle
end Drv.C08
