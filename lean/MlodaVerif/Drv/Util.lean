import Lean.Data.Json
/-! JSON helpers for the line-protocol driver (no Mathlib). -/
open Lean

namespace Drv

def fld (j : Json) (k : String) : Json := (j.getObjVal? k).toOption.getD Json.null

def asNat (j : Json) : Nat := (j.getNat?).toOption.getD 0
def asInt (j : Json) : Int := (j.getInt?).toOption.getD 0
def asStr (j : Json) : String := (j.getStr?).toOption.getD ""
def asBool (j : Json) : Bool := (j.getBool?).toOption.getD false
def asArr (j : Json) : List Json := ((j.getArr?).toOption.getD #[]).toList

def natF (j : Json) (k : String) : Nat := asNat (fld j k)
def intF (j : Json) (k : String) : Int := asInt (fld j k)
def strF (j : Json) (k : String) : String := asStr (fld j k)
def boolF (j : Json) (k : String) : Bool := asBool (fld j k)
def arrF (j : Json) (k : String) : List Json := asArr (fld j k)
def natsF (j : Json) (k : String) : List Nat := (arrF j k).map asNat
def strsF (j : Json) (k : String) : List String := (arrF j k).map asStr
def isNull (j : Json) : Bool := match j with | .null => true | _ => false
def optNat (j : Json) : Option Nat := if isNull j then none else some (asNat j)
def optStr (j : Json) : Option String := if isNull j then none else some (asStr j)
def optBool (j : Json) : Option Bool := if isNull j then none else some (asBool j)

def jNats (l : List Nat) : Json := Json.arr (l.map (fun n => toJson n)).toArray
def jStrs (l : List String) : Json := Json.arr (l.map Json.str).toArray
def jArr (l : List Json) : Json := Json.arr l.toArray
def jOptStr : Option String → Json | none => Json.null | some s => Json.str s
def jOptNat : Option Nat → Json | none => Json.null | some s => toJson s
def jObj (kvs : List (String × Json)) : Json := Json.mkObj kvs
def jErr (msg : String) : Json := jObj [("err", Json.str msg)]


/-- Line protocol: one JSON object per input line (`{"op": "<Cxx>.<name>", ...}` or just `"<name>"`), one JSON value per
output line.  `handle` receives the operation name (without the property prefix) and the whole object. -/
partial def mainLoop (handle : String → Json → Json) : IO Unit := do
  let inp ← IO.getStdin
  let out ← IO.getStdout
  let rec go : IO Unit := do
    let line ← inp.getLine
    if line.isEmpty then return ()
    let t := line.trimAscii.toString
    if t.isEmpty then go else
    let res := match Json.parse t with
      | .error e => jErr s!"parse: {e}"
      | .ok j =>
        let op := strF j "op"
        let name := match op.splitOn "." with
          | [_, o] => o
          | _ => op
        handle name j
    out.putStrLn res.compress
    go
  go
  out.flush

end Drv
