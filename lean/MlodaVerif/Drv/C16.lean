import MlodaVerif.Drv.Util
import MlodaVerif.Model.Config
/-! line-protocol driver of C16: JSON <-> `Chain.PV`, one op per modelled function -/
open Lean Chain Config Gen.Chain
namespace Drv.C16

def S (s : String) : Str := s.toList
def J (s : Str) : Json := Json.str (String.ofList s)

/-- wire encoding of Python values: JSON scalars / arrays as themselves, everything else tagged with `"$"` -/
partial def toPV (j : Json) : PV :=
  let kvs (a : Json) : List (Str × PV) := (asArr a).map fun p =>
    match asArr p with
    | [k, v] => (S (asStr k), toPV v)
    | _ => ([], .none)
  match j with
  | .null => .none
  | .bool b => .bool b
  | .str s => .str s.toList
  | .num n => if n.exponent == 0 then .int n.mantissa else .float (toString n).toList
  | .arr a => .list (a.toList.map toPV)
  | .obj _ =>
    match strF j "$" with
    | "dict" => .dict (kvs (fld j "kv"))
    | "tuple" => .tuple ((arrF j "v").map toPV)
    | "set" => .set ((arrF j "v").map toPV)
    | "fset" => .fset ((arrF j "v").map toPV)
    | "float" => .float (S (strF j "r"))
    | "feat" => .feat (toPV (fld j "name")) (kvs (fld j "group")) (kvs (fld j "ctx"))
    | _ => .none

partial def fromPV (v : PV) : Json :=
  let kvs (l : List (Str × PV)) : Json := jArr (l.map fun kv => jArr [J kv.1, fromPV kv.2])
  match v with
  | .none => Json.null
  | .bool b => Json.bool b
  | .int i => toJson i
  | .float r => jObj [("$", "float"), ("r", J r)]
  | .str s => J s
  | .list l => jArr (l.map fromPV)
  | .tuple l => jObj [("$", "tuple"), ("v", jArr (l.map fromPV))]
  | .set l => jObj [("$", "set"), ("v", jArr (l.map fromPV))]
  | .fset l => jObj [("$", "fset"), ("v", jArr (l.map fromPV))]
  | .dict d => jObj [("$", "dict"), ("kv", kvs d)]
  | .feat n g c => jObj [("$", "feat"), ("name", fromPV n), ("group", kvs g), ("ctx", kvs c)]

def optsOf (j : Json) : Opts :=
  match toPV j with
  | .feat _ g c => ⟨g, c⟩
  | _ => emptyOpts

def errJ : Err → Json
  | .value t => jObj [("err", "ValueError"), ("tag", t)]
  | .type t => jObj [("err", "TypeError"), ("tag", t)]
  | .attr t => jObj [("err", "AttributeError"), ("tag", t)]
  | .unmodelled t => jObj [("err", "unmodelled"), ("tag", t)]

def exc {α} (f : α → Json) : Except Err α → Json
  | .ok a => f a
  | .error e => errJ e

def groupByName (n : String) : Option Group := groups.find? (·.name == S n)

def paramJ : Param → Json
  | .s v => J v
  | .n v => toJson v

def chainJ : Chain → Json
  | .src ns => jObj [("src", jArr (ns.map J))]
  | .step c op =>
    jObj [("step", chainJ c), ("group", match groupAt op.gid with | some g => J g.name | none => Json.null),
          ("params", jArr (op.params.map paramJ))]

partial def chainOf (j : Json) : Chain :=
  match (j.getObjVal? "src").toOption with
  | some s => .src ((asArr s).map fun x => S (asStr x))
  | none =>
    let gname := strF j "group"
    let gid := (groups.findIdx? (·.name == S gname)).getD 999
    let ps := (arrF j "params").map fun p => match p with
      | .str s => Param.s (S s)
      | p => Param.n (asInt p)
    .step (chainOf (fld j "step")) ⟨gid, ps⟩

def capsJ (c : Caps) : Json := jArr (c.map fun o => match o with | some s => J s | none => Json.null)

def inputsJ (i : Inputs) : Json := jObj [("main", jArr (i.main.map fromPV)), ("extras", jArr (i.extras.map fromPV))]

def withGroup (j : Json) (f : Group → Json) : Json :=
  match groupByName (strF j "group") with
  | some g => f g
  | none => jErr "unknown group"

def handle (op : String) (j : Json) : Json :=
  match op with
  | "consts" =>
    jObj [("chainSep", J chainSep), ("columnSep", J [columnSep]), ("inputSep", J [inputSep]),
          ("groups", jArr (groups.map fun g => jObj [("name", J g.name), ("modelled", modelled g), ("pattern", g.pattern)]))]
  | "rsplit" =>
    match rsplitOnce (S (strF j "sep")) (S (strF j "s")) with
    | some (a, b) => jArr [J a, J b]
    | none => Json.null
  | "split" =>
    match S (strF j "c") with
    | [c] => jArr ((splitOn c (S (strF j "s"))).map J)
    | _ => jErr "one char"
  | "matchPattern" => withGroup j fun g =>
    match matchPattern g.toks (S (strF j "s")) with
    | some c => capsJ c
    | none => Json.null
  | "parseFeatureName" => withGroup j fun g =>
    let sep := match optStr (fld j "sep") with | some s => S s | none => chainSep
    exc (fun r => match r with
      | none => Json.null
      | some (o, s) => jArr [match o with | some x => J x | none => Json.null, J s])
      (parseFeatureName sep [g.toks] (S (strF j "s")))
  | "getInFeatures" => exc (fun l => jArr (l.map fromPV)) (getInFeatures (optsOf (fld j "opts")))
  | "matchConfiguration" => withGroup j fun g =>
    exc (fun r => match r with | none => Json.str "raise" | some b => Json.bool b)
      (matchConfiguration g (S (strF j "name")) (optsOf (fld j "opts")))
  | "matchCriteria" => withGroup j fun g =>
    exc (fun b => Json.bool b) (matchCriteria g (S (strF j "name")) (optsOf (fld j "opts")))
  | "inputFeatures" => withGroup j fun g =>
    exc inputsJ (inputFeatures g (optsOf (fld j "opts")) (S (strF j "name")))
  | "extractSource" => withGroup j fun g =>
    exc (fun l => jArr (l.map fromPV)) (extractSourceFeatures g (optsOf (fld j "opts")) (S (strF j "name")))
  | "extractParams" => withGroup j fun g =>
    exc (fun l => jArr (l.map paramJ)) (extractParams g (optsOf (fld j "opts")) (S (strF j "name")))
  | "matchingGroups" =>
    exc (fun l => jArr (l.map fun i => match groupAt i with | some g => J g.name | none => Json.null))
      (matchingGroups (S (strF j "name")) (optsOf (fld j "opts")))
  | "resolve" =>
    let f := toPV (fld j "feat")
    let fuel := natF j "fuel"
    match (if boolF j "prop" then resolveFeatProp fuel f else resolveFeat fuel f) with
    | some c => chainJ c
    | none => Json.null
  | "render" => J (chainOf (fld j "chain")).render
  | "columnBase" => J (columnBase (S (strF j "s")))
  | "resolveMulti" => jArr ((resolveMultiColumn (S (strF j "s")) ((strsF j "cols").map S)).map J)
  | "load" => exc (fun l => jArr (l.map fromPV)) (loadFeatures (toPV (fld j "data")))
  | "schemaValid" => Json.bool (schemaValid (toPV (fld j "data")))
  | _ => jErr s!"C16: unknown op {op}"

end Drv.C16
