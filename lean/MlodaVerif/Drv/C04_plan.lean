import MlodaVerif.Drv.Util
import MlodaVerif.Model.PlanFull
import MlodaVerif.Model.PlanOK
/-! Line-protocol driver of `Model/PlanFull.lean` (extension `C04_plan`).

World (shared by all ops): `anc` `[[u,[a…]]…]` (in the order of `parent_to_children_mapping.keys()`), `adj` `[[u,[c…]]…]`,
`fw` / `cls` `[[u,x]…]`, `sub` `[[c,d]…]` (pairs with issubclass(c,d), reflexive pairs implied), `data` `[[[l,lf,rf],[u…]]…]`,
`order` `[[k,[l…]]…]`, `links` `[[uuid,jt,lcls,rcls]…]`, `ord` `[[site,[u…]]…]`, `n0`.
Queue element: `["l",[l,lf,rf]]` | `["f",cls,[[u…]…]]`. -/
open Lean PlanFull Sched
namespace Drv.C04_plan

def natsOf (j : Json) : List Nat := (asArr j).map asNat

def tabOf (j : Json) : List (Nat × List Nat) :=
  (asArr j).map (fun e => match asArr e with | [k, s] => (asNat k, natsOf s) | _ => (0, []))

def lookupL (tab : List (Nat × List Nat)) (u : Nat) : List Nat :=
  match tab.find? (fun e => e.1 == u) with | some e => e.2 | none => []

def natTab (j : Json) : List (Nat × Nat) :=
  (asArr j).map (fun e => match asArr e with | [k, s] => (asNat k, asNat s) | _ => (0, 0))

def lookupN (tab : List (Nat × Nat)) (u : Nat) : Nat :=
  match tab.find? (fun e => e.1 == u) with | some e => e.2 | none => 0

def keyOf (j : Json) : Key :=
  match natsOf j with
  | [l, a, b] => { link := l, left := a, right := b }
  | _ => { link := 0, left := 0, right := 0 }

def jKey (k : Key) : Json := jNats [k.link, k.left, k.right]

def jtOf (s : String) : JT :=
  match s with
  | "left" => .left | "right" => .right | "outer" => .outer | "append" => .append | "union" => .union | _ => .inner

def jtStr : JT → String
  | .inner => "inner" | .left => "left" | .right => "right" | .outer => "outer" | .append => "append" | .union => "union"

def graphOf (j : Json) : Graph :=
  let anc := tabOf (fld j "anc")
  let adj := tabOf (fld j "adj")
  let fw := natTab (fld j "fw")
  let cls := natTab (fld j "cls")
  let sub := natTab (fld j "sub")
  { anc := lookupL anc, ancKeys := anc.map (·.1), adj := lookupL adj, fw := lookupN fw, cls := lookupN cls,
    sub := fun c d => c == d || sub.any (fun e => e.1 == c && e.2 == d) }

def trekOf (j : Json) : Trek :=
  { data := (arrF j "data").map (fun e => match asArr e with | [k, s] => (keyOf k, natsOf s) | _ => (keyOf Json.null, [])),
    order := tabOf (fld j "order") }

def linfoOf (j : Json) : Nat → LinkInfo :=
  let tab : List (Nat × LinkInfo) := (arrF j "links").map (fun e => match asArr e with
    | [u, t, a, b] => (asNat u, { jt := jtOf (asStr t), lcls := asNat a, rcls := asNat b })
    | [u, t, a, b, la, ra] =>
      (asNat u, { jt := jtOf (asStr t), lcls := asNat a, rcls := asNat b,
                  lal := if isNull la then none else some (natsOf la), ral := if isNull ra then none else some (natsOf ra) })
    | _ => (0, {}))
  fun u => match tab.find? (fun e => e.1 == u) with | some e => e.2 | none => {}

def ordOf (j : Json) : Ord := tabOf (fld j "ord")

def qelOf (j : Json) : QEl :=
  match asArr j with
  | [t, k] => if asStr t == "l" then .link (keyOf k) else .fg (asNat k) []
  | [_, c, bs] => .fg (asNat c) ((asArr bs).map natsOf)
  | _ => .fg 0 []

def kindStr : Kind → String
  | .fg => "fg" | .tfs => "tfs" | .join => "join"

def kindOf (s : String) : Kind :=
  match s with | "tfs" => .tfs | "join" => .join | _ => .fg

def jStep (s : PStep) : Json :=
  jObj [("kind", Json.str (kindStr s.kind)), ("outs", jNats s.outs), ("req", jNats s.req), ("uuid", toJson s.uuid),
        ("cls", toJson s.cls), ("fw", toJson s.fw), ("cls2", toJson s.cls2), ("fw2", toJson s.fw2), ("link", jOptNat s.link),
        ("jt", Json.str (jtStr s.jt)), ("lfu", jNats s.lfu), ("rfu", jNats s.rfu), ("rfu1", jOptNat s.rfu1), ("cir", jNats s.cir),
        ("tfsIds", jNats s.tfsIds), ("any", jOptNat s.anyUuid), ("upload", Json.bool s.upload)]

def stepOf (j : Json) : PStep :=
  { kind := kindOf (strF j "kind"), outs := natsF j "outs", req := natsF j "req", uuid := natF j "uuid", cls := natF j "cls",
    fw := natF j "fw", cls2 := natF j "cls2", fw2 := natF j "fw2", link := optNat (fld j "link"), jt := jtOf (strF j "jt"),
    lfu := natsF j "lfu", rfu := natsF j "rfu", rfu1 := optNat (fld j "rfu1"), cir := natsF j "cir", tfsIds := natsF j "tfsIds",
    anyUuid := optNat (fld j "any"), upload := boolF j "upload" }

def jPre : PreEl → Json
  | .link k => jObj [("kind", Json.str "link"), ("key", jKey k)]
  | .step s => jStep s

def jErrS (e : String) : Json := jObj [("err", Json.str e)]

def handle (op : String) (j : Json) : Json :=
  let g := graphOf j
  let t := trekOf j
  let linfo := linfoOf j
  let o := ordOf j
  let n0 := natF j "n0"
  match op with
  | "create" =>
    let q := (arrF j "queue").map qelOf
    match addFgSteps g t o q with
    | .error e => jObj [("err", Json.str e), ("stage", Json.str "fg")]
    | .ok pre =>
      let jpre := jArr (pre.map jPre)
      match addJoinsteps g t linfo o (fscOf pre) pre { n := n0, coll := [], plan := [] } with
      | .error e => jObj [("err", Json.str e), ("stage", Json.str "join"), ("pre", jpre)]
      | .ok js =>
        let jcoll := jArr (js.coll.map (fun e => jArr [toJson e.1.uuid, jNats e.2]))
        match handleAppendUnion js.plan with
        | .error e => jObj [("err", Json.str e), ("stage", Json.str "au"), ("pre", jpre)]
        | .ok p2 =>
          let jmid := jArr (p2.map jStep)
          match addTfs g linfo o (js.coll.map (fun e => (e.1.uuid, e.2))) p2 js.n with
          | .error e => jObj [("err", Json.str e), ("stage", Json.str "tfs"), ("pre", jpre), ("mid", jmid), ("coll", jcoll)]
          | .ok p =>
            -- cross-check of the composed definition
            let same := match createPlan g t linfo o n0 q with
              | .ok p' => (p'.map jStep) == (p.map jStep)
              | .error _ => false
            jObj [("pre", jpre), ("mid", jmid), ("coll", jcoll), ("plan", jArr (p.map jStep)), ("composed", Json.bool same),
                  ("sched", jArr ((toSchedPlan p).map fun st => jObj [("kind", Json.str (kindStr st.kind)), ("outs", jNats st.outs), ("req", jNats st.req)])),
                  ("planOK", Json.bool (planOK (toSchedPlan p)))]
  | "reduce" =>
    jObj [("out", jNats (reduceChildren g.adj (natsF j "children")))]
  | "findUuids" =>
    jObj [("out", jArr ((findFeatureUuids (natsF j "parents") ((arrF j "fsc").map natsOf)).map (fun e => jArr [toJson e.1, jNats e.2])))]
  | "runLink" =>
    match runLink g t linfo o ((arrF j "fsc").map natsOf) (natF j "n") (keyOf (fld j "key")) with
    | .error e => jErrS e
    | .ok none => jObj [("out", Json.null)]
    | .ok (some s) => jObj [("out", jStep s)]
  | "similar" =>
    let coll := (arrF j "coll").map (fun s => (stepOf s, ([] : List Nat)))
    jObj [("out", jNats (similarUuids coll (natF j "lf") (natF j "rf")))]
  | "handleAU" =>
    match handleAppendUnion ((arrF j "plan").map stepOf) with
    | .error e => jErrS e
    | .ok p => jObj [("out", jArr (p.map jStep))]
  | "addTfs" =>
    match addTfs g linfo o (tabOf (fld j "jc")) ((arrF j "plan").map stepOf) (natF j "n") with
    | .error e => jErrS e
    | .ok p => jObj [("out", jArr (p.map jStep))]
  | _ => jErr s!"unknown op {op}"

end Drv.C04_plan
