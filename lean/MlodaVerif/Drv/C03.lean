import MlodaVerif.Drv.Util
import MlodaVerif.Model.Select
open Lean Select
/-! Line-protocol driver for C03.  Names cross the wire as arrays of code points (no string-encoding issues). -/
namespace Drv.C03

def nm (j : Json) : Select.Name := (asArr j).map asNat
def nms (j : Json) : List Select.Name := (asArr j).map nm
def jNm (n : Select.Name) : Json := jNats n
def jNms (l : List Select.Name) : Json := jArr (l.map jNm)

def errName : Err → String
  | .invalidOrdering => "invalidOrdering"
  | .noColumns => "noColumns"
  | .emptyData => "emptyData"
  | .noGroup => "noGroup"
  | .fuel => "fuel"
  | .duplicate => "duplicate"

def jRes {α} (f : α → Json) : Except Err α → Json
  | .ok a => jObj [("ok", f a)]
  | .error e => jObj [("err", errName e)]

def fwOf (s : String) : Fw := if s == "pd" then .pandas else if s == "py" then .pythonDict else .pyarrow

def group (j : Json) : GroupSpec :=
  { criteria := nms (fld j "criteria"),
    supported := nms (fld j "supported"),
    parents := (arrF j "parents").map (fun p => match asArr p with
      | [a, b] => (nm a, nms b)
      | _ => ([], [])),
    index := nms (fld j "index") }

def world (j : Json) : World := { groups := (arrF j "groups").map group, filters := nms (fld j "filters") }

def jEntry (e : Entry) : Json := jArr [toJson e.1, jNm e.2.name, Json.bool e.2.child, Json.bool e.2.requested]

def step (j : Json) : Step := { flagged := nms (fld j "flagged"), cols := nms (fld j "cols") }

def withOrder (j : Json) (k : ColOrder → Json) : Json :=
  match parseOrder (optStr (fld j "order")) with
  | .error e => jObj [("err", errName e)]
  | .ok o => k o

def handle (op : String) (j : Json) : Json :=
  match op with
  | "identify" => jRes jNms (identifyRaw (nms (fld j "req")) (nms (fld j "cols")) (optStr (fld j "order")))
  | "select" => jRes jNms (selectColsRaw (fwOf (strF j "fw")) (nms (fld j "req")) (nms (fld j "cols")) (optStr (fld j "order")))
  | "selectDict" =>
      jRes (fun rows => jArr (rows.map jNms)) (selectDictRowsRaw ((arrF j "rows").map nms) (nms (fld j "req")) (optStr (fld j "order")))
  | "setFeatureName" => jNm (setFeatureName (nms (fld j "supported")) (nm (fld j "name")))
  | "baseName" => jNm (baseName (nm (fld j "name")))
  | "sort" => jNms (sortNames (nms (fld j "names")))
  | "flags" => withOrder j fun _ =>   -- the `column_ordering` guard of `mlodaAPI.__init__` comes first
    let w := world j
    match prepareRequest w (natF j "fuel") (nms (fld j "request")) with
    | .error e => jObj [("err", errName e)]
    | .ok coll => jObj [("ok", jArr (coll.map jEntry)),
                        ("flagged", jArr ((List.range w.groups.length).map (fun g => jNms (flaggedOf coll g))))]
  | "grouping" =>
    let fs : List TFeat := (arrF j "feats").map (fun f => match asArr f with
      | [n, o, d] => { name := nm n, opt := asNat o, dtype := optNat d }
      | _ => { name := [], opt := 0, dtype := none })
    jArr ((groupByType fs).map (fun b => jArr (b.2.map (fun f => jArr [jNm f.name, toJson f.opt, jOptNat f.dtype]))))
  | "tables" => withOrder j fun o =>
      jRes (fun ts => jArr (ts.map jNms)) (results (fwOf (strF j "fw")) o ((arrF j "steps").map step))
  | _ => jErr s!"C03: unknown op {op}"

end Drv.C03
