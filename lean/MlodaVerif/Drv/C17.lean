import MlodaVerif.Drv.Util
import MlodaVerif.Model.TypeCheck
open Lean Gen TypeCheck
namespace Drv.C17

def optD (j : Json) : Option DType := (optStr j).bind DType.ofName?

def feat (j : Json) : Feat :=
  { name := strF j "name", declared := optD (fld j "declared"), strictOpt := optBool (fld j "strict") }

def outcome : Outcome → Json
  | .ok => jObj [("r", "ok")]
  | .mismatch c d a => jObj [("r", "mismatch"), ("col", c), ("declared", d.name), ("actual", a.name)]

def handle (op : String) (j : Json) : Json :=
  match op with
  | "compat" =>
    match optD (fld j "d"), optD (fld j "a") with
    | some d, some a => jObj [("strict", strictCompat d a), ("loose", looseCompat d a),
                              ("docStrict", Doc.strict d a), ("docLenient", Doc.lenient d a)]
    | _, _ => jErr "bad dtype"
  | "fromArrow" => jOptStr ((fromArrow (strF j "t")).map DType.name)
  | "validate" =>
    let cols : List Col := (arrF j "cols").map (fun c => (strF c "name", (fromArrow (strF c "arrow"))))
    let feats := ((arrF j "feats").map feat).map (propagateStrict (boolF j "apiStrict"))
    outcome (validate cols feats)
  | "setDataType" =>
    match setDataType (optD (fld j "req")) (optD (fld j "fg")) with
    | .error _ => jObj [("r", "conflict")]
    | .ok r => jObj [("r", "ok"), ("type", jOptStr (r.map DType.name))]
  | _ => jErr s!"C17: unknown op {op}"

end Drv.C17
