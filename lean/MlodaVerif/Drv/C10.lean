import MlodaVerif.Drv.Util
import MlodaVerif.Model.Resolve
open Lean Resolve
namespace Drv.C10

def optNats (j : Json) : Option (List Nat) := if isNull j then none else some ((asArr j).map asNat)

def idxList (j : Json) : Option (List Links.Index) :=
  if isNull j then none else some ((asArr j).map (fun t => (asArr t).map asStr))

def fg (j : Json) : FG :=
  { id := natF j "id", crit := boolF j "crit", domain := strF j "domain", rule := optNats (fld j "rule"),
    indexCols := idxList (fld j "idx") }

def world (j : Json) : World :=
  let ps : List (Option Nat) := (arrF j "parents").map optNat
  let av := natsF j "avail"
  { parent := fun c => (ps[c]?).join, allCfw := natsF j "allCfw", available := fun c => av.contains c }

def collector (j : Json) : Option Collector :=
  if isNull j then none else some { disabled := natsF j "disabled", enabled := natsF j "enabled" }

def feature (j : Json) : Feature := { domain := optStr (fld j "domain"), cfw := optNat (fld j "cfw") }

def linkIdx (j : Json) : Option (List (Links.Index × Links.Index)) :=
  if isNull j then none else some ((asArr j).map (fun p => match asArr p with
    | [a, b] => ((asArr a).map asStr, (asArr b).map asStr)
    | _ => ([], [])))

def errName : Err → String
  | .noApiFramework => "noApiFramework"
  | .featureFrameworkNotOffered => "featureFrameworkNotOffered"
  | .noAccessibleGroups => "noAccessibleGroups"
  | .noGroup => "noGroup"
  | .multipleGroups => "multipleGroups"
  | .featureFrameworkUnsupported => "featureFrameworkUnsupported"

def jErrE (e : Err) : Json := jObj [("err", errName e)]

def accItem (j : Json) : FG × List Cfw := (fg j, natsF j "cfws")

def pairOut (p : FG × List Cfw) : Json := jObj [("ok", jArr [toJson p.1.id, jNats p.2])]

def handle (op : String) (j : Json) : Json :=
  let W := world j
  match op with
  | "setup" =>
    match setupComputeFramework W (optNats (fld j "api")) ((arrF j "requested").map optNat) with
    | .ok l => jObj [("ok", jNats l)]
    | .error e => jErrE e
  | "applicable" => jArr ((arrF j "cs").map (fun c => toJson (applicable (collector (fld j "pc")) (asNat c))))
  | "accessible" =>
    match accessiblePlugins W (collector (fld j "pc")) ((arrF j "fgs").map fg) (natsF j "cfws") with
    | .ok l => jObj [("ok", jArr (l.map (fun p => jArr [toJson p.1.id, jNats p.2])))]
    | .error e => jErrE e
  | "identify" =>
    let acc := (arrF j "acc").map accItem
    let f := feature (fld j "feature")
    let links := linkIdx (fld j "links")
    jObj [("r", match identify W f links acc with | .ok p => pairOut p | .error e => jErrE e),
          ("loop", jNats ((filterLoop f links acc).map (·.1.id))),
          ("sub", jNats ((filterSubclasses W (filterLoop f links acc)).map (·.1.id)))]
  | "setcfw" =>
    match setComputeFramework (feature (fld j "feature")) (natsF j "cfws") with
    | .ok l => jObj [("ok", jNats l)]
    | .error e => jErrE e
  | "resolve" =>
    let fgs := (arrF j "fgs").map fg
    let pc := collector (fld j "pc")
    let cfws := natsF j "cfws"
    let f := feature (fld j "feature")
    let links := linkIdx (fld j "links")
    jObj [("r", match resolve W pc fgs cfws f links with | .ok p => pairOut p | .error e => jErrE e),
          ("adm", jNats ((fgs.filter (Spec.admissible W pc cfws f links)).map (·.id)))]
  | "docResolve" =>
    match resolveFeatureDoc W ((arrF j "fgs").map fg) with
    | .none => jObj [("r", "none")]
    | .one c => jObj [("r", "one"), ("c", toJson c)]
    | .multiple cs => jObj [("r", "multiple"), ("cs", jNats cs)]
  | "isSub" => jArr ((arrF j "pairs").map (fun p => match asArr p with
      | [a, b] => toJson (W.isSub (asNat a) (asNat b))
      | _ => Json.null))
  | _ => jErr s!"C10: unknown op {op}"

end Drv.C10
