import MlodaVerif.Drv.Util
import MlodaVerif.Model.Session
open Lean Session
/-! Line-protocol driver for C07. -/
namespace Drv.C07

def ints (j : Json) : List Int := (asArr j).map asInt
def jInts (l : List Int) : Json := jArr (l.map (fun i => toJson i))

def apiData (j : Json) : Option ApiData :=
  if isNull j then none
  else if boolF j "empty" then some .empty
  else some (.data (ints (fld j "v")) (ints (fld j "flag")))

def kind (j : Json) : Kind :=
  match strF j "t" with
  | "static" => .static (ints (fld j "table"))
  | "api" => .api (intF j "add")
  | "apiRoot" => .apiRoot
  | _ => .derived (natF j "src") (intF j "add")

def stepOf (j : Json) : Session.Step :=
  { id := natF j "id", kind := kind (fld j "kind"), requested := boolF j "requested", done := false }

def modeOf (s : String) : Mode := if s == "threading" then .threading else .sync

def consumer (j : Json) : Consumer :=
  match strF j "t" with
  | "close" => .closeAfter (natF j "k")
  | "raise" => .raiseAfter (natF j "k")
  | _ => .exhaust

def opOf (j : Json) : Op :=
  match strF j "op" with
  | "stream" => .stream (apiData (fld j "d")) (modeOf (strF j "mode")) (consumer (fld j "consumer"))
  | _ => .run (apiData (fld j "d")) (modeOf (strF j "mode"))

def errName : Err → String
  | .apiMissing => "apiMissing"
  | .flagRaised => "flagRaised"
  | .missingInput => "missingInput"
  | .premature => "premature"
  | .noResults => "noResults"

def jTabs (ts : List (Nat × Table)) : Json := jArr (ts.map (fun t => jArr [toJson t.1, jInts t.2]))

def jOutcome : Outcome → Json
  | .tables ts => jObj [("tables", jTabs ts)]
  | .streamed ts e => jObj [("streamed", jTabs ts), ("err", match e with | none => Json.null | some e => Json.str (errName e))]
  | .raised e => jObj [("raised", errName e)]

def feature (j : Json) : Feature :=
  { name := natF j "name", opts := (arrF j "opts").map (fun p => match asArr p with | [a, b] => (asNat a, asNat b) | _ => (0, 0)),
    requested := boolF j "requested", link := optNat (fld j "link") }

def jFeature (f : Feature) : Json :=
  jObj [("name", toJson f.name), ("opts", jArr (f.opts.map (fun p => jArr [toJson p.1, toJson p.2]))),
        ("requested", Json.bool f.requested), ("link", jOptNat f.link)]

def ufilter (j : Json) : UFilter := { name := natF j "name", spec := natF j "spec" }
def req (j : Json) : Req :=
  { fw := natF j "fw", opts := natF j "opts",
    feats := (arrF j "feats").map (fun p => match asArr p with | [a, b] => (asNat a, asNat b) | _ => (0, 0)) }

def jSFilter (f : SFilter) : Json := jArr [toJson f.name, toJson f.fw, toJson f.opts, toJson f.spec]

def jColl (c : Coll) : Json :=
  jArr ((keys c).map (fun k => jArr [jArr [toJson k.1, toJson k.2], jArr ((setAt c k).map jSFilter)]))

def jPlan : Except GfErr (List (Nat × List SFilter)) → Json
  | .error _ => jObj [("err", "differentFilters")]
  | .ok l => jObj [("ok", jArr (l.map (fun p => jArr [toJson p.1, jArr (p.2.map jSFilter)])))]

/-- a sequence of plannings, sharing one GlobalFilter object (`shared`) or each with a fresh equal one -/
def gfSeq (w : Groups) (filters : List UFilter) (shared : Bool) : GF → List Req → List Json
  | _, [] => []
  | gf, r :: rs =>
    let res := prepareGF w gf r
    jObj [("collection", jColl res.1.collection), ("plan", jPlan res.2)] ::
      gfSeq w filters shared (if shared then res.1 else { filters := filters, collection := [] }) rs

def oval (j : Json) : OVal :=
  match strF j "t" with
  | "handle" => .handle (natF j "h")
  | "feats" => .feats (natsF j "ids")
  | _ => .scalar (natF j "n")

def fobj (j : Json) : FObj :=
  { name := natF j "name", touched := false,
    opts := (arrF j "opts").map (fun p => match asArr p with | [k, v] => (asNat k, oval v) | _ => (0, .scalar 0)) }

def handle (op : String) (j : Json) : Json :=
  match op with
  | "history" =>
    let plan : Plan := (arrF j "plan").map stepOf
    let stored := apiData (fld j "stored")
    let ops := (arrF j "ops").map opOf
    jObj [("outcomes", jArr ((runHistory Cfg.asIs (prepare plan stored) ops).map jOutcome)),
          ("spec", jArr ((ops.map (runSpec plan stored)).map jOutcome))]
  | "features" =>
    let r := apiInit (boolF j "copy") (boolF j "hasApi") ((arrF j "caller").map feature)
    jObj [("caller", jArr (r.1.map jFeature)), ("worked", jArr (r.2.map jFeature))]
  | "links" =>
    let ls : Option (List Nat) := if isNull (fld j "links") then none else some (natsF j "links")
    match addFeatureLinks ls ((arrF j "feats").map feature) with
    | none => Json.null
    | some l => jNats l
  | "callerAfter" =>
    let h : Heap := (arrF j "heap").map fobj
    jArr ((callerAfterCall (boolF j "perKey") (natF j "fuel") h (natsF j "roots")).map (fun o => Json.bool o.touched))
  | "gfSeq" =>
    let w : Groups := (arrF j "groups").map (fun g => (asArr g).map asNat)
    let filters := (arrF j "filters").map ufilter
    jArr (gfSeq w filters (boolF j "shared") { filters := filters, collection := [] } ((arrF j "reqs").map req))
  | _ => jErr s!"C07: unknown op {op}"

end Drv.C07
