import MlodaVerif.Drv.C06
def main : IO Unit := Drv.mainLoop Drv.C06.handle
