import MlodaVerif.Drv.C04_plan
def main : IO Unit := Drv.mainLoop Drv.C04_plan.handle
