import MlodaVerif.Drv.C19
def main : IO Unit := Drv.mainLoop Drv.C19.handle
