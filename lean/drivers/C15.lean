import MlodaVerif.Drv.C15
def main : IO Unit := Drv.mainLoop Drv.C15.handle
