import MlodaVerif.Drv.C14
def main : IO Unit := Drv.mainLoop Drv.C14.handle
