import MlodaVerif.Drv.C02
def main : IO Unit := Drv.mainLoop Drv.C02.handle
