import MlodaVerif.Drv.C18
def main : IO Unit := Drv.mainLoop Drv.C18.handle
