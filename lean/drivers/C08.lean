import MlodaVerif.Drv.C08
def main : IO Unit := Drv.mainLoop Drv.C08.handle
