import MlodaVerif.Drv.C10
def main : IO Unit := Drv.mainLoop Drv.C10.handle
