import MlodaVerif.Drv.C07
def main : IO Unit := Drv.mainLoop Drv.C07.handle
