import MlodaVerif.Drv.C04_links
def main : IO Unit := Drv.mainLoop Drv.C04_links.handle
