import MlodaVerif.Drv.C09
def main : IO Unit := Drv.mainLoop Drv.C09.handle
