import MlodaVerif.Drv.C12
def main : IO Unit := Drv.mainLoop Drv.C12.handle
