import MlodaVerif.Drv.C09_life
def main : IO Unit := Drv.mainLoop Drv.C09_life.handle
