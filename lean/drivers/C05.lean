import MlodaVerif.Drv.C05
def main : IO Unit := Drv.mainLoop Drv.C05.handle
