import MlodaVerif.Drv.C01_graph
def main : IO Unit := Drv.mainLoop Drv.C01_graph.handle
