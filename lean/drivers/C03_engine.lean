import MlodaVerif.Drv.C03_engine
def main : IO Unit := Drv.mainLoop Drv.C03_engine.handle
