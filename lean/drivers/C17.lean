import MlodaVerif.Drv.C17
def main : IO Unit := Drv.mainLoop Drv.C17.handle
