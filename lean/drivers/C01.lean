import MlodaVerif.Drv.C01
def main : IO Unit := Drv.mainLoop Drv.C01.handle
