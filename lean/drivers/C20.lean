import MlodaVerif.Drv.C20
def main : IO Unit := Drv.mainLoop Drv.C20.handle
