import MlodaVerif.Drv.C06_steps
def main : IO Unit := Drv.mainLoop Drv.C06_steps.handle
