import MlodaVerif.Drv.C02_cfw
def main : IO Unit := Drv.mainLoop Drv.C02_cfw.handle
