import MlodaVerif.Drv.C03
def main : IO Unit := Drv.mainLoop Drv.C03.handle
