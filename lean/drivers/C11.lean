import MlodaVerif.Drv.C11
def main : IO Unit := Drv.mainLoop Drv.C11.handle
