import MlodaVerif.Drv.C16
def main : IO Unit := Drv.mainLoop Drv.C16.handle
