import MlodaVerif.Drv.C04
def main : IO Unit := Drv.mainLoop Drv.C04.handle
