import MlodaVerif.Drv.C13
def main : IO Unit := Drv.mainLoop Drv.C13.handle
