import MlodaVerif.Drv.All
import MlodaVerif.Props.C17
