"""Builds real FeatureGroup subclasses from declarative specs.

Classes are created with type() inside the synthetic module `verif_dyn` registered in sys.modules, so they pickle by
reference into forked workers.  mloda discovers plugins via FeatureGroup.__subclasses__() globally, therefore every
run must pass PluginCollector.enabled_feature_groups(<the generated classes>).
"""
from __future__ import annotations

import itertools
import json
import os
import sys
import types
from typing import Any, Callable, Dict, List, Optional, Set, Type

import pyarrow as pa

from mloda.core.abstract_plugins.feature_group import FeatureGroup
from mloda.core.abstract_plugins.components.feature import Feature
from mloda.core.abstract_plugins.components.feature_name import FeatureName
from mloda.core.abstract_plugins.components.feature_set import FeatureSet
from mloda.core.abstract_plugins.components.options import Options
from mloda.core.abstract_plugins.components.index.index import Index
from mloda.core.abstract_plugins.components.input_data.creator.data_creator import DataCreator
from mloda.core.abstract_plugins.components.plugin_option.plugin_collector import PluginCollector
from mloda_plugins.compute_framework.base_implementations.pyarrow.table import PyArrowTable
from mloda_plugins.compute_framework.base_implementations.pandas.dataframe import PandasDataFrame
from mloda_plugins.compute_framework.base_implementations.python_dict.python_dict_framework import PythonDictFramework

# transformers register themselves by being imported (ComputeFrameworkTransformer discovers BaseTransformer subclasses)
import mloda_plugins.compute_framework.base_implementations.pandas.pandaspyarrowtransformer  # noqa: F401,E402
import mloda_plugins.compute_framework.base_implementations.python_dict.python_dict_pyarrow_transformer  # noqa: F401,E402

MODNAME = "verif_dyn"
if MODNAME not in sys.modules:
    sys.modules[MODNAME] = types.ModuleType(MODNAME)
DYN = sys.modules[MODNAME]
_counter = itertools.count()

FRAMEWORKS = {"PyArrowTable": PyArrowTable, "PandasDataFrame": PandasDataFrame, "PythonDictFramework": PythonDictFramework}
FW_SHORT = {"pa": PyArrowTable, "pd": PandasDataFrame, "py": PythonDictFramework}
BASE_FRAMEWORKS = dict(FRAMEWORKS)  # the frameworks mloda itself ships (and that are installed here)
# further compute frameworks (plain subclasses of PyArrowTable) for requests that need more than three frameworks
for _i in range(2, 6):
    _c = type(f"VerifArrow{_i}", (PyArrowTable,), {"__module__": MODNAME})
    setattr(DYN, _c.__name__, _c)
    FRAMEWORKS[_c.__name__] = _c
    FW_SHORT[f"pa{_i}"] = _c

LOG_ENV = "VERIF_EVENT_LOG"


def log_event(**kw: Any) -> None:
    """Append one JSON event to the file named by $VERIF_EVENT_LOG (O_APPEND writes < PIPE_BUF are atomic)."""
    p = os.environ.get(LOG_ENV)
    if not p:
        return
    import time

    kw["t"] = time.monotonic_ns()
    kw["pid"] = os.getpid()
    line = (json.dumps(kw, default=str) + "\n").encode()
    fd = os.open(p, os.O_WRONLY | os.O_APPEND | os.O_CREAT, 0o644)
    try:
        os.write(fd, line)
    finally:
        os.close(fd)


def columns_of(data: Any) -> List[str]:
    if data is None:
        return []
    if isinstance(data, pa.Table):
        return list(data.column_names)
    if hasattr(data, "columns"):
        return [str(c) for c in data.columns]
    if isinstance(data, list):
        cols: List[str] = []
        for r in data:
            for k in r:
                if k not in cols:
                    cols.append(k)
        return cols
    if isinstance(data, dict):
        return list(data.keys())
    return []


def to_columns(data: Any) -> Dict[str, List[Any]]:
    """Normalise any framework's table to {col: [python values]} (None for null/NaN)."""
    import math

    def norm(v: Any) -> Any:
        if v is None:
            return None
        try:
            import pandas as pd

            if v is pd.NA or v is pd.NaT:
                return None
        except Exception:
            pass
        if isinstance(v, float) and math.isnan(v):
            return None
        if hasattr(v, "item") and not isinstance(v, (str, bytes)):
            try:
                v = v.item()
            except Exception:
                pass
        if isinstance(v, float) and math.isnan(v):
            return None
        if isinstance(v, float) and v == int(v) and abs(v) < 2**53:
            return int(v)
        return v

    if data is None:
        return {}
    if isinstance(data, pa.Table):
        return {c: [norm(v) for v in data.column(c).to_pylist()] for c in data.column_names}
    if hasattr(data, "columns") and hasattr(data, "to_dict"):
        return {str(c): [norm(v) for v in data[c].tolist()] for c in data.columns}
    if isinstance(data, list):
        cols = columns_of(data)
        return {c: [norm(r.get(c)) for r in data] for c in cols}
    if isinstance(data, dict):
        return {str(k): [norm(x) for x in v] for k, v in data.items()}
    raise TypeError(f"unknown table type {type(data)}")


def from_columns(cols: Dict[str, List[Any]], fw: Type[Any]) -> Any:
    """Build the native table of a framework from {col: values}."""
    if isinstance(fw, type) and issubclass(fw, PyArrowTable):
        return pa.table(cols) if cols else pa.table({})
    if fw is PandasDataFrame:
        import pandas as pd

        return pd.DataFrame(cols)
    if fw is PythonDictFramework:
        n = len(next(iter(cols.values()))) if cols else 0
        return [{c: cols[c][i] for c in cols} for i in range(n)]
    raise TypeError(fw)


def add_columns(data: Any, new: Dict[str, List[Any]], inplace: bool = False) -> Any:
    """Return `data` extended by the columns `new` in data's own representation (non-destructive where possible; with
    `inplace` a pandas frame / list of dicts is modified in place and returned, as hand-written groups commonly do)."""
    if inplace and hasattr(data, "columns") and hasattr(data, "assign"):
        for c, v in new.items():
            data[c] = v
        return data
    if inplace and isinstance(data, list):
        for i, r in enumerate(data):
            for c, v in new.items():
                r[c] = v[i]
        return data
    if isinstance(data, pa.Table):
        for c, v in new.items():
            if c in data.column_names:
                data = data.drop_columns([c])
            data = data.append_column(c, pa.array(v))
        return data
    if hasattr(data, "columns") and hasattr(data, "assign"):
        return data.assign(**{c: v for c, v in new.items()})
    if isinstance(data, list):
        out = []
        for i, r in enumerate(data):
            r2 = dict(r)
            for c, v in new.items():
                r2[c] = v[i]
            out.append(r2)
        return out
    raise TypeError(f"cannot add columns to {type(data)}")


# --------------------------------------------------------------------------------------
# expression language shared with the Lean model (Model/Eval): evaluated row-wise on python values


def eval_expr(e: Any, row: Dict[str, Any], opts: Optional[Callable[[str], Any]] = None) -> Any:
    """e: ["col", name] | ["const", v] | ["opt", key, default] | ["add"|"sub"|"mul", e1, e2] | ["cat", e1, e2]; None propagates.
    ["opt", key, default] is the value of the feature's option `key` (read through `opts`), `default` when the option is not set."""
    op = e[0]
    if op == "col":
        if e[1] not in row:
            raise KeyError(e[1])  # like data[col] in a hand-written feature group
        return row[e[1]]
    if op == "const":
        return e[1]
    if op == "opt":
        v = opts(e[1]) if opts is not None else None
        return e[2] if v is None else v
    a = eval_expr(e[1], row, opts)
    b = eval_expr(e[2], row, opts)
    if a is None or b is None:
        return None
    if op == "add":
        return a + b
    if op == "sub":
        return a - b
    if op == "mul":
        return a * b
    if op == "cat":
        return str(a) + str(b)
    raise ValueError(op)


def expr_cols(e: Any) -> List[str]:
    if e[0] == "col":
        return [e[1]]
    if e[0] in ("const", "opt"):
        return []
    return expr_cols(e[1]) + expr_cols(e[2])


# --------------------------------------------------------------------------------------


def make_group(
    name: str,
    *,
    root_data: Optional[Dict[str, List[Any]]] = None,
    derived: Optional[Dict[str, Dict[str, Any]]] = None,
    frameworks: Optional[Set[Type[Any]]] = None,
    index_columns: Optional[List[tuple]] = None,
    multi: Optional[Dict[str, int]] = None,
    data_type_rule: Any = None,
    domain: Optional[str] = None,
    hooks: Optional[Dict[str, Callable[..., Any]]] = None,
    return_as: Optional[str] = None,
    inplace: Any = False,
    bases: tuple = (FeatureGroup,),
    extra: Optional[Dict[str, Any]] = None,
) -> Type[FeatureGroup]:
    """Create one FeatureGroup class.

    root_data: {col: values} -> the group is a root (DataCreator over those column names); calculate returns the
               requested columns (+ index columns), in the framework's native representation (or `return_as`).
    derived:   {feature_name: {"parents": [names], "expr": expr, "parent_opts": {name: {..}}}} -> the group computes
               each requested feature row-wise from its parent columns and appends it to the incoming data.
    inplace:   False -> a new table is returned; True -> the incoming pandas frame / list of dicts is extended in place and returned;
               "series" -> a pandas group computing one feature returns only the new column as a pd.Series (else like True).
    multi:     {feature_name: n} -> the feature is returned as n columns name~0..name~n-1 (value + i).
    hooks:     optional callables: "before_calc"(cls, data, features), "after_calc"(cls, data, features, result)
    """
    uid = next(_counter)
    cname = name
    spec = {
        "root_data": root_data,
        "derived": derived or {},
        "multi": multi or {},
        "return_as": return_as,
    }
    hooks = hooks or {}

    def feature_names_supported(cls: Any) -> Set[str]:
        if root_data is not None:
            return set(root_data.keys())
        return set((derived or {}).keys())

    def calculate_feature(cls: Any, data: Any, features: FeatureSet) -> Any:
        names = sorted(features.get_all_names())
        log_event(ev="begin", group=cls.__name__, features=names, cols=sorted(columns_of(data)), opts=_opts_of(features))
        if "before_calc" in hooks:
            hooks["before_calc"](cls, data, features)
        try:
            if root_data is not None:
                out_cols: Dict[str, List[Any]] = {}
                for n in names:
                    base = n.split("~")[0]
                    if base in spec["multi"]:
                        for i in range(spec["multi"][base]):
                            out_cols[f"{base}~{i}"] = [None if v is None else v + i for v in root_data[base]]
                    else:
                        out_cols[n] = list(root_data[n])
                fw = _fw_of(features)
                target = FW_SHORT.get(spec["return_as"] or "", fw)
                result = from_columns(out_cols, target)
            else:
                cols = to_columns(data)
                nrows = len(next(iter(cols.values()))) if cols else 0
                new: Dict[str, List[Any]] = {}
                for n in names:
                    d = spec["derived"][n.split("~")[0]]
                    vals = []
                    for i in range(nrows):
                        row = {c: cols[c][i] for c in cols}
                        vals.append(eval_expr(d["expr"], row, features.get_options_key))
                    base = n.split("~")[0]
                    if base in spec["multi"]:
                        for k in range(spec["multi"][base]):
                            new[f"{base}~{k}"] = [None if v is None else v + k for v in vals]
                    else:
                        new[n] = vals
                if inplace == "series" and len(new) == 1 and hasattr(data, "columns") and hasattr(data, "assign"):
                    import pandas as pd

                    (c1, v1), = new.items()
                    result = pd.Series(v1, index=data.index, name=c1)  # a pandas group may return just the new column
                else:
                    result = add_columns(data, new, inplace=bool(inplace))
            if "after_calc" in hooks:
                r2 = hooks["after_calc"](cls, data, features, result)
                if r2 is not None:
                    result = r2
        except BaseException as e:
            log_event(ev="fail", group=cls.__name__, features=names, err=repr(e)[:200])
            raise
        log_event(ev="end", group=cls.__name__, features=names, cols=sorted(columns_of(result)))
        return result

    ns: Dict[str, Any] = {
        "__module__": MODNAME,
        "SPEC": spec,
        "feature_names_supported": classmethod(feature_names_supported),
        "calculate_feature": classmethod(calculate_feature),
    }
    if root_data is not None:
        colnames = set(root_data.keys())
        ns["input_data"] = classmethod(lambda cls: DataCreator(colnames))
    else:

        def input_features(self: Any, options: Options, feature_name: FeatureName) -> Optional[Set[Feature]]:
            d = spec["derived"][str(feature_name).split("~")[0]]
            out = set()
            for p in d["parents"]:
                popts = (d.get("parent_opts") or {}).get(p)
                if popts is None and p in (d.get("pass_opts") or []):
                    popts = options  # hand the feature's own options down to this parent (option-driven chains)
                out.add(Feature(p, options=popts) if popts else Feature(p))
            return out

        ns["input_features"] = input_features
    if frameworks is not None:
        fws = set(frameworks)
        ns["compute_framework_rule"] = classmethod(lambda cls: fws)
    if index_columns is not None:
        idx = [Index(tuple(t)) for t in index_columns]
        ns["index_columns"] = classmethod(lambda cls: idx)
    if data_type_rule is not None:
        ns["return_data_type_rule"] = classmethod(lambda cls, feature: data_type_rule(feature))
    if domain is not None:
        from mloda.core.abstract_plugins.components.domain import Domain

        ns["get_domain"] = classmethod(lambda cls: Domain(domain))
    if extra:
        ns.update(extra)
    cls = type(cname, bases, ns)
    setattr(DYN, cname, cls)
    return cls  # type: ignore[return-value]


def _fw_of(features: FeatureSet) -> Type[Any]:
    for f in features.features:
        return f.get_compute_framework()
    return PyArrowTable


def _opts_of(features: FeatureSet) -> Any:
    try:
        o = features.options
        if o is None:
            return None
        return {"group": {str(k): repr(v) for k, v in o.group.items()}, "context": {str(k): repr(v) for k, v in o.context.items() if k != "ApiInputData"}}
    except Exception:
        return None


def uniq(prefix: str) -> str:
    return f"{prefix}{next(_counter)}"


def collector(classes: Set[Type[FeatureGroup]]) -> PluginCollector:
    return PluginCollector.enabled_feature_groups(set(classes))
