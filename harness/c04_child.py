"""Child process of the C04 check: prepare the request of a spec (stdin JSON) N times under this process' hash seed and
print the canonical outcome of each preparation as JSON."""
import json, os, re, sys

sys.path.insert(0, os.environ.get("MLODA_REPO", "/repo"))
sys.path.insert(0, os.path.dirname(os.path.dirname(os.path.abspath(__file__))))
import logging

logging.disable(logging.CRITICAL)
from harness import schedlib as S


def outcome(spec):
    try:
        if "units" in spec:
            sess = S.prepare_units(spec)
        elif "sources" in spec:
            sess = S.prepare_link(spec)
        else:
            sess = S.prepare(spec, S.build_classes(spec))
        return {"plan": S.canon_plan(S.export_plan(sess))}
    except BaseException as e:
        msg = re.sub(r"[0-9a-f]{8}-[0-9a-f]{4}-[0-9a-f]{4}-[0-9a-f]{4}-[0-9a-f]{12}", "<uuid>", str(e))
        msg = re.sub(r"0x[0-9a-f]+", "<addr>", msg)
        return {"rejected": type(e).__name__, "msg": msg[:300]}


def main():
    req = json.loads(sys.stdin.read())
    if req.get("run"):
        # run one request in SYNC mode (the parent kills this process if it spins)
        spec = req["specs"][0]
        sess = S.prepare_units(spec) if "units" in spec else (S.prepare_link(spec) if "sources" in spec else S.prepare(spec, S.build_classes(spec)))
        try:
            sess.run()
            print(json.dumps("returned"), flush=True)
        except BaseException:
            print(json.dumps("raised"), flush=True)
        os._exit(0)
    out = []
    for spec in req["specs"]:
        res = []
        for _ in range(req.get("n", 2)):
            # class names must be identical across preparations: drop previously generated classes of that name
            res.append(outcome(spec))
        out.append(res)
    print(json.dumps(out))


main()
